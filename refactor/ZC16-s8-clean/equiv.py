"""
Differential test for the C16 maintenance commit: the SelFromPlot dialog of the
tree on PYTHONPATH against the pristine implementation saved next to this file
as orig_sel_from_plot.py.

Run as:  PYTHONPATH=<tree>/src /venv/bin/python equiv.py

Both dialogs are driven head-less (Tk, the Tk canvas and the matplotlib figure
are mocks) with the same random histories of key and mouse events, played while
the mocked mainloop "runs", so that SelFromPlot.result is the real hand-over.
After every event the two are compared on: the exception raised (type), the
selected frequencies, the order / line indices, the modifier state and the
stored click position; at the end on `.result`. Configurations: SSI, pLSCF and
FDD dialogs; pole tables of random non-square shape with NaN (not retained)
entries, empty orders and frequencies repeated over orders; coordinates inside
and outside the chart, repeated clicks at one position, clicks outside the axes
(None). The public methods get_closest_pole / get_closest_freq /
sort_selected_poles are also called directly on prepared states.

Prints PASS and exits 0 when no difference is found.
"""

import importlib.util
import logging
import os
import sys
import types
import unittest.mock as mock

import numpy as np

logging.disable(logging.CRITICAL)

import pyoma2.support.sel_from_plot as new_mod  # noqa: E402

HERE = os.path.dirname(os.path.abspath(__file__))
spec = importlib.util.spec_from_file_location(
    "orig_sel_from_plot", os.path.join(HERE, "orig_sel_from_plot.py")
)
old_mod = importlib.util.module_from_spec(spec)
spec.loader.exec_module(old_mod)

DIFFS = []


def _mock_figure(*a, **k):
    fig = mock.MagicMock()
    fig.add_subplot.return_value.plot.return_value = (mock.MagicMock(),)
    return fig


for m in (new_mod, old_mod):
    m.stab_plot = lambda *a, **k: None
    m.CMIF_plot = lambda *a, **k: None
    m.Figure = _mock_figure


def ev(button, x, y):
    return types.SimpleNamespace(button=button, xdata=x, ydata=y, key=None)


def key(name):
    return types.SimpleNamespace(key=name)


def same(a, b):
    """equality of two selection lists / scalars, NaN-aware, exact."""
    if a is None or b is None:
        return a is None and b is None
    try:
        a = np.asarray(a, dtype=float)
        b = np.asarray(b, dtype=float)
    except (TypeError, ValueError):  # 'unset', None, [None]: plain comparison
        return type(a) is type(b) and a == b
    if a.shape != b.shape:
        return False
    return bool(
        np.array_equal(a, b, equal_nan=True)
        and np.allclose(a, b, rtol=1e-12, atol=0.0, equal_nan=True)
    )


def snapshot(dlg):
    ind = dlg.freq_ind if dlg.plot == "FDD" else dlg.pole_ind
    return dict(
        sel_freq=list(dlg.sel_freq),
        ind=list(ind),
        is_list=(type(dlg.sel_freq) is list, type(ind) is list),
        shift=dlg.shift_is_held,
        x=getattr(dlg, "x_data_pole", "unset"),
        y=getattr(dlg, "y_data_pole", "unset"),
    )


def play(module, algo, plot, history):
    """runs the history inside the mocked mainloop; returns trace and result."""
    trace = []

    def script(dlg):
        for act in history:
            exc = None
            try:
                if act[0] == "press":
                    dlg.on_key_press(key(act[1]))
                elif act[0] == "release":
                    dlg.on_key_release(key(act[1]))
                elif plot == "FDD":
                    dlg.on_click_FDD(ev(*act[1:]))
                else:
                    dlg.on_click_SSI(ev(*act[1:]), plot)
            except Exception as e:  # noqa: BLE001
                exc = type(e)
            snap = snapshot(dlg)
            snap["exc"] = exc
            trace.append(snap)

    orig_gui = module.SelFromPlot._initialize_gui

    def gui(self):
        orig_gui(self)
        self.root.mainloop.side_effect = lambda: script(self)

    patches = [
        mock.patch("tkinter.Tk"),
        mock.patch("tkinter.Menu"),
        mock.patch.object(module, "FigureCanvasTkAgg"),
        mock.patch.object(module, "NavigationToolbar2Tk"),
        mock.patch.object(module.SelFromPlot, "_initialize_gui", gui),
    ]
    for p in patches:
        p.start()
    try:
        dlg = module.SelFromPlot(algo=algo, freqlim=None, plot=plot)
    finally:
        for p in patches:
            p.stop()
    return trace, dlg.result, dlg


def compare_traces(tag, history, t_new, t_old, r_new, r_old):
    if len(t_new) != len(t_old):
        DIFFS.append(f"{tag}: trace length")
        return
    for n, (a, b) in enumerate(zip(t_new, t_old)):
        for k in ("exc", "is_list", "shift"):
            if a[k] != b[k]:
                DIFFS.append(f"{tag}: event {n} {history[n]}: {k}: {a[k]} vs {b[k]}")
                return
        for k in ("sel_freq", "ind", "x", "y"):
            if not same(a[k], b[k]):
                DIFFS.append(f"{tag}: event {n} {history[n]}: {k}: {a[k]} vs {b[k]}")
                return
    if not (same(r_new[0], r_old[0]) and same(r_new[1], r_old[1])):
        DIFFS.append(f"{tag}: result {r_new} vs {r_old}")


# --------------------------------------------------------------------------
# random configurations
# --------------------------------------------------------------------------
def random_table(rng):
    n_ord = int(rng.integers(2, 14))
    n_row = int(rng.integers(1, 16))
    fmax = float(rng.uniform(5, 60))
    Fn = rng.uniform(0, fmax, size=(n_row, n_ord))
    if rng.random() < 0.5:  # poles that repeat over the orders, some exactly
        base = np.sort(rng.uniform(0, fmax, size=n_row))
        jitter = rng.normal(0, 0.01 * fmax, size=Fn.shape)
        jitter[rng.random(Fn.shape) < 0.3] = 0.0
        Fn = base[:, None] + jitter
    Fn[rng.random(Fn.shape) < rng.uniform(0, 0.7)] = np.nan
    Fn[:, 0] = np.nan  # order 0 never holds a pole
    for c in range(n_ord):
        if rng.random() < 0.1:
            Fn[:, c] = np.nan
    return Fn, fmax


def random_history(rng, fmax, n_ord, n_events):
    hist = [("press", "shift")] if rng.random() < 0.85 else []
    spots = [
        (float(rng.uniform(-0.1 * fmax, 1.1 * fmax)), float(rng.uniform(-2, n_ord + 2)))
        for _ in range(4)
    ]
    for _ in range(n_events):
        u = rng.random()
        if u < 0.08:
            hist.append(("press", str(rng.choice(["shift", "control", "a"]))))
        elif u < 0.16:
            hist.append(("release", str(rng.choice(["shift", "control", "a"]))))
        else:
            b = int(rng.choice([1, 1, 1, 1, 2, 2, 3, 3, 4]))
            v = rng.random()
            if v < 0.35:
                x, y = spots[int(rng.integers(len(spots)))]  # same place again
            elif v < 0.40:
                x, y = None, None  # outside the axes
            else:
                x = float(rng.uniform(-0.1 * fmax, 1.1 * fmax))
                y = float(rng.uniform(-2, n_ord + 2))
            hist.append(("click", b, x, y))
    return hist


def algo_for(plot, rng):
    result = types.SimpleNamespace()
    run_params = types.SimpleNamespace(ordmin=0, ordmax=1)
    if plot == "FDD":
        nf = int(rng.integers(5, 200))
        fs = float(rng.uniform(10, 200))
        result.freq = np.linspace(0, fs / 2, nf)
        result.S_val = np.abs(rng.standard_normal((2, 2, nf))) + 0.1
        return types.SimpleNamespace(fs=fs, result=result, run_params=run_params), fs / 2, 10
    Fn, fmax = random_table(rng)
    result.Fn_poles = Fn
    result.Lab = rng.integers(0, 2, size=Fn.shape).astype(float)
    run_params.ordmax = Fn.shape[1] - 1
    algo = types.SimpleNamespace(fs=2 * fmax, result=result, run_params=run_params)
    return algo, fmax, Fn.shape[1]


def dialogs(n_cfg=70, seed=2016):
    rng = np.random.default_rng(seed)
    n = 0
    for c in range(n_cfg):
        for plot in ("SSI", "pLSCF", "FDD"):
            algo, fmax, n_ord = algo_for(plot, rng)
            hist = random_history(rng, fmax, n_ord, int(rng.integers(1, 15)))
            t_new, r_new, _ = play(new_mod, algo, plot, hist)
            t_old, r_old, _ = play(old_mod, algo, plot, hist)
            compare_traces(f"cfg{c}/{plot}", hist, t_new, t_old, r_new, r_old)
            n += 1
    return n


# --------------------------------------------------------------------------
# public methods called directly on prepared states
# --------------------------------------------------------------------------
def direct_calls(n_cfg=40, seed=61):
    rng = np.random.default_rng(seed)
    n = 0
    for c in range(n_cfg):
        for plot in ("SSI", "pLSCF", "FDD"):
            algo, fmax, n_ord = algo_for(plot, rng)
            outs = []
            for module in (new_mod, old_mod):
                r = np.random.default_rng(1000 * c + len(plot))
                _, _, dlg = play(module, algo, plot, [])
                k = int(r.integers(0, 9))
                freqs = [float(f) for f in r.uniform(0, fmax, size=k)]
                if k > 2 and r.random() < 0.5:
                    freqs[1] = freqs[0]  # tie
                inds = [int(i) for i in r.integers(0, n_ord, size=k)]
                dlg.sel_freq = list(freqs)
                if plot == "FDD":
                    dlg.freq_ind = list(inds)
                else:
                    dlg.pole_ind = list(inds)
                out = []
                exc = None
                try:
                    dlg.sort_selected_poles()
                except Exception as e:  # noqa: BLE001
                    exc = type(e)
                out.append((exc, snapshot(dlg)))
                dlg.x_data_pole = float(r.uniform(-1, fmax + 1))
                dlg.y_data_pole = [float(r.uniform(-1, n_ord + 1))]
                exc = None
                try:
                    if plot == "FDD":
                        dlg.get_closest_freq()
                    else:
                        dlg.get_closest_pole(plot)
                except Exception as e:  # noqa: BLE001
                    exc = type(e)
                out.append((exc, snapshot(dlg)))
                outs.append(out)
            for step, ((e1, s1), (e2, s2)) in enumerate(zip(*outs)):
                if e1 != e2 or s1["is_list"] != s2["is_list"]:
                    DIFFS.append(f"direct{c}/{plot}/step{step}: {e1} vs {e2}")
                for k_ in ("sel_freq", "ind"):
                    if not same(s1[k_], s2[k_]):
                        DIFFS.append(
                            f"direct{c}/{plot}/step{step}: {k_}: {s1[k_]} vs {s2[k_]}"
                        )
            n += 1
    return n


def main():
    n1 = dialogs()
    n2 = direct_calls()
    if DIFFS:
        print("FAIL")
        for d in DIFFS[:10]:
            print("  -", d)
        print(f"  ({len(DIFFS)} differences)")
        sys.exit(1)
    print(f"PASS ({n1} dialog histories, {n2} direct-call configurations)")
    sys.exit(0)


if __name__ == "__main__":
    main()
