"""
Differential test: library in the tree (CLEAN version expected) against the pristine
sources saved next to this file (orig_functions_fdd.py, orig_algorithms_fdd.py,
orig_run_params.py), on randomly generated inputs / configurations that only use the
API that existed before the commit.

Run as:  PYTHONPATH=<tree>/src /venv/bin/python equiv.py      -> prints PASS, exit 0
"""
import importlib.util
import logging
import os
import sys
import warnings

os.environ.setdefault("MPLBACKEND", "Agg")
os.environ.setdefault("TQDM_DISABLE", "1")

import numpy as np
from scipy import signal

logging.disable(logging.CRITICAL)
warnings.simplefilter("ignore")

import pyoma2.algorithms.fdd as new_alg  # noqa: E402
import pyoma2.functions.fdd as new_fn  # noqa: E402

HERE = os.path.dirname(os.path.abspath(__file__))


def _load(modname, filename):
    spec = importlib.util.spec_from_file_location(modname, os.path.join(HERE, filename))
    mod = importlib.util.module_from_spec(spec)
    sys.modules[modname] = mod
    spec.loader.exec_module(mod)
    return mod


old_fn = _load("pyoma2.functions._orig_fdd", "orig_functions_fdd.py")
old_rp = _load("pyoma2.algorithms.data._orig_run_params", "orig_run_params.py")
old_alg = _load("pyoma2.algorithms._orig_fdd", "orig_algorithms_fdd.py")
# the pristine algorithm layer must use the pristine helpers and parameter models
old_alg.fdd = old_fn
old_alg.FDDRunParams = old_rp.FDDRunParams
old_alg.EFDDRunParams = old_rp.EFDDRunParams
for _cls in (old_alg.FDD, old_alg.FDD_MS):
    _cls.RunParamCls = old_rp.FDDRunParams
for _cls in (old_alg.EFDD, old_alg.FSDD, old_alg.EFDD_MS):
    _cls.RunParamCls = old_rp.EFDDRunParams
assert old_alg.fdd is not new_alg.fdd

NCASE = 0
FAILS = []


def same(a, b):
    if isinstance(a, (tuple, list)) and isinstance(b, (tuple, list)):
        return len(a) == len(b) and all(same(x, y) for x, y in zip(a, b))
    if a is None or b is None:
        return a is None and b is None
    a, b = np.asarray(a), np.asarray(b)
    if a.shape != b.shape or a.dtype != b.dtype:
        return False
    return bool(np.array_equal(a, b) or np.allclose(a, b, rtol=1e-12, atol=0, equal_nan=True))


def outcome(f, *a, **k):
    try:
        return ("ok", f(*a, **k))
    except Exception as e:  # noqa: BLE001
        return ("exc", type(e).__name__, str(e))


def compare(tag, f_new, f_old, *a, **k):
    global NCASE
    NCASE += 1
    rn, ro = outcome(f_new, *a, **k), outcome(f_old, *a, **k)
    if rn[0] != ro[0]:
        FAILS.append(f"{tag}: new {rn[:2]} vs old {ro[:2]}")
    elif rn[0] == "exc":
        if rn[1:] != ro[1:]:
            FAILS.append(f"{tag}: exceptions differ: {rn[1:]} vs {ro[1:]}")
    elif not same(rn[1], ro[1]):
        FAILS.append(f"{tag}: results differ")
    return rn


# ----------------------------------------------------------------------------- inputs
def random_spectra(rng, nr, nc, nf):
    """Hermitian PSD (nr == nc) or half spectrum (first nc columns of one)."""
    n = max(nr, nc)
    A = rng.standard_normal((n, n + 1, nf)) + 1j * rng.standard_normal((n, n + 1, nf))
    w = 1 + 20 * np.exp(-0.5 * ((np.arange(nf) - rng.integers(0, nf)) / 4.0) ** 2)
    A[:, 0, :] *= w
    G = np.einsum("ikf,jkf->ijf", A, A.conj())
    return G[:nr, :nc, :]


def synth(rng, fs, N, fn, xi, Phi, noise=0.02):
    q = []
    for f, z in zip(fn, xi):
        wn = 2 * fs * np.tan(np.pi * f / fs)
        b, a = signal.bilinear([wn**2], [1.0, 2 * z * wn, wn**2], fs=fs)
        q.append(signal.lfilter(b, a, rng.standard_normal(N)))
    q = np.array(q)
    q /= q.std(axis=1, keepdims=True)
    Y = Phi @ q
    return (Y + noise * rng.standard_normal(Y.shape)).T


class FakeSelFromPlot:
    clicks = []

    def __init__(self, algo, freqlim=None, plot="FDD"):
        freq = algo.result.freq
        self.result = ([freq[int(np.argmin(np.abs(freq - x)))] for x in self.clicks], None)


new_alg.SelFromPlot = FakeSelFromPlot
old_alg.SelFromPlot = FakeSelFromPlot


def params_of(algo):
    d = algo.run_params.model_dump()
    d.pop("freqlim", None)  # the only field added by the commit
    return sorted(d.items(), key=lambda kv: kv[0])


def same_params(pa, pb):
    return len(pa) == len(pb) and all(
        ka == kb and same(va, vb) if not isinstance(va, str) else (ka, va) == (kb, vb)
        for (ka, va), (kb, vb) in zip(pa, pb)
    )


# ------------------------------------------------------------------------------ tests
def functions_level(rng):
    # SD_svalsvec + FDD_mpe on random spectral matrix sequences
    for it in range(30):
        nr = int(rng.integers(2, 9))
        nc = nr if it % 3 else int(rng.integers(2, nr + 1))
        nf = int(rng.integers(40, 400))
        Sy = random_spectra(rng, nr, nc, nf)
        r = compare(f"SD_svalsvec#{it}", new_fn.SD_svalsvec, old_fn.SD_svalsvec, Sy)
        Sval, Svec = r[1]
        df = float(rng.uniform(0.01, 0.5))
        freq = np.arange(nf) * df
        nsel = int(rng.integers(1, 6))
        sel = rng.uniform(freq[0], freq[-1], nsel)
        if it % 4 == 0:
            sel[0] = freq[0] + 0.3 * df  # band cut by the start of the grid
        if it % 4 == 1:
            sel[-1] = freq[-1] - 0.3 * df  # band cut by the end of the grid
        if it % 2:
            sel = list(sel)
        DF = float(rng.uniform(1.0, 12.0)) * df
        compare(f"FDD_mpe#{it}", new_fn.FDD_mpe, old_fn.FDD_mpe, Sval, Svec, freq, sel, DF)
        compare(
            f"FDD_mpe#{it}kw",
            new_fn.FDD_mpe,
            old_fn.FDD_mpe,
            Sval=Sval,
            Svec=Svec,
            freq=freq,
            sel_freq=sel,
        )
    # degenerate inputs (exceptions must be the same)
    Sy = random_spectra(rng, 3, 3, 50)
    Sval, Svec = old_fn.SD_svalsvec(Sy)
    freq = np.arange(50) * 0.1
    compare("FDD_mpe empty band", new_fn.FDD_mpe, old_fn.FDD_mpe, Sval, Svec, freq, [2.0], 0.01)
    compare("FDD_mpe no sel", new_fn.FDD_mpe, old_fn.FDD_mpe, Sval, Svec, freq, [], 0.3)
    compare("FDD_mpe real", new_fn.FDD_mpe, old_fn.FDD_mpe, rng.random((2, 2, 50)),
            rng.random((2, 2, 50)), freq, [1.0, 3.3], 0.3)  # fmt: skip
    # the unit tests' way of calling EFDD_mpe / SDOF_bellandMS on random numbers
    for it in range(4):
        Sy = rng.random((3, 3, 100))
        compare(
            f"EFDD_mpe random#{it}",
            new_fn.EFDD_mpe,
            old_fn.EFDD_mpe,
            Sy=Sy,
            freq=np.linspace(0, 1, 100),
            dt=0.1,
            sel_freq=[0.3, 0.5, 0.7],
            methodSy="cor" if it % 2 else "per",
            npmax=2,
        )
        phi = rng.random(3) + 1j * rng.random(3)
        compare(
            f"SDOF_bellandMS#{it}",
            new_fn.SDOF_bellandMS,
            old_fn.SDOF_bellandMS,
            Sy + 1j * rng.random((3, 3, 100)), 0.01, 10.0, phi, "FSDD" if it % 2 else "EFDD",
            1, 0.85, 1.0,
        )  # fmt: skip


def algorithm_level(rng):
    global NCASE
    fs = 50.0
    Phi = np.array(
        [[1.0, 0.8, -0.6], [0.7, -0.9, 0.2], [0.4, 0.5, 1.0], [0.2, -0.3, -0.8], [0.6, 0.1, 0.5]]
    )
    fn, xi = [1.6, 4.03, 7.2], [0.01, 0.008, 0.012]
    Y = synth(rng, fs, 40000, fn, xi, Phi)
    Y2 = synth(rng, fs, 40000, fn, xi, Phi)

    def pair(name, **kw):
        out = []
        for mod in (new_alg, old_alg):
            a = getattr(mod, name)(name=name, **kw)
            if name.endswith("_MS"):
                data = [
                    {"ref": Y.T[:2], "mov": Y.T[2:4]},
                    {"ref": Y2.T[:2], "mov": Y2.T[3:5]},
                ]
                a._set_data(data=data, fs=fs)
            else:
                a._set_data(data=Y, fs=fs)
            a._set_result(a.run())
            out.append(a)
        return out

    def check(tag, a_new, a_old, fields):
        global NCASE
        NCASE += 1
        for fld in fields:
            if not same(getattr(a_new.result, fld), getattr(a_old.result, fld)):
                FAILS.append(f"{tag}: result.{fld} differs")
        if not same_params(params_of(a_new), params_of(a_old)):
            FAILS.append(f"{tag}: stored run parameters differ")

    def both(tag, a_new, a_old, meth, *a, **k):
        rn = outcome(getattr(a_new, meth), *a, **k)
        ro = outcome(getattr(a_old, meth), *a, **k)
        if rn[0] != ro[0] or (rn[0] == "exc" and rn[1:] != ro[1:]):
            FAILS.append(f"{tag}: {rn} vs {ro}")

    run_fields = ("freq", "Sy", "S_val", "S_vec")
    for method_SD in ("per", "cor"):
        for nxseg in (512, 1024):
            tag = f"FDD[{method_SD},{nxseg}]"
            a_new, a_old = pair("FDD", nxseg=nxseg, method_SD=method_SD)
            check(tag + ".run", a_new, a_old, run_fields)
            for j in range(4):
                sel = list(rng.permutation(np.array(fn) + rng.uniform(-0.05, 0.05, 3)))
                DF = float(rng.uniform(fs / nxseg, 0.5))
                if j % 2:
                    both(tag, a_new, a_old, "mpe", sel, DF)
                else:
                    both(tag, a_new, a_old, "mpe", sel_freq=np.array(sel), DF=DF)
                check(f"{tag}.mpe#{j}", a_new, a_old, run_fields + ("Fn", "Phi"))
            both(tag, a_new, a_old, "mpe", sel)  # default DF
            check(f"{tag}.mpe default", a_new, a_old, ("Fn", "Phi"))
            # interactive variant: full view, zoomed views, picks close to the view's edges
            for view, clicks, DF in (
                (None, [1.62, 4.0, 7.25], 0.1),
                ((1.0, 4.0), [1.58, 3.97], 0.1),
                ((1.0, 4.0), [3.99, 1.02], float(rng.uniform(0.1, 0.4))),
                ((4.06, 8.0), [4.07, 7.1], 0.15),
                ((1.65, 7.15), [1.66, 7.14, 4.0], 0.2),
            ):
                FakeSelFromPlot.clicks = clicks
                both(tag, a_new, a_old, "mpe_from_plot", freqlim=view, DF=DF)
                check(f"{tag}.mpe_from_plot{view}", a_new, a_old, run_fields + ("Fn", "Phi"))
            FakeSelFromPlot.clicks = [1.6, 4.0]
            both(tag, a_new, a_old, "mpe_from_plot", (1.0, 4.0))  # positional view
            check(f"{tag}.mpe_from_plot positional", a_new, a_old, ("Fn", "Phi"))

    # mpe before run
    for name in ("FDD", "EFDD"):
        for mod_new, mod_old in ((new_alg, old_alg),):
            a_new, a_old = getattr(mod_new, name)(name=name), getattr(mod_old, name)(name=name)
            NCASE += 1
            rn, ro = outcome(a_new.mpe, [1.0]), outcome(a_old.mpe, [1.0])
            if rn != ro:
                FAILS.append(f"{name}.mpe before run: {rn} vs {ro}")

    ef_fields = ("Fn", "Xi", "Phi")
    for name, method_SD in (("EFDD", "per"), ("FSDD", "per"), ("FSDD", "cor"), ("EFDD", "cor")):
        tag = f"{name}[{method_SD}]"
        a_new, a_old = pair(name, nxseg=1024, method_SD=method_SD)
        check(tag + ".run", a_new, a_old, run_fields)
        for j in range(2):
            sel = list(rng.permutation(np.array(fn) + rng.uniform(-0.05, 0.05, 3)))
            kw = dict(DF1=float(rng.uniform(0.05, 0.3)), DF2=float(rng.uniform(0.5, 1.0)))
            if j:
                kw.update(MAClim=0.9, sppk=2, npmax=15)
            both(tag, a_new, a_old, "mpe", sel, **kw)
            check(f"{tag}.mpe#{j}", a_new, a_old, ef_fields)
            if a_new.result.forPlot is not None and a_old.result.forPlot is not None:
                for pn, po in zip(a_new.result.forPlot, a_old.result.forPlot):
                    if not same([np.asarray(x) for x in pn], [np.asarray(x) for x in po]):
                        FAILS.append(f"{tag}.mpe#{j}: forPlot differs")
        both(tag, a_new, a_old, "mpe", sel, 0.1, 0.8, 1, 0.85, 3, 20)  # all positional
        check(f"{tag}.mpe positional", a_new, a_old, ef_fields)
        FakeSelFromPlot.clicks = [1.62, 3.98]
        both(tag, a_new, a_old, "mpe_from_plot", DF1=0.1, DF2=0.8, freqlim=(1.0, 4.0))
        check(f"{tag}.mpe_from_plot", a_new, a_old, ef_fields)

    for name in ("FDD_MS", "EFDD_MS"):
        a_new, a_old = pair(name, nxseg=512, method_SD="per")
        check(name + ".run", a_new, a_old, run_fields)
        sel = [7.2, 1.6, 4.0]
        if name == "FDD_MS":
            both(name, a_new, a_old, "mpe", sel, 0.2)
            check(name + ".mpe", a_new, a_old, ("Fn", "Phi"))
            FakeSelFromPlot.clicks = [3.98]
            both(name, a_new, a_old, "mpe_from_plot", freqlim=(1.0, 4.0), DF=0.2)
            check(name + ".mpe_from_plot", a_new, a_old, ("Fn", "Phi"))
        else:
            both(name, a_new, a_old, "mpe", sel, DF1=0.2, DF2=0.8, npmax=8)
            check(name + ".mpe", a_new, a_old, ef_fields)


def main():
    rng = np.random.default_rng(20240606)
    functions_level(rng)
    algorithm_level(rng)
    if FAILS:
        print(f"FAIL: {len(FAILS)} of {NCASE} comparisons differ")
        for f in FAILS[:15]:
            print("  ", f)
        return 1
    print(f"PASS ({NCASE} comparisons)")
    return 0


if __name__ == "__main__":
    sys.exit(main())
