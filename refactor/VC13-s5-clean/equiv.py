"""Differential test: the library in PYTHONPATH against the pristine functions/fdd.py
(saved next to this file as orig_fdd.py) on randomly generated inputs.

Run:  PYTHONPATH=<tree>/src /venv/bin/python equiv.py
"""
import importlib.util
import logging
import os
import sys
import warnings

import numpy as np

warnings.filterwarnings("ignore")
logging.disable(logging.CRITICAL)

import pyoma2.functions.fdd as new  # noqa: E402
import pyoma2.functions.gen  # noqa: E402,F401

HERE = os.path.dirname(os.path.abspath(__file__))
spec = importlib.util.spec_from_file_location(
    "pyoma2.functions.orig_fdd", os.path.join(HERE, "orig_fdd.py")
)
orig = importlib.util.module_from_spec(spec)
sys.modules[spec.name] = orig
spec.loader.exec_module(orig)

# silence the progress bars
new.trange = range
orig.trange = range

RTOL = 1e-12
n_cases = 0
failures = []
exc_cases = []


def call(f, *a, **k):
    try:
        return ("ok", f(*a, **k))
    except Exception as e:  # noqa: BLE001
        return ("exc", type(e))


def same(a, b):
    a = np.asarray(a)
    b = np.asarray(b)
    if a.shape != b.shape:
        return False, f"shape {a.shape} vs {b.shape}"
    if np.array_equal(a, b, equal_nan=True):
        return True, ""
    scale = np.nanmax(np.abs(b)) if b.size else 0.0
    ok = np.allclose(a, b, rtol=RTOL, atol=RTOL * scale, equal_nan=True)
    err = np.nanmax(np.abs(a - b)) / (scale or 1.0)
    return ok, f"max err / max|ref| = {err:.3e}"


def compare(tag, r_new, r_old):
    global n_cases
    n_cases += 1
    if r_new[0] != r_old[0]:
        failures.append(f"{tag}: outcome {r_new[0]} vs {r_old[0]} ({r_new[1]}, {r_old[1]})")
        return
    if r_new[0] == "exc":
        exc_cases.append(f"{tag}: {r_new[1].__name__}")
        if r_new[1] is not r_old[1]:
            failures.append(f"{tag}: exception {r_new[1]} vs {r_old[1]}")
        return
    for name, a, b in zip(("freq", "Sy"), r_new[1], r_old[1]):
        ok, msg = same(a, b)
        if not ok:
            failures.append(f"{tag}: {name} differs, {msg}")


rng = np.random.default_rng(20240613)

# ---------------------------------------------------------------- SD_est
POVS = [0.0, 0.125, 0.25, 0.5, 0.5, 0.5, 0.75, 0.875]
for k in range(60):
    n_all = int(rng.integers(1, 9))
    n_ref = int(rng.integers(1, 5))
    nxseg = int(rng.choice([16, 32, 48, 64, 100, 128, 200, 256, 512, 1024]))
    if k % 7 == 0:
        nxseg += 1  # odd segment length
    pov = float(rng.choice(POVS))
    nseg = int(rng.integers(2, 12))
    N = nxseg * nseg + int(rng.integers(0, nxseg))
    fs = float(rng.choice([1.0, 10.0, 64.0, 100.0, 256.0, 1000.0, 333.3]))
    method = ["per", "cor"][k % 2]
    Yall = rng.standard_normal((n_all, N)) * 10.0 ** rng.uniform(-2, 2)
    mode = k % 5
    if mode == 0:
        Yref = Yall  # same object (FDD.run / pLSCF.run)
    elif mode == 1:
        Yref = Yall[: min(n_ref, n_all)]  # reference subset (a view)
    elif mode == 2:
        idx = rng.permutation(n_all)[: min(n_ref, n_all)]
        Yref = Yall[idx]  # non-ascending index list
    else:
        Yref = rng.standard_normal((n_ref, N)) + 0.3 * Yall[:1]
    if k % 6 == 0:
        Yall_in = np.asfortranarray(Yall)  # non-contiguous rows, as data.T
        if Yref is Yall:
            Yref = Yall_in
    else:
        Yall_in = Yall
    tag = f"SD_est[{k}] n_all={n_all} n_ref={Yref.shape[0]} nxseg={nxseg} pov={pov} N={N} fs={fs} {method} mode={mode}"
    compare(
        tag,
        call(new.SD_est, Yall_in, Yref, 1 / fs, nxseg, method, pov),
        call(orig.SD_est, Yall_in, Yref, 1 / fs, nxseg, method, pov),
    )

# defaults / keywords / short record (as in tests/unit/functions/test_fdd.py) / errors
Ya = rng.random((10, 1000))
Yr = rng.random((5, 1000))
for method in ("per", "cor"):
    compare(
        f"SD_est short record {method}",
        call(new.SD_est, Ya, Yr, 1e-3, nxseg=1024, method=method, pov=0.5),
        call(orig.SD_est, Ya, Yr, 1e-3, nxseg=1024, method=method, pov=0.5),
    )
    compare(
        f"SD_est pov=1 {method}",
        call(new.SD_est, Ya, Yr, 1e-3, nxseg=256, method=method, pov=1.0),
        call(orig.SD_est, Ya, Yr, 1e-3, nxseg=256, method=method, pov=1.0),
    )
    compare(
        f"SD_est too short for overlap {method}",
        call(new.SD_est, Ya[:, :300], Yr[:, :300], 1e-3, nxseg=1024, method=method, pov=0.5),
        call(orig.SD_est, Ya[:, :300], Yr[:, :300], 1e-3, nxseg=1024, method=method, pov=0.5),
    )
compare("SD_est defaults", call(new.SD_est, Ya, Yr, 0.01), call(orig.SD_est, Ya, Yr, 0.01))
compare(
    "SD_est unknown method",
    call(new.SD_est, Ya, Yr, 0.01, method="welch"),
    call(orig.SD_est, Ya, Yr, 0.01, method="welch"),
)
# integer-valued input
Yi = rng.integers(-100, 100, size=(3, 2000))
compare(
    "SD_est integer data",
    call(new.SD_est, Yi, Yi[:2], 0.01, 128, "per", 0.5),
    call(orig.SD_est, Yi, Yi[:2], 0.01, 128, "per", 0.5),
)

# ---------------------------------------------------------------- SD_PreGER
for k in range(16):
    n_setup = int(rng.integers(1, 4))
    n_ref = int(rng.integers(1, 4))
    nxseg = int(rng.choice([32, 64, 128, 256]))
    pov = float(rng.choice(POVS))
    fs = float(rng.choice([10.0, 100.0, 512.0]))
    method = ["per", "cor"][k % 2]
    Y = []
    for _ in range(n_setup):
        N = nxseg * int(rng.integers(6, 14)) + int(rng.integers(0, nxseg))
        n_mov = int(rng.integers(1, 5))
        common = rng.standard_normal((1, N))
        Y.append(
            {
                "ref": rng.standard_normal((n_ref, N)) + common,
                "mov": rng.standard_normal((n_mov, N)) + 0.5 * common,
            }
        )
    tag = f"SD_PreGER[{k}] n_setup={n_setup} n_ref={n_ref} nxseg={nxseg} pov={pov} {method}"
    compare(
        tag,
        call(new.SD_PreGER, Y, fs, nxseg=nxseg, pov=pov, method=method),
        call(orig.SD_PreGER, Y, fs, nxseg=nxseg, pov=pov, method=method),
    )

# ---------------------------------------------------------------- calling layer
# FDD / pLSCF algorithm classes run with the library routine and with the pristine one
from pyoma2.algorithms import FDD, pLSCF  # noqa: E402
import pyoma2.algorithms.fdd as alg_fdd  # noqa: E402
import pyoma2.algorithms.plscf as alg_plscf  # noqa: E402
from pyoma2.setup import SingleSetup  # noqa: E402


def run_alg(make, data, fs, fdd_module):
    saved = (alg_fdd.fdd, alg_plscf.fdd)
    alg_fdd.fdd = fdd_module
    alg_plscf.fdd = fdd_module
    try:
        ss = SingleSetup(data, fs=fs)
        alg = make()
        ss.add_algorithms(alg)
        ss.run_all()
        return alg.result.freq, alg.result.Sy
    finally:
        alg_fdd.fdd, alg_plscf.fdd = saved


for k in range(6):
    nch = int(rng.integers(2, 6))
    nxseg = int(rng.choice([64, 128, 256]))
    N = nxseg * int(rng.integers(8, 16))
    fs = float(rng.choice([50.0, 100.0]))
    pov = float(rng.choice([0.0, 0.25, 0.5, 0.75]))
    method = ["per", "cor"][k % 2]
    data = rng.standard_normal((N, nch))
    if k < 4:
        make = lambda: FDD(name="a", nxseg=nxseg, method_SD=method, pov=pov)  # noqa: E731
        nm = "FDD"
    else:
        make = lambda: pLSCF(name="a", ordmax=6, nxseg=nxseg, method_SD=method, pov=pov)  # noqa: E731
        nm = "pLSCF"
    compare(
        f"{nm}.run[{k}] nch={nch} nxseg={nxseg} pov={pov} {method}",
        call(run_alg, make, data, fs, new),
        call(run_alg, make, data, fs, orig),
    )

if failures:
    print("FAIL: %d of %d comparisons differ" % (len(failures), n_cases))
    for f in failures[:40]:
        print("  ", f)
    sys.exit(1)
print("PASS (%d comparisons, %d of them with the same exception on both sides)" % (n_cases, len(exc_cases)))
for e in exc_cases:
    print("   exc:", e)
