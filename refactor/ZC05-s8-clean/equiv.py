"""Differential test: refactored pLSCF code vs the pristine implementation.

Run as:  PYTHONPATH=<tree>/src /venv/bin/python equiv.py
The pristine sources are the copies saved next to this file
(orig_plscf.py = functions/plscf.py, orig_algo_plscf.py = algorithms/plscf.py).
"""
import importlib.util
import logging
import os
import sys

import numpy as np

logging.disable(logging.CRITICAL)
os.environ.setdefault("TQDM_DISABLE", "1")

HERE = os.path.dirname(os.path.abspath(__file__))

import pyoma2.algorithms  # noqa: E402,F401
from pyoma2.algorithms import plscf as new_algo  # noqa: E402
from pyoma2.functions import plscf as new_fun  # noqa: E402


def _load(name, fname):
    spec = importlib.util.spec_from_file_location(name, os.path.join(HERE, fname))
    mod = importlib.util.module_from_spec(spec)
    sys.modules[name] = mod
    spec.loader.exec_module(mod)
    return mod


orig_fun = _load("pyoma2.functions.orig_plscf", "orig_plscf.py")
orig_algo = _load("pyoma2.algorithms.orig_algo_plscf", "orig_algo_plscf.py")
orig_algo.plscf = orig_fun  # pristine class on top of the pristine functions


# permissive hard criteria, so that the pole tables are not blanked entirely
HC = dict(conj=False, xi_max=1.0, mpc_lim=0.0, mpd_lim=1.0)


def resonant(rng, n, nch):
    """Coloured noise with three lightly damped resonances mixed on nch channels."""
    e = rng.normal(size=(n, 3))
    y = np.zeros((n, 3))
    for j, f0 in enumerate((0.1, 0.2, 0.3)):
        a1, a2 = -2 * 0.98 * np.cos(2 * np.pi * f0), 0.98**2
        for t in range(2, n):
            y[t, j] = e[t, j] - a1 * y[t - 1, j] - a2 * y[t - 2, j]
    return y @ rng.normal(size=(3, nch)) + 0.01 * rng.normal(size=(n, nch))


def call(f, *a, **k):
    try:
        return ("ok", f(*a, **k))
    except Exception as e:  # noqa: BLE001
        return ("exc", type(e).__name__)


def same(x, y):
    if isinstance(x, (list, tuple)):
        return (
            isinstance(y, (list, tuple))
            and len(x) == len(y)
            and all(same(a, b) for a, b in zip(x, y))
        )
    if isinstance(x, str) or x is None:
        return x == y
    x = np.asarray(x)
    y = np.asarray(y)
    if x.shape != y.shape or x.dtype.kind != y.dtype.kind:
        return False
    return bool(
        np.array_equal(x, y, equal_nan=True)
        or np.allclose(x, y, rtol=1e-12, atol=0.0, equal_nan=True)
    )


def main():
    rng = np.random.default_rng(7)
    bad = []
    ncases = 0

    # ---- functions: pLSCF and pLSCF_poles -------------------------------
    for k in range(36):
        nref = int(rng.integers(1, 6))
        nch = int(rng.integers(2, 6))
        if k % 3 == 0:
            nref = nch
        ordmax = int(rng.integers(1, 7))
        nf = int(rng.integers(4 * (ordmax + 1), 130))
        dt = float(rng.choice([1.0, 0.5, 0.1, 0.01, 0.004, 1 / 128]))
        sgn = [-1, 1, -1.0, 1.0][k % 4]
        if k == 34:
            sgn = 2  # neither LO nor HI: same failure expected
        if k % 5 == 4:
            Sy = rng.random((nref, nch, nf))  # real valued, as in the unit test
        else:
            Sy = rng.normal(size=(nref, nch, nf)) + 1j * rng.normal(size=(nref, nch, nf))
        tag = f"case {k}: Nref={nref} Nch={nch} Nf={nf} ordmax={ordmax} dt={dt} sgn={sgn}"
        Sy_in = Sy.copy()
        r_new = call(new_fun.pLSCF, Sy, dt, ordmax, sgn)
        r_old = call(orig_fun.pLSCF, Sy_in.copy(), dt, ordmax, sgn)
        ncases += 1
        if r_new[0] != r_old[0] or not same(r_new[1], r_old[1]):
            bad.append(tag + " pLSCF differs")
            continue
        if not np.array_equal(Sy, Sy_in):
            bad.append(tag + " pLSCF modified its input")
        if r_new[0] == "exc":
            continue
        Ad, Bn = r_old[1]
        for meth in ("per", "cor"):
            nxseg = 2 * (nf - 1)
            p_new = call(new_fun.pLSCF_poles, Ad, Bn, dt, meth, nxseg)
            p_old = call(orig_fun.pLSCF_poles, Ad, Bn, dt, meth, nxseg)
            ncases += 1
            if p_new[0] != p_old[0] or not same(p_new[1], p_old[1]):
                bad.append(tag + f" pLSCF_poles({meth}) differs")
        # keyword spelling used by the algorithm classes
        p_new = call(new_fun.pLSCF_poles, Ad, Bn, dt, nxseg=nxseg, methodSy="per")
        p_old = call(orig_fun.pLSCF_poles, Ad, Bn, dt, nxseg=nxseg, methodSy="per")
        if p_new[0] != p_old[0] or not same(p_new[1], p_old[1]):
            bad.append(tag + " pLSCF_poles(keywords) differs")

    # default sign
    Sy = rng.normal(size=(2, 3, 40)) + 1j * rng.normal(size=(2, 3, 40))
    if not same(new_fun.pLSCF(Sy, 0.1, 3), orig_fun.pLSCF(Sy, 0.1, 3)):
        bad.append("pLSCF with the default sign differs")
    ncases += 1

    # the 4-D array input of the unit test
    Ad = np.array([[[[1, -0.5], [1, -0.7]]]])
    Bn = np.array([[[[7, 8], [9, 10]]]])
    if not same(
        new_fun.pLSCF_poles(Ad, Bn, 0.01, "per", 10),
        orig_fun.pLSCF_poles(Ad, Bn, 0.01, "per", 10),
    ):
        bad.append("pLSCF_poles on the unit-test input differs")
    ncases += 1

    # untouched routines are still the same objects in behaviour
    for k in range(5):
        n, l_, m = int(rng.integers(2, 5)), int(rng.integers(1, 4)), int(rng.integers(2, 4))
        A_den = rng.normal(size=(n, m, m))
        B_num = rng.normal(size=(n, l_, m))
        if not same(new_fun.rmfd2ac(A_den, B_num), orig_fun.rmfd2ac(A_den, B_num)):
            bad.append("rmfd2ac differs")
        A, C = orig_fun.rmfd2ac(A_den, B_num)
        if not same(
            new_fun.ac2mp_poly(A, C, 0.1, "cor", 64), orig_fun.ac2mp_poly(A, C, 0.1, "cor", 64)
        ):
            bad.append("ac2mp_poly differs")
        ncases += 1

    # ---- algorithm classes: run() for both estimators -------------------
    fields = ("freq", "Sy", "Ad", "Bn", "Fn_poles", "Xi_poles", "Phi_poles", "Lab")
    for k, (meth, nch, ordmax, nxseg, fs) in enumerate(
        [
            ("per", 3, 4, 64, 100.0),
            ("cor", 3, 4, 64, 100.0),
            ("per", 4, 5, 128, 20.0),
            ("cor", 4, 3, 80, 256.0),
        ]
    ):
        data = resonant(rng, 3000, nch)
        res = []
        for mod in (new_algo, orig_algo):
            alg = mod.pLSCF(name="x", ordmax=ordmax, nxseg=nxseg, method_SD=meth, hc=HC)
            alg._set_data(data=data.copy(), fs=fs)
            res.append(call(alg.run))
        ncases += 1
        if res[0][0] != res[1][0]:
            bad.append(f"pLSCF.run {meth}: {res[0]} vs {res[1]}")
            continue
        if res[0][0] == "exc":
            if res[0][1] != res[1][1]:
                bad.append(f"pLSCF.run {meth}: different exceptions {res[0][1]} {res[1][1]}")
            continue
        for f in fields:
            if not same(getattr(res[0][1], f), getattr(res[1][1], f)):
                bad.append(f"pLSCF.run method={meth} Nch={nch}: result.{f} differs")
        if not np.isfinite(res[0][1].Fn_poles).any():
            bad.append(f"pLSCF.run method={meth}: vacuous comparison, no pole left")

    # multi-setup class
    for meth in ("per", "cor"):
        d1 = resonant(rng, 2400, 4)
        d2 = resonant(rng, 2400, 5)
        Y = [
            {"ref": d1[:, :2].T.copy(), "mov": d1[:, 2:].T.copy()},
            {"ref": d2[:, :2].T.copy(), "mov": d2[:, 2:].T.copy()},
        ]
        res = []
        for mod in (new_algo, orig_algo):
            alg = mod.pLSCF_MS(name="y", ordmax=3, nxseg=64, method_SD=meth, hc=HC)
            alg._set_data(data=[{k_: v.copy() for k_, v in d.items()} for d in Y], fs=50.0)
            res.append(call(alg.run))
        ncases += 1
        if res[0][0] != res[1][0]:
            bad.append(f"pLSCF_MS.run {meth}: {res[0]} vs {res[1]}")
        elif res[0][0] == "exc":
            if res[0][1] != res[1][1]:
                bad.append(f"pLSCF_MS.run {meth}: exceptions {res[0][1]} vs {res[1][1]}")
        else:
            for f in fields:
                if not same(getattr(res[0][1], f), getattr(res[1][1], f)):
                    bad.append(f"pLSCF_MS.run method={meth}: result.{f} differs")

    if bad:
        print("FAIL")
        for b in bad:
            print(" -", b)
        return 1
    print(f"PASS ({ncases} comparisons)")
    return 0


if __name__ == "__main__":
    sys.exit(main())
