"""
Equivalence check for the C16 refactoring (interactive pole picking + hand-over).

ORIGINAL  = pristine copies (git show HEAD:...) in this directory, imported by path
REFACTORED = the modules of the work tree (PYTHONPATH=/tmp/wt/Q16/src)

Level 1 (dialog):   SelFromPlot driven head-less through the callbacks it registers
                    with mpl_connect - exhaustive histories up to length 4 over a small
                    table + random histories up to length 6 over random tables, for the
                    SSI, pLSCF and FDD variants; light mode (recording fake figure) and
                    full mode (real matplotlib Figure, real stab_plot / CMIF_plot).
Level 2 (hand-over): SSIdat/SSIcov/SSIcov_MS/pLSCF/pLSCF_MS/FDD/FDD_MS .mpe_from_plot
                    (and SSI .mpe) original class + original dialog versus refactored
                    class + refactored dialog, on synthetic pole tables and on real runs.

Compared: complete trace after every event (selection lists incl. element types,
click coordinates kept on the object, marker data, every call made on the figure /
axes / plotting functions with its bound arguments, exception type and message),
the final `.result`, the bound arguments of every SSI_mpe / pLSCF_mpe / FDD_mpe call,
and all fields of `algo.result` and `algo.run_params` afterwards.
"""

from __future__ import annotations

import copy
import enum
import importlib.util
import inspect
import itertools
import logging
import os
import sys
import types
import warnings

import matplotlib

matplotlib.use("Agg")
import matplotlib.backend_bases  # noqa: E402

import numpy as np  # noqa: E402

os.environ["TQDM_DISABLE"] = "1"
HERE = os.path.dirname(os.path.abspath(__file__))
logging.disable(logging.CRITICAL)
warnings.filterwarnings("ignore")

import tkinter as tk  # noqa: E402

import pyoma2.algorithms.fdd as new_alg_fdd  # noqa: E402
import pyoma2.algorithms.plscf as new_alg_plscf  # noqa: E402
import pyoma2.algorithms.ssi as new_alg_ssi  # noqa: E402
import pyoma2.functions.fdd as f_fdd  # noqa: E402
import pyoma2.functions.plscf as f_plscf  # noqa: E402
import pyoma2.functions.ssi as f_ssi  # noqa: E402
import pyoma2.support.sel_from_plot as new_sfp  # noqa: E402
from pyoma2.algorithms.data.result import (  # noqa: E402
    FDDResult,
    SSIResult,
    pLSCFResult,
)

assert new_sfp.__file__.startswith("/tmp/wt/Q16/src/"), new_sfp.__file__


def load(name, fname):
    spec = importlib.util.spec_from_file_location(name, os.path.join(HERE, fname))
    mod = importlib.util.module_from_spec(spec)
    sys.modules[name] = mod
    spec.loader.exec_module(mod)
    return mod


old_sfp = load("pyoma2.support._orig_sel_from_plot", "orig_sel_from_plot.py")
old_alg_ssi = load("pyoma2.algorithms._orig_ssi", "orig_alg_ssi.py")
old_alg_plscf = load("pyoma2.algorithms._orig_plscf", "orig_alg_plscf.py")
old_alg_fdd = load("pyoma2.algorithms._orig_fdd", "orig_alg_fdd.py")
# original calling layer talks to the original dialog
for m in (old_alg_ssi, old_alg_plscf, old_alg_fdd):
    assert m.SelFromPlot is new_sfp.SelFromPlot
    m.SelFromPlot = old_sfp.SelFromPlot

# silence the progress bars of the extraction routines
for m in (f_ssi, f_plscf, f_fdd):
    if hasattr(m, "tqdm"):
        m.tqdm = lambda it, *a, **k: it


# ----------------------------------------------------------------------------------
# canonical form: equal canon <=> identical value, type, dtype, shape, NaN pattern
# ----------------------------------------------------------------------------------
def canon(x):
    if isinstance(x, np.ndarray):
        if x.dtype == object:
            return ("ndobj", x.shape, tuple(canon(v) for v in x.ravel()))
        return ("nd", x.dtype.str, x.shape, np.ascontiguousarray(x).tobytes())
    if isinstance(x, np.generic):
        return ("npscalar", type(x).__name__, x.tobytes())
    if isinstance(x, enum.Enum):
        return ("enum", type(x).__name__, x.name)
    if isinstance(x, bool) or x is None or isinstance(x, (int, str)):
        return (type(x).__name__, x)
    if isinstance(x, float):
        return ("float", repr(x))
    if isinstance(x, complex):
        return ("complex", repr(x))
    if isinstance(x, (list, tuple)):
        return (type(x).__name__, tuple(canon(v) for v in x))
    if isinstance(x, dict):
        return ("dict", tuple((k, canon(v)) for k, v in x.items()))
    if isinstance(x, (_FakeBase, types.SimpleNamespace)):
        return ("obj", type(x).__name__)
    if hasattr(x, "__dict__") and type(x).__module__.startswith("pyoma2"):
        return ("pyoma2obj", type(x).__name__, canon(dict(vars(x))))
    if type(x).__module__.startswith("matplotlib"):
        return ("mpl", type(x).__name__)
    if callable(x):
        return ("callable",)
    raise TypeError(f"canon: {type(x)}")


# ----------------------------------------------------------------------------------
# head-less GUI
# ----------------------------------------------------------------------------------
class _FakeBase:
    pass


class Ctx:
    """what the fake main loop has to do, and the log of the current run"""

    script = None
    instance = None
    log = None


class FakeWidget(_FakeBase):
    def __init__(self, *a, **k):
        pass

    def __getattr__(self, name):
        if name.startswith("__"):
            raise AttributeError(name)
        return lambda *a, **k: FakeWidget()


class FakeTk(FakeWidget):
    def mainloop(self):
        Ctx.script(Ctx.instance)

    def quit(self):
        Ctx.log.append(("root.quit",))

    def destroy(self):
        Ctx.log.append(("root.destroy",))


class FakeCanvas(_FakeBase):
    def __init__(self):
        self.cbs = {}

    def mpl_connect(self, name, func):
        self.cbs.setdefault(name, []).append(func)
        return len(self.cbs)

    def draw_idle(self):
        Ctx.log.append(("canvas.draw_idle",))


class FakeLine(_FakeBase):
    def __init__(self, x, y):
        self.x, self.y = x, y

    def set_xdata(self, x):
        Ctx.log.append(("line.set_xdata", canon(x)))
        self.x = copy.deepcopy(x)

    def set_ydata(self, y):
        Ctx.log.append(("line.set_ydata", canon(y)))
        self.y = copy.deepcopy(y)

    def get_xdata(self):
        return self.x

    def get_ydata(self):
        return self.y


class FakeAxes(_FakeBase):
    def clear(self):
        Ctx.log.append(("ax.clear",))

    def grid(self, *a, **k):
        Ctx.log.append(("ax.grid", canon(a), canon(k)))

    def plot(self, *a, **k):
        Ctx.log.append(("ax.plot", canon(a), canon(k)))
        return (FakeLine(copy.deepcopy(a[0]), copy.deepcopy(a[1])),)


class FakeFigure(_FakeBase):
    def __init__(self, *a, **k):
        self.canvas = FakeCanvas()
        self.ax = FakeAxes()

    def add_subplot(self, *a, **k):
        return self.ax


class FakeTkCanvas(_FakeBase):
    def __init__(self, fig, root):
        pass

    def get_tk_widget(self):
        return FakeWidget()


tk.Tk = FakeTk
tk.Menu = FakeWidget
REAL = {}
for mod in (old_sfp, new_sfp):
    REAL[mod] = dict(Figure=mod.Figure, stab_plot=mod.stab_plot, CMIF_plot=mod.CMIF_plot)
    mod.FigureCanvasTkAgg = FakeTkCanvas
    mod.NavigationToolbar2Tk = FakeWidget
assert REAL[old_sfp]["stab_plot"] is REAL[new_sfp]["stab_plot"]


def spy(real, call_real):
    sig = inspect.signature(real)

    def wrapper(*a, **k):
        ba = sig.bind(*a, **k)
        ba.apply_defaults()
        Ctx.log.append((real.__name__, canon(dict(ba.arguments))))
        if call_real:
            return real(*a, **k)
        return None

    return wrapper


def set_mode(full):
    for mod in (old_sfp, new_sfp):
        mod.Figure = REAL[mod]["Figure"] if full else FakeFigure
        mod.stab_plot = spy(REAL[mod]["stab_plot"], full)
        mod.CMIF_plot = spy(REAL[mod]["CMIF_plot"], full)


def ev(**kw):
    d = dict(button=None, xdata=None, ydata=None, key=None)
    d.update(kw)
    return types.SimpleNamespace(**d)


def dispatch(sfp, name, event):
    canvas = sfp.fig.canvas
    if isinstance(canvas, FakeCanvas):
        for cb in canvas.cbs.get(name, []):
            cb(event)
    else:
        canvas.callbacks.process(name, event)


def snapshot(sfp):
    d = {}
    for a in ("sel_freq", "pole_ind", "freq_ind", "x_data_pole", "y_data_pole",
              "shift_is_held", "show_legend", "hide_poles", "plot", "freqlim"):
        if hasattr(sfp, a):
            d[a] = canon(copy.deepcopy(getattr(sfp, a)))
    if hasattr(sfp, "MARKER"):
        d["marker"] = (canon(np.asarray(sfp.MARKER.get_xdata())),
                       canon(np.asarray(sfp.MARKER.get_ydata())))
    d["attrs"] = tuple(sorted(k for k in vars(sfp)))
    return d


def make_script(actions, trace):
    """actions: ('press', key) | ('release', key) | ('click', button, x, y) | ('menu', name, arg)"""

    def script(sfp):
        trace.append(("start", snapshot(sfp)))
        for act in actions:
            try:
                if act[0] == "press":
                    dispatch(sfp, "key_press_event", ev(key=act[1]))
                elif act[0] == "release":
                    dispatch(sfp, "key_release_event", ev(key=act[1]))
                elif act[0] == "click":
                    dispatch(sfp, "button_press_event",
                             ev(button=act[1], xdata=act[2], ydata=act[3]))
                elif act[0] == "menu":
                    getattr(sfp, act[1])(act[2])
                exc = None
            except Exception as e:  # noqa: BLE001
                exc = (type(e).__name__, str(e))
            trace.append((act[0], exc, snapshot(sfp)))
        sfp.on_closing()

    return script


def run_dialog(mod, algo, plot, actions, freqlim=None):
    """constructs mod.SelFromPlot with the fake main loop executing `actions`"""
    trace = []
    Ctx.log = []
    Ctx.script = make_script(actions, trace)
    cls = mod.SelFromPlot
    obj = cls.__new__(cls)
    Ctx.instance = obj
    try:
        obj.__init__(algo, freqlim=freqlim, plot=plot)
        out = ("ok", canon(obj.result), canon(type(obj.result).__name__))
    except Exception as e:  # noqa: BLE001
        out = ("exc", type(e).__name__, str(e))
    return out, trace, Ctx.log


N_DIALOG = 0


def check_dialog(algo, plot, actions, freqlim=None, what=""):
    global N_DIALOG
    a = run_dialog(old_sfp, copy.deepcopy(algo), plot, actions, freqlim)
    b = run_dialog(new_sfp, copy.deepcopy(algo), plot, actions, freqlim)
    if a != b:
        for i, (x, y) in enumerate(zip(a[1], b[1])):
            if x != y:
                print("first differing trace entry", i, "\n", x, "\n", y)
                break
        raise AssertionError(f"dialog differs [{what}] plot={plot} actions={actions}")
    N_DIALOG += 1
    return a


# ----------------------------------------------------------------------------------
# inputs
# ----------------------------------------------------------------------------------
def stub_algo(rng, n_p, n_ord, nan_frac=0.3, n_freq=40, dup=False):
    Fn = np.sort(rng.uniform(0.5, 20.0, size=(n_p, n_ord)), axis=0)
    if dup:  # equal frequencies at different orders / rows
        Fn = np.round(Fn)
    Fn[rng.uniform(size=Fn.shape) < nan_frac] = np.nan
    Lab = rng.integers(0, 2, size=Fn.shape)
    freq = np.linspace(0, 25.0, n_freq)
    S_val = np.zeros((3, 3, n_freq))
    sv = np.sort(rng.uniform(0.1, 10.0, size=(3, n_freq)), axis=0)[::-1]
    for k in range(3):
        S_val[k, k, :] = sv[k]
    return types.SimpleNamespace(
        fs=50.0,
        result=types.SimpleNamespace(Fn_poles=Fn, Lab=Lab, freq=freq, S_val=S_val),
        run_params=types.SimpleNamespace(ordmin=int(rng.integers(0, 2)), ordmax=n_ord,
                                         step=1),
    )


def random_actions(rng, n, xmax=22.0, ymax=8.0, wild=True):
    acts = []
    shift = False
    for _ in range(n):
        r = rng.uniform()
        if r < 0.12 or (not shift and r < 0.5):
            key = "shift" if rng.uniform() < 0.85 else rng.choice(["a", "control"])
            if shift and rng.uniform() < 0.7:
                acts.append(("release", str(key)))
                shift = shift and key != "shift"
            else:
                acts.append(("press", str(key)))
                shift = shift or key == "shift"
            if rng.uniform() < 0.5:
                continue
        b = int(rng.choice([1, 1, 1, 2, 3]))
        if wild and rng.uniform() < 0.05:
            b = [8, None, 0][int(rng.integers(0, 3))]
        if rng.uniform() < 0.3:
            b = {1: matplotlib.backend_bases.MouseButton.LEFT,
                 2: matplotlib.backend_bases.MouseButton.MIDDLE,
                 3: matplotlib.backend_bases.MouseButton.RIGHT}.get(b, b)
        x = float(rng.uniform(-2.0, xmax))
        y = float(rng.uniform(-2.0, ymax))
        if wild and rng.uniform() < 0.06:
            x, y = None, None  # click outside the axes
        if wild and rng.uniform() < 0.03:
            x = float("nan")
        acts.append(("click", b, x, y))
    return acts


def level1():
    rng = np.random.default_rng(16)

    # --- exhaustive: all histories up to length 4 over a small table, light mode
    set_mode(full=False)
    small = stub_algo(rng, 3, 3, nan_frac=0.0, n_freq=6, dup=False)
    small.result.Fn_poles = np.array([[2.0, 2.0, 3.0], [5.0, np.nan, 5.0],
                                      [9.0, 8.0, np.nan]])
    alphabet = [
        ("click", 1, 2.2, 0.2), ("click", 1, 6.4, 1.4), ("click", 1, 8.6, 2.6),
        ("click", 1, 4.9, 1.6),
        ("click", 3, 1.0, 1.0),
        ("click", 2, 2.4, 0.0), ("click", 2, 7.0, 0.0),
        ("release", "shift"), ("press", "shift"),
    ]
    for plot in ("SSI", "pLSCF", "FDD"):
        for n in range(0, 5):
            for seq in itertools.product(alphabet, repeat=n):
                check_dialog(small, plot, [("press", "shift")] + list(seq), what="exh")
    n_exh = N_DIALOG

    # --- random histories (length <= 6 mouse actions, some longer), light mode
    for it in range(600):
        algo = stub_algo(rng, int(rng.integers(1, 7)), int(rng.integers(1, 9)),
                         nan_frac=float(rng.choice([0.0, 0.3, 0.7, 1.0])),
                         n_freq=int(rng.integers(2, 60)), dup=bool(rng.integers(0, 2)))
        acts = random_actions(rng, int(rng.integers(0, 7 if it % 10 else 25)))
        for plot in ("SSI", "pLSCF", "FDD"):
            fl = None if rng.uniform() < 0.5 else (0.0, float(rng.uniform(5, 25)))
            check_dialog(algo, plot, acts, freqlim=fl, what="rand")
    # menu entries re-draw the chart through plot_stab
    for it in range(30):
        algo = stub_algo(rng, 4, 5)
        acts = random_actions(rng, 5, wild=False)
        acts.insert(int(rng.integers(0, len(acts) + 1)), ("menu", "toggle_hide_poles", 0))
        acts.insert(int(rng.integers(0, len(acts) + 1)), ("menu", "toggle_legend", 1))
        for plot in ("SSI", "pLSCF"):
            check_dialog(algo, plot, acts, what="menu")

    # --- full mode: real Figure / stab_plot / CMIF_plot
    set_mode(full=True)
    for it in range(25):
        algo = stub_algo(rng, int(rng.integers(2, 6)), int(rng.integers(2, 8)),
                         nan_frac=0.3, n_freq=int(rng.integers(5, 40)))
        acts = random_actions(rng, int(rng.integers(1, 7)))
        for plot in ("SSI", "pLSCF", "FDD"):
            check_dialog(algo, plot, acts, what="full")
    set_mode(full=False)
    return n_exh, N_DIALOG - n_exh


# ----------------------------------------------------------------------------------
# level 2: calling layer
# ----------------------------------------------------------------------------------
MPE_LOG = []


def spy_mpe(modfun, name):
    real = getattr(modfun, name)
    sig = inspect.signature(real)

    def wrapper(*a, **k):
        ba = sig.bind(*a, **k)
        ba.apply_defaults()
        MPE_LOG.append((name, canon(dict(ba.arguments))))
        return real(*a, **k)

    setattr(modfun, name, wrapper)


spy_mpe(f_ssi, "SSI_mpe")
spy_mpe(f_plscf, "pLSCF_mpe")
spy_mpe(f_fdd, "FDD_mpe")


def synth_tables(rng, n_p, n_ord, n_ch, cov, nan_frac=0.3):
    Fn = np.sort(rng.uniform(0.5, 20.0, size=(n_p, n_ord)), axis=0)
    Xi = rng.uniform(0.001, 0.1, size=(n_p, n_ord))
    Phi = rng.normal(size=(n_p, n_ord, n_ch)) + 1j * rng.normal(size=(n_p, n_ord, n_ch))
    mask = rng.uniform(size=Fn.shape) < nan_frac
    Fn[mask] = np.nan
    Xi[mask] = np.nan
    Phi[mask] = np.nan
    d = dict(Fn_poles=Fn, Xi_poles=Xi, Phi_poles=Phi,
             Lab=rng.integers(0, 2, size=Fn.shape))
    if cov:
        d.update(Fn_poles_cov=np.abs(rng.normal(size=Fn.shape)) * 1e-2,
                 Xi_poles_cov=np.abs(rng.normal(size=Fn.shape)) * 1e-2,
                 Phi_poles_cov=np.abs(rng.normal(size=Phi.shape)) * 1e-2)
    return d


def algo_state(algo):
    return tuple(canon(dict(vars(o))) if o is not None else None
                 for o in (algo.result, algo.run_params))


def call_both(make_old, make_new, method, actions, kwargs):
    outs = []
    for make in (make_old, make_new):
        algo = make()
        trace = []
        Ctx.log = []
        Ctx.script = make_script(actions, trace)
        # the dialog instance is created inside mpe_from_plot: grab it in __init__
        MPE_LOG.clear()
        try:
            ret = getattr(algo, method)(**kwargs)
            out = ("ok", canon(ret))
        except Exception as e:  # noqa: BLE001
            out = ("exc", type(e).__name__, str(e))
        outs.append((out, trace, list(Ctx.log), list(MPE_LOG), algo_state(algo)))
    if outs[0] != outs[1]:
        for i, (x, y) in enumerate(zip(outs[0], outs[1])):
            if x != y:
                print("component", i, "differs\n", x, "\n", y)
                break
        raise AssertionError(f"calling layer differs: {method} {actions} {kwargs}")
    return outs[0]


# the fake main loop needs the instance: hook __new__-less construction via __init__
for _mod in (old_sfp, new_sfp):
    _cls = _mod.SelFromPlot
    _orig_gui = _cls._initialize_gui

    def _gui(self, _orig_gui=_orig_gui):
        Ctx.instance = self
        return _orig_gui(self)

    _cls._initialize_gui = _gui


def level2():
    rng = np.random.default_rng(1616)
    set_mode(full=False)
    n = 0
    n_modes = 0

    # ---------------- synthetic pole tables: SSI family and pLSCF family
    ssi_classes = [("SSIdat", dict(br=5)), ("SSIcov", dict(br=5)),
                   ("SSIcov_MS", dict(br=5)), ("SSIdat_MS", dict(br=5))]
    for it in range(120):
        n_p, n_ord, n_ch = int(rng.integers(2, 7)), int(rng.integers(2, 9)), 3
        tabs = synth_tables(rng, n_p, n_ord, n_ch, cov=bool(it % 2),
                            nan_frac=float(rng.choice([0.0, 0.3, 0.6])))
        acts = [("press", "shift")] + random_actions(rng, int(rng.integers(0, 7)),
                                                     ymax=n_ord + 1.0, wild=it % 4 == 0)
        cname, kw = ssi_classes[it % len(ssi_classes)]
        rtol = float(rng.choice([1e-2, 5e-2, 0.0]))

        def mk(modalg, cname=cname, kw=kw, tabs=tabs, n_ord=n_ord):
            def f():
                a = getattr(modalg, cname)(name="x", ordmax=n_ord, **kw)
                a.fs, a.dt = 50.0, 0.02
                a.result = SSIResult(**copy.deepcopy(tabs))
                return a
            return f

        r = call_both(mk(old_alg_ssi), mk(new_alg_ssi), "mpe_from_plot", acts,
                      dict(freqlim=None if it % 3 else (0.0, 21.0), rtol=rtol))
        n += 1
        n_modes += r[0][0] == "ok"

        # mpe (order int / list / find_min / invalid), same tables
        sel = [float(v) for v in np.sort(rng.uniform(0.5, 20.0, size=int(rng.integers(1, 4))))]
        for order in (int(rng.integers(0, n_ord)),
                      [int(v) for v in rng.integers(0, n_ord, size=len(sel))],
                      "find_min", 2.5):
            call_both(mk(old_alg_ssi), mk(new_alg_ssi), "mpe", [],
                      dict(sel_freq=sel, order=order, rtol=rtol))
            n += 1

        # pLSCF family
        pname = ("pLSCF", "pLSCF_MS")[it % 2]
        ptabs = {k: v for k, v in tabs.items() if not k.endswith("_cov")}

        def mkp(modalg, pname=pname, ptabs=ptabs, n_ord=n_ord):
            def f():
                a = getattr(modalg, pname)(name="p", ordmax=n_ord)
                a.fs, a.dt = 50.0, 0.02
                a.result = pLSCFResult(**copy.deepcopy(ptabs))
                return a
            return f

        call_both(mkp(old_alg_plscf), mkp(new_alg_plscf), "mpe_from_plot", acts,
                  dict(freqlim=None, rtol=rtol))
        n += 1

    # not run yet -> same error
    for modpair, cname, kw in (((old_alg_ssi, new_alg_ssi), "SSIcov", dict(br=4, ordmax=6)),
                               ((old_alg_plscf, new_alg_plscf), "pLSCF", dict(ordmax=6)),
                               ((old_alg_fdd, new_alg_fdd), "FDD", dict())):
        def mk0(modalg, cname=cname, kw=kw):
            def f():
                a = getattr(modalg, cname)(name="n", **kw)
                a.fs, a.dt = 50.0, 0.02
                return a
            return f
        r = call_both(mk0(modpair[0]), mk0(modpair[1]), "mpe_from_plot", [], {})
        assert r[0][0] == "exc"
        n += 1

    # ---------------- real runs
    fs = 50.0
    t = np.arange(3000) / fs
    data = np.zeros((t.size, 4))
    shapes = rng.normal(size=(3, 4))
    for k, f0 in enumerate((2.3, 6.1, 11.7)):
        resp = np.convolve(rng.normal(size=t.size),
                           np.exp(-0.02 * 2 * np.pi * f0 * t[:600])
                           * np.sin(2 * np.pi * f0 * t[:600]), mode="full")[: t.size]
        data += np.outer(resp, shapes[k])
    data += 0.05 * rng.normal(size=data.shape)

    def real(modalg, cname, kw):
        a = getattr(modalg, cname)(name="r", **kw)
        a._set_data(data=data, fs=fs)
        a._set_result(a.run())
        return a

    cases = [
        ((old_alg_ssi, new_alg_ssi), "SSIcov", dict(br=12, ordmax=24), 24),
        ((old_alg_ssi, new_alg_ssi), "SSIdat", dict(br=10, ordmax=20), 20),
        ((old_alg_plscf, new_alg_plscf), "pLSCF", dict(ordmax=12, nxseg=256), 12),
        ((old_alg_fdd, new_alg_fdd), "FDD", dict(nxseg=256), 1),
    ]
    for (mo, mn), cname, kw, ymax in cases:
        base_old = real(mo, cname, kw)
        base_new = real(mn, cname, kw)
        assert algo_state(base_old) == algo_state(base_new), cname
        for it in range(25):
            acts = [("press", "shift")] + random_actions(
                rng, int(rng.integers(1, 7)), xmax=14.0, ymax=float(ymax), wild=it % 5 == 0)
            kwargs = dict(freqlim=(0.0, 15.0))
            if cname == "FDD":
                kwargs["DF"] = float(rng.choice([0.1, 0.3]))
            else:
                kwargs["rtol"] = float(rng.choice([1e-2, 5e-2]))
            r = call_both(lambda: copy.deepcopy(base_old), lambda: copy.deepcopy(base_new),
                          "mpe_from_plot", acts, kwargs)
            n += 1
            n_modes += r[0][0] == "ok"
    return n, n_modes


if __name__ == "__main__":
    n_exh, n_rand = level1()
    print(f"level 1 (dialog): {n_exh} exhaustive + {n_rand} random histories identical")
    n2, ok2 = level2()
    print(f"level 2 (calling layer): {n2} calls identical ({ok2} mpe_from_plot calls returned normally)")
    print("PASS")
