"""Equivalence check: refactored pyoma2.functions.ssi vs pristine HEAD copy.

Run:  cd /tmp/wt/R17 && PYTHONPATH=/tmp/wt/R17/src /venv/bin/python _refactor/equiv.py
"""
import importlib.util
import logging
import os
import sys
import warnings

import numpy as np

HERE = os.path.dirname(os.path.abspath(__file__))
sys.path.insert(0, os.path.join(os.path.dirname(HERE), "src"))
os.environ.setdefault("TQDM_DISABLE", "1")
logging.disable(logging.CRITICAL)
warnings.filterwarnings("ignore")


def load(name, path):
    spec = importlib.util.spec_from_file_location(name, path)
    mod = importlib.util.module_from_spec(spec)
    spec.loader.exec_module(mod)
    return mod


orig = load("orig_functions_ssi", os.path.join(HERE, "orig_functions_ssi.py"))
from pyoma2.functions import ssi as new  # noqa: E402

assert os.path.realpath(new.__file__).startswith("/tmp/wt/R17/src"), new.__file__

# silence progress bars in both modules
for m in (orig, new):
    m.trange = lambda *a, **k: range(*a)

stats = {"cases": 0, "arrays": 0, "bit_identical": 0, "max_rel": 0.0, "exceptions": 0,
         "finite_Fn_cov": 0, "positive_Fn_cov": 0}


def same(a, b, what):
    """Identical outputs: same type, shape, dtype, NaN pattern and values."""
    if a is None or b is None:
        assert a is None and b is None, what
        return
    if isinstance(a, (list, tuple)):
        assert type(a) is type(b) and len(a) == len(b), what
        for i, (x, y) in enumerate(zip(a, b)):
            same(x, y, f"{what}[{i}]")
        return
    a = np.asarray(a)
    b = np.asarray(b)
    assert a.shape == b.shape, (what, a.shape, b.shape)
    assert a.dtype == b.dtype, (what, a.dtype, b.dtype)
    assert np.array_equal(np.isnan(a), np.isnan(b)), (what, "NaN pattern")
    assert np.array_equal(np.isinf(a), np.isinf(b)), (what, "inf pattern")
    stats["arrays"] += 1
    if np.array_equal(a, b, equal_nan=True):
        stats["bit_identical"] += 1
        return
    fin = np.isfinite(a)
    scale = np.max(np.abs(a[fin])) if fin.any() else 1.0
    rel = np.max(np.abs(a[fin] - b[fin])) / (scale if scale > 0 else 1.0)
    stats["max_rel"] = max(stats["max_rel"], float(rel))
    assert np.allclose(a, b, rtol=1e-12, atol=1e-13 * scale, equal_nan=True), (what, rel)


def call_both(fname, *args, **kw):
    """Call the function in both modules; compare outputs or exceptions."""
    res = []
    for m in (orig, new):
        try:
            res.append(("ok", getattr(m, fname)(*args, **kw)))
        except Exception as e:  # noqa: BLE001
            res.append(("exc", e))
    (k0, r0), (k1, r1) = res
    assert k0 == k1, (fname, k0, r0, k1, r1)
    if k0 == "exc":
        assert type(r0) is type(r1), (fname, r0, r1)
        stats["exceptions"] += 1
        return None
    same(r0, r1, fname)
    return r1


def rand_hankel(rng, l, r, p, n_true, noise):
    """Exact low-rank Hankel of a random stable system plus a small full-rank part."""
    q = p + 1
    nm = max(1, n_true // 2)
    f = np.sort(rng.uniform(0.5, 8.0, nm))
    while nm > 1 and np.min(np.diff(f)) < 0.4:
        f = np.sort(rng.uniform(0.5, 8.0, nm))
    xi = rng.uniform(0.01, 0.05, nm)
    dt = 0.02
    lam = np.exp((-xi * 2 * np.pi * f + 1j * 2 * np.pi * f * np.sqrt(1 - xi**2)) * dt)
    blocks = []
    for z in lam:
        blocks.append(np.array([[z.real, z.imag], [-z.imag, z.real]]))
    n = 2 * nm
    A = np.zeros((n, n))
    for i, B in enumerate(blocks):
        A[2 * i : 2 * i + 2, 2 * i : 2 * i + 2] = B
    Tm = rng.standard_normal((n, n))
    A = Tm @ A @ np.linalg.inv(Tm)
    C = rng.standard_normal((l, n))
    G = rng.standard_normal((n, r))
    O = np.vstack([C @ np.linalg.matrix_power(A, i) for i in range(p + 1)])
    Ctr = np.hstack([np.linalg.matrix_power(A, i) @ G for i in range(q)])
    H = O @ Ctr
    H = H + noise * np.linalg.norm(H) / np.sqrt(H.size) * rng.standard_normal(H.shape)
    return H, dt


def sim_data(rng, l, ndat):
    """Response of a random 3-mode system to white noise, l channels."""
    nm = 3
    f = np.array([1.5, 3.7, 6.1]) * rng.uniform(0.9, 1.1, nm)
    xi = rng.uniform(0.01, 0.03, nm)
    fs = 50.0
    dt = 1 / fs
    lam = np.exp((-xi * 2 * np.pi * f + 1j * 2 * np.pi * f * np.sqrt(1 - xi**2)) * dt)
    n = 2 * nm
    A = np.zeros((n, n))
    for i, z in enumerate(lam):
        A[2 * i : 2 * i + 2, 2 * i : 2 * i + 2] = [[z.real, z.imag], [-z.imag, z.real]]
    C = rng.standard_normal((l, n))
    x = np.zeros(n)
    Y = np.empty((l, ndat))
    W = rng.standard_normal((n, ndat))
    for t in range(ndat):
        x = A @ x + W[:, t]
        Y[:, t] = C @ x
    Y += 0.05 * Y.std() * rng.standard_normal(Y.shape)
    return Y, dt


def pipeline(H, T, br, ordmax, dt, step, nb, calc_unc=True):
    out = call_both("SSI_fast", H, br, ordmax, step=step, calc_unc=calc_unc, T=T, nb=nb)
    if out is None:
        return
    Obs, A, C, Q1, Q2, Q3, Q4 = out
    res = call_both(
        "SSI_poles", Obs, A, C, ordmax, dt, step=step, calc_unc=calc_unc,
        Q1=Q1, Q2=Q2, Q3=Q3, Q4=Q4,
    )  # fmt: skip
    if res is not None and res[4] is not None:
        fin = np.isfinite(res[4])
        stats["finite_Fn_cov"] += int(fin.sum())
        stats["positive_Fn_cov"] += int((res[4][fin] > 0).sum())


rng = np.random.default_rng(20261003)

# --- 1. synthetic Hankel matrices, arbitrary covariance factor -------------------------
for case in range(48):
    l = int(rng.integers(1, 4))
    r = int(rng.integers(1, l + 1))
    p = int(rng.integers(2, 6))
    q = p + 1
    max_ord = min(8, p * l, q * r)
    if max_ord < 2:
        continue
    ordmax = int(rng.integers(2, max_ord + 1))
    nb = int(rng.integers(1, 21))
    n_true = int(rng.integers(2, 9))
    noise = float(10 ** rng.uniform(-6, -2))
    H, dt = rand_hankel(rng, l, r, p, n_true, noise)
    T = rng.standard_normal(((p + 1) * q * l * r, nb)) * 1e-3 * np.abs(H).max()
    step = 2 if case in (5, 17) else 1  # step > 1 with uncertainties raises in both
    pipeline(H, T, p, ordmax, dt, step, nb)
    stats["cases"] += 1

# --- 2. Hankel + factor estimated from data (build_hank, cov_mm) ------------------------
for case in range(24):
    l = int(rng.integers(1, 4))
    refs = np.sort(rng.choice(l, size=int(rng.integers(1, l + 1)), replace=False))
    p = int(rng.integers(2, 6))
    nb = int(rng.integers(2, 21))
    Y, dt = sim_data(rng, l, int(rng.integers(1500, 4000)))
    Yref = Y[refs, :]
    out = call_both("build_hank", Y, Yref, p, "cov_mm", calc_unc=True, nb=nb)
    H, T = out
    assert T.shape == ((p + 1) * (p + 1) * l * len(refs), nb)
    max_ord = min(8, p * l, (p + 1) * len(refs))
    if max_ord >= 2:
        ordmax = int(rng.integers(2, max_ord + 1))
        pipeline(H, T, p, ordmax, dt, 1, nb)
    stats["cases"] += 1

# --- 3. other branches / error paths stay the same --------------------------------------
Y, dt = sim_data(rng, 3, 1200)
for method in ("cov_mm", "cov_R", "dat"):
    call_both("build_hank", Y, Y[:2], 4, method, calc_unc=False)
    call_both("build_hank", Y, Y[:2], 4, method, calc_unc=True, nb=7)  # raises for non cov_mm
call_both("build_hank", Y, Y[:2], 4, "nope")
call_both("build_hank", Y, Y[:2], 4, "cov_mm", calc_unc=True, nb=1)  # 0/0 -> NaN pattern
call_both("build_hank", Y, Y[:2], 4, "cov_mm", calc_unc=1, nb=5)  # truthy but not True
H, _ = new.build_hank(Y, Y[:2], 4, "cov_mm")
pipeline(H, None, 4, 6, dt, 1, 100, calc_unc=False)
pipeline(H, None, 4, 6, dt, 2, 100, calc_unc=False)
call_both("SSI_fast", H, 4, 6, calc_unc=True, T=None, nb=5)  # T missing -> same exception
Tbad = rng.standard_normal((H.size, 4))
call_both("SSI_fast", H, 4, 6, calc_unc=True, T=Tbad, nb=5)  # nb mismatch -> same exception
stats["cases"] += 12

# --- 4. the extracted helper is the commutation matrix ----------------------------------
for n in range(1, 9):
    X = rng.standard_normal((n, n))
    P = new._vec_permutation(n)
    assert np.array_equal(P @ X.reshape(-1, order="F"), X.T.reshape(-1, order="F"))

# --- 5. end to end through the algorithm class ------------------------------------------
from pyoma2.algorithms.ssi import SSIcov  # noqa: E402

REFACTORED = {n: getattr(new, n) for n in ("build_hank", "SSI_fast", "SSI_poles")}


def run_class(Y, fs, funcs, **kw):
    for n, f in funcs.items():
        setattr(new, n, f)
    try:
        alg = SSIcov(name="x", **kw)
        alg._set_data(data=Y.T, fs=fs)
        return alg.run()
    finally:
        for n, f in REFACTORED.items():
            setattr(new, n, f)


for case in range(6):
    l = int(rng.integers(2, 4))
    Y, dt = sim_data(rng, l, 3000)
    br = int(rng.integers(3, 6))
    ref_ind = [0] if case % 2 else None
    hc = {"conj": bool(case < 2), "xi_max": 0.5, "mpc_lim": 0.0, "mpd_lim": 1.0, "cov_max": 10.0}
    kw = dict(br=br, ordmax=min(6, br * l, (br + 1) * (1 if ref_ind else l)), calc_unc=True,
              nb=int(rng.integers(5, 21)), ref_ind=ref_ind, hc=hc)  # fmt: skip
    r_new = run_class(Y, 1 / dt, REFACTORED, **kw)
    r_old = run_class(Y, 1 / dt, {n: getattr(orig, n) for n in REFACTORED}, **kw)
    for attr in ("Fn_poles", "Xi_poles", "Phi_poles", "Fn_poles_cov", "Xi_poles_cov", "Lab"):
        same(getattr(r_old, attr), getattr(r_new, attr), f"SSIcov.{attr}")
    print("class case", case, "finite Fn_poles:", int(np.isfinite(r_new.Fn_poles).sum()), "finite Fn_poles_cov:", int(np.isfinite(r_new.Fn_poles_cov).sum()))
    stats["cases"] += 1

print(stats)
assert stats["cases"] >= 60 and stats["exceptions"] >= 4 and stats["positive_Fn_cov"] > 500
print("PASS")
