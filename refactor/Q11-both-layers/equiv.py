"""
Equivalence check for the C11 refactoring (modal parameter extraction).

Runs the refactored routines / classes of the worktree and the ORIGINAL ones
(pristine copies orig_*.py taken from HEAD) on the same random inputs and asserts
identical outputs (values, shapes, dtypes, NaN pattern), identical exceptions and
the same number of logged warnings.

Usage:  PYTHONPATH=/tmp/wt/Q11/src /venv/bin/python /tmp/wt/Q11/_refactor/equiv.py
"""

import copy
import importlib.util
import logging
import os
import sys

os.environ.setdefault("TQDM_DISABLE", "1")
os.environ.setdefault("MPLBACKEND", "Agg")

import numpy as np  # noqa: E402

HERE = os.path.dirname(os.path.abspath(__file__))


def load(name, fname):
    spec = importlib.util.spec_from_file_location(name, os.path.join(HERE, fname))
    mod = importlib.util.module_from_spec(spec)
    sys.modules[name] = mod
    spec.loader.exec_module(mod)
    return mod


import pyoma2.algorithms.plscf as new_alg_plscf  # noqa: E402
import pyoma2.algorithms.ssi as new_alg_ssi  # noqa: E402
from pyoma2.algorithms.data.result import pLSCFResult, SSIResult  # noqa: E402
from pyoma2.functions import plscf as new_plscf  # noqa: E402
from pyoma2.functions import ssi as new_ssi  # noqa: E402

assert new_ssi.__file__.startswith("/tmp/wt/Q11/src"), new_ssi.__file__

orig_ssi = load("pyoma2.functions._orig_ssi", "orig_functions_ssi.py")
orig_plscf = load("pyoma2.functions._orig_plscf", "orig_functions_plscf.py")
# the original algorithm modules use relative imports -> load them inside the package
orig_alg_ssi = load("pyoma2.algorithms._orig_ssi", "orig_algorithms_ssi.py")
orig_alg_plscf = load("pyoma2.algorithms._orig_plscf", "orig_algorithms_plscf.py")
# ... and make them call the ORIGINAL numerical routines
orig_alg_ssi.ssi = orig_ssi
orig_alg_plscf.plscf = orig_plscf


# ----------------------------------------------------------------------------
# helpers
# ----------------------------------------------------------------------------
class Counter(logging.Handler):
    def __init__(self):
        super().__init__(level=logging.WARNING)
        self.msgs = []

    def emit(self, record):
        self.msgs.append(record.getMessage())


def counter_for(*modules):
    h = Counter()
    for m in modules:
        m.logger.addHandler(h)
        m.logger.propagate = False
    return h


H_NEW = counter_for(new_ssi, new_plscf)
H_OLD = counter_for(orig_ssi, orig_plscf)


def same(a, b, path="out"):
    """Strict equality of two results (type, dtype, shape, values incl. NaN)."""
    if isinstance(a, (tuple, list)):
        assert type(a) is type(b), (path, type(a), type(b))
        assert len(a) == len(b), (path, len(a), len(b))
        for k, (x, y) in enumerate(zip(a, b)):
            same(x, y, f"{path}[{k}]")
        return
    if a is None or b is None:
        assert a is None and b is None, (path, a, b)
        return
    assert type(a) is type(b), (path, type(a), type(b))
    if isinstance(a, np.ndarray):
        assert a.dtype == b.dtype, (path, a.dtype, b.dtype)
        assert a.shape == b.shape, (path, a.shape, b.shape)
        assert np.array_equal(a, b, equal_nan=True), (path, a, b)
        return
    if isinstance(a, (float, np.floating)) and np.isnan(a):
        assert np.isnan(b), (path, a, b)
        return
    assert a == b, (path, a, b)


def call(fun, args, kwargs):
    args = copy.deepcopy(args)
    kwargs = copy.deepcopy(kwargs)
    try:
        with np.errstate(all="ignore"):
            out = fun(*args, **kwargs)
        return ("ok", out), (args, kwargs)
    except Exception as e:  # noqa: BLE001
        return ("exc", type(e), str(e)), (args, kwargs)


def compare(f_new, f_old, args, kwargs, tag):
    H_NEW.msgs.clear()
    H_OLD.msgs.clear()
    r_new, in_new = call(f_new, args, kwargs)
    r_old, in_old = call(f_old, args, kwargs)
    assert r_new[0] == r_old[0], (tag, r_new, r_old)
    if r_new[0] == "exc":
        assert r_new[1] is r_old[1], (tag, r_new, r_old)
        # UnboundLocalError messages name the local variable only
        assert r_new[2] == r_old[2], (tag, r_new, r_old)
    else:
        same(r_new[1], r_old[1], tag)
    # inputs left in the same state by both
    same(_plain(in_new), _plain(in_old), tag + ":inputs")
    assert H_NEW.msgs == H_OLD.msgs, (tag, H_NEW.msgs, H_OLD.msgs)
    return r_new


def _plain(x):
    if isinstance(x, dict):
        return [(k, _plain(v)) for k, v in sorted(x.items())]
    if isinstance(x, (tuple, list)):
        return [_plain(v) for v in x]
    return x


# ----------------------------------------------------------------------------
# random pole tables
# ----------------------------------------------------------------------------
def make_table(rng, stable_label, kind):
    n_ord = int(rng.integers(1, 14)) if kind != "tiny" else int(rng.integers(1, 3))
    n_row = int(rng.integers(3, 12))
    n_ch = int(rng.integers(2, 6))
    n_modes = int(rng.integers(1, 5))
    modes = np.sort(rng.uniform(1.0, 40.0, n_modes))
    # keep modes well separated
    modes = modes + 8.0 * np.arange(n_modes)
    Fn = np.full((n_row, n_ord), np.nan)
    Lab = np.zeros((n_row, n_ord), dtype=int)
    if kind == "uniform":
        Fn = rng.uniform(0.5, 60.0, (n_row, n_ord))
        Lab = rng.integers(0, 8, (n_row, n_ord))
        Lab[rng.random((n_row, n_ord)) < 0.3] = stable_label
    else:
        p_present = rng.uniform(0.3, 1.0)
        jitter = rng.choice([0.0, 1e-4, 1e-2, 0.2])
        for j in range(n_ord):
            rows = list(rng.permutation(n_row))
            for fk in modes:
                if rows and rng.random() < p_present:
                    r = rows.pop()
                    Fn[r, j] = fk * (1 + jitter * rng.uniform(-1, 1))
                    Lab[r, j] = stable_label if rng.random() < 0.7 else rng.integers(0, 8)
                    # sometimes a second (possibly stable) pole close to the mode
                    if rows and rng.random() < 0.15:
                        r2 = rows.pop()
                        Fn[r2, j] = fk * (1 + 0.004 * rng.uniform(-1, 1))
                        Lab[r2, j] = stable_label if rng.random() < 0.5 else 0
                    # ... or an exact duplicate
                    elif rows and rng.random() < 0.1:
                        r2 = rows.pop()
                        Fn[r2, j] = Fn[r, j]
                        Lab[r2, j] = Lab[r, j]
            # spurious poles
            for r in rows:
                if rng.random() < 0.4:
                    Fn[r, j] = rng.uniform(0.5, 90.0)
                    Lab[r, j] = rng.integers(0, 8)
        if kind == "nancol" and n_ord > 1:
            Fn[:, int(rng.integers(0, n_ord))] = np.nan
    Xi = rng.uniform(0.001, 0.1, (n_row, n_ord))
    Phi = rng.normal(size=(n_row, n_ord, n_ch)) + 1j * rng.normal(size=(n_row, n_ord, n_ch))
    nanmask = np.isnan(Fn)
    Xi[nanmask] = np.nan
    Phi[nanmask] = np.nan
    return modes, Fn, Xi, Phi, Lab


def make_request(rng, modes, n_ord):
    mode = rng.choice(["exact", "perturbed", "missing", "subset", "empty", "ints"],
                      p=[0.3, 0.3, 0.15, 0.15, 0.05, 0.05])
    if mode == "exact":
        freqs = list(modes)
    elif mode == "perturbed":
        freqs = list(modes * (1 + rng.uniform(-0.02, 0.02, modes.shape)))
    elif mode == "missing":
        freqs = list(modes) + [float(modes[-1] + 30.0)]
    elif mode == "subset":
        k = int(rng.integers(1, len(modes) + 1))
        freqs = list(modes[:k])
    elif mode == "empty":
        freqs = []
    else:
        freqs = [int(round(f)) for f in modes]
    freqs = [float(f) if mode != "ints" else f for f in freqs]
    okind = rng.choice(["int", "list", "find_min", "neg", "bad", "short", "oob"],
                       p=[0.3, 0.3, 0.25, 0.04, 0.04, 0.03, 0.04])
    if okind == "int":
        order = int(rng.integers(0, n_ord))
    elif okind == "neg":
        order = -int(rng.integers(1, n_ord + 1))
    elif okind == "list":
        order = [int(o) for o in rng.integers(0, n_ord, len(freqs))]
    elif okind == "short":
        order = [int(o) for o in rng.integers(0, n_ord, max(len(freqs) - 1, 0))]
    elif okind == "oob":
        order = n_ord + 2
    elif okind == "bad":
        order = [None, "foo", 2.5, np.int64(0), (0, 1)][int(rng.integers(0, 5))]
    else:
        order = "find_min"
    return freqs, order


# ----------------------------------------------------------------------------
# A. numerical routines
# ----------------------------------------------------------------------------
def _count_exc(stats, who, r):
    if r[0] == "exc":
        key = f"{who}:{r[1].__name__}"
        stats["exc_types"][key] = stats["exc_types"].get(key, 0) + 1


def check_functions(n_cases=400):
    rng = np.random.default_rng(20241111)
    stats = {"ok": 0, "exc": 0, "nonempty": 0, "find_min_hit": 0, "find_min_hit_plscf": 0, "exc_types": {}}
    for case in range(n_cases):
        kind = rng.choice(["struct", "uniform", "nancol", "tiny"], p=[0.65, 0.15, 0.1, 0.1])
        # ---------------- SSI ----------------
        modes, Fn, Xi, Phi, Lab = make_table(rng, 1, kind)
        freqs, order = make_request(rng, modes, Fn.shape[1])
        rtol = float(rng.choice([1e-3, 1e-2, 5e-2, 0.3]))
        kwargs = {"rtol": rtol}
        if rng.random() < 0.85:
            kwargs["Lab"] = Lab
        if rng.random() < 0.5:
            kwargs["Fn_cov"] = rng.uniform(0, 1, Fn.shape)
            kwargs["Xi_cov"] = rng.uniform(0, 1, Fn.shape)
            kwargs["Phi_cov"] = rng.uniform(0, 1, Phi.shape)
        r = compare(new_ssi.SSI_mpe, orig_ssi.SSI_mpe, (freqs, Fn, Xi, Phi, order), kwargs,
                    f"SSI_mpe#{case}")
        stats[r[0]] += 1
        _count_exc(stats, "SSI", r)
        if r[0] == "ok":
            stats["nonempty"] += int(r[1][0].size > 0)
            stats["find_min_hit"] += int(isinstance(order, str) and r[1][3] is not None)

        # ---------------- pLSCF ----------------
        modes, Fn, Xi, Phi, Lab = make_table(rng, 7, kind)
        freqs, order = make_request(rng, modes, Fn.shape[1])
        kwargs = {"rtol": float(rng.choice([1e-3, 1e-2, 5e-2, 0.3]))}
        if rng.random() < 0.85:
            kwargs["Lab"] = Lab
        if rng.random() < 0.6:
            kwargs["deltaf"] = float(rng.choice([0.01, 0.05, 0.5, 3.0]))
        if rng.random() < 0.8:
            kwargs["order"] = order
        r = compare(new_plscf.pLSCF_mpe, orig_plscf.pLSCF_mpe, (freqs, Fn, Xi, Phi), kwargs,
                    f"pLSCF_mpe#{case}")
        stats[r[0]] += 1
        _count_exc(stats, "pLSCF", r)
        if r[0] == "ok":
            stats["nonempty"] += int(r[1][0].size > 0)
            stats["find_min_hit_plscf"] += int(isinstance(order, str) and r[1][0].size > 0)
    return stats


# ----------------------------------------------------------------------------
# B. algorithm classes (mpe / mpe_from_plot)
# ----------------------------------------------------------------------------
class FakeSFP:
    """Stand-in for the interactive selection: returns a prepared (freqs, orders)."""

    next_result = None
    calls = []

    def __init__(self, algo, freqlim=None, plot=None):
        FakeSFP.calls.append((type(algo).__name__, freqlim, plot))
        self.result = FakeSFP.next_result


for _m in (new_alg_ssi, orig_alg_ssi, new_alg_plscf, orig_alg_plscf):
    _m.SelFromPlot = FakeSFP

RESULT_FIELDS = ["Fn", "Xi", "Phi", "order_out", "Fn_cov", "Xi_cov", "Phi_cov",
                 "Fn_poles", "Xi_poles", "Phi_poles", "Lab"]


def snapshot(algo):
    res = algo.result
    out = [getattr(res, f, "<missing>") for f in RESULT_FIELDS] if res is not None else None
    rp = algo.run_params
    return out, [rp.sel_freq, rp.order_in, rp.rtol]


def run_method(algo, meth, args, kwargs):
    try:
        with np.errstate(all="ignore"):
            ret = getattr(algo, meth)(*copy.deepcopy(args), **copy.deepcopy(kwargs))
        return ("ok", ret)
    except Exception as e:  # noqa: BLE001
        return ("exc", type(e), str(e))


def check_classes(n_cases=150):
    rng = np.random.default_rng(777)
    pairs = [
        ("SSIdat", new_alg_ssi.SSIdat, orig_alg_ssi.SSIdat, 1),
        ("SSIcov", new_alg_ssi.SSIcov, orig_alg_ssi.SSIcov, 1),
        ("SSIdat_MS", new_alg_ssi.SSIdat_MS, orig_alg_ssi.SSIdat_MS, 1),
        ("SSIcov_MS", new_alg_ssi.SSIcov_MS, orig_alg_ssi.SSIcov_MS, 1),
        ("pLSCF", new_alg_plscf.pLSCF, orig_alg_plscf.pLSCF, 7),
        ("pLSCF_MS", new_alg_plscf.pLSCF_MS, orig_alg_plscf.pLSCF_MS, 7),
    ]
    n_ok = n_exc = 0
    for case in range(n_cases):
        name, ClsNew, ClsOld, stab = pairs[case % len(pairs)]
        is_ssi = name.startswith("SSI")
        kind = rng.choice(["struct", "uniform", "nancol"], p=[0.8, 0.1, 0.1])
        modes, Fn, Xi, Phi, Lab = make_table(rng, stab, kind)
        freqs, order = make_request(rng, modes, Fn.shape[1])
        with_cov = is_ssi and rng.random() < 0.5
        algos = []
        for Cls in (ClsNew, ClsOld):
            if is_ssi:
                algo = Cls(name="x", br=10, ordmax=Fn.shape[1])
                res = SSIResult(Fn_poles=Fn.copy(), Xi_poles=Xi.copy(), Phi_poles=Phi.copy(),
                                Lab=Lab.copy())
                if with_cov:
                    crng = np.random.default_rng(case)
                    res.Fn_poles_cov = crng.uniform(0, 1, Fn.shape)
                    res.Xi_poles_cov = crng.uniform(0, 1, Fn.shape)
                    res.Phi_poles_cov = crng.uniform(0, 1, Phi.shape)
            else:
                algo = Cls(name="x", ordmax=Fn.shape[1])
                res = pLSCFResult(Fn_poles=Fn.copy(), Xi_poles=Xi.copy(), Phi_poles=Phi.copy(),
                                  Lab=Lab.copy())
            if case % 17 != 16:  # sometimes: mpe before run -> "Run algorithm first"
                algo._set_result(res)
            algos.append(algo)

        which = rng.choice(["mpe", "mpe_kw", "mpe_default", "plot"])
        if which == "mpe":
            meth, args, kwargs = "mpe", (freqs, order, float(rng.choice([1e-2, 5e-2, 0.3]))), {}
        elif which == "mpe_kw":
            meth, args, kwargs = "mpe", (), {"sel_freq": freqs, "order": order}
        elif which == "mpe_default":
            meth, args, kwargs = "mpe", (freqs,), {}
        else:
            # the interactive selection delivers a list of frequencies and of orders
            if not isinstance(order, list):
                order = [int(o) for o in rng.integers(0, Fn.shape[1], len(freqs))]
            FakeSFP.next_result = (freqs, order)
            meth, args = "mpe_from_plot", ()
            kwargs = {} if rng.random() < 0.5 else {"freqlim": (0.0, 50.0), "rtol": 0.05}

        FakeSFP.calls.clear()
        H_NEW.msgs.clear()
        H_OLD.msgs.clear()
        r_new = run_method(algos[0], meth, args, kwargs)
        calls_new = list(FakeSFP.calls)
        FakeSFP.calls.clear()
        r_old = run_method(algos[1], meth, args, kwargs)
        calls_old = list(FakeSFP.calls)
        tag = f"{name}.{meth}#{case}"
        same(list(r_new), list(r_old), tag)
        same(calls_new, calls_old, tag + ":sfp")
        s_new, s_old = snapshot(algos[0]), snapshot(algos[1])
        same(_plain(s_new), _plain(s_old), tag + ":state")
        assert H_NEW.msgs == H_OLD.msgs, (tag, H_NEW.msgs, H_OLD.msgs)
        if r_new[0] == "ok":
            n_ok += 1
        else:
            n_exc += 1
    return n_ok, n_exc


# ----------------------------------------------------------------------------
# C. end to end on simulated data: run() + mpe() of both class versions
# ----------------------------------------------------------------------------
def simulate(rng, n=6000, fs=50.0):
    """Response of a 4-dof shear frame to white noise (5 channels with a repeated one)."""
    ndof = 4
    k, m = 3000.0, 2.0
    K = np.zeros((ndof, ndof))
    for i in range(ndof):
        K[i, i] = 2 * k if i < ndof - 1 else k
        if i > 0:
            K[i, i - 1] = K[i - 1, i] = -k
    w2, V = np.linalg.eigh(K / m)
    wn = np.sqrt(w2)
    xi = 0.02
    dt = 1 / fs
    q = np.zeros((n, ndof))
    for j in range(ndof):
        # modal SDOF via exact discretisation
        wd = wn[j] * np.sqrt(1 - xi**2)
        A = np.array([[0, 1], [-wn[j] ** 2, -2 * xi * wn[j]]])
        from scipy.linalg import expm

        Ad = expm(A * dt)
        Bd = np.linalg.solve(A, (Ad - np.eye(2))) @ np.array([0.0, 1.0])
        x = np.zeros(2)
        f = rng.normal(size=n)
        for t in range(n):
            q[t, j] = x[0]
            x = Ad @ x + Bd * f[t]
        del wd
    y = q @ V.T
    y = y + 0.02 * y.std() * rng.normal(size=y.shape)
    return y, fs, wn / 2 / np.pi


def check_end_to_end():
    rng = np.random.default_rng(5)
    data, fs, fn_true = simulate(rng)
    done = []
    specs = [
        ("SSIcov", new_alg_ssi.SSIcov, orig_alg_ssi.SSIcov, dict(br=12, ordmax=24)),
        ("SSIdat", new_alg_ssi.SSIdat, orig_alg_ssi.SSIdat, dict(br=10, ordmax=20)),
        ("SSIcov_unc", new_alg_ssi.SSIcov, orig_alg_ssi.SSIcov,
         dict(br=8, ordmax=16, calc_unc=True, nb=20)),
        ("pLSCF", new_alg_plscf.pLSCF, orig_alg_plscf.pLSCF, dict(ordmax=14, nxseg=512)),
    ]
    for name, ClsNew, ClsOld, params in specs:
        algos = []
        for Cls in (ClsNew, ClsOld):
            algo = Cls(name=name, **params)
            algo._set_data(data=data.copy(), fs=fs)
            with np.errstate(all="ignore"):
                algo._set_result(algo.run())
            algos.append(algo)
        same(_plain(snapshot(algos[0])), _plain(snapshot(algos[1])), name + ":run")
        n_ord = algos[0].result.Fn_poles.shape[1]
        requests = [
            (list(fn_true[:3]), "find_min", 5e-2),
            (list(fn_true), "find_min", 1e-2),
            (list(fn_true[:3]), n_ord - 1, 5e-2),
            (list(fn_true[:2]) + [fn_true[2] * 1.2], n_ord - 2, 2e-2),
            (list(fn_true[:3]), [n_ord - 1, n_ord - 3, n_ord - 2], 5e-2),
            (list(fn_true[:2]), [n_ord // 2, n_ord - 1], 1e-3),
        ]
        for k, (freqs, order, rtol) in enumerate(requests):
            H_NEW.msgs.clear()
            H_OLD.msgs.clear()
            r_new = run_method(algos[0], "mpe", (freqs,), {"order": order, "rtol": rtol})
            r_old = run_method(algos[1], "mpe", (freqs,), {"order": order, "rtol": rtol})
            tag = f"{name}:e2e#{k}"
            same(list(r_new), list(r_old), tag)
            same(_plain(snapshot(algos[0])), _plain(snapshot(algos[1])), tag + ":state")
            assert H_NEW.msgs == H_OLD.msgs, tag
            done.append((name, k, r_new[0], np.size(algos[0].result.Fn)))
    return done


if __name__ == "__main__":
    st = check_functions()
    print("functions:", st)
    assert st["ok"] > 300 and st["exc"] > 20 and st["nonempty"] > 150, st
    assert st["find_min_hit"] > 10 and st["find_min_hit_plscf"] > 10, st
    ok, exc = check_classes()
    print(f"classes: {ok} ok, {exc} equal exceptions")
    assert ok > 60, (ok, exc)
    e2e = check_end_to_end()
    print("end-to-end:", e2e)
    print("PASS")
