"""
Differential test: the library on PYTHONPATH (CLEAN version of the commit) against the
unmodified implementation, loaded from the copies orig_ssi_functions.py /
orig_ssi_algorithms.py that sit next to this script.

Run as:  PYTHONPATH=<tree>/src /venv/bin/python equiv.py      -> PASS, exit 0
"""
import importlib.util
import logging
import os
import sys

import numpy as np

logging.disable(logging.CRITICAL)

import pyoma2.algorithms.ssi as new_alg  # noqa: E402
import pyoma2.functions.ssi as new_fn  # noqa: E402
from pyoma2.algorithms.data.result import SSIResult  # noqa: E402

HERE = os.path.dirname(os.path.abspath(__file__))


def load(name, fname):
    spec = importlib.util.spec_from_file_location(name, os.path.join(HERE, fname))
    mod = importlib.util.module_from_spec(spec)
    sys.modules[name] = mod
    spec.loader.exec_module(mod)
    return mod


old_fn = load("pyoma2.functions.orig_ssi", "orig_ssi_functions.py")
old_alg = load("pyoma2.algorithms.orig_ssi", "orig_ssi_algorithms.py")
old_alg.ssi = old_fn  # the pristine classes call the pristine routine
new_fn.tqdm = old_fn.tqdm = lambda it, **kw: it

N_ROW, N_ORD, N_CH = 12, 20, 4
F_TRUE = np.array([2.0, 5.0, 9.0, 14.0])
mismatches = []
n_cases = 0


def same(a, b):
    if a is None or b is None:
        return a is None and b is None
    a, b = np.asarray(a), np.asarray(b)
    if a.shape != b.shape:
        return False
    if a.size == 0:
        return True
    return np.array_equal(a, b, equal_nan=True) or np.allclose(
        a, b, rtol=1e-12, atol=0, equal_nan=True
    )


def call(f, *a, **k):
    try:
        return ("ok", f(*a, **k))
    except Exception as e:  # noqa: BLE001
        return ("exc", type(e))


def compare(tag, r_old, r_new):
    global n_cases
    n_cases += 1
    if r_old[0] != r_new[0]:
        mismatches.append(f"{tag}: old {r_old[0]} {r_old[1] if r_old[0]=='exc' else ''}, "
                          f"new {r_new[0]} {r_new[1] if r_new[0]=='exc' else ''}")
        return
    if r_old[0] == "exc":
        if r_old[1] is not r_new[1]:
            mismatches.append(f"{tag}: exception {r_old[1].__name__} vs {r_new[1].__name__}")
        return
    for i, (x, y) in enumerate(zip(r_old[1], r_new[1])):
        if not same(x, y):
            mismatches.append(f"{tag}: output {i} differs: {x!r} vs {y!r}")
            return


def make_tables(rng, with_cov, stable_from=None):
    Fn = np.full((N_ROW, N_ORD), np.nan)
    Lab = np.zeros((N_ROW, N_ORD), dtype=int)
    for c in range(1, N_ORD):
        rows = list(rng.permutation(N_ROW))
        for f in F_TRUE:
            if rng.random() < 0.8:
                r = rows.pop()
                tight = stable_from is not None and c >= stable_from
                Fn[r, c] = f * (1 + rng.uniform(-1, 1) * (2e-4 if tight else 0.04))
                Lab[r, c] = 1 if (tight or rng.random() < 0.5) else 0
        for _ in range(rng.integers(0, 4)):
            r = rows.pop()
            Fn[r, c] = rng.uniform(0.5, 20.0)
            Lab[r, c] = int(rng.integers(0, 2))
    ok = ~np.isnan(Fn)
    Xi = np.where(ok, rng.uniform(0.001, 0.05, Fn.shape), np.nan)
    Phi = np.where(
        ok[:, :, None],
        rng.normal(size=(N_ROW, N_ORD, N_CH)) + 1j * rng.normal(size=(N_ROW, N_ORD, N_CH)),
        np.nan,
    )
    cov = (None, None, None)
    if with_cov:
        cov = (
            np.where(ok, rng.uniform(0, 1e-3, Fn.shape), np.nan),
            np.where(ok, rng.uniform(0, 1e-3, Fn.shape), np.nan),
            np.where(ok[:, :, None], rng.uniform(0, 1e-3, (N_ROW, N_ORD, N_CH)), np.nan),
        )
    return Fn, Xi, Phi, Lab, cov


def pick(rng, Fn, kind):
    k = int(rng.integers(1, len(F_TRUE) + 1))
    sel = [float(f) for f in np.sort(rng.choice(F_TRUE, size=k, replace=False))]
    if rng.random() < 0.3:  # requested value slightly off the nominal one
        sel = [f * (1 + rng.uniform(-0.01, 0.01)) for f in sel]
    cols = [c for c in range(N_ORD) if not np.all(np.isnan(Fn[:, c]))]
    if kind == "int":
        order = int(rng.choice(cols))
    elif kind == "list":
        order = [int(o) for o in rng.choice(cols, size=k)]
    else:
        order = "find_min"
    return sel, order


# ----------------------------------------------------------------------------------
def part_function(rng):
    kinds = ["int", "list", "find_min"]
    for it in range(90):
        kind = kinds[it % 3]
        with_cov = (it // 3) % 2 == 0
        Fn, Xi, Phi, Lab, cov = make_tables(
            rng, with_cov, stable_from=int(rng.integers(3, N_ORD)) if kind == "find_min" else None
        )
        sel, order = pick(rng, Fn, kind)
        if kind == "find_min":
            sel = [float(f) for f in F_TRUE[: len(sel)]]
        rtol = float(rng.choice([0.002, 0.01, 0.03, 0.05, 0.1]))
        kw = dict(Lab=Lab, rtol=rtol, Fn_cov=cov[0], Xi_cov=cov[1], Phi_cov=cov[2])
        r_old = call(old_fn.SSI_mpe, sel, Fn, Xi, Phi, order, **kw)
        r_new = call(new_fn.SSI_mpe, sel, Fn, Xi, Phi, order, **kw)
        compare(f"SSI_mpe[{it},{kind}]", r_old, r_new)
        # positional Lab, default tolerance, as in the unit tests
        compare(
            f"SSI_mpe[{it},{kind},positional]",
            call(old_fn.SSI_mpe, sel, Fn, Xi, Phi, order, Lab),
            call(new_fn.SSI_mpe, sel, Fn, Xi, Phi, order, Lab),
        )
        # the newly accepted spellings give what the old list / int form gave
        if kind == "int":
            alts = [np.int64(order), [order] * len(sel), np.full(len(sel), order)]
        elif kind == "list":
            alts = [tuple(order), np.array(order)]
        else:
            alts = []
        for a in alts:
            r_alt = call(new_fn.SSI_mpe, np.array(sel), Fn, Xi, Phi, a, progress=False, **kw)
            if r_alt[0] != "ok" or not all(
                same(x, y) for i, (x, y) in enumerate(zip(r_old[1], r_alt[1])) if i != 3
            ):
                mismatches.append(f"SSI_mpe[{it}] alternative order spelling {a!r} differs")

    # error behaviour that is kept
    Fn, Xi, Phi, Lab, cov = make_tables(rng, False)
    sel = [2.0, 5.0]
    for tag, args, kw in [
        ("bad string", (sel, Fn, Xi, Phi, "invalid"), dict(Lab=Lab)),
        ("find_min without Lab", (sel, Fn, Xi, Phi, "find_min"), dict(Lab=None)),
        ("float order", (sel, Fn, Xi, Phi, 3.0), dict(Lab=Lab)),
        ("None order", (sel, Fn, Xi, Phi, None), dict(Lab=Lab)),
        ("empty order column", (sel, Fn, Xi, Phi, 0), dict(Lab=Lab)),
        ("empty order column in list", (sel, Fn, Xi, Phi, [3, 0]), dict(Lab=Lab)),
        ("empty request, list", ([], Fn, Xi, Phi, []), dict(Lab=None)),
        ("empty request, list, cov", ([], Fn, Xi, Phi, []),
         dict(Lab=None, Fn_cov=Fn, Xi_cov=Xi, Phi_cov=Phi.real)),
    ]:
        compare(f"SSI_mpe {tag}", call(old_fn.SSI_mpe, *args, **kw), call(new_fn.SSI_mpe, *args, **kw))


# ----------------------------------------------------------------------------------
class FakeSFP:
    """Stands in for the interactive selection window."""

    picks = ([], [])

    def __init__(self, algo, freqlim=None, plot="SSI"):
        self.result = FakeSFP.picks


old_alg.SelFromPlot = FakeSFP
new_alg.SelFromPlot = FakeSFP

FIELDS = ["Fn", "Xi", "Phi", "order_out", "Fn_cov", "Xi_cov", "Phi_cov",
          "Fn_poles", "Xi_poles", "Phi_poles", "Lab"]


def state(alg):
    rp = alg.run_params
    out = [getattr(alg.result, f) for f in FIELDS]
    out += [rp.sel_freq, rp.order_in if not isinstance(rp.order_in, str) else None, rp.rtol]
    out += [0 if not isinstance(rp.order_in, str) else len(rp.order_in)]
    return out


def part_classes(rng):
    names = ["SSIdat", "SSIcov", "SSIdat_MS", "SSIcov_MS"]
    for it in range(40):
        with_cov = it % 2 == 0
        Fn, Xi, Phi, Lab, cov = make_tables(rng, with_cov, stable_from=int(rng.integers(3, N_ORD)))
        name = names[it % 4]
        ctor = dict(name="a", br=8, ordmax=N_ORD - 1, calc_unc=with_cov)
        if it % 5 == 0:
            ctor["rtol"] = 0.01
        objs = []
        for mod in (old_alg, new_alg):
            alg = getattr(mod, name)(**ctor)
            alg.result = SSIResult(
                Fn_poles=Fn.copy(), Xi_poles=Xi.copy(), Phi_poles=Phi.copy(), Lab=Lab.copy(),
                Fn_poles_cov=None if cov[0] is None else cov[0].copy(),
                Xi_poles_cov=None if cov[1] is None else cov[1].copy(),
                Phi_poles_cov=None if cov[2] is None else cov[2].copy(),
            )
            objs.append(alg)
        for c in range(4):  # several calls on the same pair of objects
            kind = ["int", "list", "find_min", "plot"][int(rng.integers(0, 4))]
            rtol = float(rng.choice([0.002, 0.01, 0.03, 0.05, 0.1]))
            use_default = rng.random() < 0.3
            if kind == "plot":
                sel, order = pick(rng, Fn, "list")
                if rng.random() < 0.2:
                    sel, order = [], []
                FakeSFP.picks = ([np.float64(f) for f in sel], list(order))
                kw = {} if use_default else dict(rtol=rtol)
                res = [call(o.mpe_from_plot, freqlim=(0, 20), **kw) for o in objs]
            else:
                sel, order = pick(rng, Fn, kind)
                if kind == "find_min":
                    sel = [float(f) for f in F_TRUE[: len(sel)]]
                kw = dict(sel_freq=sel, order=order)
                if not use_default:
                    kw["rtol"] = rtol
                res = [call(o.mpe, **kw) for o in objs]
            tag = f"{name}[{it}.{c},{kind}]"
            if res[0][0] != res[1][0] or (res[0][0] == "exc" and res[0][1] is not res[1][1]):
                mismatches.append(f"{tag}: {res[0]} vs {res[1]}")
                continue
            compare(tag, ("ok", state(objs[0])), ("ok", state(objs[1])))
        # a call before run() is refused in the same way
        fresh = [getattr(mod, name)(**ctor) for mod in (old_alg, new_alg)]
        for o in fresh:
            o.result = None
        compare(
            f"{name}[{it}] no result",
            call(fresh[0].mpe, sel_freq=[2.0], order=3),
            call(fresh[1].mpe, sel_freq=[2.0], order=3),
        )


# ----------------------------------------------------------------------------------
def part_pipeline(rng):
    """Real pole tables: a 4-dof chain under white noise through SSIcov.run()."""
    from scipy import signal

    from pyoma2.setup.single import SingleSetup

    fs, n = 50.0, 6000
    k = 4000.0 * (2 * np.eye(4) - np.eye(4, k=1) - np.eye(4, k=-1))
    lam, V = np.linalg.eigh(k)
    wn = np.sqrt(lam)
    t = np.arange(n) / fs
    q = np.zeros((n, 4))
    for i in range(4):
        sys_i = signal.lti([1.0], [1.0, 2 * 0.01 * wn[i], wn[i] ** 2])
        _, q[:, i], _ = signal.lsim(sys_i, rng.normal(size=n), t)
    data = q @ V.T + 1e-6 * rng.normal(size=(n, 4))
    fn = wn / 2 / np.pi
    for name in ("SSIcov", "SSIdat"):
        ss = SingleSetup(data, fs=fs)
        alg = getattr(new_alg, name)(name="x", br=12, ordmax=24, calc_unc=(name == "SSIcov"), nb=20)
        ss.add_algorithms(alg)
        ss.run_all()
        ref = getattr(old_alg, name)(name="x", br=12, ordmax=24)
        ref.result = alg.result.model_copy(deep=True)
        for order, rtol in [(16, 0.05), (20, 0.01), ([12, 18, 24, 14], 0.02), ("find_min", 0.05),
                            (24, 0.002)]:
            kw = dict(sel_freq=[float(f) for f in fn], order=order, rtol=rtol)
            r = [call(ref.mpe, **kw), call(alg.mpe, **kw)]
            if r[0][0] != r[1][0]:
                mismatches.append(f"pipeline {name} {order}: {r[0]} vs {r[1]}")
                continue
            compare(f"pipeline {name} order={order} rtol={rtol}", ("ok", state(ref)), ("ok", state(alg)))


def main():
    rng = np.random.default_rng(2024)
    part_function(rng)
    part_classes(rng)
    part_pipeline(rng)
    if mismatches:
        print(f"FAIL: {len(mismatches)} differences in {n_cases} comparisons")
        for m in mismatches[:15]:
            print("  -", m)
        return 1
    print(f"PASS ({n_cases} comparisons)")
    return 0


if __name__ == "__main__":
    sys.exit(main())
