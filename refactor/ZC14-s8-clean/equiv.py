# -*- coding: utf-8 -*-
"""
Differential test: the library on PYTHONPATH (CLEAN version of the commit) against the
pristine sources saved next to this file as orig_base.py / orig_single.py / orig_multi.py.

Run as:  PYTHONPATH=<tree>/src /venv/bin/python equiv.py

Random options and random histories are sent through
  * BaseSetup._decimate_data (static helper, positional and keyword calls),
  * SingleSetup.decimate_data / detrend_data / filter_data / rollback,
  * MultiSetup_PreGER.decimate_data / detrend_data / filter_data / rollback,
and every output, attribute and raised exception type is compared.
"""
import copy
import importlib.util
import os
import sys

import numpy as np

import pyoma2.setup  # noqa: F401  (current implementation)
import pyoma2.setup.base as new_base
import pyoma2.setup.multi as new_multi
import pyoma2.setup.single as new_single

HERE = os.path.dirname(os.path.abspath(__file__))


def _load(name, filename):
    spec = importlib.util.spec_from_file_location(name, os.path.join(HERE, filename))
    mod = importlib.util.module_from_spec(spec)
    spec.loader.exec_module(mod)
    return mod


# the pristine single / multi modules must see the pristine base module
_saved = {k: sys.modules[k] for k in ("pyoma2.setup.base", "pyoma2.setup.single")}
orig_base = _load("orig_base", "orig_base.py")
sys.modules["pyoma2.setup.base"] = orig_base
orig_single = _load("orig_single", "orig_single.py")
sys.modules["pyoma2.setup.single"] = orig_single
orig_multi = _load("orig_multi", "orig_multi.py")
sys.modules.update(_saved)

assert orig_single.SingleSetup.__mro__[1] is orig_base.BaseSetup
assert orig_multi.MultiSetup_PreGER.__mro__[1] is orig_base.BaseSetup
assert new_multi.MultiSetup_PreGER.__mro__[1] is new_base.BaseSetup
assert orig_base.BaseSetup is not new_base.BaseSetup

problems = []
n_cases = 0


def same(a, b):
    if isinstance(a, dict):
        return isinstance(b, dict) and a.keys() == b.keys() and all(same(a[k], b[k]) for k in a)
    if isinstance(a, (list, tuple)):
        return (isinstance(b, (list, tuple)) and len(a) == len(b)
                and all(same(x, y) for x, y in zip(a, b)))
    if a is None or b is None:
        return a is None and b is None
    a = np.asarray(a)
    b = np.asarray(b)
    if a.shape != b.shape:
        return False
    return np.array_equal(a, b, equal_nan=True) or np.allclose(
        a, b, rtol=1e-12, atol=0.0, equal_nan=True
    )


def outcome(fn):
    try:
        return ("ok", fn())
    except Exception as exc:  # the type of whatever is raised is part of the behaviour
        return ("raised", type(exc).__name__)


def compare(label, fo, fn):
    global n_cases
    n_cases += 1
    ro, rn = outcome(fo), outcome(fn)
    if ro[0] != rn[0]:
        problems.append("%s: original %s / new %s" % (label, ro[0:2], rn[0:2]))
        return False
    if ro[0] == "raised":
        if ro[1] != rn[1]:
            problems.append("%s: original raised %s, new raised %s" % (label, ro[1], rn[1]))
            return False
        return True
    if not same(ro[1], rn[1]):
        problems.append("%s: results differ" % label)
        return False
    return True


def rand_decimate_kwargs(rng, allow_bad=True):
    kw = {}
    if rng.random() < 0.5:
        kw["ftype"] = str(rng.choice(["iir", "fir"]))
    if rng.random() < 0.5:
        kw["n"] = None if rng.random() < 0.2 else int(rng.integers(1, 13))
    if rng.random() < 0.5:
        kw["zero_phase"] = bool(rng.integers(0, 2))
    if allow_bad and rng.random() < 0.08:
        kw["ftype"] = "butter"  # ValueError in scipy
    if allow_bad and rng.random() < 0.08:
        kw["window"] = "hann"  # TypeError: not an option of decimate
    return kw


def rand_op(rng, fs):
    r = rng.random()
    if r < 0.40:
        kw = rand_decimate_kwargs(rng)
        if rng.random() < 0.15:
            kw["axis"] = 0
        return ("decimate", dict(q=int(rng.integers(2, 6)), **kw))
    if r < 0.60:
        kw = {}
        if rng.random() < 0.6:
            kw["type"] = str(rng.choice(["linear", "constant"]))
        if rng.random() < 0.2:
            kw["bp"] = [0, 100]
        return ("detrend", kw)
    if r < 0.85:
        btype = str(rng.choice(["lowpass", "highpass", "bandpass", "bandstop"]))
        nyq = fs / 2
        if btype in ("lowpass", "highpass"):
            Wn = float(rng.uniform(0.05, 0.9) * nyq)
        else:
            lo = float(rng.uniform(0.05, 0.4) * nyq)
            Wn = (lo, float(lo + rng.uniform(0.1, 0.5) * nyq))
        kw = dict(Wn=Wn, btype=btype)
        if rng.random() < 0.7:
            kw["order"] = int(rng.integers(1, 7))
        return ("filter", kw)
    return ("rollback", {})


def apply(setup, op):
    kind, kw = op
    kw = copy.deepcopy(kw)
    if kind == "decimate":
        return setup.decimate_data(**kw)
    if kind == "detrend":
        return setup.detrend_data(**kw)
    if kind == "filter":
        return setup.filter_data(**kw)
    return setup.rollback()


def state_single(s):
    return [s.data, s.fs, s.dt, s.Ndat, s.T, s.Nch, s._initial_data, s._initial_fs]


def state_multi(s):
    return [s.datasets, s.data, s.fs, s.dt, s.Ndats, s.Ts, s.Nchs, s.Nsetup,
            s.ref_ind, s._initial_datasets, s._initial_fs, s._initial_ref_ind]


def main():
    rng = np.random.default_rng(20240914)

    # -- 1. the static helper -------------------------------------------------
    for i in range(60):
        n, nch = int(rng.integers(200, 600)), int(rng.integers(1, 6))
        data = rng.normal(size=(n, nch)) if rng.random() < 0.8 else rng.normal(size=n)
        fs = float(rng.choice([50.0, 100.0, 128.0, 1000.0]))
        q = int(rng.integers(1, 7))
        kw = rand_decimate_kwargs(rng)
        if rng.random() < 0.6:
            kw["axis"] = 0
        label = "helper #%d q=%d %r shape=%s" % (i, q, kw, data.shape)
        if rng.random() < 0.5:
            compare(label,
                    lambda: orig_base.BaseSetup._decimate_data(data.copy(), fs, q, **kw),
                    lambda: new_base.BaseSetup._decimate_data(data.copy(), fs, q, **kw))
        else:
            compare(label,
                    lambda: orig_base.BaseSetup._decimate_data(data=data.copy(), fs=fs, q=q, **kw),
                    lambda: new_base.BaseSetup._decimate_data(data=data.copy(), fs=fs, q=q, **kw))

    # -- 2. SingleSetup histories ---------------------------------------------
    for i in range(40):
        n, nch = int(rng.integers(900, 1500)), int(rng.integers(2, 6))
        data = rng.normal(size=(n, nch)).cumsum(axis=0) * 0.05 + rng.normal(size=(n, nch))
        fs0 = float(rng.choice([64.0, 100.0, 200.0]))
        so = orig_single.SingleSetup(data.copy(), fs=fs0)
        sn = new_single.SingleSetup(data.copy(), fs=fs0)
        hist = []
        for _ in range(int(rng.integers(1, 6))):
            op = rand_op(rng, so.fs)
            hist.append(op)
            label = "single #%d %r" % (i, hist)
            ok = compare(label, lambda: apply(so, op), lambda: apply(sn, op))
            ok = compare(label + " [state]", lambda: state_single(so), lambda: state_single(sn)) and ok
            if not ok:
                break

    # -- 3. MultiSetup_PreGER histories ---------------------------------------
    for i in range(40):
        nset = int(rng.integers(1, 4))
        datasets, ref_ind = [], []
        nref = int(rng.integers(1, 3))
        for _ in range(nset):
            nch = int(rng.integers(nref + 1, 6))
            n = int(rng.integers(900, 1400))
            datasets.append(rng.normal(size=(n, nch)).cumsum(axis=0) * 0.05
                            + rng.normal(size=(n, nch)))
            ref_ind.append([int(r) for r in rng.permutation(nch)[:nref]])
        fs0 = float(rng.choice([64.0, 100.0, 200.0]))
        mo = orig_multi.MultiSetup_PreGER(
            fs=fs0, ref_ind=copy.deepcopy(ref_ind), datasets=copy.deepcopy(datasets))
        mn = new_multi.MultiSetup_PreGER(
            fs=fs0, ref_ind=copy.deepcopy(ref_ind), datasets=copy.deepcopy(datasets))
        hist = []
        for _ in range(int(rng.integers(1, 6))):
            op = rand_op(rng, mo.fs)
            hist.append(op)
            label = "multi #%d ref=%r %r" % (i, ref_ind, hist)
            ok = compare(label, lambda: apply(mo, op), lambda: apply(mn, op))
            ok = compare(label + " [state]", lambda: state_multi(mo), lambda: state_multi(mn)) and ok
            if not ok:
                break

    print("%d comparisons" % n_cases)
    if problems:
        print("FAIL")
        for p in problems[:15]:
            print("  -", p)
        return 1
    print("PASS")
    return 0


if __name__ == "__main__":
    sys.exit(main())
