"""
Equivalence check: refactored pyoma2.functions.{ssi,fdd,plscf} versus the
pristine HEAD copies (orig_ssi.py, orig_fdd.py, orig_plscf.py in this folder).

Run:  PYTHONPATH=/tmp/wt/R08/src /venv/bin/python /tmp/wt/R08/_refactor/equiv.py
Prints PASS and exits 0 when every comparison is bit-identical
(np.array_equal with equal_nan, same dtype, same shape, same exception type).
"""

import importlib.util
import logging
import os
import sys
import warnings

import numpy as np

warnings.filterwarnings("ignore")
logging.disable(logging.CRITICAL)
os.environ.setdefault("TQDM_DISABLE", "1")

HERE = os.path.dirname(os.path.abspath(__file__))

import pyoma2.functions  # noqa: E402,F401  (package needed for the relative imports)
from pyoma2.functions import fdd as new_fdd  # noqa: E402
from pyoma2.functions import plscf as new_plscf  # noqa: E402
from pyoma2.functions import ssi as new_ssi  # noqa: E402


def _load_orig(name):
    modname = f"pyoma2.functions._orig_{name}"
    spec = importlib.util.spec_from_file_location(
        modname, os.path.join(HERE, f"orig_{name}.py")
    )
    mod = importlib.util.module_from_spec(spec)
    sys.modules[modname] = mod
    spec.loader.exec_module(mod)
    return mod


old_ssi = _load_orig("ssi")
old_fdd = _load_orig("fdd")
old_plscf = _load_orig("plscf")

# silence tqdm bars in all six modules
for _m in (new_ssi, new_fdd, new_plscf, old_ssi, old_fdd, old_plscf):
    for _n in ("tqdm", "trange"):
        if hasattr(_m, _n):
            _orig = getattr(_m, _n)
            setattr(
                _m, _n, (lambda f: (lambda *a, **k: f(*a, disable=True, **k)))(_orig)
            )

N_CMP = 0
EXC_CASES = []


def same(a, b, where):
    """Strict, recursive, bitwise comparison (NaN == NaN)."""
    global N_CMP
    if isinstance(a, (tuple, list)):
        assert type(a) is type(b), f"{where}: container type {type(a)} vs {type(b)}"
        assert len(a) == len(b), f"{where}: length {len(a)} vs {len(b)}"
        for i, (x, y) in enumerate(zip(a, b)):
            same(x, y, f"{where}[{i}]")
        return
    if a is None or b is None:
        assert a is None and b is None, f"{where}: None mismatch"
        N_CMP += 1
        return
    a_, b_ = np.asarray(a), np.asarray(b)
    assert a_.dtype == b_.dtype, f"{where}: dtype {a_.dtype} vs {b_.dtype}"
    assert a_.shape == b_.shape, f"{where}: shape {a_.shape} vs {b_.shape}"
    if np.iscomplexobj(a_):
        ok = np.array_equal(a_.real, b_.real, equal_nan=True) and np.array_equal(
            a_.imag, b_.imag, equal_nan=True
        )
    else:
        ok = np.array_equal(a_, b_, equal_nan=True)
    if not ok:
        with np.errstate(all="ignore"):
            d = np.nanmax(np.abs(a_ - b_))
        raise AssertionError(f"{where}: values differ (max abs diff {d})")
    N_CMP += 1


def call_both(f_old, f_new, args_old, args_new, where, kwargs=None):
    kwargs = kwargs or {}
    r_old = r_new = e_old = e_new = None
    try:
        r_old = f_old(*args_old, **kwargs)
    except Exception as e:  # noqa: BLE001
        e_old = e
    try:
        r_new = f_new(*args_new, **kwargs)
    except Exception as e:  # noqa: BLE001
        e_new = e
    if e_old is not None or e_new is not None:
        assert (
            type(e_old) is type(e_new)
        ), f"{where}: exceptions differ: {e_old!r} vs {e_new!r}"
        global N_CMP
        N_CMP += 1
        EXC_CASES.append(f"{where}: {type(e_old).__name__}")
        return None
    same(r_old, r_new, where)
    return r_new


# --------------------------------------------------------------------------
# data generators
# --------------------------------------------------------------------------
def mdof_response(rng, n_ch, n_samp, fs, free_decay=False):
    """Noisy response of a random n_ch-DOF system (random or free-decay)."""
    n_modes = n_ch
    f = np.sort(rng.uniform(0.03, 0.4, n_modes)) * fs
    z = rng.uniform(0.005, 0.05, n_modes)
    t = np.arange(n_samp) / fs
    shapes = rng.standard_normal((n_ch, n_modes))
    q = np.zeros((n_modes, n_samp))
    for k in range(n_modes):
        wn = 2 * np.pi * f[k]
        wd = wn * np.sqrt(1 - z[k] ** 2)
        h = np.exp(-z[k] * wn * t) * np.sin(wd * t)
        if free_decay:
            q[k] = rng.standard_normal() * h
        else:
            q[k] = np.convolve(rng.standard_normal(n_samp), h)[:n_samp]
    y = shapes @ q
    y /= np.std(y)
    y += 0.05 * rng.standard_normal(y.shape)
    return y


def random_orthogonal(rng, n):
    q, r = np.linalg.qr(rng.standard_normal((n, n)))
    return q * np.sign(np.diag(r))


def transformed_datasets(rng):
    """(Y, ref_ind, fs) for base / gain / permuted / rotated / fs-scaled data."""
    n_ch = int(rng.integers(2, 9))
    n_samp = int(rng.integers(600, 1500))
    fs = float(rng.choice([1.0, 10.0, 100.0, 512.0]))
    Y = mdof_response(rng, n_ch, n_samp, fs, free_decay=bool(rng.integers(0, 2)))
    n_ref = int(rng.integers(1, n_ch + 1))
    ref = np.sort(rng.choice(n_ch, n_ref, replace=False))
    gain = 10.0 ** rng.uniform(-6, 6) * rng.choice([-1.0, 1.0])
    perm = rng.permutation(n_ch)
    inv = np.argsort(perm)
    k = 10.0 ** rng.uniform(-2, 2)
    out = [
        ("base", Y, ref, fs),
        ("gain", gain * Y, ref, fs),
        ("perm", Y[perm], np.sort(inv[ref]), fs),
        ("fs*k", Y, ref, fs * k),
    ]
    if n_ref == n_ch:
        out.append(("rot", random_orthogonal(rng, n_ch) @ Y, ref, fs))
    return out


# --------------------------------------------------------------------------
# 1. ssi.ac2mp on synthetic state-space matrices
# --------------------------------------------------------------------------
def check_ac2mp(rng, n_cases=60):
    for case in range(n_cases):
        n = int(rng.integers(1, 25))
        n_ch = int(rng.integers(2, 9))
        kind = case % 4
        if kind == 0:  # generic real matrix -> complex pairs
            A = rng.standard_normal((n, n)) / np.sqrt(n)
        elif kind == 1:  # symmetric -> all-real eigenvalues / real eigenvectors
            A = rng.standard_normal((n, n))
            A = (A + A.T) / 2
        elif kind == 2:  # contains exact zeros / ties in the mode shapes
            A = np.diag(rng.uniform(0.1, 0.9, n))
        else:  # singular A (lam_d = 0 -> log -> -inf)
            A = rng.standard_normal((n, n))
            A[:, 0] = 0.0
        C = rng.standard_normal((n_ch, n))
        if kind == 2:
            C = np.round(C)  # ties and zeros -> argmax tie-breaking, 0/0
        dt = 10.0 ** rng.uniform(-4, 2)
        for unc in (False, True):
            call_both(
                old_ssi.ac2mp, new_ssi.ac2mp, (A, C, dt), (A, C, dt),
                f"ac2mp case {case} unc={unc}", {"calc_unc": unc},
            )
    # error cases
    A = rng.standard_normal((4, 4))
    call_both(old_ssi.ac2mp, new_ssi.ac2mp, (A, rng.standard_normal((3, 5)), 0.1),
              (A, rng.standard_normal((3, 5)), 0.1), "ac2mp shape mismatch")
    call_both(old_ssi.ac2mp, new_ssi.ac2mp, (rng.standard_normal((3, 4)), A, 0.1),
              (rng.standard_normal((3, 4)), A, 0.1), "ac2mp non-square A")
    call_both(old_ssi.ac2mp, new_ssi.ac2mp, (A, A, 0.0), (A, A, 0.0), "ac2mp dt=0")
    An = A.copy()
    An[0, 0] = np.nan
    call_both(old_ssi.ac2mp, new_ssi.ac2mp, (An, A, 0.1), (An, A, 0.1), "ac2mp nan A")


# --------------------------------------------------------------------------
# 2. ssi.SSI_fast + SSI_poles on Hankel matrices of (transformed) data
# --------------------------------------------------------------------------
def check_ssi(rng, n_sets=8):
    for s in range(n_sets):
        for tag, Y, ref, fs in transformed_datasets(rng):
            Yref = Y[ref]
            n_ch = Y.shape[0]
            br = int(rng.integers(3, 12))
            step = int(rng.choice([1, 1, 1, 2, 3]))  # SSI_poles only works with step=1
            for method in ("cov_mm", "cov_R", "dat"):
                H_old, _ = old_ssi.build_hank(Y, Yref, br, method)
                H_new, _ = new_ssi.build_hank(Y, Yref, br, method)
                same(H_old, H_new, f"build_hank {s} {tag} {method}")
                max_ord = min(H_new.shape) - 1
                ordmax = int(rng.integers(2, max(3, min(max_ord, 30)) + 1))
                where = f"SSI_fast set {s} {tag} {method} br={br} ord={ordmax} step={step}"
                res = call_both(
                    old_ssi.SSI_fast, new_ssi.SSI_fast,
                    (H_old, br, ordmax), (H_new, br, ordmax), where, {"step": step},
                )
                if res is None:
                    continue
                Obs, A, C = res[:3]
                call_both(
                    old_ssi.SSI_poles, new_ssi.SSI_poles,
                    (Obs, A, C, ordmax, 1 / fs), (Obs, A, C, ordmax, 1 / fs),
                    "SSI_poles " + where, {"step": step},
                )
                # legacy SSI (untouched) must of course still agree
                if s == 0 and tag == "base":
                    call_both(old_ssi.SSI, new_ssi.SSI, (H_old, br, ordmax),
                              (H_new, br, ordmax), "SSI legacy " + where)
            del n_ch

    # uncertainty branch (calc_unc=True) with the bootstrap matrix T
    for s in range(3):
        n_ch = int(rng.integers(2, 4))
        Y = mdof_response(rng, n_ch, 800, 50.0)
        ref = np.arange(int(rng.integers(1, n_ch + 1)))
        br, nb = int(rng.integers(2, 5)), 20
        H, T = new_ssi.build_hank(Y, Y[ref], br, "cov_mm", calc_unc=True, nb=nb)
        ordmax = int(min(min(H.shape) - 1, 8))
        where = f"SSI_fast unc {s}"
        res = call_both(
            old_ssi.SSI_fast, new_ssi.SSI_fast, (H, br, ordmax), (H, br, ordmax),
            where, {"step": 1, "calc_unc": True, "T": T, "nb": nb},
        )
        if res is None:  # both versions raised the same exception type
            continue
        Obs, A, C, Q1, Q2, Q3, Q4 = res
        call_both(
            old_ssi.SSI_poles, new_ssi.SSI_poles,
            (Obs, A, C, ordmax, 0.02), (Obs, A, C, ordmax, 0.02), "SSI_poles unc",
            {"step": 1, "calc_unc": True, "Q1": Q1, "Q2": Q2, "Q3": Q3, "Q4": Q4},
        )

    # error / edge cases
    H = rng.standard_normal((12, 8))
    for ordmax, step, br in ((10, 1, 3), (8, 1, 3), (3, 0, 3), (4, 2, 3), (0, 1, 3)):
        call_both(old_ssi.SSI_fast, new_ssi.SSI_fast, (H, br, ordmax), (H, br, ordmax),
                  f"SSI_fast edge ordmax={ordmax} step={step}", {"step": step})
    Hs = np.zeros((12, 12))  # rank deficient -> singular R
    call_both(old_ssi.SSI_fast, new_ssi.SSI_fast, (Hs, 3, 5), (Hs, 3, 5), "SSI_fast singular")
    Hn = H.copy()
    Hn[0, 0] = np.nan
    call_both(old_ssi.SSI_fast, new_ssi.SSI_fast, (Hn, 3, 5), (Hn, 3, 5), "SSI_fast nan")
    call_both(old_ssi.SSI_fast, new_ssi.SSI_fast, (H[0], 3, 5), (H[0], 3, 5), "SSI_fast 1-D H")


# --------------------------------------------------------------------------
# 3. fdd.FDD_mpe on spectra of (transformed) data
# --------------------------------------------------------------------------
def check_fdd(rng, n_sets=8):
    for s in range(n_sets):
        for tag, Y, ref, fs in transformed_datasets(rng):
            nxseg = int(rng.choice([64, 128, 200, 256]))
            pov = float(rng.choice([0.0, 0.5, 0.66]))
            for method in ("per", "cor"):
                freq, Sy = new_fdd.SD_est(Y, Y, 1 / fs, nxseg, method=method, pov=pov)
                freq_o, Sy_o = old_fdd.SD_est(Y, Y, 1 / fs, nxseg, method=method, pov=pov)
                same((freq_o, Sy_o), (freq, Sy), f"SD_est {s} {tag} {method}")
                Sval, Svec = new_fdd.SD_svalsvec(Sy)
                n_sel = int(rng.integers(1, 5))
                sel = list(rng.uniform(0.03, 0.45, n_sel) * fs)
                DF = float(rng.uniform(0.01, 0.08) * fs)
                where = f"FDD_mpe set {s} {tag} {method} nxseg={nxseg}"
                call_both(old_fdd.FDD_mpe, new_fdd.FDD_mpe,
                          (Sval, Svec, freq, sel), (Sval, Svec, freq, sel), where, {"DF": DF})
                # positional DF, ndarray sel_freq, default DF
                call_both(old_fdd.FDD_mpe, new_fdd.FDD_mpe,
                          (Sval, Svec, freq, np.array(sel), DF),
                          (Sval, Svec, freq, np.array(sel), DF), where + " positional")
                call_both(old_fdd.FDD_mpe, new_fdd.FDD_mpe,
                          (Sval, Svec, freq, sel), (Sval, Svec, freq, sel), where + " default DF")
                if s == 0 and tag == "base":
                    # NaN / inf / zero patterns in the singular values and vectors
                    Sv = Sval.copy()
                    Sv[1, 1, ::3] = 0.0
                    Sv[0, 0, ::6] = 0.0
                    Sv[0, 0, 5] = np.nan
                    Vc = Svec.copy()
                    Vc[0, :, ::4] = 0.0
                    call_both(old_fdd.FDD_mpe, new_fdd.FDD_mpe, (Sv, Vc, freq, sel),
                              (Sv, Vc, freq, sel), where + " degenerate", {"DF": DF})
                    # empty band (DF = 0), empty selection, out-of-range selection
                    call_both(old_fdd.FDD_mpe, new_fdd.FDD_mpe, (Sval, Svec, freq, sel),
                              (Sval, Svec, freq, sel), where + " DF=0", {"DF": 0.0})
                    call_both(old_fdd.FDD_mpe, new_fdd.FDD_mpe, (Sval, Svec, freq, []),
                              (Sval, Svec, freq, []), where + " empty sel")
                    call_both(old_fdd.FDD_mpe, new_fdd.FDD_mpe, (Sval, Svec, freq, [1e9]),
                              (Sval, Svec, freq, [1e9]), where + " out of range")
                    call_both(old_fdd.FDD_mpe, new_fdd.FDD_mpe, (Sval[0], Svec, freq, sel),
                              (Sval[0], Svec, freq, sel), where + " 2-D Sval")
                    call_both(old_fdd.FDD_mpe, new_fdd.FDD_mpe, (Sval[:1, :1], Svec, freq, sel),
                              (Sval[:1, :1], Svec, freq, sel), where + " one channel")


# --------------------------------------------------------------------------
# 4. plscf.ac2mp_poly (synthetic) and pLSCF + pLSCF_poles on (transformed) data
# --------------------------------------------------------------------------
def check_plscf(rng, n_cases=60, n_sets=5):
    for case in range(n_cases):
        n = int(rng.integers(1, 25))
        n_ch = int(rng.integers(2, 9))
        kind = case % 4
        if kind == 0:  # mix of stable and unstable poles
            A = rng.standard_normal((n, n)) / np.sqrt(n) * rng.uniform(0.5, 1.5)
        elif kind == 1:  # all real eigenvalues (real eig output), some negative
            A = rng.standard_normal((n, n))
            A = (A + A.T) / 2
        elif kind == 2:  # all unstable -> all NaN
            A = np.diag(rng.uniform(1.1, 3.0, n))
        else:  # singular
            A = rng.standard_normal((n, n)) * 0.3
            A[:, 0] = 0.0
        C = rng.standard_normal((n_ch, n))
        if kind == 1:
            C = np.round(C)
        dt = 10.0 ** rng.uniform(-4, 2)
        nxseg = int(rng.choice([64, 256, 1024]))
        for methodSy in ("per", "cor"):
            call_both(old_plscf.ac2mp_poly, new_plscf.ac2mp_poly,
                      (A, C, dt, methodSy, nxseg), (A, C, dt, methodSy, nxseg),
                      f"ac2mp_poly case {case} {methodSy}")
    A = rng.standard_normal((4, 4))
    call_both(old_plscf.ac2mp_poly, new_plscf.ac2mp_poly,
              (A, rng.standard_normal((3, 5)), 0.1, "per", 64),
              (A, rng.standard_normal((3, 5)), 0.1, "per", 64), "ac2mp_poly shape mismatch")
    call_both(old_plscf.ac2mp_poly, new_plscf.ac2mp_poly,
              (rng.standard_normal((3, 4)), A, 0.1, "per", 64),
              (rng.standard_normal((3, 4)), A, 0.1, "per", 64), "ac2mp_poly non-square")
    call_both(old_plscf.ac2mp_poly, new_plscf.ac2mp_poly,
              (A, A, 0.0, "cor", 64), (A, A, 0.0, "cor", 64), "ac2mp_poly dt=0")

    for s in range(n_sets):
        for tag, Y, ref, fs in transformed_datasets(rng):
            nxseg = int(rng.choice([64, 128, 200]))
            ordmax = int(rng.integers(2, 9))
            for methodSy in ("per", "cor"):
                freq, Sy = new_fdd.SD_est(Y, Y, 1 / fs, nxseg, method=methodSy, pov=0.5)
                sgn = float(rng.choice([-1.0, 1.0]))
                where = f"pLSCF set {s} {tag} {methodSy} ord={ordmax} sgn={sgn}"
                res = call_both(old_plscf.pLSCF, new_plscf.pLSCF,
                                (Sy, 1 / fs, ordmax, sgn), (Sy, 1 / fs, ordmax, sgn), where)
                if res is None:
                    continue
                Ad, Bn = res
                call_both(old_plscf.pLSCF_poles, new_plscf.pLSCF_poles,
                          (Ad, Bn, 1 / fs, methodSy, nxseg), (Ad, Bn, 1 / fs, methodSy, nxseg),
                          "pLSCF_poles " + where)


def main():
    rng = np.random.default_rng(20260808)
    check_ac2mp(rng)
    check_ssi(rng)
    check_fdd(rng)
    check_plscf(rng)
    print(f"{N_CMP} leaf comparisons, all identical")
    print(f"{len(EXC_CASES)} of them are cases where both versions raise the same exception type:")
    import collections

    counts = collections.Counter(
        (line.split(" set ")[0].split(" case ")[0].split(":")[0], line.rsplit(": ", 1)[1])
        if (" set " in line or " case " in line)
        else (line.rsplit(": ", 1)[0], line.rsplit(": ", 1)[1])
        for line in EXC_CASES
    )
    for (what, exc), cnt in sorted(counts.items()):
        print(f"    {cnt:4d} x {what}: {exc}")
    print("PASS")


if __name__ == "__main__":
    main()
