"""
Differential test: the library's fdd.SD_est / fdd.SD_PreGER (as on the PYTHONPATH)
against the pristine implementation saved next to this file as orig_fdd.py.

Run as:  PYTHONPATH=<tree>/src /venv/bin/python equiv.py
"""
import importlib.util
import logging
import os
import sys
import warnings

import numpy as np

warnings.simplefilter("ignore")
logging.disable(logging.CRITICAL)

from pyoma2.functions import fdd as new  # noqa: E402

here = os.path.dirname(os.path.abspath(__file__))
spec = importlib.util.spec_from_file_location(
    "pyoma2.functions.orig_fdd", os.path.join(here, "orig_fdd.py")
)
old = importlib.util.module_from_spec(spec)
spec.loader.exec_module(old)

rng = np.random.default_rng(2013)
bad = []
n_cases = 0


def run(fun, *a, **k):
    try:
        return ("ok", fun(*a, **k))
    except Exception as exc:  # noqa: BLE001 - the class of the exception is compared
        return ("exc", type(exc))


def same(r_old, r_new, strict_exc=True):
    if r_old[0] != r_new[0]:
        return False, f"{r_old[0]} vs {r_new[0]}: {r_old[1]} / {r_new[1]}"
    if r_old[0] == "exc":
        ok = (r_old[1] is r_new[1]) or not strict_exc
        return ok, f"{r_old[1].__name__} vs {r_new[1].__name__}"
    (f0, S0), (f1, S1) = r_old[1], r_new[1]
    if f0.shape != f1.shape or S0.shape != S1.shape:
        return False, f"shapes {f0.shape}{S0.shape} vs {f1.shape}{S1.shape}"
    if not np.array_equal(f0, f1) and not np.allclose(f0, f1, rtol=1e-12, atol=0, equal_nan=True):
        return False, "freq differs"
    tol = 1e-12 * np.max(np.abs(S0))
    if not np.allclose(S1, S0, rtol=1e-12, atol=tol, equal_nan=True):
        return False, f"Sy differs by {np.max(np.abs(S1 - S0)) / np.max(np.abs(S0)):.3e}"
    return True, ""


def record(label, verdict):
    global n_cases
    n_cases += 1
    if not verdict[0]:
        bad.append(f"{label}: {verdict[1]}")


# ------------------------------------------------------------------ SD_est, random cases
for case in range(40):
    method = ("per", "cor")[case % 2]
    n_all = int(rng.integers(1, 9))
    n_ref = int(rng.integers(1, min(4, n_all) + 1))
    nxseg = int(rng.choice([16, 30, 64, 100, 125, 255, 256, 500, 1024, 2048]))
    pov = float(rng.choice([0.0, 0.1, 0.25, 0.5, 0.6, 0.75, 0.8, 0.9]))
    n_dat = int(nxseg * rng.uniform(2, 12)) + int(rng.integers(0, nxseg))
    fs = float(rng.choice([1.0, 12.8, 100.0, 333.3, 2048.0]))
    layout = case % 4
    Y = rng.standard_normal((n_all, n_dat)) * rng.uniform(0.01, 100, (n_all, 1)) + rng.normal(0, 3, (n_all, 1))
    if layout == 1:  # transposed (channel-last) storage, as the single-setup classes hand it over
        Y = np.asfortranarray(Y)
    if layout == 2:  # separate reference record
        Yref = rng.standard_normal((n_ref, n_dat))
    else:  # reference = some rows of the same record (a view)
        first = int(rng.integers(0, n_all - n_ref + 1))
        Yref = Y[first : first + n_ref]
    if layout == 3:
        Yref = Y  # identical data and reference
    Yc, Yrc = Y.copy(), Yref.copy()
    if layout == 3:
        Yrc = Yc
    r_old = run(old.SD_est, Yc, Yrc, 1 / fs, nxseg, method, pov)
    r_new = run(new.SD_est, Y, Yref, 1 / fs, nxseg, method=method, pov=pov)
    record(f"SD_est #{case} {method} n={n_all}x{n_ref} nxseg={nxseg} pov={pov} N={n_dat} layout={layout}", same(r_old, r_new))
    # a second estimate from the same arrays must not differ either
    r_new2 = run(new.SD_est, Y, Yref, 1 / fs, nxseg, method, pov)
    record(f"SD_est #{case} repeated", same(r_old, r_new2))

# ------------------------------------------------------------------ SD_est, edge cases
Y = rng.standard_normal((3, 1000))
edge = [
    ("record shorter than the segment, per", (Y, Y[:2], 0.01, 1024, "per", 0.5), True),
    ("record shorter than the segment, cor", (Y, Y[:2], 0.01, 1024, "cor", 0.5), True),
    ("record shorter than half a segment, cor", (Y[:, :300], Y[:1, :300], 0.01, 1024, "cor", 0.5), True),
    ("defaults", (Y, Y, 0.02), True),
    ("full overlap", (Y, Y, 0.01, 128, "per", 1.0), True),
    ("overlap larger than the shortened segment", (Y[:, :400], Y[:, :400], 0.01, 1024, "per", 0.5), True),
    ("different record lengths", (Y, Y[:, :900], 0.01, 128, "per", 0.5), True),
    ("integer data", ((Y * 100).astype(int), (Y[:2] * 100).astype(int), 0.01, 128, "per", 0.0), True),
    ("non-integer nxseg*pov", (Y, Y[:1], 0.01, 100, "per", 0.333), True),
    ("unknown method (both must raise)", (Y, Y, 0.01, 128, "welch", 0.5), False),
]
for label, args, strict in edge:
    record("SD_est edge: " + label, same(run(old.SD_est, *args), run(new.SD_est, *args), strict_exc=strict))

# ------------------------------------------------------------------ SD_PreGER
for case in range(12):
    method = ("per", "cor")[case % 2]
    n_setup = int(rng.integers(1, 4))
    n_ref = int(rng.integers(1, 4))
    nxseg = int(rng.choice([64, 128, 250, 256]))
    pov = float(rng.choice([0.0, 0.25, 0.5, 0.8]))
    fs = float(rng.choice([20.0, 100.0, 512.0]))
    n_dat = int(nxseg * rng.uniform(20, 40))
    Ysets = [
        {"ref": rng.standard_normal((n_ref, n_dat)), "mov": rng.standard_normal((int(rng.integers(1, 4)), n_dat))}
        for _ in range(n_setup)
    ]
    Ycopy = [{k: v.copy() for k, v in d.items()} for d in Ysets]
    r_old = run(old.SD_PreGER, Ycopy, fs, nxseg=nxseg, pov=pov, method=method)
    r_new = run(new.SD_PreGER, Ysets, fs, nxseg=nxseg, pov=pov, method=method)
    record(f"SD_PreGER #{case} {method} setups={n_setup} n_ref={n_ref} nxseg={nxseg} pov={pov}", same(r_old, r_new))

print(f"{n_cases} comparisons")
if bad:
    print("FAIL")
    for b in bad:
        print("  " + b)
    sys.exit(1)
print("PASS")
sys.exit(0)
