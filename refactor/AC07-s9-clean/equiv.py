"""
Differential test: the library in PYTHONPATH (CLEAN version of the commit) against the
pristine sources saved next to this file (orig_functions_fdd.py, orig_algorithms_fdd.py).

Compares, on randomly generated inputs and configurations,
  * functions.fdd.SDOF_bellandMS, FDD_mpe and EFDD_mpe (return values, incl. PerPlot),
  * algorithms.fdd.FDD / EFDD / FSDD .mpe (result fields and stored run parameters,
    several consecutive calls on the same object),
including the exceptions raised.

Run:  PYTHONPATH=<tree>/src /venv/bin/python equiv.py
"""
import copy
import importlib.util
import logging
import os
import sys

import numpy as np

logging.disable(logging.CRITICAL)
HERE = os.path.dirname(os.path.abspath(__file__))

import pyoma2.algorithms.fdd as new_algo  # noqa: E402
import pyoma2.functions.fdd as new_fun  # noqa: E402
from pyoma2.algorithms.data.result import EFDDResult, FDDResult  # noqa: E402


def _load(name, filename):
    spec = importlib.util.spec_from_file_location(name, os.path.join(HERE, filename))
    mod = importlib.util.module_from_spec(spec)
    sys.modules[name] = mod
    spec.loader.exec_module(mod)
    return mod


old_fun = _load("pyoma2.functions._orig_fdd", "orig_functions_fdd.py")
old_algo = _load("pyoma2.algorithms._orig_fdd", "orig_algorithms_fdd.py")
old_algo.fdd = old_fun  # the pristine classes call the pristine functions

try:  # silence the progress bars
    from functools import partial

    import tqdm as _tqdm

    for _m in (new_fun, old_fun):
        _m.trange = partial(_tqdm.trange, disable=True)
        _m.tqdm = partial(_tqdm.tqdm, disable=True)
except Exception:  # pragma: no cover
    pass

N_CMP = [0]
FAILS = []


def same(a, b, path="out"):
    """Deep comparison; arrays with allclose(rtol=1e-12, equal_nan=True)."""
    N_CMP[0] += 1
    if isinstance(a, (list, tuple)) or isinstance(b, (list, tuple)):
        if not (isinstance(a, (list, tuple)) and isinstance(b, (list, tuple))) or len(a) != len(b):
            return f"{path}: container mismatch"
        for i, (x, y) in enumerate(zip(a, b)):
            r = same(x, y, f"{path}[{i}]")
            if r:
                return r
        return None
    if isinstance(a, dict) or isinstance(b, dict):
        if not (isinstance(a, dict) and isinstance(b, dict)) or a.keys() != b.keys():
            return f"{path}: dict keys mismatch"
        for k in a:
            r = same(a[k], b[k], f"{path}[{k!r}]")
            if r:
                return r
        return None
    if a is None or b is None:
        return None if (a is None and b is None) else f"{path}: None mismatch"
    if isinstance(a, str) or isinstance(b, str):
        return None if a == b else f"{path}: {a!r} != {b!r}"
    x, y = np.asarray(a), np.asarray(b)
    if x.shape != y.shape:
        return f"{path}: shape {x.shape} != {y.shape}"
    if x.dtype.kind != y.dtype.kind:
        return f"{path}: dtype {x.dtype} != {y.dtype}"
    if np.array_equal(x, y, equal_nan=True) or np.allclose(x, y, rtol=1e-12, atol=0, equal_nan=True):
        return None
    return f"{path}: values differ (max abs diff {np.nanmax(np.abs(x - y)):.3g})"


def call(f, *a, **k):
    try:
        return ("ok", f(*a, **k))
    except Exception as e:  # noqa: BLE001
        return ("exc", (type(e).__name__, str(e)))


def compare(tag, r_new, r_old):
    if r_new[0] != r_old[0]:
        FAILS.append(f"{tag}: new -> {r_new[0]} {r_new[1] if r_new[0]=='exc' else ''}, "
                     f"old -> {r_old[0]} {r_old[1] if r_old[0]=='exc' else ''}")
        return r_new[0]
    if r_new[0] == "exc":
        if r_new[1] != r_old[1]:
            FAILS.append(f"{tag}: exceptions differ {r_new[1]} vs {r_old[1]}")
        return "exc"
    r = same(r_new[1], r_old[1])
    if r:
        FAILS.append(f"{tag}: {r}")
    return "ok"


def sdof_spectrum(rng, fs, nxseg, modes, nch, floor=1e-9, scale=1.0, cplx=False):
    freq = np.arange(nxseg // 2 + 1) * fs / nxseg
    Sy = floor * np.eye(nch)[:, :, None] * np.ones(len(freq))
    Sy = Sy.astype(complex)
    for fn, xi in modes:
        phi = rng.uniform(0.3, 1.0, nch) * rng.choice([-1.0, 1.0], nch)
        if cplx:
            phi = phi * np.exp(1j * rng.uniform(-0.2, 0.2, nch))
        H2 = 1.0 / ((fn**2 - freq**2) ** 2 + (2 * xi * fn * freq) ** 2)
        Sy = Sy + (H2 / H2.max())[None, None, :] * np.outer(phi, phi.conj())[:, :, None]
    return freq, scale * Sy


def random_case(rng):
    fs = float(rng.choice([5.0, 12.5, 50.0, 100.0, 200.0, 256.0, 1000.0]))
    nxseg = int(rng.choice([512, 1024, 2048]))
    nch = int(rng.integers(2, 7))
    nmodes = int(rng.choice([1, 1, 2, 3]))
    rf = np.sort(rng.uniform(0.04, 0.3, nmodes))
    if nmodes > 1 and np.min(np.diff(rf)) < 0.05:
        rf = np.linspace(0.06, 0.28, nmodes)
    modes = [(float(r * fs), float(rng.uniform(0.02, 0.05))) for r in rf]
    freq, Sy = sdof_spectrum(rng, fs, nxseg, modes, nch, scale=float(10 ** rng.uniform(-6, 6)),
                             cplx=bool(rng.integers(0, 2)))
    bw = max(2 * xi * fn for fn, xi in modes)
    return fs, nxseg, nch, modes, freq, Sy, bw


def main():
    rng = np.random.default_rng(20240607)
    n_ok = n_exc = 0

    # ---------------------------------------------------------------- SDOF_bellandMS
    for i in range(24):
        nch, nf = int(rng.integers(2, 6)), int(rng.choice([60, 100, 257]))
        Sy = rng.random((nch, nch, nf)) + 1j * rng.random((nch, nch, nf))
        if i % 2:
            Sy = Sy + np.conj(np.swapaxes(Sy, 0, 1))
        phi = rng.random(nch) + 1j * rng.random(nch)
        dt = float(rng.choice([0.01, 0.1, 0.004]))
        fny = 0.5 / dt
        sel_fn = float(rng.uniform(0.0, 1.0) * fny)
        method = ["FSDD", "EFDD"][i % 2]
        cm = int(rng.integers(1, 3))
        MAClim = float(rng.uniform(0.0, 0.95))
        DF = float(rng.uniform(0.02, 0.4) * fny)
        Sy0, phi0 = Sy.copy(), phi.copy()
        if i % 3 == 0:  # positional, as in the unit test
            rn = call(new_fun.SDOF_bellandMS, Sy, dt, sel_fn, phi, method, cm, MAClim, DF)
            ro = call(old_fun.SDOF_bellandMS, Sy, dt, sel_fn, phi, method, cm, MAClim, DF)
        else:
            kw = dict(method=method, cm=cm, MAClim=MAClim, DF=DF)
            rn = call(new_fun.SDOF_bellandMS, Sy, dt, sel_fn, phi, **kw)
            ro = call(old_fun.SDOF_bellandMS, Sy, dt, sel_fn, phi, **kw)
        st = compare(f"SDOF_bellandMS#{i}", rn, ro)
        n_ok += st == "ok"
        n_exc += st == "exc"
        # precomputed decomposition gives the same
        rs = call(new_fun.SDOF_bellandMS, Sy, dt, sel_fn, phi, method, cm, MAClim, DF,
                  svd=new_fun.SD_svalsvec(Sy))
        compare(f"SDOF_bellandMS#{i}(svd=)", rs, ro)
        if not (np.array_equal(Sy, Sy0) and np.array_equal(phi, phi0)):
            FAILS.append(f"SDOF_bellandMS#{i}: inputs modified")

    # ---------------------------------------------------------------- FDD_mpe / EFDD_mpe
    for i in range(26):
        fs, nxseg, nch, modes, freq, Sy, bw = random_case(rng)
        sel = [fn * (1 + rng.uniform(-0.002, 0.002)) for fn, _ in modes]
        if i % 4 == 0:
            sel = np.array(sel)
        kw = dict(
            method=["FSDD", "EFDD"][i % 2],
            DF1=float(rng.choice([0.1, 0.5 * bw, bw])),
            DF2=float(rng.choice([1.0, 4 * bw, 6 * bw, 0.5 * bw])),
            cm=1,
            MAClim=float(rng.choice([0.85, 0.95, 0.5])),
            sppk=int(rng.choice([3, 1, 5])),
            npmax=int(rng.choice([20, 10, 30, 400])),
        )
        methodSy = str(rng.choice(["per", "cor", "paer"]))
        Sy0, freq0 = Sy.copy(), freq.copy()
        rn = call(new_fun.EFDD_mpe, Sy, freq, 1 / fs, sel, methodSy, **kw)
        ro = call(old_fun.EFDD_mpe, Sy, freq, 1 / fs, sel, methodSy, **kw)
        st = compare(f"EFDD_mpe#{i} fs={fs} nxseg={nxseg} {kw} {methodSy}", rn, ro)
        n_ok += st == "ok"
        n_exc += st == "exc"
        if not (np.array_equal(Sy, Sy0) and np.array_equal(freq, freq0)):
            FAILS.append(f"EFDD_mpe#{i}: inputs modified")
        Sval, Svec = new_fun.SD_svalsvec(Sy)
        rn = call(new_fun.FDD_mpe, Sval, Svec, freq, sel, kw["DF1"])
        ro = call(old_fun.FDD_mpe, Sval, Svec, freq, sel, kw["DF1"])
        compare(f"FDD_mpe#{i}", rn, ro)

    # random arrays, keyword call as in the unit test
    for i in range(6):
        Sy = rng.random((3, 3, 100))
        freq = np.linspace(0, 1, 100)
        kw = dict(Sy=Sy, freq=freq, dt=0.1, sel_freq=[0.3, 0.5, 0.7],
                  methodSy=["cor", "paer", "per"][i % 3], npmax=int(rng.choice([2, 3, 50])))
        rn = call(new_fun.EFDD_mpe, **kw)
        ro = call(old_fun.EFDD_mpe, **kw)
        st = compare(f"EFDD_mpe(random)#{i}", rn, ro)
        n_ok += st == "ok"
        n_exc += st == "exc"

    # ---------------------------------------------------------------- algorithm classes
    def snapshot(algo):
        res = algo.result
        out = {k: getattr(res, k, None) for k in ("Fn", "Xi", "Phi", "forPlot", "freq", "Sy", "S_val", "S_vec")}
        out["run_params"] = algo.run_params.model_dump()
        return out

    def build(mod, clsname, fs, nxseg, freq, Sy, ctor_kw):
        cls = getattr(mod, clsname)
        algo = cls(name=clsname, nxseg=nxseg, method_SD=ctor_kw.pop("method_SD", "per"), **ctor_kw)
        algo._set_data(data=np.zeros((4, Sy.shape[0])), fs=fs)
        Sval, Svec = new_fun.SD_svalsvec(Sy)
        Res = FDDResult if clsname == "FDD" else EFDDResult
        algo._set_result(Res(freq=freq.copy(), Sy=Sy.copy(), S_val=Sval, S_vec=Svec))
        return algo

    for i in range(24):
        fs, nxseg, nch, modes, freq, Sy, bw = random_case(rng)
        clsname = ["EFDD", "FSDD", "FDD"][i % 3] if i % 8 else "EFDD"
        ctor_kw = {"method_SD": str(rng.choice(["per", "cor"]))}
        if clsname != "FDD" and i % 5 == 0:
            ctor_kw.update(DF2=float(3 * bw), MAClim=0.9)
        an = build(new_algo, clsname, fs, nxseg, freq, Sy, dict(ctor_kw))
        ao = build(old_algo, clsname, fs, nxseg, freq, Sy, dict(ctor_kw))
        for j in range(3):  # consecutive calls on the same object
            sel = [fn * (1 + rng.uniform(-0.002, 0.002)) for fn, _ in modes]
            if clsname == "FDD":
                kw = {} if j == 0 and i % 2 else {"DF": float(rng.choice([0.1, 0.5 * bw, bw]))}
            else:
                kw = dict(
                    DF1=float(rng.choice([0.1, 0.5 * bw, bw])),
                    DF2=float(rng.choice([1.0, 4 * bw, 6 * bw, 8 * bw])),
                    MAClim=float(rng.choice([0.85, 0.95])),
                    sppk=int(rng.choice([3, 2])),
                    npmax=int(rng.choice([20, 12, 500 if j == 1 else 20])),
                )
                if j == 0 and i % 4 == 1:
                    kw = {}  # all defaults
                elif i % 4 == 2:
                    kw.pop("MAClim")
            rn = call(an.mpe, sel_freq=list(sel), **kw)
            ro = call(ao.mpe, sel_freq=list(sel), **kw)
            tag = f"{clsname}.mpe#{i}.{j} fs={fs} nxseg={nxseg} {kw}"
            st = compare(tag, rn, ro)
            n_ok += st == "ok"
            n_exc += st == "exc"
            sn, so = snapshot(an), snapshot(ao)
            if st == "exc":
                # by design the CLEAN version leaves the run parameters untouched when
                # the extraction fails; results must agree in both cases
                sn.pop("run_params"), so.pop("run_params")
            r = same(sn, so, "state")
            if r:
                FAILS.append(f"{tag}: {r}")

    # no result yet -> same exception
    for clsname in ("EFDD", "FSDD", "FDD"):
        an = getattr(new_algo, clsname)(name="x", nxseg=1024)
        ao = getattr(old_algo, clsname)(name="x", nxseg=1024)
        compare(f"{clsname}.mpe without run", call(an.mpe, sel_freq=[1.0]), call(ao.mpe, sel_freq=[1.0]))

    print(f"cases: {n_ok} ok-vs-ok, {n_exc} exception-vs-exception, {N_CMP[0]} leaf comparisons")
    if FAILS:
        print("FAIL")
        for f in FAILS[:30]:
            print("  -", f)
        return 1
    print("PASS")
    return 0


if __name__ == "__main__":
    sys.exit(main())
