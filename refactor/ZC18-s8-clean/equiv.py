"""
Differential test: the library under PYTHONPATH (CLEAN version of the commit)
against the pristine implementation saved next to this file as orig_gen.py.

Run as:  PYTHONPATH=<tree>/src /venv/bin/python equiv.py
Prints PASS and exits 0 when every compared output agrees.
"""
import importlib.util
import os
import sys
import warnings

import numpy as np

from pyoma2.functions import gen as new

warnings.simplefilter("ignore")

here = os.path.dirname(os.path.abspath(__file__))
spec = importlib.util.spec_from_file_location("orig_gen", os.path.join(here, "orig_gen.py"))
orig = importlib.util.module_from_spec(spec)
spec.loader.exec_module(orig)

rng = np.random.default_rng(2018)
n_cases = 0
failures = []


def call(fn, *args):
    try:
        return ("ok", fn(*args))
    except Exception as exc:  # noqa: BLE001 - the exception is part of the comparison
        return ("exc", exc)


def same(a, b):
    if isinstance(a, tuple) and isinstance(b, tuple):
        return len(a) == len(b) and all(same(x, y) for x, y in zip(a, b))
    a = np.asarray(a)
    b = np.asarray(b)
    if a.shape != b.shape:
        return False
    if a.dtype.kind != b.dtype.kind:
        return False
    if np.array_equal(a, b, equal_nan=True):
        return True
    return bool(np.allclose(a, b, rtol=1e-12, equal_nan=True))


def compare(tag, name, *args, exc_type_may_differ=False):
    global n_cases
    n_cases += 1
    r_old = call(getattr(orig, name), *[np.copy(a) if isinstance(a, np.ndarray) else a for a in args])
    r_new = call(getattr(new, name), *[np.copy(a) if isinstance(a, np.ndarray) else a for a in args])
    if r_old[0] != r_new[0]:
        failures.append(f"{tag}: {name}: original -> {r_old!r}, new -> {r_new!r}")
    elif r_old[0] == "exc":
        if exc_type_may_differ:
            pass  # invalid input is refused by both; only the wording differs
        elif not isinstance(r_new[1], type(r_old[1])) or str(r_new[1]) != str(r_old[1]):
            failures.append(
                f"{tag}: {name}: exceptions differ: {r_old[1]!r} vs {r_new[1]!r}"
            )
    elif not same(r_old[1], r_new[1]):
        failures.append(f"{tag}: {name}: {r_old[1]!r} vs {r_new[1]!r}")


def rand_shape(n):
    return rng.standard_normal(n) + 1j * rng.standard_normal(n)


def make_shapes():
    """A mixed bag of single mode shapes."""
    shapes = []
    for n in (2, 3, 4, 6, 11, 24, 64):
        for _ in range(4):
            shapes.append(("general", rand_shape(n)))
        # nearly real, as delivered by the identification algorithms
        r = rng.standard_normal(n)
        shapes.append(("nearly real", r * (1 + 0.05j * rng.standard_normal(n))))
        # normalised to a unit component
        p = rand_shape(n)
        shapes.append(("unit normalised", p / p[np.argmax(np.abs(p))]))
        # exactly collinear
        c = 10.0 ** rng.uniform(-6, 6) * np.exp(1j * rng.uniform(0, 6.28))
        shapes.append(("collinear", c * r))
        shapes.append(("purely real", r.astype(complex)))
        shapes.append(("purely real, float dtype", r.copy()))
        shapes.append(("purely imaginary", 1j * r))
        # nearly collinear
        shapes.append(("nearly collinear", c * (r + 1e-10j * rng.standard_normal(n))))
        # zero components
        z = rand_shape(n)
        z[rng.integers(n)] = 0
        shapes.append(("zero component", z))
        zr = c * r
        zr[rng.integers(n)] = 0
        shapes.append(("collinear, zero component", zr))
        # scaled
        shapes.append(("tiny", 1e-6 * rand_shape(n)))
        shapes.append(("huge", 1e6 * rand_shape(n)))
    shapes.append(("pinned", np.array([1 + 2j, 2 + 3j, 3 + 4j])))
    shapes.append(("integers", np.array([1, -2, 3, 0])))
    shapes.append(("one component", np.array([1 + 1j])))
    shapes.append(("all zero", np.zeros(4, dtype=complex)))
    shapes.append(("with nan", np.array([1 + 1j, np.nan, 2 - 1j])))
    shapes.append(("all nan", np.full(5, np.nan, dtype=complex)))
    shapes.append(("with inf", np.array([1 + 1j, np.inf, 2 - 1j])))
    return shapes


# ------------------------------------------------------------- single shapes
shapes = make_shapes()
for tag, phi in shapes:
    for name in ("MPD", "MPC", "MCF"):
        compare(tag, name, phi)
for (tag, a), (_, b) in zip(shapes[:-1], shapes[1:]):
    compare(tag, "MAC", a, b)
    compare(tag, "MSF", a, b)

# the pieces of MPD against the original closed form, component by component
for tag, phi in shapes:
    if phi.ndim != 1 or phi.size < 2 or not np.all(np.isfinite(phi)) or not np.any(phi):
        continue
    n_cases += 1
    U, s, VT = np.linalg.svd(np.c_[phi.real, phi.imag])
    V = VT.T
    num = phi.real * V[1, 1] - phi.imag * V[0, 1]
    den = np.sqrt(V[0, 1] ** 2 + V[1, 1] ** 2) * np.abs(phi)
    ratio = np.divide(np.abs(num), den, out=np.ones_like(den), where=den > 0)
    ref = np.arccos(np.clip(ratio, 0.0, 1.0))
    got = new._phase_deviation(phi, new._phase_line(phi))
    if not same(ref, got):
        failures.append(f"{tag}: _phase_deviation: {ref!r} vs {got!r}")

# ---------------------------------------------- sets of shapes (MAC, MCF, MSF)
for n, kx, ka in ((3, 1, 1), (4, 2, 3), (9, 5, 2), (3, 4, 4), (16, 6, 6), (5, 1, 4)):
    X = rng.standard_normal((n, kx)) + 1j * rng.standard_normal((n, kx))
    A = rng.standard_normal((n, ka)) + 1j * rng.standard_normal((n, ka))
    compare("sets", "MAC", X, A)
    compare("sets", "MAC", A, X)
    compare("sets", "MCF", X)
    compare("sets", "MSF", X, A)
    compare("sets", "MSF", X, 2.5 * X)

# ------------------------------------------------- the hard criterion (caller)
def make_stack(n_a, n_b, n_loc, p_nan, p_real, p_zero):
    stack = np.full((n_a, n_b, n_loc), np.nan, dtype=complex)
    for a in range(n_a):
        for b in range(n_b):
            u = rng.uniform()
            if u < p_nan:
                continue
            if u < p_nan + p_real:
                r = rng.standard_normal(n_loc)
                phi = r * (1 + 0.1j * rng.standard_normal(n_loc)) * np.exp(1j * rng.uniform(0, 6.28))
            else:
                phi = rand_shape(n_loc)
            if rng.uniform() < p_zero:
                phi[rng.integers(n_loc)] = 0
            if rng.uniform() < 0.05:
                phi[rng.integers(n_loc)] = np.nan
            stack[a, b] = phi
    return stack


for k in range(30):
    n_a = int(rng.integers(1, 9))
    n_b = int(rng.integers(1, 7))
    n_loc = int(rng.integers(2, 13))
    stack = make_stack(n_a, n_b, n_loc, 0.3, 0.5, 0.3)
    mpc_lim = float(rng.uniform(0.2, 0.95))
    mpd_lim = float(rng.uniform(0.05, 0.8))
    compare(f"stack {k}", "HC_phi_comp", stack, mpc_lim, mpd_lim)
# unusual limits
stack = make_stack(4, 3, 5, 0.2, 0.5, 0.3)
compare("stack, no mpc limit", "HC_phi_comp", stack, None, 0.3)
compare("stack, no mpd limit", "HC_phi_comp", stack, 0.7, None)
compare("stack, integer limits", "HC_phi_comp", stack, 0, 1)
compare("stack, real dtype", "HC_phi_comp", rng.standard_normal((3, 4, 6)), 0.7, 0.3)
compare("stack, all nan", "HC_phi_comp", np.full((2, 3, 4), np.nan), 0.7, 0.3)
compare("stack, empty", "HC_phi_comp", np.zeros((0, 3, 4), dtype=complex), 0.7, 0.3)
compare(
    "stack, wrong rank",
    "HC_phi_comp",
    np.zeros((3, 4), dtype=complex),
    0.7,
    0.3,
    exc_type_may_differ=True,
)

# injected collaborators with today's functions reproduce the default
for k in range(5):
    n_cases += 1
    stack = make_stack(5, 4, 6, 0.3, 0.5, 0.3)
    ref = orig.HC_phi_comp(stack.copy(), 0.7, 0.3)
    got = new.HC_phi_comp(stack.copy(), 0.7, 0.3, mpc_func=new.MPC, mpd_func=new.MPD)
    if not same(ref, got):
        failures.append(f"injected {k}: HC_phi_comp: {ref!r} vs {got!r}")

# ------------------------------------------------ callers further up: SC_apply
for k in range(6):
    n_modes, n_ord, n_loc = 6, 8, 5
    Fn = rng.uniform(1, 10, (n_modes, n_ord))
    Xi = rng.uniform(0.005, 0.05, (n_modes, n_ord))
    Phi = rng.standard_normal((n_modes, n_ord, n_loc)) + 1j * rng.standard_normal(
        (n_modes, n_ord, n_loc)
    )
    holes = rng.uniform(size=(n_modes, n_ord)) < 0.2
    Fn[holes] = np.nan
    Xi[holes] = np.nan
    Phi[holes] = np.nan
    compare(f"SC {k}", "SC_apply", Fn, Xi, Phi, 0, n_ord - 1, 1, 0.5, 0.9, 0.9)

print(f"{n_cases} comparisons")
if failures:
    print("FAIL")
    for f in failures[:20]:
        print(" -", f)
    sys.exit(1)
print("PASS")
sys.exit(0)
