"""
Differential test: the library on PYTHONPATH (CLEAN version applied) against the
pristine implementation kept next to this file (orig_ssi.py = functions/ssi.py,
orig_alg_ssi.py = algorithms/ssi.py at HEAD).

Only inputs that already worked at HEAD (ordmax given and within what the Hankel
matrix supports) plus inputs that raise in both are drawn: ordmax=None and ordmax
beyond the supported order are exactly what the commit changes (HEAD raises there).

Run as:  PYTHONPATH=<tree>/src /venv/bin/python equiv.py
"""
import os
import sys

os.environ.setdefault("TQDM_DISABLE", "1")

import importlib.util  # noqa: E402
import logging  # noqa: E402

import numpy as np  # noqa: E402

logging.disable(logging.CRITICAL)

import pyoma2.algorithms  # noqa: E402,F401  (parent package for the pristine copy)
from pyoma2.algorithms import ssi as new_alg  # noqa: E402
from pyoma2.functions import ssi as new_ssi  # noqa: E402
from pyoma2.setup import SingleSetup  # noqa: E402

HERE = os.path.dirname(os.path.abspath(__file__))


def _load(name, fname):
    spec = importlib.util.spec_from_file_location(name, os.path.join(HERE, fname))
    mod = importlib.util.module_from_spec(spec)
    sys.modules[name] = mod
    spec.loader.exec_module(mod)
    return mod


orig_ssi = _load("pyoma2.functions._orig_ssi", "orig_ssi.py")
orig_alg = _load("pyoma2.algorithms._orig_ssi", "orig_alg_ssi.py")
orig_alg.ssi = orig_ssi  # pristine algorithm classes call the pristine functions

FAILS = []
N_CMP = 0
N_EXC = 0


def same(a, b):
    if a is None or b is None:
        return a is None and b is None
    if isinstance(a, (list, tuple)):
        return (
            isinstance(b, (list, tuple))
            and len(a) == len(b)
            and all(same(x, y) for x, y in zip(a, b))
        )
    a, b = np.asarray(a), np.asarray(b)
    if a.shape != b.shape or a.dtype != b.dtype:
        return False
    if a.dtype.kind not in "biufc":
        return bool(np.all(a == b))
    return np.array_equal(a, b, equal_nan=True) or np.allclose(
        a, b, rtol=1e-12, atol=0, equal_nan=True
    )


def call(f, *a, **k):
    try:
        return ("ok", f(*a, **k))
    except Exception as e:  # noqa: BLE001
        return ("exc", type(e).__name__)


def compare(tag, r_new, r_old):
    global N_CMP, N_EXC
    N_CMP += 1
    N_EXC += r_old[0] == "exc"
    if r_new[0] != r_old[0]:
        FAILS.append(f"{tag}: new {r_new[0]} ({r_new[1] if r_new[0] == 'exc' else ''}) "
                     f"vs old {r_old[0]} ({r_old[1] if r_old[0] == 'exc' else ''})")
    elif r_new[0] == "exc":
        if r_new[1] != r_old[1]:
            FAILS.append(f"{tag}: exception {r_new[1]} vs {r_old[1]}")
    elif not same(r_new[1], r_old[1]):
        FAILS.append(f"{tag}: results differ")


def signal(n_ch, n_dat, rng):
    """A few decaying sinusoids plus a little noise, (n_ch, n_dat)."""
    m = rng.integers(1, 5)
    fn = rng.uniform(0.03, 0.45, m)
    xi = rng.uniform(0.002, 0.05, m)
    lam = 2 * np.pi * fn * (-xi + 1j * np.sqrt(1 - xi**2))
    phi = rng.normal(size=(n_ch, m)) + 1j * rng.normal(size=(n_ch, m)) * rng.integers(0, 2)
    y = 2 * np.real(phi @ np.exp(np.outer(lam, np.arange(n_dat))))
    return y + 1e-3 * rng.normal(size=y.shape)


def supported(n_ch, n_ref, br):
    return min(br * n_ch, (br + 1) * n_ref)


# ---------------------------------------------------------------------------
# 1. function level: build_hank, SSI_fast, SSI, SSI_poles
# ---------------------------------------------------------------------------
def functions_level(rng, n_cases=30):
    for it in range(n_cases):
        n_ch = int(rng.integers(1, 7))
        n_ref = int(rng.integers(1, n_ch + 1))
        ref = list(rng.permutation(n_ch)[:n_ref])
        br = int(rng.integers(2, 9))
        method = ["cov_mm", "dat", "cov_R"][it % 3]
        lim = supported(n_ch, n_ref, br)
        # orders up to and including the largest supported one
        ordmax = int(lim if it % 4 == 0 else rng.integers(1, lim + 1))
        step = int(rng.choice([1, 1, 2, 3]))
        calc_unc = method == "cov_mm" and it % 2 == 0 and lim <= 16
        nb = 10
        Y = signal(n_ch, int(rng.integers(300, 700)), rng)
        Yref = Y[ref, :]
        tag = f"fn[{it}] ch={n_ch} ref={ref} br={br} {method} ordmax={ordmax} step={step} unc={calc_unc}"

        rn = call(new_ssi.build_hank, Y, Yref, br, method, calc_unc=calc_unc, nb=nb)
        ro = call(orig_ssi.build_hank, Y, Yref, br, method, calc_unc=calc_unc, nb=nb)
        compare(tag + " build_hank", rn, ro)
        H, T = ro[1]

        rn = call(new_ssi.SSI_fast, H, br, ordmax, step=step, calc_unc=calc_unc, T=T, nb=nb)
        ro = call(orig_ssi.SSI_fast, H, br, ordmax, step=step, calc_unc=calc_unc, T=T, nb=nb)
        compare(tag + " SSI_fast", rn, ro)
        # positional step, as the legacy routine is called in the tests
        compare(
            tag + " SSI",
            call(new_ssi.SSI, H, br, ordmax, step),
            call(orig_ssi.SSI, H, br, ordmax, step),
        )
        # the legacy routine accepts orders up to the number of singular values
        big = int(min(H.shape))
        compare(tag + " SSI(big)", call(new_ssi.SSI, H, br, big), call(orig_ssi.SSI, H, br, big))

        if ro[0] == "ok":
            Obs, A, C, Q1, Q2, Q3, Q4 = ro[1]
            dt = float(rng.uniform(0.001, 0.1))
            kw = dict(step=step, calc_unc=calc_unc, Q1=Q1, Q2=Q2, Q3=Q3, Q4=Q4)
            # (step > 1 raises IndexError at HEAD and still does)
            compare(
                tag + " SSI_poles",
                call(new_ssi.SSI_poles, Obs, A, C, ordmax, dt, **kw),
                call(orig_ssi.SSI_poles, Obs, A, C, ordmax, dt, **kw),
            )

    # inputs that raise in both
    Y = signal(3, 200, rng)
    for method, unc in (("nope", False), ("dat", True), ("cov_R", True)):
        compare(
            f"build_hank {method} unc={unc}",
            call(new_ssi.build_hank, Y, Y, 3, method, calc_unc=unc),
            call(orig_ssi.build_hank, Y, Y, 3, method, calc_unc=unc),
        )
    # the matrix used by the unit tests (columns not a multiple of br + 1)
    H = np.arange(1.0, 13.0).reshape(4, 3)
    compare("unit H SSI_fast", call(new_ssi.SSI_fast, H, 1, 2, 1), call(orig_ssi.SSI_fast, H, 1, 2, 1))
    compare("unit H SSI", call(new_ssi.SSI, H, 1, 2, 1), call(orig_ssi.SSI, H, 1, 2, 1))
    compare(
        "unit SSI_poles",
        call(new_ssi.SSI_poles, np.array([[1]]), [np.array([[1]]), np.array([[7]])],
             [np.array([[1]]), np.array([[1]])], 1, 0.01, step=1),
        call(orig_ssi.SSI_poles, np.array([[1]]), [np.array([[1]]), np.array([[7]])],
             [np.array([[1]]), np.array([[1]])], 1, 0.01, step=1),
    )
    # ac2mp and SSI_mpe are untouched, but values reach the user through them
    for _ in range(5):
        n = int(rng.integers(1, 7))
        A = rng.normal(size=(n, n))
        C = rng.normal(size=(int(rng.integers(1, 6)), n))
        compare("ac2mp", call(new_ssi.ac2mp, A, C, 0.01), call(orig_ssi.ac2mp, A, C, 0.01))


# ---------------------------------------------------------------------------
# 2. class level: SSIcov / SSIdat through SingleSetup, then mpe
# ---------------------------------------------------------------------------
RESULT_FIELDS = [
    "Obs", "A", "C", "H", "Lambds", "Fn_poles", "Xi_poles", "Phi_poles", "Lab",
    "Fn_poles_cov", "Xi_poles_cov", "Phi_poles_cov",
]
MPE_FIELDS = ["order_out", "Fn", "Xi", "Phi", "Fn_cov", "Xi_cov", "Phi_cov"]


def run_alg(mod, clsname, data, fs, params, mpe_calls):
    cls = getattr(mod, clsname)
    ss = SingleSetup(data.copy(), fs)
    alg = cls(name="a", **params)
    ss.add_algorithms(alg)
    ss.run_by_name("a")
    out = [getattr(alg.result, f) for f in RESULT_FIELDS]
    out.append(alg.run_params.ordmax)
    for kw in mpe_calls:
        r = call(ss.mpe, "a", **kw)
        out.append(r[0] if r[0] == "ok" else r[1])
        out.append([getattr(alg.result, f) for f in MPE_FIELDS])
    return out


def class_level(rng, n_cases=24):
    for it in range(n_cases):
        clsname = ["SSIcov", "SSIdat"][it % 2]
        n_ch = int(rng.integers(2, 7))
        if it % 3 == 0:
            ref, n_ref = None, n_ch
        else:
            n_ref = int(rng.integers(1, n_ch + 1))
            ref = [int(i) for i in rng.permutation(n_ch)[:n_ref]]
        br = int(rng.integers(3, 12))
        lim = supported(n_ch, n_ref, br)
        ordmax = int(lim if it % 4 == 1 else rng.integers(2, lim + 1))
        fs = float(rng.choice([50.0, 100.0, 256.0]))
        data = signal(n_ch, int(rng.integers(400, 900)), rng).T
        params = dict(br=br, ordmax=ordmax, ref_ind=ref)
        if it % 5 == 0:
            params["hc"] = dict(conj=bool(it % 2), xi_max=0.2, mpc_lim=0.1, mpd_lim=1.0, cov_max=0.5)
        if it % 6 == 2:
            params["ordmin"] = int(rng.integers(0, ordmax))
        if clsname == "SSIcov" and it % 8 == 0 and lim <= 24:
            params.update(calc_unc=True, nb=10)
        if clsname == "SSIcov" and it % 10 == 4:
            params["method"] = "cov_R"
        sel = [float(f) for f in rng.uniform(0.03, 0.45, 2) * fs]
        o = int(rng.integers(1, ordmax + 1))
        mpe_calls = [
            dict(sel_freq=sel, order=o, rtol=0.5),
            dict(sel_freq=sel, order=[o, ordmax], rtol=0.5),
            dict(sel_freq=sel, order="find_min", rtol=0.2),
        ]
        tag = f"cls[{it}] {clsname} ch={n_ch} ref={ref} br={br} ordmax={ordmax} {sorted(params)}"
        compare(
            tag,
            call(run_alg, new_alg, clsname, data, fs, params, mpe_calls),
            call(run_alg, orig_alg, clsname, data, fs, params, mpe_calls),
        )


def main():
    rng = np.random.default_rng(20240501)
    functions_level(rng)
    class_level(rng)
    if FAILS:
        print("FAIL")
        for f in FAILS:
            print("  -", f)
        return 1
    print(f"PASS ({N_CMP} comparisons, {N_EXC} of them on inputs that raise at HEAD)")
    return 0


if __name__ == "__main__":
    sys.exit(main())
