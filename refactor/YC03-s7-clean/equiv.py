"""
Differential test: the library on PYTHONPATH (CLEAN version of the commit)
against the pristine sources saved next to this file (orig_ssi.py, orig_gen.py).

Run as:  PYTHONPATH=<tree>/src /venv/bin/python equiv.py
Prints PASS and exits 0 when every comparison agrees.
"""
import importlib.util
import logging
import os
import sys

os.environ.setdefault("TQDM_DISABLE", "1")

import numpy as np  # noqa: E402

logging.disable(logging.CRITICAL)
HERE = os.path.dirname(os.path.abspath(__file__))


def load(name, filename):
    spec = importlib.util.spec_from_file_location(name, os.path.join(HERE, filename))
    mod = importlib.util.module_from_spec(spec)
    spec.loader.exec_module(mod)
    return mod


orig_ssi = load("orig_ssi", "orig_ssi.py")
orig_gen = load("orig_gen", "orig_gen.py")

from pyoma2.functions import gen as new_gen  # noqa: E402
from pyoma2.functions import ssi as new_ssi  # noqa: E402

FAILS = []
N_CMP = 0


def same(a, b):
    if isinstance(a, (list, tuple)):
        return (
            isinstance(b, (list, tuple))
            and len(a) == len(b)
            and all(same(x, y) for x, y in zip(a, b))
        )
    if isinstance(a, dict):
        return isinstance(b, dict) and list(a) == list(b) and all(same(a[k], b[k]) for k in a)
    a = np.asarray(a)
    b = np.asarray(b)
    if a.shape != b.shape or a.dtype != b.dtype:
        return False
    if np.array_equal(a, b, equal_nan=True):
        return True
    return bool(np.allclose(a, b, rtol=1e-12, atol=0.0, equal_nan=True))


def call(f, *args, **kw):
    try:
        return ("ok", f(*args, **kw))
    except Exception as exc:  # noqa: BLE001
        return ("exc", type(exc))


def compare(label, f_new, f_old, *args, **kw):
    global N_CMP
    N_CMP += 1
    r_new = call(f_new, *args, **kw)
    r_old = call(f_old, *args, **kw)
    if r_new[0] != r_old[0]:
        FAILS.append(f"{label}: new {r_new[0]} ({r_new[1] if r_new[0] == 'exc' else ''}) vs old {r_old[0]} ({r_old[1] if r_old[0] == 'exc' else ''})")
    elif r_new[0] == "exc":
        if r_new[1] is not r_old[1]:
            FAILS.append(f"{label}: exception {r_new[1].__name__} vs {r_old[1].__name__}")
    elif not same(r_new[1], r_old[1]):
        FAILS.append(f"{label}: results differ")
    return r_new


def random_layout(rng):
    n_setup = int(rng.integers(1, 5))
    n_ref = int(rng.integers(1, 4))
    n_mov = [int(rng.integers(1, 5)) for _ in range(n_setup)]
    return n_setup, n_ref, n_mov


def random_datasets(rng, n_ref, n_mov, n_samp_lo=60, n_samp_hi=400, ints=False):
    datasets, reflist = [], []
    for nm in n_mov:
        n_ch = n_ref + nm
        n_samp = int(rng.integers(n_samp_lo, n_samp_hi))
        if ints:
            data = rng.integers(-50, 50, (n_samp, n_ch))
        else:
            data = rng.standard_normal((n_samp, n_ch)) * 10.0 ** rng.integers(-2, 3)
        datasets.append(data)
        reflist.append([int(c) for c in rng.permutation(n_ch)[:n_ref]])
    return datasets, reflist


def test_split(rng):
    for it in range(40):
        _, n_ref, n_mov = random_layout(rng)
        datasets, reflist = random_datasets(rng, n_ref, n_mov, ints=(it % 7 == 0))
        form = it % 3
        if form == 1:
            refs = [tuple(r) for r in reflist]
        elif form == 2:
            refs = [np.array(r) for r in reflist]
        else:
            refs = reflist
        compare(f"pre_multisetup #{it}", new_gen.pre_multisetup, orig_gen.pre_multisetup, datasets, refs)
    # Fortran-ordered and non-contiguous datasets
    for it in range(6):
        _, n_ref, n_mov = random_layout(rng)
        datasets, reflist = random_datasets(rng, n_ref, n_mov)
        datasets = [np.asfortranarray(d) if i % 2 else d[::2] for i, d in enumerate(datasets)]
        compare(f"pre_multisetup layout #{it}", new_gen.pre_multisetup, orig_gen.pre_multisetup, datasets, reflist)
    # rejected reference lists: repeated, out of range, negative
    data = [rng.standard_normal((30, 4)), rng.standard_normal((30, 5))]
    for bad in ([[0, 0], [1, 2]], [[0, 4], [1, 2]], [[0, 1], [5, 2]], [[0, -1], [1, 2]], [[1, 2], [3, 3]]):
        compare(f"pre_multisetup bad refs {bad}", new_gen.pre_multisetup, orig_gen.pre_multisetup, data, bad)


def test_ssi_multi(rng):
    methods = ["cov_mm", "dat", "cov_R"]
    for it in range(36):
        n_setup, n_ref, n_mov = random_layout(rng)
        br = int(rng.integers(2, 13))
        n_dof = n_ref + sum(n_mov)
        lim = min((br + 1) * n_ref, (br - 1) * n_dof)
        ordmax = int(rng.integers(1, min(lim, 14) + 1))
        datasets, reflist = random_datasets(rng, n_ref, n_mov, n_samp_lo=150)
        Y = orig_gen.pre_multisetup(datasets, reflist)
        method = methods[it % 3]
        step = 1 if it % 4 else 2
        label = f"SSI_multi_setup #{it} (setups={n_setup}, n_ref={n_ref}, n_mov={n_mov}, br={br}, ordmax={ordmax}, {method}, step={step})"
        if it % 2:
            compare(label, new_ssi.SSI_multi_setup, orig_ssi.SSI_multi_setup, Y, 50.0, br, ordmax, method, step)
        else:
            compare(label, new_ssi.SSI_multi_setup, orig_ssi.SSI_multi_setup, Y, 50.0, br, ordmax, step=step, method_hank=method)
    # the unit-test sized call and an invalid method
    Y = [
        {"ref": rng.random((3, 10)), "mov": rng.random((2, 10))},
        {"ref": rng.random((3, 10)), "mov": rng.random((2, 10))},
    ]
    compare("SSI_multi_setup tiny", new_ssi.SSI_multi_setup, orig_ssi.SSI_multi_setup, Y, 1.0, 2, 3, "cov_mm")
    compare("SSI_multi_setup tiny step", new_ssi.SSI_multi_setup, orig_ssi.SSI_multi_setup, Y, 1.0, 2, 3, step=2, method_hank="cov_mm")
    compare("SSI_multi_setup order too large", new_ssi.SSI_multi_setup, orig_ssi.SSI_multi_setup, Y, 1.0, 2, 11, "cov_mm")
    compare("SSI_multi_setup invalid", new_ssi.SSI_multi_setup, orig_ssi.SSI_multi_setup, Y, 1.0, 2, 3, "INVALID")


def free_decay_case(rng, m, n_ref, n_mov, n_samp=500, fs=100.0):
    n_dof = n_ref + sum(n_mov)
    fn = np.sort(rng.uniform(2.0, 20.0, m)) + np.arange(m)
    xi = rng.uniform(0.005, 0.03, m)
    lam = -xi * 2 * np.pi * fn + 1j * 2 * np.pi * fn * np.sqrt(1 - xi**2)
    phi = rng.uniform(0.3, 1.0, (n_dof, m)) * rng.choice([-1.0, 1.0], (n_dof, m))
    t = np.arange(n_samp) / fs
    datasets, reflist, start = [], [], n_ref
    for nm in n_mov:
        rows = np.vstack((phi[:n_ref], phi[start : start + nm]))
        start += nm
        amp = rng.uniform(0.5, 1.5, m) * np.exp(1j * rng.uniform(0, 6.28, m))
        y = 10.0 ** rng.uniform(-2, 2) * np.real(rows @ (amp[:, None] * np.exp(lam[:, None] * t)))
        perm = rng.permutation(n_ref + nm)
        data = np.empty((n_samp, n_ref + nm))
        data[:, perm] = y.T
        datasets.append(data)
        reflist.append([int(c) for c in perm[:n_ref]])
    return datasets, reflist


def test_noise_free(rng):
    for it in range(8):
        _, n_ref, n_mov = random_layout(rng)
        m = int(rng.integers(1, 4))
        br = int(rng.integers(2 * m // n_ref + 2, 12))
        datasets, reflist = free_decay_case(rng, m, n_ref, n_mov)
        Y_new = new_gen.pre_multisetup(datasets, reflist)
        Y_old = orig_gen.pre_multisetup(datasets, reflist)
        global N_CMP
        N_CMP += 1
        r_new = call(new_ssi.SSI_multi_setup, Y_new, 100.0, br, 2 * m, method_hank=("cov_mm", "dat")[it % 2])
        r_old = call(orig_ssi.SSI_multi_setup, Y_old, 100.0, br, 2 * m, method_hank=("cov_mm", "dat")[it % 2])
        if r_new[0] != r_old[0] or (r_new[0] == "ok" and not same(r_new[1], r_old[1])):
            FAILS.append(f"noise-free pipeline #{it} (m={m}, n_ref={n_ref}, n_mov={n_mov}, br={br}) differs")


def test_class(rng):
    from pyoma2.algorithms.ssi import SSIcov_MS, SSIdat_MS
    from pyoma2.setup.multi import MultiSetup_PreGER

    global N_CMP
    for it in range(4):
        n_setup, n_ref, n_mov = random_layout(rng)
        datasets, reflist = random_datasets(rng, n_ref, n_mov, n_samp_lo=300, n_samp_hi=301)
        ms = MultiSetup_PreGER(fs=100.0, ref_ind=reflist, datasets=datasets)
        steps = [
            ("init", lambda: None),
            ("detrend", lambda: ms.detrend_data()),
            ("filter", lambda: ms.filter_data(Wn=30.0, order=4)),
            ("decimate", lambda: ms.decimate_data(q=2)),
        ]
        for name, action in steps:
            action()
            N_CMP += 1
            if not same(ms.data, orig_gen.pre_multisetup(ms.datasets, reflist)):
                FAILS.append(f"MultiSetup_PreGER #{it}: data after {name} differ from the original split")
        br = int(rng.integers(3, 9))
        n_dof = n_ref + sum(n_mov)
        ordmax = int(min((br + 1) * n_ref, (br - 1) * n_dof, 8))
        for cls, method in ((SSIcov_MS, "cov_mm"), (SSIdat_MS, "dat")):
            alg = cls(name=method, br=br, ordmax=ordmax, method=method)
            ms.add_algorithms(alg)
            ms.run_by_name(method)
            res = ms[method].result
            N_CMP += 1
            ref = call(orig_ssi.SSI_multi_setup, orig_gen.pre_multisetup(ms.datasets, reflist), ms.fs, br, ordmax, step=1, method_hank=method)
            if ref[0] != "ok" or not same([res.Obs, res.A, res.C], list(ref[1])):
                FAILS.append(f"MultiSetup_PreGER #{it}: {cls.__name__} Obs/A/C differ from the original routine")


def main():
    rng = np.random.default_rng(303)
    test_split(rng)
    test_ssi_multi(rng)
    test_noise_free(rng)
    test_class(rng)
    if FAILS:
        print(f"FAIL ({len(FAILS)} of {N_CMP} comparisons)")
        for f in FAILS[:30]:
            print("  " + f)
        return 1
    print(f"PASS ({N_CMP} comparisons)")
    return 0


if __name__ == "__main__":
    sys.exit(main())
