"""
Differential test: the refactored pyoma2.functions.ssi (as found on PYTHONPATH) against
the pristine copy saved next to this file as orig_ssi.py.

Run as:  PYTHONPATH=<tree>/src /venv/bin/python equiv.py
Prints PASS and exits 0 when every output (or raised exception) is the same.
"""
import importlib.util
import logging
import os
import sys
import warnings

import numpy as np

warnings.filterwarnings("ignore")
logging.disable(logging.CRITICAL)

from pyoma2.algorithms import SSIcov, SSIcov_MS, SSIdat, SSIdat_MS  # noqa: E402
from pyoma2.algorithms import ssi as alg_ssi  # noqa: E402
from pyoma2.functions import ssi as new  # noqa: E402

HERE = os.path.dirname(os.path.abspath(__file__))
spec = importlib.util.spec_from_file_location("orig_ssi", os.path.join(HERE, "orig_ssi.py"))
old = importlib.util.module_from_spec(spec)
spec.loader.exec_module(old)

for mod in (new, old):  # no progress bars
    mod.trange = lambda *a, **k: range(*a)
    mod.tqdm = lambda it, *a, **k: it

N_CMP = 0
N_EXC = 0
MISMATCH = []


def same(a, b):
    if a is None or b is None:
        return a is None and b is None
    if isinstance(a, str) or isinstance(b, str):
        return a == b
    if isinstance(a, (list, tuple)):
        return (
            isinstance(b, (list, tuple))
            and type(a) is type(b)
            and len(a) == len(b)
            and all(same(x, y) for x, y in zip(a, b))
        )
    a, b = np.asarray(a), np.asarray(b)
    if a.shape != b.shape or a.dtype != b.dtype:
        return False
    if np.array_equal(a, b, equal_nan=True):
        return True
    return bool(np.allclose(a, b, rtol=1e-12, atol=0.0, equal_nan=True))


def call(f, *a, **k):
    try:
        return ("ok", f(*a, **k))
    except Exception as exc:  # noqa: BLE001
        return ("exc", (type(exc).__name__, str(exc)))


def check(label, fname, *a, **k):
    global N_CMP, N_EXC
    N_CMP += 1
    r_new = call(getattr(new, fname), *a, **k)
    r_old = call(getattr(old, fname), *a, **k)
    N_EXC += r_old[0] == "exc"
    if r_new[0] != r_old[0]:
        MISMATCH.append(f"{label}: new -> {r_new[0]} {r_new[1] if r_new[0] == 'exc' else ''}, "
                        f"old -> {r_old[0]} {r_old[1] if r_old[0] == 'exc' else ''}")
    elif r_new[0] == "exc":
        if r_new[1] != r_old[1]:
            MISMATCH.append(f"{label}: exceptions differ {r_new[1]} / {r_old[1]}")
    elif not same(r_new[1], r_old[1]):
        MISMATCH.append(f"{label}: outputs differ")
    return r_new


def result_fields(res):
    names = ["Obs", "A", "C", "H", "Lambds", "Fn_poles", "Xi_poles", "Phi_poles", "Lab",
             "Fn_poles_cov", "Xi_poles_cov", "Phi_poles_cov", "Fn", "Xi", "Phi", "order_out"]
    return [getattr(res, n, None) for n in names]


def run_alg(module, make_alg, data, fs, do_mpe):
    """Run the algorithm class with `module` as its function library; then extract one mode."""
    alg_ssi.ssi = module
    try:
        alg = make_alg()
        alg._set_data(data=data, fs=fs)
        alg._pre_run()
        alg._set_result(alg.run())
        out = result_fields(alg.result)
        if do_mpe:
            # a pole that survived the hard criteria, taken from the table just computed
            Fn = alg.result.Fn_poles
            found = np.argwhere(~np.isnan(Fn))
            if len(found):
                row, col = found[len(found) // 2]
                out.append(call(alg.mpe, sel_freq=[float(Fn[row, col]) * 1.001], order=int(col)))
                out.extend(result_fields(alg.result))
                orders = [int(col), int(found[-1][1])]
                freqs = [float(Fn[row, col]), float(Fn[tuple(found[-1])])]
                out.append(call(alg.mpe, sel_freq=freqs, order=orders, rtol=1e-3))
                out.extend(result_fields(alg.result))
            else:
                out.append("no pole")
        return out
    finally:
        alg_ssi.ssi = new


def check_alg(label, make_alg, data, fs, do_mpe=False):
    global N_CMP, N_EXC
    N_CMP += 1
    r_new = call(run_alg, new, make_alg, data, fs, do_mpe)
    r_old = call(run_alg, old, make_alg, data, fs, do_mpe)
    N_EXC += r_old[0] == "exc"
    if r_new[0] != r_old[0] or (r_new[0] == "exc" and r_new[1] != r_old[1]):
        MISMATCH.append(f"{label}: {r_new[0]} {r_new[1] if r_new[0] == 'exc' else ''} / "
                        f"{r_old[0]} {r_old[1] if r_old[0] == 'exc' else ''}")
    elif r_new[0] == "ok" and not same(r_new[1], r_old[1]):
        MISMATCH.append(f"{label}: results differ")


def signal(rng, n_ch, n_dat, fs):
    """A few decaying / noisy sinusoids so that the identification is not degenerate."""
    t = np.arange(n_dat) / fs
    y = np.zeros((n_ch, n_dat))
    for _ in range(rng.integers(1, 4)):
        f = rng.uniform(0.03, 0.4) * fs
        y += np.outer(rng.normal(size=n_ch), np.exp(-rng.uniform(0.01, 0.3) * t) * np.sin(2 * np.pi * f * t + rng.uniform(0, 6)))
    return y + rng.uniform(0.0, 0.2) * rng.normal(size=y.shape)


def main():
    rng = np.random.default_rng(7)

    # ---- build_hank / SSI / SSI_fast / SSI_poles on random data -----------------------
    for it in range(30):
        n_ch = int(rng.integers(1, 7))
        n_ref = int(rng.integers(1, n_ch + 1))
        ref_ind = [int(i) for i in rng.permutation(n_ch)[:n_ref]]
        br = int(rng.integers(1, 9))
        n_dat = int(rng.integers(4 * br + 40, 600))
        fs = float(rng.choice([1.0, 20.0, 100.0, 256.0]))
        Y = signal(rng, n_ch, n_dat, fs)
        Yref = Y if (n_ref == n_ch and rng.random() < 0.5) else Y[ref_ind, :]
        method = ["cov_mm", "cov_R", "dat", "bogus"][int(rng.choice(4, p=[0.4, 0.15, 0.4, 0.05]))]
        step = int(rng.choice([1, 1, 1, 2, 3]))
        ordmax = int(rng.integers(1, min(br * n_ch, (br + 1) * Yref.shape[0]) + 1))
        tag = (f"#{it} n_ch={n_ch} ref={ref_ind if Yref is not Y else None} br={br} "
               f"{method} ordmax={ordmax} step={step}")

        r = check(f"build_hank {tag}", "build_hank", Y, Yref, br, method)
        if r[0] != "ok":
            continue
        H = r[1][0]
        check(f"_hank/SSI {tag}", "SSI", H, br, ordmax, step)
        r = check(f"SSI_fast {tag}", "SSI_fast", H, br, ordmax, step=step)
        if r[0] == "ok":
            Obs, A, C = r[1][:3]
            check(f"SSI_poles {tag}", "SSI_poles", Obs, A, C, ordmax, 1 / fs, step=step)
        # positional step, over-long ordmax (error paths must agree too)
        check(f"SSI_fast big ordmax {tag}", "SSI_fast", H, br, (br + 1) * n_ch + 3, step)
        check(f"SSI big ordmax {tag}", "SSI", H, br, (br + 1) * n_ch + 3)

    # ---- uncertainty branch (small sizes) ---------------------------------------------
    for it in range(8):
        n_ch = int(rng.integers(1, 4))
        n_ref = int(rng.integers(1, n_ch + 1))
        ref_ind = sorted(int(i) for i in rng.permutation(n_ch)[:n_ref])
        br = int(rng.integers(1, 4))
        nb = int(rng.integers(5, 12))
        Y = signal(rng, n_ch, int(rng.integers(300, 500)), 50.0)
        Yref = Y[ref_ind, :]
        ordmax = int(rng.integers(1, min(br * n_ch, (br + 1) * n_ref) + 1))
        tag = f"unc#{it} n_ch={n_ch} ref={ref_ind} br={br} nb={nb} ordmax={ordmax}"
        check(f"build_hank unc/dat {tag}", "build_hank", Y, Yref, br, "dat", True, nb)
        r = check(f"build_hank unc {tag}", "build_hank", Y, Yref, br, "cov_mm", calc_unc=True, nb=nb)
        if r[0] != "ok":
            continue
        H, T = r[1]
        r = check(f"SSI_fast unc {tag}", "SSI_fast", H, br, ordmax, step=1, calc_unc=True, T=T, nb=nb)
        if r[0] == "ok":
            Obs, A, C, Q1, Q2, Q3, Q4 = r[1]
            check(f"SSI_poles unc {tag}", "SSI_poles", Obs, A, C, ordmax, 0.02, step=1,
                  calc_unc=True, Q1=Q1, Q2=Q2, Q3=Q3, Q4=Q4)

    # ---- SSI_multi_setup ----------------------------------------------------------------
    for it in range(10):
        n_ref = int(rng.integers(1, 4))
        n_setup = int(rng.integers(1, 4))
        br = int(rng.integers(2, 7))
        n_dat = int(rng.integers(200, 400))
        Yms = []
        for _ in range(n_setup):
            n_mov = int(rng.integers(1, 4))
            y = signal(rng, n_ref + n_mov, n_dat, 50.0)
            Yms.append({"ref": y[:n_ref], "mov": y[n_ref:]})
        ordmax = int(rng.integers(1, br * n_ref + 1))
        method = str(rng.choice(["cov_mm", "dat", "cov_R", "nope"], p=[0.4, 0.4, 0.1, 0.1]))
        step = int(rng.choice([1, 1, 2]))
        tag = f"ms#{it} n_ref={n_ref} setups={n_setup} br={br} {method} ordmax={ordmax} step={step}"
        check(f"SSI_multi_setup {tag}", "SSI_multi_setup", Yms, 50.0, br, ordmax, method, step)
        check(f"SSI_multi_setup kw {tag}", "SSI_multi_setup", Yms, 50.0, br, ordmax,
              step=step, method_hank=method)
        if it < 4:
            cls = SSIcov_MS if it % 2 else SSIdat_MS
            check_alg(f"{cls.__name__} {tag}",
                      lambda cls=cls, br=br, ordmax=ordmax: cls(name="a", br=br, ordmax=ordmax),
                      Yms, 50.0)

    # ---- single-setup algorithm classes (run + mpe) ---------------------------------------
    for it in range(12):
        n_ch = int(rng.integers(2, 7))
        ref_ind = None
        if rng.random() < 0.7:
            ref_ind = [int(i) for i in rng.permutation(n_ch)[: int(rng.integers(1, n_ch + 1))]]
        br = int(rng.integers(3, 10))
        fs = float(rng.choice([50.0, 100.0]))
        data = signal(rng, n_ch, int(rng.integers(300, 700)), fs).T
        n_r = n_ch if ref_ind is None else len(ref_ind)
        ordmax = int(rng.integers(2, min(br * n_ch, (br + 1) * n_r, 14) + 1))
        cls, method = [(SSIcov, "cov_mm"), (SSIdat, "dat"), (SSIcov, None), (SSIcov, "cov_R")][it % 4]
        kw = dict(name="a", br=br, ordmax=ordmax, ref_ind=ref_ind,
                  hc=dict(conj=True, xi_max=0.3, mpc_lim=0.0, mpd_lim=10.0, cov_max=10.0))
        if method is not None:
            kw["method"] = method
        if it % 5 == 0 and n_ch <= 3 and br <= 4 and method == "cov_mm":
            kw.update(calc_unc=True, nb=8)
        check_alg(f"{cls.__name__} #{it} n_ch={n_ch} ref_ind={ref_ind} br={br} ordmax={ordmax}",
                  lambda cls=cls, kw=kw: cls(**kw), data, fs, True)

    if MISMATCH:
        print(f"FAIL: {len(MISMATCH)} of {N_CMP} comparisons differ")
        for m in MISMATCH[:40]:
            print("  -", m)
        return 1
    print(f"PASS ({N_CMP} comparisons identical; {N_EXC} of them are calls that raise "
          f"the same exception in both versions)")
    return 0


if __name__ == "__main__":
    sys.exit(main())
