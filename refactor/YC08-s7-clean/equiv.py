"""
Differential test: CLEAN version of the commit vs. the unmodified library.

Run as:  PYTHONPATH=<tree>/src /venv/bin/python equiv.py      (with clean.diff applied)

The pristine implementation is loaded from the copies saved next to this file
(orig_ssi.py, orig_gen.py = functions/ssi.py and functions/gen.py at HEAD).  Compared:
  1. gen.unity_norm against the original inline normalisation (random complex / real
     matrices, 1..8 channels, 1..14 modes, NaN / inf entries, 1-D input)
  2. ssi.ac2mp (both calc_unc settings) on random state-space pairs, incl. bad shapes
  3. ssi.SSI_poles on random (A, C) lists
  4. the chain build_hank -> SSI_fast -> SSI_poles on random records for all Hankel
     methods, reference subsets and calc_unc=True (cov_mm)
  5. SSIcov / SSIdat run + mpe through SingleSetup, the algorithm module being pointed
     at the original functions for the reference run
  6. the functions of gen.py that the commit did not touch (MAC, MPC, MPD, MSF, MCF)
Outputs are compared with numpy.array_equal (NaN-aware) and, failing that, with
allclose(rtol=1e-12, equal_nan=True); raised exceptions must be of the same type.
Inputs with magnitudes tied to within 1e-10 (the case the commit changes on purpose)
do not occur in random data and are not part of the comparison.
"""

import importlib.util
import logging
import os
import sys
import warnings

for _v in ("OMP_NUM_THREADS", "OPENBLAS_NUM_THREADS", "MKL_NUM_THREADS"):
    os.environ.setdefault(_v, "1")
os.environ.setdefault("TQDM_DISABLE", "1")

import numpy as np  # noqa: E402

warnings.filterwarnings("ignore")
logging.disable(logging.CRITICAL)

HERE = os.path.dirname(os.path.abspath(__file__))


def _load(name, fname):
    spec = importlib.util.spec_from_file_location(name, os.path.join(HERE, fname))
    mod = importlib.util.module_from_spec(spec)
    sys.modules[name] = mod
    spec.loader.exec_module(mod)
    return mod


orig_ssi = _load("orig_ssi", "orig_ssi.py")
orig_gen = _load("orig_gen", "orig_gen.py")

import pyoma2.algorithms.ssi as alg_ssi  # noqa: E402
from pyoma2.functions import gen as new_gen  # noqa: E402
from pyoma2.functions import ssi as new_ssi  # noqa: E402
from pyoma2.setup.single import SingleSetup  # noqa: E402

N_CASES = 0
FAILURES = []


def eq(a, b):
    if a is None or b is None:
        return a is None and b is None
    if isinstance(a, (list, tuple)):
        return (
            isinstance(b, (list, tuple))
            and len(a) == len(b)
            and all(eq(x, y) for x, y in zip(a, b))
        )
    a, b = np.asarray(a), np.asarray(b)
    if a.shape != b.shape:
        return False
    if a.size == 0:
        return True
    if np.array_equal(a, b, equal_nan=True):
        return True
    return bool(np.allclose(a, b, rtol=1e-12, equal_nan=True))


def call(f, *a, **k):
    try:
        return ("ok", f(*a, **k))
    except Exception as e:  # noqa: BLE001
        return ("exc", type(e).__name__)


def check(label, f_new, f_old, *a, **k):
    global N_CASES
    N_CASES += 1
    r_new, r_old = call(f_new, *a, **k), call(f_old, *a, **k)
    if r_new[0] != r_old[0]:
        FAILURES.append(f"{label}: new -> {r_new[0]} {r_new[1] if r_new[0]=='exc' else ''}, "
                        f"old -> {r_old[0]} {r_old[1] if r_old[0]=='exc' else ''}")
    elif r_new[0] == "exc":
        if r_new[1] != r_old[1]:
            FAILURES.append(f"{label}: exception {r_new[1]} vs {r_old[1]}")
    elif not eq(r_new[1], r_old[1]):
        FAILURES.append(f"{label}: outputs differ")


def old_norm(phi):
    """The normalisation as written inline in the original ac2mp (columns = modes)."""
    return np.array(
        [phi[:, ii] / phi[np.argmax(abs(phi[:, ii])), ii] for ii in range(phi.shape[1])]
    ).reshape(-1, phi.shape[0]).T  # fmt: skip


def main():
    rng = np.random.default_rng(20240)

    # 1. unity_norm ---------------------------------------------------------------
    for t in range(60):
        nch, nm = int(rng.integers(1, 9)), int(rng.integers(1, 15))
        scale = 10.0 ** rng.uniform(-3, 3)
        phi = scale * (rng.standard_normal((nch, nm)) + 1j * rng.standard_normal((nch, nm)))
        if t % 4 == 1:
            phi = phi.real.copy()
        if t % 5 == 2:
            phi[:, rng.integers(nm)] = np.nan
        if t % 7 == 3:
            phi[rng.integers(nch), rng.integers(nm)] = np.nan
        if t % 11 == 4:
            phi[rng.integers(nch), rng.integers(nm)] = np.inf
        check(f"unity_norm[{t}]", new_gen.unity_norm, old_norm, phi)
    for t in range(10):
        v = rng.standard_normal(int(rng.integers(1, 9))) * (1 + 1j)
        check(f"unity_norm-1d[{t}]", new_gen.unity_norm,
              lambda x: x / x[np.argmax(np.abs(x))], v)  # fmt: skip

    # 2. ac2mp --------------------------------------------------------------------
    for t in range(60):
        n, nch = int(rng.integers(1, 13)), int(rng.integers(1, 9))
        a = rng.standard_normal((n, n)) * rng.uniform(0.2, 1.0)
        if t % 6 == 0:  # a proper set of lightly damped oscillators
            blocks = []
            for _ in range(max(n // 2, 1)):
                r, th = rng.uniform(0.9, 0.999), rng.uniform(0.1, 3.0)
                blocks.append(r * np.array([[np.cos(th), -np.sin(th)], [np.sin(th), np.cos(th)]]))
            from scipy.linalg import block_diag

            a0 = block_diag(*blocks)
            tt = rng.standard_normal(a0.shape)
            a = tt @ a0 @ np.linalg.inv(tt)
            n = a.shape[0]
        c = rng.standard_normal((nch, n)) * 10.0 ** rng.uniform(-4, 4)
        dt = float(10.0 ** rng.uniform(-3, 1))
        for unc in (False, True):
            check(f"ac2mp[{t},{unc}]", new_ssi.ac2mp, orig_ssi.ac2mp, a, c, dt, calc_unc=unc)
    check("ac2mp-badshape", new_ssi.ac2mp, orig_ssi.ac2mp,
          rng.standard_normal((4, 4)), rng.standard_normal((3, 5)), 0.01)  # fmt: skip
    check("ac2mp-nonsquare", new_ssi.ac2mp, orig_ssi.ac2mp,
          rng.standard_normal((4, 3)), rng.standard_normal((3, 4)), 0.01)  # fmt: skip
    check("ac2mp-nan", new_ssi.ac2mp, orig_ssi.ac2mp,
          np.full((3, 3), np.nan), rng.standard_normal((2, 3)), 0.01)  # fmt: skip

    # 3. SSI_poles on random lists --------------------------------------------------
    for t in range(20):
        ordmax, nch = int(rng.integers(2, 11)), int(rng.integers(1, 7))
        aa = [rng.standard_normal((i, i)) for i in range(ordmax + 1)]
        cfull = rng.standard_normal((nch, ordmax))
        cc = [cfull[:, :i] for i in range(ordmax + 1)]
        dt = float(10.0 ** rng.uniform(-3, 0))
        check(f"SSI_poles[{t}]", new_ssi.SSI_poles, orig_ssi.SSI_poles,
              None, aa, cc, ordmax, dt, step=1, calc_unc=False)  # fmt: skip

    # 4. Hankel -> SSI_fast -> SSI_poles chain ---------------------------------------
    def chain(mod, y, ref, br, ordmax, method, unc, nb):
        yref = y if ref is None else y[ref, :]
        h, tmat = mod.build_hank(y, yref, br, method, calc_unc=unc, nb=nb)
        obs, a, c, q1, q2, q3, q4 = mod.SSI_fast(h, br, ordmax, step=1, calc_unc=unc, T=tmat, nb=nb)
        return mod.SSI_poles(obs, a, c, ordmax, 0.02, step=1, calc_unc=unc,
                             Q1=q1, Q2=q2, Q3=q3, Q4=q4)  # fmt: skip

    for t in range(24):
        nch = int(rng.integers(2, 7))
        y = np.cumsum(rng.standard_normal((nch, 1500)), axis=1) * 10.0 ** rng.uniform(-5, 3)
        y -= y.mean(axis=1, keepdims=True)
        br, method = int(rng.integers(3, 8)), ("cov_mm", "cov_R", "dat")[t % 3]
        ref = None if t % 2 else list(rng.permutation(nch)[: max(1, nch // 2)])
        nref = nch if ref is None else len(ref)
        ordmax = int(min(rng.integers(4, 13), nref * (br + 1) - 1, nch * br))
        unc = method == "cov_mm" and t % 4 == 0
        check(f"chain[{t},{method},ref={ref},unc={unc}]",
              lambda *a: chain(new_ssi, *a), lambda *a: chain(orig_ssi, *a),
              y, ref, br, ordmax, method, unc, 20)  # fmt: skip

    # 5. through the algorithm classes -------------------------------------------------
    def through_setup(funcs, cls, data, fs, kw, sel, order):
        saved = alg_ssi.ssi
        alg_ssi.ssi = funcs
        try:
            ss = SingleSetup(data, fs=fs)
            alg = cls(name="x", **kw)
            ss.add_algorithms(alg)
            ss.run_by_name("x")
            ss.mpe("x", sel_freq=sel, order=order, rtol=0.5)
            r = alg.result
            return [r.Fn_poles, r.Xi_poles, r.Phi_poles, r.Lambds, r.Lab, r.Fn, r.Xi, r.Phi,
                    r.Fn_poles_cov, r.Xi_poles_cov]  # fmt: skip
        finally:
            alg_ssi.ssi = saved

    tgrid = np.arange(3000) / 100.0
    for t in range(8):
        nch = int(rng.integers(2, 6))
        f1, f2 = rng.uniform(2, 8), rng.uniform(12, 30)
        sh = rng.standard_normal((2, nch))
        mod1 = np.convolve(rng.standard_normal(3000), np.exp(-0.2 * tgrid[:600]) * np.sin(2 * np.pi * f1 * tgrid[:600]))[:3000]
        mod2 = np.convolve(rng.standard_normal(3000), np.exp(-0.5 * tgrid[:600]) * np.sin(2 * np.pi * f2 * tgrid[:600]))[:3000]
        data = np.outer(mod1, sh[0]) + np.outer(mod2, sh[1]) + 0.05 * rng.standard_normal((3000, nch))
        data *= 10.0 ** rng.uniform(-4, 2)
        cls = (alg_ssi.SSIcov, alg_ssi.SSIdat)[t % 2]
        kw = dict(br=int(rng.integers(6, 12)), ordmax=int(rng.integers(6, 13)))
        if t % 3 == 0:
            kw["ref_ind"] = [nch - 1, 0]
        if t == 4:
            kw.update(method="cov_mm", calc_unc=True, nb=20)
        if t == 6:
            kw.update(method="cov_R")
        check(f"setup[{t},{cls.__name__},{kw}]",
              lambda *a: through_setup(new_ssi, *a), lambda *a: through_setup(orig_ssi, *a),
              cls, data, 100.0, kw, [float(f1), float(f2)], kw["ordmax"])  # fmt: skip

    # 6. untouched helpers of gen.py -----------------------------------------------------
    for t in range(6):
        p1 = rng.standard_normal((5, 3)) + 1j * rng.standard_normal((5, 3))
        p2 = rng.standard_normal((5, 3)) + 1j * rng.standard_normal((5, 3))
        check(f"MAC[{t}]", new_gen.MAC, orig_gen.MAC, p1, p2)
        check(f"MSF[{t}]", new_gen.MSF, orig_gen.MSF, p1, p2)
        check(f"MCF[{t}]", new_gen.MCF, orig_gen.MCF, p1)
        check(f"MPC[{t}]", new_gen.MPC, orig_gen.MPC, p1[:, 0])
        check(f"MPD[{t}]", new_gen.MPD, orig_gen.MPD, p1[:, 0])

    print(f"{N_CASES} comparisons, {len(FAILURES)} differences")
    if FAILURES:
        print("FAIL")
        for f in FAILURES[:30]:
            print("  -", f)
        return 1
    print("PASS")
    return 0


if __name__ == "__main__":
    sys.exit(main())
