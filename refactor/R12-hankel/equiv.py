"""
Equivalence check for the C12 refactoring (build_hank and helpers, SSIdat.run call site,
SSI_multi_setup call site).

Runs the refactored code (from /tmp/wt/R12/src) and the pristine HEAD copies
(_refactor/orig_functions_ssi.py, _refactor/orig_algorithms_ssi.py) on the same inputs and
asserts identical outputs / identical exceptions.  Prints PASS and exits 0 on success.
"""

import importlib.util
import itertools
import logging
import os
import sys
import warnings

import numpy as np

HERE = os.path.dirname(os.path.abspath(__file__))
sys.path.insert(0, os.path.join(os.path.dirname(HERE), "src"))

os.environ.setdefault("TQDM_DISABLE", "1")
warnings.filterwarnings("ignore")
logging.disable(logging.CRITICAL)

import pyoma2.algorithms  # noqa: E402
import pyoma2.algorithms.ssi as new_alg  # noqa: E402
import pyoma2.functions.ssi as new_fun  # noqa: E402


def _load(name, filename):
    spec = importlib.util.spec_from_file_location(name, os.path.join(HERE, filename))
    mod = importlib.util.module_from_spec(spec)
    sys.modules[name] = mod
    spec.loader.exec_module(mod)
    return mod


orig_fun = _load("orig_functions_ssi", "orig_functions_ssi.py")
# loaded inside the pyoma2.algorithms package so that `from .base import ...` resolves
orig_alg = _load("pyoma2.algorithms._orig_ssi", "orig_algorithms_ssi.py")
# the pristine algorithm module must call the pristine functions module
orig_alg.ssi = orig_fun

assert new_fun.__file__.startswith("/tmp/wt/R12/src/"), new_fun.__file__
assert new_alg.__file__.startswith("/tmp/wt/R12/src/"), new_alg.__file__
assert orig_fun.build_hank is not new_fun.build_hank

# silence the tqdm bars of both modules (pure stderr side effect)
for m in (orig_fun, new_fun):
    m.trange = lambda *a, **k: range(*a)  # noqa: E731

STRICT = {"n": 0, "bitwise": 0}


def same(a, b, what):
    """Identical type / shape / dtype / NaN pattern / values."""
    if a is None or b is None:
        assert a is None and b is None, what
        return
    if isinstance(a, (list, tuple)):
        assert type(a) is type(b) and len(a) == len(b), what
        for k, (x, y) in enumerate(zip(a, b)):
            same(x, y, f"{what}[{k}]")
        return
    a = np.asarray(a)
    b = np.asarray(b)
    assert a.shape == b.shape, (what, a.shape, b.shape)
    assert a.dtype == b.dtype, (what, a.dtype, b.dtype)
    assert np.array_equal(np.isnan(a), np.isnan(b)), what
    STRICT["n"] += 1
    if np.array_equal(a, b, equal_nan=True):
        STRICT["bitwise"] += 1
        return
    scale = max(1.0, float(np.nanmax(np.abs(a)))) if a.size else 1.0
    assert np.allclose(a, b, rtol=1e-13, atol=1e-13 * scale, equal_nan=True), (
        what,
        float(np.nanmax(np.abs(a - b))),
    )


def call(f, *args, **kwargs):
    try:
        return ("ok", f(*args, **kwargs))
    except Exception as e:  # noqa: BLE001
        return ("exc", type(e), str(e))


def compare_calls(fo, fn, args, kwargs, what):
    ro = call(fo, *args, **kwargs)
    rn = call(fn, *args, **kwargs)
    assert ro[0] == rn[0], (what, ro, rn)
    if ro[0] == "exc":
        assert ro[1] is rn[1] and ro[2] == rn[2], (what, ro, rn)
        return "exc"
    same(ro[1], rn[1], what)
    return "ok"


rng = np.random.default_rng(12)
counts = {"ok": 0, "exc": 0}

# ---------------------------------------------------------------------------
# 1. build_hank on the whole small-shape grid of the property's quantifier:
#    channels 1..4, every kind of reference subset, br 1..5, record length <= 40
#    (short records included: they give exceptions / degenerate shapes that must agree)
# ---------------------------------------------------------------------------
methods = ["cov_mm", "cov_R", "dat"]
for nch in range(1, 5):
    subsets = [
        list(c) for k in range(1, nch + 1) for c in itertools.combinations(range(nch), k)
    ]
    for br in range(1, 6):
        for ndat in (2, 3, 5, 2 * br, 2 * br + 1, 2 * br + 2, 2 * br + 3, 17, 31, 40):
            Y = rng.standard_normal((nch, ndat))
            # a couple of reference subsets per shape (+ a permuted one)
            picks = [subsets[i] for i in rng.choice(len(subsets), size=2)]
            picks.append(list(rng.permutation(nch)[: max(1, nch - 1)]))
            for ref in picks:
                Yref = Y[ref, :]
                for method in methods:
                    r = compare_calls(
                        orig_fun.build_hank,
                        new_fun.build_hank,
                        (Y, Yref, br, method),
                        {},
                        f"build_hank nch={nch} ref={ref} br={br} ndat={ndat} {method}",
                    )
                    counts[r] += 1

# unit impulses (the basis on which the property determines the bilinear map)
for nch, br, ndat in [(2, 2, 12), (3, 1, 9), (4, 3, 20)]:
    for a in range(nch):
        for ta in range(0, ndat, 3):
            Y = np.zeros((nch, ndat))
            Y[a, ta] = 1.0
            Yref = np.zeros((2 if nch > 1 else 1, ndat))
            Yref[-1, (ta + br) % ndat] = 1.0
            for method in ("cov_mm", "cov_R"):
                r = compare_calls(
                    orig_fun.build_hank,
                    new_fun.build_hank,
                    (Y, Yref, br, method),
                    {},
                    f"impulse {nch},{br},{ndat},{a},{ta},{method}",
                )
                counts[r] += 1

# ---------------------------------------------------------------------------
# 2. larger random shapes, integer / float32 / non-contiguous input, keyword call
# ---------------------------------------------------------------------------
for _ in range(30):
    nch = int(rng.integers(1, 9))
    nref = int(rng.integers(1, nch + 1))
    br = int(rng.integers(1, 13))
    ndat = int(rng.integers(2 * br + 3, 400))
    Y = rng.standard_normal((nch, ndat)) * 10 ** rng.uniform(-3, 3)
    ref = sorted(rng.choice(nch, size=nref, replace=False).tolist())
    Yref = Y[ref, :]
    kind = int(rng.integers(0, 4))
    if kind == 1:
        Y = np.round(Y).astype(np.int64)
        Yref = Y[ref, :]
    elif kind == 2:
        Y = Y.astype(np.float32)
        Yref = Y[ref, :]
    elif kind == 3:
        Y = np.asfortranarray(Y)  # what SSIdat.run passes (data.T)
        Yref = Y[ref, :]
    for method in methods:
        r = compare_calls(
            orig_fun.build_hank,
            new_fun.build_hank,
            (),
            dict(Y=Y, Yref=Yref, br=br, method=method),
            f"build_hank large {nch},{ref},{br},{ndat},{method},kind={kind}",
        )
        counts[r] += 1

# ---------------------------------------------------------------------------
# 3. uncertainty branch (cov_mm, calc_unc=True) and the error branches
# ---------------------------------------------------------------------------
for _ in range(15):
    nch = int(rng.integers(1, 5))
    nref = int(rng.integers(1, nch + 1))
    br = int(rng.integers(1, 6))
    nb = int(rng.integers(1, 12))
    ndat = int(rng.integers(2 * br + 3, 200))
    Y = rng.standard_normal((nch, ndat))
    Yref = Y[:nref, :]
    r = compare_calls(
        orig_fun.build_hank,
        new_fun.build_hank,
        (Y, Yref, br, "cov_mm"),
        dict(calc_unc=True, nb=nb),
        f"unc {nch},{nref},{br},{nb},{ndat}",
    )
    counts[r] += 1
Y = rng.standard_normal((3, 50))
for method, kw in [
    ("cov_R", dict(calc_unc=True)),
    ("dat", dict(calc_unc=True)),
    ("bogus", {}),
    ("bogus", dict(calc_unc=True)),
    ("cov_mm", dict(calc_unc=True, nb=0)),
    ("cov_mm", dict(calc_unc=1, nb=5)),  # truthy but not `True`
    ("cov_mm", dict(calc_unc=True, nb=100)),  # N // nb == 0 -> empty segments
]:
    r = compare_calls(
        orig_fun.build_hank, new_fun.build_hank, (Y, Y[[0, 2]], 3, method), kw, (method, kw)
    )
    counts[r] += 1

# ---------------------------------------------------------------------------
# 4. SSIResult.H after a run (SSIdat / SSIcov, with and without ref_ind)
# ---------------------------------------------------------------------------
run_ok = 0
for cls_name, method, ref_ind, calc_unc in [
    ("SSIdat", None, None, False),
    ("SSIdat", None, [0, 2], False),
    ("SSIcov", "cov_mm", None, False),
    ("SSIcov", "cov_mm", [1], False),  # too few columns for ordmax: same exception
    ("SSIcov", "cov_mm", [1, 2], False),
    ("SSIcov", "cov_R", [2, 0], False),
    ("SSIcov", "cov_R", None, False),
    ("SSIcov", "cov_mm", [0, 1], True),
]:
    data = rng.standard_normal((600, 3))
    res = []
    for mod in (orig_alg, new_alg):
        kw = dict(br=6, ordmax=8, ref_ind=ref_ind, calc_unc=calc_unc, nb=10)
        if method is not None:
            kw["method"] = method
        alg = getattr(mod, cls_name)(name="x", **kw)
        alg._set_data(data=data.copy(), fs=50.0)
        res.append(call(alg.run))
    ro, rn = res
    assert ro[0] == rn[0], (cls_name, method, ref_ind, ro, rn)
    if ro[0] == "exc":
        assert ro[1] is rn[1] and ro[2] == rn[2], (ro, rn)
    else:
        same(ro[1].H, rn[1].H, f"run H {cls_name},{method},{ref_ind}")
        same(ro[1].Obs, rn[1].Obs, "run Obs")
        same(ro[1].A, rn[1].A, "run A")
        same(ro[1].C, rn[1].C, "run C")
        same(ro[1].Fn_poles, rn[1].Fn_poles, "run Fn_poles")
        same(ro[1].Fn_poles_cov, rn[1].Fn_poles_cov, "run Fn_poles_cov")
        run_ok += 1

# ---------------------------------------------------------------------------
# 5. SSI_multi_setup call site (keyword arguments instead of positional)
# ---------------------------------------------------------------------------
for method in methods:
    Ys = [
        {"ref": rng.standard_normal((2, 300)), "mov": rng.standard_normal((n, 300))}
        for n in (1, 2)
    ]
    r = compare_calls(
        orig_fun.SSI_multi_setup,
        new_fun.SSI_multi_setup,
        (Ys, 50.0, 5, 6, method),
        {},
        f"SSI_multi_setup {method}",
    )
    counts[r] += 1

print(
    f"calls compared: ok={counts['ok']} same-exception={counts['exc']} runs={run_ok}; "
    f"arrays compared={STRICT['n']} bitwise-identical={STRICT['bitwise']}"
)
print("PASS")
