"""
Differential test: the library in <tree>/src against the pristine implementation kept in
orig_ssi.py (functions/ssi.py) and orig_algo_ssi.py (algorithms/ssi.py) next to this file.

Random inputs / configurations of the touched routines and methods:
build_hank, SSI_fast, SSI_poles (with and without uncertainty computation, reference
subsets, several numbers of factor columns) and SSIdat.run / SSIcov.run.
Outputs are compared with allclose(rtol=1e-12, equal_nan=True) (atol tied to the magnitude
of the reference array), exceptions by type; inputs must not be modified.

Run:  PYTHONPATH=<tree>/src /venv/bin/python equiv.py
"""

import importlib.util
import logging
import os
import sys

import numpy as np

logging.disable(logging.CRITICAL)

import pyoma2.algorithms  # noqa: E402,F401  (package needed for the relative import below)
from pyoma2.algorithms import ssi as new_algo  # noqa: E402
from pyoma2.functions import ssi as new_ssi  # noqa: E402

HERE = os.path.dirname(os.path.abspath(__file__))


def load(name, filename):
    spec = importlib.util.spec_from_file_location(name, os.path.join(HERE, filename))
    mod = importlib.util.module_from_spec(spec)
    sys.modules[name] = mod
    spec.loader.exec_module(mod)
    return mod


old_ssi = load("orig_ssi", "orig_ssi.py")
old_algo = load("pyoma2.algorithms.orig_algo_ssi", "orig_algo_ssi.py")
old_algo.ssi = old_ssi  # the pristine classes call the pristine functions

for m in (new_ssi, old_ssi):
    m.trange = lambda *a, **k: range(*a)
    m.tqdm = lambda it, *a, **k: it

problems = []
ncompared = 0


def same(a, b, what):
    """Compare two results (arrays, None, scalars, lists/tuples of those)."""
    global ncompared
    if a is None or b is None:
        if not (a is None and b is None):
            problems.append(f"{what}: None vs not None")
        return
    if isinstance(a, (list, tuple)):
        if not isinstance(b, (list, tuple)) or len(a) != len(b):
            problems.append(f"{what}: container mismatch")
            return
        for i, (x, y) in enumerate(zip(a, b)):
            same(x, y, f"{what}[{i}]")
        return
    a = np.asarray(a)
    b = np.asarray(b)
    ncompared += 1
    if a.shape != b.shape:
        problems.append(f"{what}: shape {a.shape} vs {b.shape}")
        return
    if a.size == 0:
        return
    finite = np.isfinite(a)
    scale = float(np.max(np.abs(a[finite]))) if finite.any() else 0.0
    if not np.allclose(b, a, rtol=1e-12, atol=1e-12 * scale, equal_nan=True):
        with np.errstate(all="ignore"):
            err = np.nanmax(np.abs(a - b))
        problems.append(f"{what}: values differ (max abs diff {err:.3e}, scale {scale:.3e})")


def call(f, *args, **kwargs):
    try:
        return ("ok", f(*args, **kwargs))
    except Exception as e:  # noqa: BLE001
        return ("exc", type(e))


def both(what, name, make_args):
    """Call old and new function on separately built (identical) arguments."""
    a_old, k_old = make_args()
    a_new, k_new = make_args()
    r_old = call(getattr(old_ssi, name), *a_old, **k_old)
    r_new = call(getattr(new_ssi, name), *a_new, **k_new)
    if r_old[0] != r_new[0]:
        problems.append(f"{what}: old {r_old[0]} {r_old[1] if r_old[0]=='exc' else ''} / new {r_new[0]} {r_new[1] if r_new[0]=='exc' else ''}")
        return None, None
    if r_old[0] == "exc":
        if r_old[1] is not r_new[1]:
            problems.append(f"{what}: exception {r_old[1].__name__} vs {r_new[1].__name__}")
        return None, None
    same(r_old[1], r_new[1], what)
    # the new code must leave its array arguments as they were
    ref_args, ref_kw = make_args()
    for i, (x, y) in enumerate(zip(a_new, ref_args)):
        if isinstance(x, np.ndarray) and not np.array_equal(x, y, equal_nan=True):
            problems.append(f"{what}: positional argument {i} was modified")
    for key in k_new:
        x, y = k_new[key], ref_kw[key]
        if isinstance(x, np.ndarray) and not np.array_equal(x, y, equal_nan=True):
            problems.append(f"{what}: argument {key} was modified")
    return r_old[1], r_new[1]


def random_data(rng, nch, ndat):
    """Coloured multi-channel noise."""
    x = rng.standard_normal((nch, ndat + 50))
    k = np.exp(-np.arange(50) / rng.uniform(3, 12)) * np.cos(np.arange(50) * rng.uniform(0.2, 1.2))
    y = np.array([np.convolve(row, k, mode="valid")[:ndat] for row in x])
    mix = np.eye(nch) + 0.4 * rng.standard_normal((nch, nch))
    return mix @ y


def test_functions(rng, trial):
    nch = int(rng.integers(1, 4))
    nref = int(rng.integers(1, nch + 1))
    ref = sorted(rng.choice(nch, nref, replace=False).tolist())
    if rng.random() < 0.3:
        ref = ref[::-1]
    br = int(rng.integers(2, 6))
    ndat = int(rng.integers(400, 1500))
    nb = int(rng.integers(2, 21))
    Y = random_data(rng, nch, ndat)
    tag = f"trial {trial} (nch={nch}, ref={ref}, br={br}, ndat={ndat}, nb={nb})"

    # --- build_hank, all methods, with and without uncertainty
    for method in ("cov_mm", "cov_R", "dat", "nonsense"):
        for calc_unc in (False, True):
            both(
                f"{tag} build_hank[{method}, calc_unc={calc_unc}]",
                "build_hank",
                lambda: ((), dict(Y=Y.copy(), Yref=Y[ref, :].copy(), br=br, method=method, calc_unc=calc_unc, nb=nb)),
            )
    H, T = old_ssi.build_hank(Y, Y[ref, :], br, "cov_mm", calc_unc=True, nb=nb)

    rows, cols = H.shape
    top = min(8, br * nch, cols - 1, rows - 1)
    if top < 2:
        return
    ordmax = int(rng.integers(2, top + 1))
    dt = float(rng.choice([0.01, 0.005, 1.0, 0.02]))

    # --- SSI_fast without / with uncertainty (data factor, and arbitrary factors)
    both(f"{tag} SSI_fast plain", "SSI_fast", lambda: ((H.copy(), br, ordmax), {}))
    both(f"{tag} SSI_fast positional step", "SSI_fast", lambda: ((H.copy(), br, ordmax, 1), {}))
    ncol = int(rng.integers(1, 21))
    Trand = 1e-2 * rng.standard_normal((rows * cols, ncol))
    for label, TT, nbb in (("data T", T, nb), ("random T", Trand, ncol), ("1-column T default nb", Trand[:, :1], 100)):
        old_out, new_out = both(
            f"{tag} SSI_fast calc_unc [{label}]",
            "SSI_fast",
            lambda TT=TT, nbb=nbb: ((H.copy(), br, ordmax), dict(step=1, calc_unc=True, T=TT.copy(), nb=nbb)),
        )
        if old_out is None:
            continue
        # --- SSI_poles with uncertainty, each implementation fed with its own intermediates
        r_old = call(old_ssi.SSI_poles, *old_out[:3], ordmax, dt, step=1, calc_unc=True,
                     Q1=old_out[3], Q2=old_out[4], Q3=old_out[5], Q4=old_out[6])  # fmt: skip
        q_before = [q.copy() for q in new_out[3:]]
        obs_before = new_out[0].copy()
        r_new = call(new_ssi.SSI_poles, *new_out[:3], ordmax, dt, step=1, calc_unc=True,
                     Q1=new_out[3], Q2=new_out[4], Q3=new_out[5], Q4=new_out[6])  # fmt: skip
        if r_old[0] != "ok" or r_new[0] != "ok":
            problems.append(f"{tag} SSI_poles calc_unc [{label}]: {r_old} / {r_new}")
        else:
            same(r_old[1], r_new[1], f"{tag} SSI_poles calc_unc [{label}]")
        for q0, q1 in zip(q_before, new_out[3:]):
            if not np.array_equal(q0, q1):
                problems.append(f"{tag} SSI_poles modified one of Q1..Q4 [{label}]")
        if not np.array_equal(obs_before, new_out[0]):
            problems.append(f"{tag} SSI_poles modified Obs [{label}]")
        # cross feeding: new SSI_poles on the pristine intermediates
        r_x = call(new_ssi.SSI_poles, Obs=old_out[0], AA=old_out[1], CC=old_out[2], ordmax=ordmax, dt=dt,
                   step=1, calc_unc=True, Q1=old_out[3], Q2=old_out[4], Q3=old_out[5], Q4=old_out[6])  # fmt: skip
        if r_x[0] == "ok" and r_old[0] == "ok":
            same(r_old[1], r_x[1], f"{tag} SSI_poles (new) on pristine intermediates [{label}]")
        else:
            problems.append(f"{tag} SSI_poles cross feeding failed [{label}]")
    # mismatching number of columns must fail in the same way
    both(
        f"{tag} SSI_fast calc_unc [nb mismatch]",
        "SSI_fast",
        lambda: ((H.copy(), br, ordmax), dict(calc_unc=True, T=Trand[:, : max(ncol, 2)].copy(), nb=max(ncol, 2) + 3)),
    )
    # --- SSI_poles without uncertainty
    o = old_ssi.SSI_fast(H, br, ordmax)
    both(
        f"{tag} SSI_poles plain",
        "SSI_poles",
        lambda: ((o[0].copy(), [a.copy() for a in o[1]], [c.copy() for c in o[2]], ordmax, dt), dict(step=1)),
    )
    # C entries no longer share memory with Obs
    n = new_ssi.SSI_fast(H, br, ordmax)
    if any(np.shares_memory(c, n[0]) for c in n[2] if c.size):
        problems.append(f"{tag} SSI_fast: C still shares memory with Obs")


RESULT_FIELDS = ("Obs", "A", "C", "H", "Lambds", "Fn_poles", "Xi_poles", "Phi_poles", "Lab",
                 "Fn_poles_cov", "Xi_poles_cov", "Phi_poles_cov")  # fmt: skip


def test_classes(rng, trial):
    nch = int(rng.integers(2, 4))
    ndat = int(rng.integers(1500, 3000))
    data = random_data(rng, nch, ndat).T
    fs = float(rng.choice([50.0, 100.0, 20.0]))
    br = int(rng.integers(3, 6))
    ordmax = int(rng.integers(3, min(8, br * nch - 1) + 1))
    for clsname, calc_unc in (("SSIcov", True), ("SSIcov", False), ("SSIdat", False)):
        if rng.random() < 0.6:
            nref = int(rng.integers(1, nch + 1))
            ref_ind = rng.choice(nch, nref, replace=False).tolist()
        else:
            ref_ind = None
        if ref_ind is not None and ordmax > (br + 1) * len(ref_ind) - 1:
            ref_ind = None
        nb = int(rng.integers(4, 25))
        kw = dict(br=br, ordmax=ordmax, calc_unc=calc_unc, nb=nb, ref_ind=ref_ind)
        if rng.random() < 0.5:
            kw["hc"] = {"conj": bool(rng.integers(0, 2)), "xi_max": 0.5, "mpc_lim": 0.2, "mpd_lim": 0.8, "cov_max": 1e6}
        tag = f"class trial {trial} {clsname}({kw})"
        res = []
        datas = []
        for mod in (old_algo, new_algo):
            d = data.copy()
            algo = getattr(mod, clsname)(name="x", **{k: (v.copy() if isinstance(v, (list, dict)) else v) for k, v in kw.items()})
            algo._set_data(data=d, fs=fs)
            res.append(call(algo.run))
            datas.append(d)
            if algo.run_params.ref_ind != ref_ind:
                problems.append(f"{tag}: run_params.ref_ind was modified")
        if not np.array_equal(datas[1], data):
            problems.append(f"{tag}: user data was modified")
        if res[0][0] != res[1][0]:
            problems.append(f"{tag}: old {res[0]} / new {res[1]}")
            continue
        if res[0][0] == "exc":
            if res[0][1] is not res[1][1]:
                problems.append(f"{tag}: exception {res[0][1].__name__} vs {res[1][1].__name__}")
            continue
        for f in RESULT_FIELDS:
            same(getattr(res[0][1], f), getattr(res[1][1], f), f"{tag}.{f}")


def main():
    rng = np.random.default_rng(20260417)
    for trial in range(24):
        test_functions(rng, trial)
    for trial in range(8):
        test_classes(rng, trial)
    # tiny integer input of the unit tests (empty blocks)
    both(
        "unit-test input build_hank",
        "build_hank",
        lambda: ((), dict(Y=np.array([[1, 2, 3, 4, 5]]), Yref=np.array([[1, 2, 3, 4, 5]]), br=1, method="cov_mm", calc_unc=True, nb=100)),
    )
    both("unit-test input SSI_fast", "SSI_fast",
         lambda: ((np.array([[1, 2, 3], [4, 5, 6], [7, 8, 9], [10, 11, 12]]), 1, 2, 1), {}))  # fmt: skip
    print(f"{ncompared} arrays compared")
    if problems:
        print("FAIL")
        for p in problems[:20]:
            print("  " + p)
        if len(problems) > 20:
            print(f"  ... and {len(problems) - 20} more")
        return 1
    print("PASS")
    return 0


if __name__ == "__main__":
    sys.exit(main())
