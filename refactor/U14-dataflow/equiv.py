"""
Equivalence check of the refactored preprocessing stack (property C14).

The ORIGINAL stack is loaded from the pristine copies orig_gen.py / orig_base.py /
orig_single.py / orig_multi.py (taken from HEAD) and wired together so that the original
setup classes use the original BaseSetup and the original gen functions.  The REFACTORED
stack is the installed package (PYTHONPATH=/tmp/wt/U14/src).

Run:  cd /tmp/wt/U14 && PYTHONPATH=/tmp/wt/U14/src /venv/bin/python _refactor/equiv.py
"""
import copy
import importlib.util
import itertools
import os
import random
import sys
import warnings

import numpy as np

warnings.filterwarnings("ignore")
HERE = os.path.dirname(os.path.abspath(__file__))

# --------------------------------------------------------------------------- new stack
import pyoma2.functions.gen as new_gen  # noqa: E402
import pyoma2.setup.base as new_base  # noqa: E402
import pyoma2.setup.multi as new_multi  # noqa: E402
import pyoma2.setup.single as new_single  # noqa: E402
from pyoma2.algorithms import FDD, FDD_MS, SSIcov, SSIdat_MS  # noqa: E402

assert new_gen.__file__.startswith("/tmp/wt/U14/src"), new_gen.__file__


# --------------------------------------------------------------------------- old stack
def _load(name, fname, overrides):
    saved = {k: sys.modules.get(k) for k in overrides}
    sys.modules.update(overrides)
    try:
        spec = importlib.util.spec_from_file_location(name, os.path.join(HERE, fname))
        mod = importlib.util.module_from_spec(spec)
        sys.modules[name] = mod
        spec.loader.exec_module(mod)
    finally:
        for k, v in saved.items():
            if v is None:
                sys.modules.pop(k, None)
            else:
                sys.modules[k] = v
    return mod


old_gen = _load("orig_gen", "orig_gen.py", {})
old_base = _load("orig_base", "orig_base.py", {"pyoma2.functions.gen": old_gen})
old_single = _load(
    "orig_single",
    "orig_single.py",
    {"pyoma2.functions.gen": old_gen, "pyoma2.setup.base": old_base},
)
old_multi = _load(
    "orig_multi",
    "orig_multi.py",
    {
        "pyoma2.functions.gen": old_gen,
        "pyoma2.setup.base": old_base,
        "pyoma2.setup.single": old_single,
    },
)
# the original classes really sit on the original layers
assert old_base.filter_data is old_gen.filter_data
assert old_multi.pre_multisetup is old_gen.pre_multisetup
assert old_base.BaseSetup in old_single.SingleSetup.__mro__
assert old_base.BaseSetup in old_multi.MultiSetup_PreGER.__mro__
assert new_base.BaseSetup not in old_multi.MultiSetup_PreGER.__mro__
assert new_multi.pre_multisetup is new_gen.pre_multisetup
assert old_gen.pre_multisetup is not new_gen.pre_multisetup
assert sys.modules["pyoma2.functions.gen"] is new_gen
assert sys.modules["pyoma2.setup.base"] is new_base

N_CHECKS = 0


# --------------------------------------------------------------------------- comparison
def same(a, b, path="."):
    """Strict structural equality: types, dtypes, shapes, values (NaN == NaN), flags."""
    global N_CHECKS
    N_CHECKS += 1
    assert type(a) is type(b), (path, type(a), type(b))
    if isinstance(a, np.ndarray):
        assert a.dtype == b.dtype, (path, a.dtype, b.dtype)
        assert a.shape == b.shape, (path, a.shape, b.shape)
        assert a.flags.c_contiguous == b.flags.c_contiguous, (path, "c_contiguous")
        assert a.flags.f_contiguous == b.flags.f_contiguous, (path, "f_contiguous")
        if a.dtype.kind in "fc":
            assert np.array_equal(a, b, equal_nan=True), (path, "values")
        else:
            assert np.array_equal(a, b), (path, "values")
    elif isinstance(a, dict):
        assert list(a.keys()) == list(b.keys()), (path, list(a), list(b))
        for k in a:
            same(a[k], b[k], f"{path}[{k!r}]")
    elif isinstance(a, (list, tuple)):
        assert len(a) == len(b), (path, len(a), len(b))
        for i, (x, y) in enumerate(zip(a, b)):
            same(x, y, f"{path}[{i}]")
    elif isinstance(a, float):
        assert a == b or (a != a and b != b), (path, a, b)
    else:
        assert a == b, (path, a, b)


def outcome(fun, *args, **kwargs):
    """Result of a call or the exception it raised (type and message)."""
    try:
        return ("ok", fun(*args, **kwargs))
    except Exception as exc:  # noqa: BLE001
        return ("exc", type(exc).__name__, str(exc))


def same_outcome(fun_old, fun_new, mk_args, path):
    a_old, k_old = mk_args()
    a_new, k_new = mk_args()
    r_old = outcome(fun_old, *a_old, **k_old)
    r_new = outcome(fun_new, *a_new, **k_new)
    assert r_old[0] == r_new[0], (path, r_old, r_new)
    if r_old[0] == "exc":
        # same exception class; the message too unless it names the python callable
        assert r_old[1] == r_new[1], (path, r_old, r_new)
        if "()" not in r_old[2]:
            assert r_old[2] == r_new[2], (path, r_old, r_new)
    else:
        same(r_old[1], r_new[1], path)
    # the inputs are never modified
    same(list(a_old), list(a_new), path + ":args-after")
    return r_old[0]


# --------------------------------------------------------------------------- inputs
def rand_data(rng, n, nch, kind=0):
    t = np.arange(n) / 100.0
    y = rng.standard_normal((n, nch)) + 0.3 * t[:, None] + rng.uniform(-2, 2, nch)
    y += np.sin(2 * np.pi * rng.uniform(1, 20, nch) * t[:, None])
    if kind == 1:
        y = np.asfortranarray(y)
    elif kind == 2:
        y = y.astype(np.float32)
    elif kind == 3:
        y = np.round(10 * y).astype(np.int64)
    elif kind == 4:  # non contiguous view
        y = np.repeat(y, 2, axis=1)[:, ::2]
    return y


def rand_layout(rng, nch, n_ref=None):
    if n_ref is None:
        n_ref = int(rng.integers(1, nch))  # at least one roving channel
    return [int(i) for i in rng.permutation(nch)[:n_ref]]  # any order


# --------------------------------------------------------------------------- 1. routines
def check_routines():
    rng = np.random.default_rng(14)
    n_ok = n_exc = 0
    # pre_multisetup: valid layouts of every kind and invalid ones (equal exceptions)
    for trial in range(400):
        nset = int(rng.integers(1, 4))
        nchs = [int(rng.integers(2, 6)) for _ in range(nset)]
        n = int(rng.integers(5, 40))
        data = [rand_data(rng, n + 3 * i, c, kind=trial % 5) for i, c in enumerate(nchs)]
        refs = [rand_layout(rng, c) for c in nchs]
        mode = trial % 10
        if mode == 5:  # all channels are references
            refs[0] = rand_layout(rng, nchs[0], nchs[0])
        elif mode == 6:  # no reference at all
            refs[-1] = []
        elif mode == 7:  # repeated / out of range / negative index
            refs[0] = refs[0] + [[refs[0][0]], [nchs[0]], [-1]][trial % 3]
        elif mode == 8:  # tuples and arrays instead of lists
            refs = [tuple(r) if i % 2 else np.array(r) for i, r in enumerate(refs)]
        elif mode == 9 and nset > 1:  # length mismatch of the two lists
            refs = refs[:-1] if trial % 4 else refs + [[0]]
        res = same_outcome(
            old_gen.pre_multisetup,
            new_gen.pre_multisetup,
            lambda: ((copy.deepcopy(data), copy.deepcopy(refs)), {}),
            f"pre_multisetup#{trial}",
        )
        n_ok += res == "ok"
        n_exc += res == "exc"
        if res == "ok":  # no aliasing with the input
            out = new_gen.pre_multisetup(data, refs)
            for d, o in zip(data, out):
                assert not np.shares_memory(d, o["ref"])
                assert not np.shares_memory(d, o["mov"])
    # filter_data (gen) and the three static helpers
    for trial in range(200):
        n, nch = int(rng.integers(60, 400)), int(rng.integers(1, 6))
        y = rand_data(rng, n, nch, kind=trial % 5)
        fs = float(rng.choice([50.0, 100.0, 128.0, 33.3]))
        btype = ["lowpass", "highpass", "bandpass", "bandstop"][trial % 4]
        lo = float(rng.uniform(0.5, fs / 5))
        Wn = lo if trial % 4 < 2 else (lo, float(rng.uniform(lo + 0.5, fs / 2.05)))
        if trial % 23 == 0:
            Wn = fs  # invalid: above Nyquist
        order = int(rng.integers(1, 10))
        kw = [{}, {"order": order}, {"btype": btype}, {"order": order, "btype": btype}][
            trial % 4 if trial % 4 < 2 or not isinstance(Wn, tuple) else 3
        ]
        if isinstance(Wn, tuple):
            kw = {"order": order, "btype": btype}
        for name in ("filter_data",):
            res = same_outcome(
                getattr(old_gen, name),
                getattr(new_gen, name),
                lambda: ((y.copy(order="K"), fs, Wn), dict(kw)),
                f"gen.filter_data#{trial}",
            )
            n_ok += res == "ok"
            n_exc += res == "exc"
        res = same_outcome(
            old_base.BaseSetup._filter_data,
            new_base.BaseSetup._filter_data,
            lambda: ((), dict(data=y.copy(order="K"), fs=fs, Wn=Wn, **kw)),
            f"_filter_data#{trial}",
        )
        n_ok += res == "ok"
        n_exc += res == "exc"
        # decimate helper: with / without axis (default of scipy is the LAST axis)
        q = int(rng.integers(1, 7))
        dkw = [
            {},
            {"axis": 0},
            {"axis": 0, "ftype": "fir"},
            {"axis": 0, "n": 4, "zero_phase": False},
            {"axis": 1, "ftype": "fir", "n": 5},
            {"axis": 0, "ftype": "fir", "n": 12, "zero_phase": False},
            {"axis": 0, "n": None, "ftype": "iir", "zero_phase": True},
            {"axis": 0, "bogus": 1},
        ][trial % 8]
        res = same_outcome(
            old_base.BaseSetup._decimate_data,
            new_base.BaseSetup._decimate_data,
            lambda: ((y.copy(order="K"), fs, q), dict(dkw)),
            f"_decimate_data#{trial}",
        )
        n_ok += res == "ok"
        n_exc += res == "exc"
        tkw = [
            {},
            {"type": "constant"},
            {"type": "linear", "bp": [n // 3, n // 2]},
            {"axis": 1},
            {"axis": 0, "type": "constant"},
            {"type": "cubic"},
            {"overwrite_data": False, "bp": n // 2},
        ][trial % 7]
        res = same_outcome(
            old_base.BaseSetup._detrend_data,
            new_base.BaseSetup._detrend_data,
            lambda: ((y.copy(order="K"),), dict(tkw)),
            f"_detrend_data#{trial}",
        )
        n_ok += res == "ok"
        n_exc += res == "exc"
    return n_ok, n_exc


# --------------------------------------------------------------------------- 2. histories
OPS = [
    ("decimate_data", (2,), {}),
    ("decimate_data", (3,), {"ftype": "fir"}),
    ("decimate_data", (4,), {"n": 4, "zero_phase": False}),
    ("decimate_data", (5,), {"ftype": "fir", "n": 10, "zero_phase": False, "axis": 0}),
    ("detrend_data", (), {}),
    ("detrend_data", (), {"type": "constant"}),
    ("detrend_data", (), {"type": "linear", "bp": [40], "overwrite_data": False}),
    ("filter_data", (4.0,), {}),
    ("filter_data", ((1.0, 4.5),), {"order": 4, "btype": "bandpass"}),
    ("filter_data", (), {"Wn": 2.5, "order": 3, "btype": "highpass"}),
    ("rollback", (), {}),
    ("add_algorithms", (), {}),
]
EXTRA_OPS = [  # rarely used / failing calls: equal exceptions, state untouched
    ("decimate_data", (2,), {"bogus": 1}),
    ("detrend_data", (), {"type": "cubic"}),
    ("detrend_data", (), {"data": 1}),
    ("filter_data", (1000.0,), {}),
    ("decimate_data", (1,), {}),
    ("detrend_data", (), {"axis": 0, "bp": 30}),
    ("filter_data", ((2.0, 6.0), 2, "bandstop"), {}),
]

SINGLE_ATTRS = ["data", "fs", "dt", "Nch", "Ndat", "T", "_initial_data", "_initial_fs"]
MULTI_ATTRS = [
    "data", "datasets", "fs", "dt", "Nsetup", "Nchs", "Ndats", "Ts", "ref_ind",
    "_initial_fs", "_initial_ref_ind", "_initial_datasets",
]  # fmt: skip


def snapshot(setup, multi, user):
    """Everything observable of a setup, plus object identity relations."""
    names = MULTI_ATTRS if multi else SINGLE_ATTRS
    snap = {k: getattr(setup, k, "<missing>") for k in names}
    algs = setup.algorithms
    snap["alg_names"] = list(algs.keys())
    snap["alg_data"] = [getattr(a, "data", "<missing>") for a in algs.values()]
    snap["alg_fs"] = [getattr(a, "fs", "<missing>") for a in algs.values()]
    snap["alg_types"] = [type(a).__name__ for a in algs.values()]
    snap["attrs"] = sorted(k for k in vars(setup) if not k.startswith("_Multi"))
    if multi:
        snap["ident"] = [
            setup.datasets is user["datasets"],
            setup.datasets is setup._initial_datasets,
            setup.ref_ind is user["ref_ind"],
            setup.ref_ind is setup._initial_ref_ind,
            [d is u for d, u in zip(setup.datasets, user["datasets"])],
            [d is u for d, u in zip(setup.datasets, setup._initial_datasets)],
            [
                any(np.shares_memory(y[k], u) for u in user["datasets"] for k in y)
                for y in setup.data
            ],
            [a.data is setup.data for a in algs.values()],
        ]
    else:
        snap["ident"] = [
            setup.data is user["data"],
            setup.data is setup._initial_data,
            np.shares_memory(setup.data, user["data"]),
            np.shares_memory(setup.data, setup._initial_data),
            [a.data is setup.data for a in algs.values()],
        ]
    return snap


def make_pair(multi, cfg):
    """Build the original and the refactored setup on separate (equal) user inputs."""
    out = []
    for mods in ((old_single, old_multi), (new_single, new_multi)):
        user = copy.deepcopy(cfg)
        if multi:
            setup = mods[1].MultiSetup_PreGER(
                fs=user["fs"], ref_ind=user["ref_ind"], datasets=user["datasets"]
            )
        else:
            setup = mods[0].SingleSetup(user["data"], fs=user["fs"])
        out.append((setup, user))
    return out


def run_history(multi, cfg, history, tag):
    (s_old, u_old), (s_new, u_new) = make_pair(multi, cfg)
    same(snapshot(s_old, multi, u_old), snapshot(s_new, multi, u_new), tag + ":init")
    n_exc = 0
    for step, (name, args, kwargs) in enumerate(history):
        res = []
        for s in (s_old, s_new):
            a, k = copy.deepcopy(args), copy.deepcopy(kwargs)
            if name == "add_algorithms":
                if multi:
                    a = (FDD_MS(name=f"fdd{step}"), SSIdat_MS(name=f"ssi{step % 2}"))
                else:
                    a = (FDD(name=f"fdd{step}"), SSIcov(name=f"ssi{step % 2}"))
            res.append(outcome(getattr(s, name), *a, **k))
        path = f"{tag}:step{step}:{name}{args}{kwargs}"
        assert res[0][0] == res[1][0], (path, res)
        if res[0][0] == "exc":
            n_exc += 1
            assert res[0][1] == res[1][1], (path, res)
            if "()" not in res[0][2]:
                assert res[0][2] == res[1][2], (path, res)
        else:
            assert res[0][1] is None and res[1][1] is None, (path, res)
        same(snapshot(s_old, multi, u_old), snapshot(s_new, multi, u_new), path)
        # the user's inputs are never modified (in both stacks)
        same(u_old, u_new, path + ":user")
        same(u_new, copy.deepcopy(cfg), path + ":user-vs-start")
    return n_exc


def configs(rng):
    cfgs = []
    # single setups: 2..5 channels
    for i, nch in enumerate((2, 3, 5, 4)):
        cfgs.append(
            (False, {"data": rand_data(rng, 240 + 37 * i, nch, kind=i % 2), "fs": [100.0, 64.0][i % 2]})
        )
    # PreGER: 1..3 datasets, 2..5 channels, any reference layout, different lengths
    layouts = [
        ([3], [[1, 0]]),
        ([2, 3], [[1], [2]]),
        ([4, 5, 3], [[3, 0], [0, 4], [2, 1]]),  # non ascending
        ([5, 4], [[4, 2, 0], [1, 3, 0]]),
        ([3, 3, 3], [[0], [1], [2]]),
    ]
    for i, (nchs, refs) in enumerate(layouts):
        cfgs.append(
            (
                True,
                {
                    "fs": [100.0, 50.0, 33.3][i % 3],
                    "ref_ind": refs,
                    "datasets": [
                        rand_data(rng, 260 + 41 * j + 7 * i, c, kind=(i + j) % 2)
                        for j, c in enumerate(nchs)
                    ],
                },
            )
        )
    return cfgs


def check_histories():
    rng = np.random.default_rng(2014)
    pyr = random.Random(14)
    cfgs = configs(rng)
    n_hist = n_exc = 0
    # exhaustive: every history of length <= 3 on one single and one multi configuration,
    # every history of length <= 2 on all the configurations
    for ci, (multi, cfg) in enumerate(cfgs):
        deep = ci in (1, 6)
        for length in range(1, 4 if deep else 3):
            for hist in itertools.product(OPS, repeat=length):
                n_exc += run_history(multi, cfg, hist, f"cfg{ci}")
                n_hist += 1
    # sampled: histories of length 4 and 5 (with the failing / unusual calls mixed in)
    for trial in range(600):
        multi, cfg = cfgs[trial % len(cfgs)]
        length = 4 + trial % 2
        pool = OPS + (EXTRA_OPS if trial % 3 == 0 else [])
        hist = [pyr.choice(pool) for _ in range(length)]
        n_exc += run_history(multi, cfg, hist, f"rnd{trial}")
        n_hist += 1
    # invalid constructions raise the same exception
    for bad in (
        {"fs": 10.0, "ref_ind": [[0, 1]], "datasets": [rand_data(rng, 50, 2)]},  # all ref
        {"fs": 10.0, "ref_ind": [[]], "datasets": [rand_data(rng, 50, 2)]},  # no ref
        {"fs": 10.0, "ref_ind": [[0, 0]], "datasets": [rand_data(rng, 50, 3)]},  # repeated
        {"fs": 10.0, "ref_ind": [[3]], "datasets": [rand_data(rng, 50, 3)]},  # out of range
        {"fs": 10.0, "ref_ind": [[0]], "datasets": [rand_data(rng, 50, 3)[:, 0]]},  # 1-D
        {"fs": 0, "ref_ind": [[0]], "datasets": [rand_data(rng, 50, 3)]},  # fs = 0
    ):
        r = [
            outcome(m.MultiSetup_PreGER, **copy.deepcopy(bad))
            for m in (old_multi, new_multi)
        ]
        assert r[0][0] == r[1][0] == "exc" and r[0][1:] == r[1][1:], r
        n_exc += 1
    for bad in ({"data": np.arange(5.0), "fs": 1.0}, {"data": rand_data(rng, 9, 2), "fs": 0}):
        r = [outcome(m.SingleSetup, **copy.deepcopy(bad)) for m in (old_single, new_single)]
        assert r[0][0] == r[1][0] == "exc" and r[0][1:] == r[1][1:], r
        n_exc += 1
    return n_hist, n_exc


if __name__ == "__main__":
    ok, exc = check_routines()
    print(f"routines : {ok} equal results, {exc} equal exceptions")
    assert ok > 500 and exc > 50
    nh, ne = check_histories()
    print(f"histories: {nh} histories compared step by step, {ne} equal exceptions")
    assert nh > 3000 and ne > 50
    print(f"{N_CHECKS} structural comparisons")
    print("PASS")
