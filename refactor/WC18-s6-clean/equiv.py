"""
Differential test: the library on PYTHONPATH (CLEAN version of the commit)
against the pristine sources saved next to this file (orig_gen.py, orig_plot.py).

Run as:  PYTHONPATH=<tree>/src /venv/bin/python equiv.py
Prints PASS and exits 0 when all outputs (and raised exceptions) agree.
"""
import importlib.util
import os
import sys
import types
import warnings

import matplotlib

matplotlib.use("Agg")
import matplotlib.pyplot as plt  # noqa: E402
import numpy as np  # noqa: E402

from pyoma2.functions import gen as new_gen  # noqa: E402
from pyoma2.functions import plot as new_plot  # noqa: E402

warnings.simplefilter("ignore")
HERE = os.path.dirname(os.path.abspath(__file__))


def load_original():
    pkg = types.ModuleType("orig_functions")
    pkg.__path__ = [HERE]
    sys.modules["orig_functions"] = pkg
    mods = {}
    for name in ("gen", "plot"):
        spec = importlib.util.spec_from_file_location(
            f"orig_functions.{name}", os.path.join(HERE, f"orig_{name}.py")
        )
        mod = importlib.util.module_from_spec(spec)
        sys.modules[f"orig_functions.{name}"] = mod
        spec.loader.exec_module(mod)
        mods[name] = mod
    return mods["gen"], mods["plot"]


old_gen, old_plot = load_original()
rng = np.random.default_rng(18)
failures = []
ncases = 0


def call(f, *a, **k):
    try:
        return "ok", f(*a, **k)
    except Exception as e:  # noqa: BLE001
        return "exc", (type(e).__name__, str(e))


def same(tag, r_new, r_old, rtol=1e-12, atol=1e-14):
    global ncases
    ncases += 1
    if r_new[0] != r_old[0]:
        failures.append(f"{tag}: {r_new[0]} vs {r_old[0]}: {r_new[1]!r} / {r_old[1]!r}")
        return
    if r_new[0] == "exc":
        if r_new[1] != r_old[1]:
            failures.append(f"{tag}: exceptions differ {r_new[1]} / {r_old[1]}")
        return
    a, b = np.asarray(r_new[1]), np.asarray(r_old[1])
    if a.shape != b.shape:
        failures.append(f"{tag}: shapes {a.shape} / {b.shape}")
    elif a.dtype.kind != b.dtype.kind:
        failures.append(f"{tag}: result types {a.dtype} / {b.dtype}")
    elif not (np.array_equal(a, b, equal_nan=True)
              or np.allclose(a, b, rtol=rtol, atol=atol, equal_nan=True)):
        failures.append(f"{tag}: values differ, max {np.nanmax(np.abs(a - b)):.3g}")


def cshape(*size):
    return rng.standard_normal(size) + 1j * rng.standard_normal(size)


# ------------------------------------------------------------------ MAC
for t in range(120):
    n = int(rng.integers(2, 65))
    kind = t % 8
    if kind == 0:
        X, A = cshape(n), cshape(n)
    elif kind == 1:
        X, A = cshape(n, int(rng.integers(1, 7))), cshape(n, int(rng.integers(1, 7)))
    elif kind == 2:  # vector against a set and the other way round
        X, A = cshape(n), cshape(n, int(rng.integers(1, 6)))
        if t % 16 == 2:
            X, A = A, X
    elif kind == 3:  # real and integer input
        X = rng.standard_normal((n, 3))
        A = rng.integers(-5, 6, size=(n, 4))
        A[0] = 1
    elif kind == 4:  # the same object twice
        X = cshape(n, int(rng.integers(1, 6))) if t % 16 == 4 else cshape(n)
        A = X
    elif kind == 5:  # scaled, nearly collinear, zero components
        X = cshape(n, 3)
        A = X * np.array([1e6j, 1e-6, -3.0]) + 1e-9 * cshape(n, 3)
        X[rng.integers(0, n)] = 0
    elif kind == 6:  # a zero shape and a NaN
        X, A = cshape(n, 3), cshape(n, 2)
        X[:, 1] = 0
        A[0, 0] = np.nan
    else:  # views / non contiguous input, as in SC_apply
        P = cshape(4, 3, n)
        X, A = P[1, 2, :], P[:, 0, :].T
    Xc, Ac = np.array(X, copy=True), np.array(A, copy=True)
    r_old = call(old_gen.MAC, X, A)
    r_new = call(new_gen.MAC, X, A)
    same(f"MAC case {t}", r_new, r_old)
    if not (np.array_equal(X, Xc, equal_nan=True) and np.array_equal(A, Ac, equal_nan=True)):
        failures.append(f"MAC case {t}: input arrays modified")

for bad_X, bad_A in (
    (np.array([[1 + 2j, 2 + 3j, 3 + 4j]]), cshape(4)),
    (np.array([[[1 + 2j, 2 + 3j, 3 + 4j]]]), cshape(4)),
    (cshape(4), cshape(1, 1, 4)),
    (cshape(5, 2), cshape(4, 2)),
):
    same("MAC exc", call(new_gen.MAC, bad_X, bad_A), call(old_gen.MAC, bad_X, bad_A))

# the new option is the old function on the selected rows
for t in range(30):
    n = int(rng.integers(3, 40))
    X, A = cshape(n, 3), cshape(n, 4)
    d = rng.permutation(n)[: int(rng.integers(1, n + 1))]
    dd = list(d) if t % 2 else d
    same("MAC dofs", call(new_gen.MAC, X, A, dofs=dd), call(old_gen.MAC, X[d], A[d]))
    same("MAC dofs auto", call(new_gen.MAC, X, X, dofs=dd), call(old_gen.MAC, X[d], X[d]))
    same("MAC dofs 1-D", call(new_gen.MAC, X[:, 0], A[:, 0], dofs=dd),
         call(old_gen.MAC, X[d, 0], A[d, 0]))

# ------------------------------------------------------------------ SC_apply
for t in range(25):
    step = int(rng.choice([1, 2, 3]))
    ordmax = step * int(rng.integers(4, 9))
    ordmin = step * int(rng.integers(0, 3))
    n_ord = ordmax // step + 1
    n_pol = int(rng.integers(3, 9))
    n_ch = int(rng.integers(2, 8))
    base_f = rng.uniform(1, 20, size=(n_pol, 1))
    Fn = base_f * (1 + 0.01 * rng.standard_normal((n_pol, n_ord)))
    Xi = 0.02 * (1 + 0.04 * rng.standard_normal((n_pol, n_ord)))
    base_phi = cshape(n_pol, 1, n_ch)
    Phi = base_phi * cshape(n_pol, n_ord, 1) + 0.05 * cshape(n_pol, n_ord, n_ch)
    holes = rng.random((n_pol, n_ord)) < 0.15
    Fn[holes] = np.nan
    Xi[holes] = np.nan
    Phi[holes] = np.nan
    args = (ordmin, ordmax, step, 0.02, 0.1, 0.05)
    same(f"SC_apply {t}",
         call(new_gen.SC_apply, Fn.copy(), Xi.copy(), Phi.copy(), *args),
         call(old_gen.SC_apply, Fn.copy(), Xi.copy(), Phi.copy(), *args))
    d = rng.permutation(n_ch)[: int(rng.integers(1, n_ch + 1))]
    same(f"SC_apply dofs {t}",
         call(new_gen.SC_apply, Fn.copy(), Xi.copy(), Phi.copy(), *args, dofs=d),
         call(old_gen.SC_apply, Fn.copy(), Xi.copy(), Phi[:, :, d].copy(), *args))

# ------------------------------------------------------------------ plot_mac_matrix
def image_of(f, *a, **k):
    fig, ax = f(*a, **k)
    data = np.asarray(ax.images[0].get_array())
    labels = [t.get_text() for t in ax.get_xticklabels() + ax.get_yticklabels()]
    plt.close(fig)
    return data, labels


for t in range(12):
    n = int(rng.integers(3, 30))
    X, A = cshape(n, int(rng.integers(2, 6))), cshape(n, int(rng.integers(2, 6)))
    if t % 3 == 0:
        A = X
    r_new, r_old = call(image_of, new_plot.plot_mac_matrix, X, A), call(
        image_of, old_plot.plot_mac_matrix, X, A
    )
    same(f"plot_mac_matrix {t}", (r_new[0], r_new[1][0]), (r_old[0], r_old[1][0]))
    if r_new[1][1] != r_old[1][1]:
        failures.append(f"plot_mac_matrix {t}: labels differ")
    d = rng.permutation(n)[: int(rng.integers(2, n + 1))]
    r_new, r_old = call(image_of, new_plot.plot_mac_matrix, X, A, dofs=d), call(
        image_of, old_plot.plot_mac_matrix, X[d], A[d]
    )
    same(f"plot_mac_matrix dofs {t}", (r_new[0], r_new[1][0]), (r_old[0], r_old[1][0]))
same("plot_mac_matrix exc",
     call(new_plot.plot_mac_matrix, cshape(4, 1), cshape(4, 3)),
     call(old_plot.plot_mac_matrix, cshape(4, 1), cshape(4, 3)))

# ------------------------------------------------------------------ untouched indicators
for t in range(20):
    n = int(rng.integers(3, 65))
    x, y = cshape(n), cshape(n)
    for name in ("MPC", "MPD", "MCF"):
        same(name, call(getattr(new_gen, name), x), call(getattr(old_gen, name), x), rtol=0, atol=0)
    same("MSF", call(new_gen.MSF, x, y), call(old_gen.MSF, x, y), rtol=0, atol=0)
    ms = [cshape(5, 3), cshape(6, 3)]
    refs = [[0, 2], [1, 3]]
    same("merge_mode_shapes", call(new_gen.merge_mode_shapes, ms, refs),
         call(old_gen.merge_mode_shapes, ms, refs))

if failures:
    print(f"FAIL ({len(failures)} of {ncases} comparisons)")
    for f in failures[:15]:
        print("  -", f)
    sys.exit(1)
print(f"PASS ({ncases} comparisons)")
sys.exit(0)
