"""
Equivalence check of the refactored pLSCF code (property C05) against the pristine copies.

Run with:
    cd /tmp/wt/Q05 && PYTHONPATH=/tmp/wt/Q05/src /venv/bin/python _refactor/equiv.py

Originals (git show HEAD:...):
    _refactor/orig_functions_plscf.py   <- src/pyoma2/functions/plscf.py
    _refactor/orig_algorithms_plscf.py  <- src/pyoma2/algorithms/plscf.py

All comparisons are STRICT: same type, dtype, shape, and the same values bit for bit
(nan == nan, real and imaginary parts compared separately), same exceptions.
"""

import importlib.util
import collections
import logging
import os
import sys
import warnings

import numpy as np

os.environ["TQDM_DISABLE"] = "1"  # before tqdm is imported
HERE = os.path.dirname(os.path.abspath(__file__))

import pyoma2.algorithms.plscf as new_alg  # noqa: E402
import pyoma2.functions.plscf as new_fun  # noqa: E402

logging.disable(logging.CRITICAL)
warnings.filterwarnings("ignore")


def _load(name, filename):
    spec = importlib.util.spec_from_file_location(name, os.path.join(HERE, filename))
    mod = importlib.util.module_from_spec(spec)
    sys.modules[name] = mod
    spec.loader.exec_module(mod)
    return mod


orig_fun = _load("pyoma2.functions._orig_plscf", "orig_functions_plscf.py")
# loaded inside the package so that the relative import `.base` works
orig_alg = _load("pyoma2.algorithms._orig_plscf", "orig_algorithms_plscf.py")
# the original calling layer must call the original numerical routines
orig_alg.plscf = orig_fun
assert new_alg.plscf is new_fun
assert orig_fun.__file__ != new_fun.__file__ and orig_alg.__file__ != new_alg.__file__

# silence the progress bars
for mod in (orig_fun, new_fun):
    mod.trange = lambda *a, **k: range(*a)
    mod.tqdm = lambda it, *a, **k: it

N_CMP = 0
EXC_SEEN = collections.Counter()


def same(a, b, where=""):
    """strict equality of (nested) results"""
    global N_CMP
    if isinstance(a, (list, tuple)):
        assert type(a) is type(b), (where, type(a), type(b))
        assert len(a) == len(b), (where, len(a), len(b))
        for k, (x, y) in enumerate(zip(a, b)):
            same(x, y, f"{where}[{k}]")
        return
    if a is None or b is None:
        assert a is None and b is None, where
        return
    if isinstance(a, np.ndarray) or isinstance(b, np.ndarray):
        assert isinstance(a, np.ndarray) and isinstance(b, np.ndarray), (where, type(a), type(b))
        assert a.dtype == b.dtype, (where, a.dtype, b.dtype)
        assert a.shape == b.shape, (where, a.shape, b.shape)
        if np.iscomplexobj(a):
            assert np.array_equal(a.real, b.real, equal_nan=True), (where, "real part")
            assert np.array_equal(a.imag, b.imag, equal_nan=True), (where, "imag part")
        elif a.dtype.kind == "f":
            assert np.array_equal(a, b, equal_nan=True), where
        else:
            assert np.array_equal(a, b), where
        N_CMP += 1
        return
    assert type(a) is type(b), (where, type(a), type(b))
    if isinstance(a, float) and a != a:
        assert b != b, where
    else:
        assert a == b, (where, a, b)
    N_CMP += 1


def outcome(f, *args, **kwargs):
    try:
        return ("ok", f(*args, **kwargs))
    except Exception as e:  # noqa: BLE001
        EXC_SEEN[(getattr(f, "__name__", "?"), type(e).__name__, str(e)[:60])] += 1
        return ("exc", type(e), str(e))


def same_outcome(fo, fn, *args, where="", **kwargs):
    ro = outcome(fo, *args, **kwargs)
    rn = outcome(fn, *args, **kwargs)
    assert ro[0] == rn[0], (where, ro, rn)
    if ro[0] == "exc":
        assert ro[1:] == rn[1:], (where, ro, rn)
    else:
        same(ro[1], rn[1], where)
    return ro


# ---------------------------------------------------------------------------
# inputs
# ---------------------------------------------------------------------------
def rational_spectrum(rng, n, Nch, Nref, Nf, dt, sgn):
    """Sy[:, :, f] = B(z_f) A(z_f)^-1, real coefficients of order n, z = exp(sgn j w dt)"""
    A = rng.standard_normal((n + 1, Nch, Nch))
    B = rng.standard_normal((n + 1, Nref, Nch))
    # keep it well conditioned: dominant constrained coefficient
    if sgn == -1:
        A[0] = np.eye(Nch)
        A[1:] *= 0.6
    else:
        A[-1] = np.eye(Nch)
        A[:-1] *= 0.6
    fs = 1 / dt
    omega = 2 * np.pi * np.linspace(0.0, fs / 2, Nf)
    z = np.exp(sgn * 1j * omega * dt)
    Sy = np.empty((Nref, Nch, Nf), dtype=complex)
    for f in range(Nf):
        Az = sum(A[k] * z[f] ** k for k in range(n + 1))
        Bz = sum(B[k] * z[f] ** k for k in range(n + 1))
        Sy[:, :, f] = Bz @ np.linalg.inv(Az)
    return Sy


def check_functions(rng, n_cases=48):
    for case in range(n_cases):
        n = int(rng.integers(1, 9))
        Nch = int(rng.integers(2, 6))
        Nref = int(rng.integers(1, 6))
        Nf = 4 * (n + 1) + int(rng.integers(0, 60))
        dt = float(rng.choice([1.0, 0.5, 0.01, 1 / 128, 0.0037, 2.5]))
        sgn = int(rng.choice([-1, 1]))
        ordmax = n + int(rng.integers(0, 3))
        kind = case % 4
        if kind == 3:  # not rational: generic complex spectrum
            Sy = rng.standard_normal((Nref, Nch, Nf)) + 1j * rng.standard_normal((Nref, Nch, Nf))
        elif kind == 2:  # real valued spectrum array
            Sy = rng.standard_normal((Nref, Nch, Nf))
        else:
            Sy = rational_spectrum(rng, n, Nch, Nref, Nf, dt, sgn)
        tag = f"case{case}(n={n},Nch={Nch},Nref={Nref},Nf={Nf},dt={dt},sgn={sgn},ordmax={ordmax})"

        Sy_o, Sy_n = Sy.copy(), Sy.copy()
        # positional / keyword / float sign, as the callers and the tests do
        if case % 3 == 0:
            ro = outcome(orig_fun.pLSCF, Sy_o, dt, ordmax, sgn)
            rn = outcome(new_fun.pLSCF, Sy_n, dt, ordmax, sgn)
        elif case % 3 == 1:
            ro = outcome(orig_fun.pLSCF, Sy_o, dt, ordmax, sgn_basf=sgn)
            rn = outcome(new_fun.pLSCF, Sy_n, dt, ordmax, sgn_basf=sgn)
        else:
            ro = outcome(orig_fun.pLSCF, Sy_o, dt, ordmax, float(sgn))
            rn = outcome(new_fun.pLSCF, Sy_n, dt, ordmax, float(sgn))
        assert ro[0] == rn[0] == "ok", (tag, ro, rn)
        same(ro[1], rn[1], tag + " pLSCF")
        same(Sy_o, Sy, tag + " input untouched (orig)")
        same(Sy_n, Sy, tag + " input untouched (new)")
        Ad, Bn = ro[1]
        assert len(Ad) == len(Bn) == ordmax

        for methodSy, nxseg in (("per", 2 * (Nf - 1)), ("cor", 2 * (Nf - 1)), ("cor", 64)):
            po = orig_fun.pLSCF_poles([a.copy() for a in Ad], [b.copy() for b in Bn], dt, methodSy, nxseg)
            pn = new_fun.pLSCF_poles([a.copy() for a in Ad], [b.copy() for b in Bn], dt, methodSy, nxseg)
            same(po, pn, tag + f" pLSCF_poles({methodSy},{nxseg})")
            # keyword form used by the algorithm classes
            pk = new_fun.pLSCF_poles(Ad, Bn, dt, nxseg=nxseg, methodSy=methodSy)
            same(po, pk, tag + " pLSCF_poles kw")

        for k in range(ordmax):
            so = orig_fun.rmfd2ac(Ad[k], Bn[k])
            sn = new_fun.rmfd2ac(Ad[k], Bn[k])
            same(so, sn, tag + f" rmfd2ac[{k}]")
            for methodSy in ("per", "cor"):
                mo = orig_fun.ac2mp_poly(so[0].copy(), so[1].copy(), dt, methodSy, 128)
                mn = new_fun.ac2mp_poly(sn[0].copy(), sn[1].copy(), dt, methodSy, 128)
                same(mo, mn, tag + f" ac2mp_poly[{k}]")
                assert mn[2].flags["C_CONTIGUOUS"] == mo[2].flags["C_CONTIGUOUS"]


def check_state_space_direct(rng, n_cases=40):
    """rmfd2ac / ac2mp_poly on inputs not produced by pLSCF (incl. the unit test's ones)"""
    for case in range(n_cases):
        n1 = int(rng.integers(2, 10))  # number of coefficient matrices (order + 1)
        m = int(rng.integers(2, 6))
        l_ = int(rng.integers(1, 6))
        A_den = rng.standard_normal((n1, m, m))
        B_num = rng.standard_normal((n1, l_, m))
        if case % 5 == 0:
            A_den[:-1] = 0.0  # degenerate companion of the unit test
        so = same_outcome(orig_fun.rmfd2ac, new_fun.rmfd2ac, A_den, B_num, where=f"rmfd2ac direct {case}")
        A, C = so[1]
        dt = float(rng.choice([1.0, 0.01, 0.2]))
        for methodSy in ("per", "cor"):
            same_outcome(
                orig_fun.ac2mp_poly, new_fun.ac2mp_poly, A, C, dt, methodSy, 100,
                where=f"ac2mp_poly direct {case}",
            )
        # generic (full) state matrices: complex and real eigenvalues, stable and not
        nn = int(rng.integers(2, 12))
        A2 = rng.standard_normal((nn, nn)) * float(rng.choice([0.3, 1.0, 2.0]))
        if case % 4 == 0:
            A2 = np.triu(A2)  # all eigenvalues real -> real eigenvectors
        C2 = rng.standard_normal((l_, nn))
        for methodSy in ("per", "cor"):
            same_outcome(
                orig_fun.ac2mp_poly, new_fun.ac2mp_poly, A2, C2, dt, methodSy, 50,
                where=f"ac2mp_poly generic {case}",
            )
    # unit test inputs
    same_outcome(orig_fun.rmfd2ac, new_fun.rmfd2ac, np.ones((5, 3, 3)), np.ones((5, 3, 3)), where="ut")


def check_exceptions(rng):
    Sy = rng.standard_normal((2, 3, 40)) + 0j
    # sign that is neither -1 nor +1: same (unbound constraint) error
    same_outcome(orig_fun.pLSCF, new_fun.pLSCF, Sy, 0.1, 3, 0, where="sgn=0")
    r = same_outcome(orig_fun.pLSCF, new_fun.pLSCF, Sy, 0.1, 3, 2, where="sgn=2")
    assert r[0] == "exc" and r[1] is UnboundLocalError, r
    same_outcome(orig_fun.pLSCF, new_fun.pLSCF, Sy, 0.1, 0, -1, where="ordmax=0")
    # too few frequency lines: singular normal equations, whatever happens happens twice
    same_outcome(orig_fun.pLSCF, new_fun.pLSCF, Sy[:, :, :3], 0.1, 4, -1, where="few lines")
    # singular last denominator
    A_den = rng.standard_normal((3, 2, 2))
    A_den[-1] = 0.0
    same_outcome(orig_fun.rmfd2ac, new_fun.rmfd2ac, A_den, rng.standard_normal((3, 2, 2)), where="singular")


# ---------------------------------------------------------------------------
# calling layer
# ---------------------------------------------------------------------------
RESULT_FIELDS = ("freq", "Sy", "Ad", "Bn", "Fn_poles", "Xi_poles", "Phi_poles", "Lab",
                 "order_out", "Fn", "Xi", "Phi")
PARAM_FIELDS = ("ordmax", "ordmin", "nxseg", "method_SD", "pov", "sc", "hc", "sel_freq",
                "order_in", "rtol")


def same_algo_state(ao, an, where):
    assert (ao.result is None) == (an.result is None), where
    if ao.result is not None:
        assert type(ao.result).__name__ == type(an.result).__name__
        fields = list(type(ao.result).model_fields)
        assert fields == list(type(an.result).model_fields)
        for f in fields:
            same(getattr(ao.result, f), getattr(an.result, f), f"{where} result.{f}")
        for f in RESULT_FIELDS:
            assert hasattr(ao.result, f), f
    for f in PARAM_FIELDS:
        same(getattr(ao.run_params, f), getattr(an.run_params, f), f"{where} run_params.{f}")


def synth_data(rng, nch, npts, fs):
    """a few damped oscillators driven by noise"""
    t = np.arange(npts) / fs
    freqs = np.array([0.06, 0.13, 0.21, 0.31])[: max(2, nch - 1)] * fs
    shapes = rng.standard_normal((len(freqs), nch))
    y = np.zeros((npts, nch))
    for f0, sh in zip(freqs, shapes):
        w0 = 2 * np.pi * f0
        h = np.exp(-0.01 * w0 * t[:400]) * np.sin(w0 * t[:400])
        q = np.convolve(rng.standard_normal(npts), h)[:npts]
        y += np.outer(q, sh)
    y += 0.05 * rng.standard_normal(y.shape)
    return y, freqs


class FakeSelFromPlot:
    """stands in for the interactive window"""

    answer = None

    def __init__(self, algo, freqlim=None, plot="pLSCF"):
        assert plot == "pLSCF"
        self.result = FakeSelFromPlot.answer


def make_pair(cls_name, data, fs, **params):
    pair = []
    for mod in (orig_alg, new_alg):
        algo = getattr(mod, cls_name)(name="x", **params)
        algo.fs = fs
        algo.dt = 1 / fs
        algo.data = data if not isinstance(data, np.ndarray) else data.copy()
        algo.result = None
        pair.append(algo)
    return pair


def run_pair(ao, an, where):
    ro = outcome(ao.run)
    rn = outcome(an.run)
    assert ro[0] == rn[0], (where, ro, rn)
    if ro[0] == "exc":
        assert ro[1:] == rn[1:], (where, ro, rn)
        return False
    ao._set_result(ro[1])
    an._set_result(rn[1])
    same_algo_state(ao, an, where + " after run")
    return True


def mpe_pair(ao, an, where, *args, **kwargs):
    ro = outcome(ao.mpe, *args, **kwargs)
    rn = outcome(an.mpe, *args, **kwargs)
    assert ro[0] == rn[0], (where, ro, rn)
    if ro[0] == "exc":
        assert ro[1:] == rn[1:], (where, ro, rn)
    else:
        assert ro[1] is None and rn[1] is None
    same_algo_state(ao, an, where)
    return ro[0]


def check_algorithms(rng):
    orig_alg.SelFromPlot = FakeSelFromPlot
    new_alg.SelFromPlot = FakeSelFromPlot
    n_ok = {"ok": 0, "exc": 0}
    configs = [
        dict(ordmax=8, nxseg=128, method_SD="per"),
        dict(ordmax=6, nxseg=100, method_SD="cor"),
        dict(ordmax=10, ordmin=2, nxseg=256, method_SD="per", pov=0.25),
        dict(ordmax=7, nxseg=128, method_SD="cor",
             hc=dict(conj=False, xi_max=0.2, mpc_lim=0.5, mpd_lim=0.5),
             sc=dict(err_fn=0.05, err_xi=0.2, err_phi=0.1)),
        dict(ordmax=5, ordmin=1, nxseg=64, method_SD="per",
             hc=dict(conj=True, xi_max=0.05, mpc_lim=0.9, mpd_lim=0.1)),
        dict(ordmax=9, nxseg=200, method_SD="per",
             hc=dict(conj=True, xi_max=1.0, mpc_lim=0.0, mpd_lim=1.0),
             sc=dict(err_fn=0.1, err_xi=0.5, err_phi=0.3)),
    ]
    for ci, params in enumerate(configs):
        nch = 2 + ci % 4
        fs = float([100.0, 50.0, 1.0, 256.0][ci % 4])
        data, freqs = synth_data(rng, nch, 3000, fs)
        where = f"pLSCF cfg{ci}"
        ao, an = make_pair("pLSCF", data, fs, **params)
        # mpe before run: same error
        assert mpe_pair(ao, an, where + " mpe before run", [1.0], order=2) == "exc"
        assert run_pair(ao, an, where)
        same(ao.data, data, where + " data untouched")
        same(an.data, data, where + " data untouched")

        Fn_poles = ao.result.Fn_poles
        for order in (1, params["ordmax"] - 1, params["ordmax"] // 2):
            col = Fn_poles[:, order]
            col = col[~np.isnan(col)]
            sel = sorted(set(np.round(col, 6).tolist()))[:3] or [float(freqs[0])]
            exact = [float(c) for c in sorted(set(col.tolist()))[:3]] or sel
            for sf in (sel, exact, [float(f) for f in freqs[:2]]):
                n_ok[mpe_pair(ao, an, f"{where} mpe int {order}", sf, order=order)] += 1
                n_ok[mpe_pair(ao, an, f"{where} mpe int rtol", sf, order, 1e-3)] += 1
                orders = [int((order + k) % params["ordmax"]) for k in range(len(sf))]
                n_ok[mpe_pair(ao, an, f"{where} mpe list", sf, order=orders, rtol=0.1)] += 1
        sf = [float(f) for f in freqs[:2]]
        n_ok[mpe_pair(ao, an, where + " mpe find_min", sf)] += 1
        n_ok[mpe_pair(ao, an, where + " mpe find_min kw", sel_freq=sf, order="find_min", rtol=0.2)] += 1
        n_ok[mpe_pair(ao, an, where + " mpe bad order", sf, order=2.5)] += 1

        # mpe_from_plot with a scripted selection
        for answer in ((sf, [2, 3]), (sf[:1], [params["ordmax"] - 1]), ([], [])):
            FakeSelFromPlot.answer = answer
            ro = outcome(ao.mpe_from_plot, freqlim=(0.0, fs / 2), rtol=0.07)
            rn = outcome(an.mpe_from_plot, freqlim=(0.0, fs / 2), rtol=0.07)
            assert ro[0] == rn[0], (where, ro, rn)
            if ro[0] == "exc":
                assert ro[1:] == rn[1:], (where, ro, rn)
            n_ok[ro[0]] += 1
            same_algo_state(ao, an, where + " mpe_from_plot")

    # multi setup (PreGER) class
    for ci, params in enumerate(configs[:4]):
        fs = float([100.0, 20.0][ci % 2])
        n_ref, n_mov = 1 + ci % 2, 1 + (ci + 1) % 3
        Y = []
        for _ in range(2 + ci % 2):
            d, freqs = synth_data(rng, n_ref + n_mov, 2500, fs)
            Y.append({"ref": d[:, :n_ref].T.copy(), "mov": d[:, n_ref:].T.copy()})
        where = f"pLSCF_MS cfg{ci}"
        ao, an = make_pair("pLSCF_MS", Y, fs, **params)
        assert run_pair(ao, an, where)
        sf = [float(f) for f in freqs[:2]]
        n_ok[mpe_pair(ao, an, where + " mpe", sf, order=3)] += 1
        n_ok[mpe_pair(ao, an, where + " mpe find_min", sf)] += 1
        FakeSelFromPlot.answer = (sf, [1, 2])
        same_outcome(ao.mpe_from_plot, an.mpe_from_plot, where=where + " mfp")
        same_algo_state(ao, an, where + " mpe_from_plot")
    assert n_ok["ok"] > 20, n_ok
    return n_ok


if __name__ == "__main__":
    rng = np.random.default_rng(20261003)
    check_functions(rng)
    print("functions: rational / generic spectra ...... ok")
    check_state_space_direct(rng)
    print("functions: rmfd2ac / ac2mp_poly direct ..... ok")
    check_exceptions(rng)
    print("functions: exceptions ...................... ok")
    counts = check_algorithms(rng)
    print(f"algorithms: run / mpe / mpe_from_plot ...... ok {counts}")
    print(f"{N_CMP} strict comparisons; exceptions met (counted on both sides):")
    for key, cnt in sorted(EXC_SEEN.items()):
        print("   ", cnt, key)
    print("PASS")
