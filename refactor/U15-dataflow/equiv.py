"""
Equivalence check of the C15 refactoring (runs gated / deterministic / isolated / persistent,
PoSER input validation).

Two "worlds" of the pyoma2 package are loaded in the same process:
  NEW  : the refactored sources under /tmp/wt/U15/src
  ORIG : the same package, but the five touched modules are loaded BY PATH from the pristine
         copies _refactor/orig_*.py (a meta path finder maps the module names to those files, all the
         dependants - fdd classes, SingleSetup, MultiSetup_* - are re-imported on top of them).
The same scenarios are executed in both worlds and the traces (exceptions, result / run_params /
data digests - dtype, shape and raw bytes of every array) must be identical.
"""

from __future__ import annotations

import collections
import contextlib
import os

os.environ["TQDM_DISABLE"] = "1"
import hashlib
import importlib
import importlib.abc
import importlib.util
import itertools
import logging
import os
import pickle
import struct
import sys
import tempfile
import types
import warnings

import numpy as np

HERE = os.path.dirname(os.path.abspath(__file__))
SRC = os.path.join(os.path.dirname(HERE), "src")
sys.path.insert(0, SRC)
warnings.filterwarnings("ignore")

ORIG_FILES = {
    "pyoma2.algorithms.base": "orig_algorithms_base.py",
    "pyoma2.algorithms.fdd": "orig_algorithms_fdd.py",
    "pyoma2.functions.gen": "orig_functions_gen.py",
    "pyoma2.setup.base": "orig_setup_base.py",
    "pyoma2.setup.multi": "orig_setup_multi.py",
}


# ----------------------------------------------------------------------------------------------
# world handling
# ----------------------------------------------------------------------------------------------
class _OrigFinder(importlib.abc.MetaPathFinder):
    def find_spec(self, fullname, path, target=None):
        if fullname in ORIG_FILES:
            return importlib.util.spec_from_file_location(
                fullname, os.path.join(HERE, ORIG_FILES[fullname])
            )
        return None


def _is_pkg(name):
    return name == "pyoma2" or name.startswith("pyoma2.")


def _snapshot():
    return {k: v for k, v in sys.modules.items() if _is_pkg(k)}


def _install(world):
    for k in [k for k in sys.modules if _is_pkg(k)]:
        del sys.modules[k]
    sys.modules.update(world)


def _import_all():
    for name in (
        "pyoma2.functions.gen",
        "pyoma2.algorithms",
        "pyoma2.algorithms.base",
        "pyoma2.algorithms.fdd",
        "pyoma2.setup",
        "pyoma2.setup.base",
        "pyoma2.setup.single",
        "pyoma2.setup.multi",
    ):
        importlib.import_module(name)
    return _snapshot()


def build_worlds():
    new = _import_all()
    _install({})
    finder = _OrigFinder()
    sys.meta_path.insert(0, finder)
    try:
        orig = _import_all()
    finally:
        sys.meta_path.remove(finder)
    # sanity: the touched modules really come from the pristine copies / the refactored tree
    for name, fname in ORIG_FILES.items():
        assert orig[name].__file__.endswith(fname), (name, orig[name].__file__)
        assert new[name].__file__.startswith(SRC), (name, new[name].__file__)
        assert orig[name] is not new[name]
    # the untouched dependants are distinct copies built on top of the respective bases
    assert orig["pyoma2.setup.single"].SingleSetup.__mro__[1] is orig["pyoma2.setup.base"].BaseSetup
    assert new["pyoma2.setup.single"].SingleSetup.__mro__[1] is new["pyoma2.setup.base"].BaseSetup
    assert orig["pyoma2.algorithms.ssi"].SSIcov.__mro__[1] is not new["pyoma2.algorithms.ssi"].SSIcov.__mro__[1]
    _install(new)
    return {"new": new, "orig": orig}


WORLDS = build_worlds()
logging.disable(logging.CRITICAL)


@contextlib.contextmanager
def world(name):
    prev = _snapshot()
    _install(WORLDS[name])
    try:
        yield types.SimpleNamespace(
            gen=WORLDS[name]["pyoma2.functions.gen"],
            alg=WORLDS[name]["pyoma2.algorithms"],
            algbase=WORLDS[name]["pyoma2.algorithms.base"],
            fddmod=WORLDS[name]["pyoma2.algorithms.fdd"],
            setup=WORLDS[name]["pyoma2.setup"],
            multi=WORLDS[name]["pyoma2.setup.multi"],
            result=WORLDS[name]["pyoma2.algorithms.data.result"],
            run_params=WORLDS[name]["pyoma2.algorithms.data.run_params"],
        )
    finally:
        _install(prev)


# ----------------------------------------------------------------------------------------------
# digests
# ----------------------------------------------------------------------------------------------
def digest(obj, depth=0):
    """Structure that compares equal iff values, dtypes, shapes, NaN patterns are identical."""
    if depth > 8:
        return "<deep>"
    if obj is None or isinstance(obj, (bool, int, str, bytes)):
        return obj
    if isinstance(obj, float):
        return ("f", struct.pack("<d", float("nan") if obj != obj else obj))
    if isinstance(obj, complex):
        return ("c", struct.pack("<dd", obj.real, obj.imag))
    if isinstance(obj, np.generic):
        return ("npscalar", obj.dtype.str, obj.tobytes())
    if isinstance(obj, np.ndarray):
        if obj.dtype == object:
            return ("objarr", obj.shape, [digest(x, depth + 1) for x in obj.ravel()])
        raw = np.ascontiguousarray(obj)
        if raw.dtype.kind in "fc":
            # keep every bit (signed zeros, infs, NaN positions of the real and of the imaginary
            # parts) but canonicalise the sign / payload bits of the NaNs themselves, which are
            # not specified by IEEE-754 and depend on the SIMD code path numpy happens to take
            flt = raw.view(raw.real.dtype).copy()
            flt[np.isnan(flt)] = np.nan
            raw = flt
        return ("arr", obj.dtype.str, obj.shape, hashlib.sha1(raw.tobytes()).hexdigest())
    if isinstance(obj, (list, tuple)):
        return (type(obj).__name__, [digest(x, depth + 1) for x in obj])
    if isinstance(obj, dict):
        return ("dict", [(digest(k, depth + 1), digest(v, depth + 1)) for k, v in obj.items()])
    if hasattr(obj, "model_fields") and hasattr(obj, "__dict__"):
        return (
            "model",
            type(obj).__name__,
            [(k, digest(v, depth + 1)) for k, v in obj.__dict__.items()],
            sorted(obj.model_fields_set),
        )
    return ("repr", type(obj).__name__)


def call(fn, *a, **k):
    """('ok', digest(result)) or ('exc', type name, message)."""
    label = getattr(fn, "__name__", "?")
    try:
        out = ("ok", digest(fn(*a, **k)))
        OUTCOMES[(label, "ok")] += 1
        return out
    except BaseException as e:  # noqa: BLE001
        OUTCOMES[(label, type(e).__name__)] += 1
        return ("exc", type(e).__name__, str(e))


OUTCOMES = collections.Counter()


N_CHECKS = 0


def same(a, b, what):
    global N_CHECKS
    N_CHECKS += 1
    if a != b:
        print("MISMATCH in", what)
        print("  orig:", repr(a)[:1500])
        print("  new :", repr(b)[:1500])
        raise SystemExit(1)


# ----------------------------------------------------------------------------------------------
# 1. numerical routines: MSF, merge_mode_shapes
# ----------------------------------------------------------------------------------------------
def rand_modes(rng, n, m, kind):
    re = rng.standard_normal((n, m))
    if kind == "real":
        return re
    if kind == "complex":
        return re + 1j * rng.standard_normal((n, m))
    if kind == "fortran":
        return np.asfortranarray(re + 1j * rng.standard_normal((n, m)))
    if kind == "nan":
        out = re + 1j * rng.standard_normal((n, m))
        if m:
            out[rng.integers(0, n), rng.integers(0, m)] = np.nan
        return out
    if kind == "f32":
        return re.astype(np.float32)
    raise AssertionError(kind)


def check_numerics():
    rng = np.random.default_rng(15)
    with world("orig") as wo, world("new") as wn:
        pass
    go, gn = wo.gen, wn.gen
    kinds = ["real", "complex", "fortran", "nan", "f32"]
    # MSF
    for it in range(200):
        n, m = int(rng.integers(1, 9)), int(rng.integers(1, 5))
        k1, k2 = rng.choice(kinds, 2)
        a, b = rand_modes(rng, n, m, k1), rand_modes(rng, n, m, k2)
        mode = it % 5
        if mode == 1:
            a, b = a[:, 0], b[:, 0]
        elif mode == 2:
            b = b[:, 0] if m == 1 else b[:, :1]  # shape mismatch unless m == 1
        elif mode == 3:
            b = b[: max(n - 1, 1)]  # row mismatch (unless n == 1)
        elif mode == 4:
            a = a * 0.0  # 0/0 -> nan
        same(call(go.MSF, a, b), call(gn.MSF, a, b), f"MSF #{it}")

    # merge_mode_shapes
    for it in range(400):
        nset = int(rng.integers(1, 5))
        nmodes = int(rng.integers(0, 5)) if it % 7 == 0 else int(rng.integers(1, 5))
        nref = int(rng.integers(0, 4)) if it % 11 == 0 else int(rng.integers(1, 4))
        arrs, refs = [], []
        for _s in range(nset):
            nrows = nref + int(rng.integers(0, 5))
            nrows = max(nrows, 1)
            kind = rng.choice(kinds[:4]) if it % 13 else rng.choice(kinds)
            arrs.append(rand_modes(rng, nrows, nmodes, kind))
            # non-ascending reference index lists, sometimes negative indices
            ref = list(rng.permutation(nrows)[: min(nref, nrows)])
            ref = [int(r) for r in ref]
            if it % 9 == 0 and ref:
                ref[0] = ref[0] - nrows  # equivalent negative index
            refs.append(ref)
        fault = it % 10
        if fault == 1 and nset > 1:  # different number of modes
            arrs[-1] = rand_modes(rng, arrs[-1].shape[0], nmodes + 1, "complex")
        elif fault == 2 and nset > 1:  # different number of reference sensors
            refs[-1] = refs[-1][:-1] if len(refs[-1]) > 1 else refs[-1] + refs[-1]
        elif fault == 3 and nset > 1:  # reference list shorter than the array list
            refs = refs[:-1]
        elif fault == 4:  # index out of range
            refs[0] = refs[0] + [arrs[0].shape[0] + 3]
        elif fault == 5:  # longer reference list than arrays (extra ignored)
            refs = refs + [[0]]
        a1 = [x.copy() for x in arrs]
        a2 = [x.copy() for x in arrs]
        r1 = [list(r) for r in refs]
        r2 = [list(r) for r in refs]
        ro = call(go.merge_mode_shapes, a1, r1)
        rn = call(gn.merge_mode_shapes, a2, r2)
        if ro[0] == "exc" and rn[0] == "exc" and ro[1] == rn[1] == "ValueError" and "broadcast" in ro[2]:
            # numpy's broadcasting message quotes the shapes of the (column / block) operands
            ro, rn = ro[:2], rn[:2]
        if ro[0] == "exc" and rn[0] == "exc" and ro[1] == rn[1] == "IndexError":
            ro, rn = ro[:2], rn[:2]  # numpy index error texts (np.delete vs mask) differ in wording
        if ro != rn and os.environ.get("EQUIV_DUMP"):
            pickle.dump((arrs, refs), open(os.path.join(HERE, "mismatch.pkl"), "wb"))
        same(ro, rn, f"merge_mode_shapes #{it} (fault {fault})")
        # inputs untouched
        same(digest(a1), digest(arrs), "merge_mode_shapes orig mutated input")
        same(digest(a2), digest(arrs), "merge_mode_shapes new mutated input")
        same(digest(r2), digest(refs), "merge_mode_shapes new mutated reflist")


# ----------------------------------------------------------------------------------------------
# data
# ----------------------------------------------------------------------------------------------
def make_data(seed, n=900, nch=4, fs=50.0):
    rng = np.random.default_rng(seed)
    t = np.arange(n) / fs
    freqs = np.array([3.1, 7.7, 12.3])
    shapes = rng.standard_normal((len(freqs), nch))
    sig = sum(
        np.outer(np.sin(2 * np.pi * f * t + rng.uniform(0, 6.28)) * np.exp(-0.001 * t), shapes[i])
        for i, f in enumerate(freqs)
    )
    return sig + 0.3 * rng.standard_normal((n, nch))


FS = 50.0
SEL = [3.1, 7.7]


class _StubSel:
    """Replacement of the interactive peak picker (returns fixed frequencies)."""

    def __init__(self, algo, freqlim=None, plot="FDD"):
        assert algo.result is not None
        self.result = (list(SEL), None)


def algo_factory(w, kind, name=None):
    A = w.alg
    if kind == "FDD":
        return A.FDD(name=name or "FDD", nxseg=128, method_SD="per", pov=0.0)  # zero overlap
    if kind == "FDDcor":
        return A.FDD(name=name or "FDDcor", nxseg=64, method_SD="cor")
    if kind == "EFDD":
        return A.EFDD(name=name or "EFDD", nxseg=256, method_SD="per", pov=0.5)
    if kind == "FSDD":
        return A.FSDD(name=name or "FSDD", nxseg=256, method_SD="per", pov=0.25)
    if kind == "SSI":
        return A.SSIcov(name=name or "SSI", br=10, ordmax=14, step=1, calc_unc=False)
    if kind == "NOPAR":  # no run parameters -> gated by _pre_run
        return A.FDD(name=name or "NOPAR")
    if kind == "RP":  # explicit run params object (and kwargs that must be ignored)
        rp = w.run_params.FDDRunParams(nxseg=96, method_SD="per", pov=0.1)
        return A.FDD(rp, name or "RP", nxseg=32)
    raise AssertionError(kind)


MPE_ARGS = {
    "FDD": dict(sel_freq=SEL, DF=0.2),
    "FDDcor": dict(sel_freq=SEL),
    "RP": dict(sel_freq=SEL, DF=0.3),
    "NOPAR": dict(sel_freq=SEL),
    "EFDD": dict(sel_freq=SEL, DF1=0.2, DF2=1.5, cm=1, MAClim=0.8, sppk=2, npmax=8),
    "FSDD": dict(sel_freq=SEL, DF1=0.15, DF2=1.2, sppk=1, npmax=6),
    "SSI": dict(sel_freq=SEL, order=12, rtol=0.3),
}
PLOT_ARGS = {
    "FDD": dict(freqlim=(0, 20), DF=0.25),
    "FDDcor": dict(),
    "RP": dict(DF=0.3),
    "NOPAR": dict(),
    "EFDD": dict(DF1=0.2, DF2=1.5, cm=1, MAClim=0.8, sppk=2, npmax=8, freqlim=(0, 20)),
    "FSDD": dict(DF1=0.15, DF2=1.2),
}


def setup_state(ss, data_ref):
    """Observable state of a setup after a call."""
    algs = getattr(ss, "algorithms", None)
    out = [("data", digest(ss.data)), ("data_is_initial_object", ss.data is data_ref)]
    for i, (name, alg) in enumerate(algs.items()):
        out.append(
            (
                i,
                name,
                type(alg).__name__,
                digest(alg.run_params),
                digest(alg.result),
                alg.data is ss.data,
                digest(getattr(alg, "fs", "<unset>")),
                digest(getattr(alg, "dt", "<unset>")),
                sorted(k for k in alg.__dict__),
            )
        )
    return out


def play(wname, program, seed):
    """Run a history of calls in one world and return the trace."""
    with world(wname) as w:
        w.fddmod.SelFromPlot = _StubSel
        data = make_data(seed)
        ss = w.setup.SingleSetup(data, FS)
        trace = []
        for op in program:
            kind, arg = op
            if kind == "add":
                res = call(ss.add_algorithms, *[algo_factory(w, k) for k in arg])
            elif kind == "run":
                res = call(ss.run_by_name, arg)
            elif kind == "run_all":
                res = call(ss.run_all)
            elif kind == "mpe":
                res = call(ss.mpe, arg, **MPE_ARGS.get(arg, dict(sel_freq=SEL)))
            elif kind == "mpe_pos":  # positional forwarding through the setup
                res = call(ss.mpe, arg, list(SEL))
            elif kind == "plot":
                res = call(ss.mpe_from_plot, arg, **PLOT_ARGS.get(arg, {}))
            elif kind == "getitem":
                res = call(lambda: type(ss[arg]).__name__)
            elif kind == "get":
                res = call(lambda: type(ss.get(arg)).__name__)
            elif kind == "detrend":
                res = call(ss.detrend_data)
            elif kind == "decimate":
                res = call(ss.decimate_data, q=2, zero_phase=False)
            elif kind == "roundtrip":
                res = roundtrip(w, ss)
            else:
                raise AssertionError(op)
            trace.append((op, res, setup_state(ss, data)))
        return trace


def roundtrip(w, ss):
    fd, path = tempfile.mkstemp(suffix=".pkl")
    os.close(fd)
    try:
        w.gen.save_to_file(ss, path)
        raw = open(path, "rb").read()
        back = w.gen.load_from_file(path)
        assert type(back) is type(ss)
        st = setup_state(back, back.data)
        assert digest(back.data) == digest(ss.data)
        for name, alg in ss.algorithms.items():
            assert digest(back[name].run_params) == digest(alg.run_params), name
            assert digest(back[name].result) == digest(alg.result), name
        return ("ok", hashlib.sha1(raw).hexdigest(), len(raw), st)
    finally:
        os.remove(path)


def check_histories():
    rng = np.random.default_rng(1515)
    names = ["FDD", "EFDD", "SSI"]
    ops = (
        [("add", (k,)) for k in names]
        + [("run", k) for k in names]
        + [("mpe", k) for k in names]
        + [("run_all", None), ("run", "missing"), ("mpe", "missing")]
    )
    programs = []
    # every history up to length 3 over the small alphabet (FDD / EFDD only, SSI is slower)
    small = [o for o in ops if o[1] is None or "SSI" not in (o[1] if isinstance(o[1], str) else o[1][0])]
    for n in (1, 2, 3):
        programs += [list(p) for p in itertools.product(small, repeat=n)]
    # random histories of length 4 and 5 over the full alphabet (every subset / ordering of classes)
    full = ops + [
        ("add", ("FSDD", "FDDcor")),
        ("add", ("NOPAR",)),
        ("add", ("RP",)),
        ("add", ()),
        ("run", "NOPAR"),
        ("run", "RP"),
        ("run", "FSDD"),
        ("run", "FDDcor"),
        ("mpe", "FSDD"),
        ("mpe", "RP"),
        ("mpe", "NOPAR"),
        ("mpe_pos", "FDD"),
        ("mpe_pos", "FDDcor"),
        ("plot", "FDD"),
        ("plot", "EFDD"),
        ("plot", "FSDD"),
        ("plot", "RP"),
        ("plot", "missing"),
        ("getitem", "FDD"),
        ("getitem", "missing"),
        ("get", "missing"),
        ("detrend", None),
        ("decimate", None),
        ("roundtrip", None),
    ]
    for _ in range(260):
        n = int(rng.integers(4, 6))
        programs.append([full[int(i)] for i in rng.integers(0, len(full), n)])
    # orderings of the whole class set, run alone / after the others / repeatedly, then persisted
    for perm in itertools.permutations(["FDD", "EFDD", "FSDD", "SSI"]):
        programs.append(
            [("add", perm), ("run_all", None)]
            + [("mpe", k) for k in perm]
            + [("run", perm[0]), ("roundtrip", None)]
        )
    # directed histories: interactive extraction (stubbed picker) for every FDD flavour
    flavours = ["FDD", "EFDD", "FSDD", "RP", "FDDcor"]
    for shift in range(len(flavours)):
        order = flavours[shift:] + flavours[:shift]
        programs.append(
            [("add", tuple(order)), ("run_all", None)]
            + [("plot", k) for k in order]
            + [("roundtrip", None), ("run", order[0]), ("mpe", order[1]), ("mpe_pos", "FDD")]
            + [("decimate", None), ("run", order[2]), ("plot", order[2]), ("roundtrip", None)]
        )
    for i, prog in enumerate(programs):
        seed = 100 + (i % 3)
        to = play("orig", prog, seed)
        tn = play("new", prog, seed)
        same(to, tn, f"history #{i}: {prog}")
    return len(programs)


# ----------------------------------------------------------------------------------------------
# 3. BaseAlgorithm constructor / gates on a data dependent fake algorithm
# ----------------------------------------------------------------------------------------------
def check_base_algorithm():
    def build(w):
        BaseRunParams = w.run_params.BaseRunParams
        BaseResult = w.result.BaseResult

        class P(BaseRunParams):
            gain: float = 1.0
            tag: str = "x"

        class R(BaseResult):
            val: float = 0.0

        class Algo(w.algbase.BaseAlgorithm[P, R, np.ndarray]):
            RunParamCls = P
            ResultCls = R

            def run(self):
                return R(val=float(np.sum(self.data)) * self.run_params.gain / self.dt)

            def mpe(self, *a, **k):
                super().mpe(*a, **k)
                self.result.Fn = np.array([1.0])
                return "mpe"

            def mpe_from_plot(self, *a, **k):
                super().mpe_from_plot(*a, **k)
                return "plot"

        return P, R, Algo

    def scenario(wname):
        out = []
        with world(wname) as w:
            P, R, Algo = build(w)
            ctor_cases = [
                ((), {}),
                ((P(gain=2.0),), {}),
                ((P(gain=2.0), "named"), {"gain": 5.0}),
                ((None, "named"), {"gain": 5.0}),
                ((None,), {"gain": 3.0, "tag": "t"}),
                (({},), {}),
                (({},), {"gain": 4.0}),
                ((0, ""), {}),
                ((), {"name": "kw", "run_params": P(tag="kw")}),
                ((None,), {"nope": 1}),
                ((None,), {"gain": "bad"}),
            ]
            for args, kwargs in ctor_cases:
                try:
                    a = Algo(*args, **kwargs)
                except BaseException as e:  # noqa: BLE001
                    out.append(("ctor-exc", type(e).__name__, str(e)))
                    continue
                out.append(("ctor", a.name, sorted(a.__dict__), digest(a.run_params), a.result))
                # gates without / with data
                out.append(call(a._pre_run))
                out.append(call(a.mpe))
                out.append(call(a.mpe_from_plot, 1, x=2))
                for fs, data in itertools.product([None, 10.0], [None, np.arange(6.0).reshape(3, 2)]):
                    a.fs, a.data = fs, data
                    out.append(("pre", fs, data is None, call(a._pre_run)))
                out.append(call(lambda: a._set_data(np.ones((3, 2)), 0)))  # 1/0 after the stores
                out.append(sorted(a.__dict__))
                out.append(call(lambda: type(a._set_data(data=np.ones((4, 2)), fs=4.0)).__name__))
                out.append(call(a._pre_run))
                if a.run_params:
                    r = a.run()
                    out.append(digest(r))
                    out.append(a.result)  # run() alone does not store
                    out.append(type(a._set_result(r)).__name__)
                    out.append(call(a.mpe))
                    out.append(call(a.mpe_from_plot))
                    out.append(digest(a.result))
                    out.append(type(a.set_run_params(P(gain=7.0))).__name__)
                    out.append(digest(a.run_params))
            # class creation gates
            for bad in ("norp", "nores"):
                try:
                    if bad == "norp":

                        class Bad1(w.algbase.BaseAlgorithm):
                            ResultCls = R
                    else:

                        class Bad2(w.algbase.BaseAlgorithm):
                            RunParamCls = P
                    out.append("created")
                except ValueError as e:
                    out.append(("subclass-exc", str(e)))
        return out

    same(scenario("orig"), scenario("new"), "BaseAlgorithm scenarios")


# ----------------------------------------------------------------------------------------------
# 4. PreGER (FDD_MS / EFDD_MS run through BaseSetup) and pickle
# ----------------------------------------------------------------------------------------------
def check_preger():
    def scenario(wname):
        out = []
        with world(wname) as w:
            w.fddmod.SelFromPlot = _StubSel
            datasets = [make_data(7 + i, n=800 + 40 * i, nch=4) for i in range(3)]
            ref_ind = [[1, 0], [2, 0], [0, 3]]  # non-ascending reference lists
            ms = w.setup.MultiSetup_PreGER(fs=FS, ref_ind=ref_ind, datasets=datasets)
            A = w.alg
            fdd_ms = A.FDD_MS(name="fdd", nxseg=128, method_SD="per", pov=0.0)
            efdd_ms = A.EFDD_MS(name="efdd", nxseg=256, method_SD="cor")
            out.append(call(ms.run_all))
            out.append(call(ms.run_by_name, "fdd"))
            ms.add_algorithms(efdd_ms, fdd_ms)
            out.append(call(ms.mpe, "fdd", sel_freq=SEL))  # not run yet
            out.append(call(ms.mpe, "efdd", sel_freq=SEL))
            out.append(setup_state(ms, ms.data))
            out.append(call(ms.run_by_name, "fdd"))
            out.append(setup_state(ms, ms.data))
            out.append(call(ms.run_all))
            out.append(setup_state(ms, ms.data))
            out.append(call(ms.mpe, "fdd", sel_freq=SEL, DF=0.2))
            out.append(call(ms.mpe, "efdd", SEL, DF1=0.2, npmax=6))
            out.append(call(ms.mpe_from_plot, "efdd", DF2=1.3))
            out.append(call(ms.mpe_from_plot, "fdd"))
            out.append(setup_state(ms, ms.data))
            out.append(roundtrip(w, ms))
        return out

    same(scenario("orig"), scenario("new"), "PreGER scenario")


# ----------------------------------------------------------------------------------------------
# 5. PoSER constructor configurations and merge_results
# ----------------------------------------------------------------------------------------------
TYPE_LISTS = [(), ("FDD",), ("EFDD",), ("FDD", "EFDD"), ("EFDD", "FDD"), ("EFDD", "EFDD"), ("EFDD", "FSDD")]
STATES = ("new", "run", "mpe")
NAME_LISTS = [[], ["a"], ["a", "b"], ["a", "a"], ["a", "b", "c"]]


def build_pool(w):
    """setup for every (type list, state assignment) - the same pool is built in each world."""
    pool = []
    for tl in TYPE_LISTS:
        for states in itertools.product(STATES, repeat=len(tl)):
            ss = w.setup.SingleSetup(make_data(31 + len(pool) % 4, nch=4 + (len(pool) % 2)), FS)
            for j, (kind, st) in enumerate(zip(tl, states)):
                nm = f"{kind}_{j}"
                ss.add_algorithms(algo_factory(w, kind, name=nm))
                if st in ("run", "mpe"):
                    ss.run_by_name(nm)
                if st == "mpe":
                    ss.mpe(nm, **MPE_ARGS[kind])
            pool.append(((tl, states), ss))
    # replicas of the fully valid setups on other data / other channel counts (for the merge)
    for tl in TYPE_LISTS[1:]:
        for rep_ in range(3):
            ss = w.setup.SingleSetup(make_data(60 + rep_, nch=4 + rep_ % 2), FS)
            for j, kind in enumerate(tl):
                nm = f"{kind}_{j}"
                ss.add_algorithms(algo_factory(w, kind, name=nm))
                ss.run_by_name(nm)
                ss.mpe(nm, **MPE_ARGS[kind])
            pool.append(((tl, ("mpe",) * len(tl), rep_), ss))
    return pool


def check_poser():
    rng = np.random.default_rng(99)
    with world("orig") as wo:
        pool_o = build_pool(wo)
    with world("new") as wn:
        pool_n = build_pool(wn)
    same([digest([d, setup_state(s, s.data)]) for d, s in pool_o],
         [digest([d, setup_state(s, s.data)]) for d, s in pool_n], "PoSER pool")
    npool = len(pool_o)
    configs = [()] + [(i,) for i in range(npool)]
    configs += list(itertools.product(range(npool), repeat=2))
    for k, cnt in ((3, 2500), (4, 2500)):
        configs += [tuple(int(i) for i in rng.integers(0, npool, k)) for _ in range(cnt)]
    # plus fully valid ones with 3 / 4 setups
    valid = [i for i, (d, _) in enumerate(pool_o) if d[0] and all(s == "mpe" for s in d[1])]
    for tl in TYPE_LISTS[1:]:
        same_types = [j for j in valid if pool_o[j][0][0] == tl]
        for k in (2, 3, 4):
            configs += list(itertools.permutations(same_types, k))[:: (1 if k < 4 else 2)]

    def construct(w, pool, cfg, names, ref_ind):
        try:
            ms = w.setup.MultiSetup_PoSER(
                ref_ind=ref_ind, single_setups=[pool[i][1] for i in cfg], names=names
            )
        except BaseException as e:  # noqa: BLE001
            return None, ("exc", type(e).__name__, str(e))
        idx = [[s is p[1] for p in pool].index(True) for s in ms.setups]
        return ms, ("ok", idx, list(ms.names), digest(ms.ref_ind), call(lambda: ms.result))

    n_ok = 0
    n_merged = 0
    with world("orig") as wo, world("new") as wn:
        pass
    for ci, cfg in enumerate(configs):
        for names in NAME_LISTS:
            ref_ind = [[1, 0]] * len(cfg) if ci % 2 else [[0, 2], [2, 0], [1, 3], [3, 1]][: len(cfg)]
            with world("orig"):
                mo, ro = construct(wo, pool_o, cfg, list(names), ref_ind)
            with world("new"):
                mn, rn = construct(wn, pool_n, cfg, list(names), ref_ind)
            same(ro, rn, f"PoSER ctor cfg={[pool_o[i][0] for i in cfg]} names={names}")
            if mo is None:
                continue
            n_ok += 1
            with world("orig"):
                r1 = call(mo.merge_results)
                r1b = call(lambda: mo.result)
                e1 = call(lambda: setattr(mo, "setups", []))
            with world("new"):
                r2 = call(mn.merge_results)
                r2b = call(lambda: mn.result)
                e2 = call(lambda: setattr(mn, "setups", []))
            same((r1, r1b, e1), (r2, r2b, e2), f"PoSER merge cfg={[pool_o[i][0] for i in cfg]} names={names}")
            n_merged += r1[0] == "ok"
    # degenerate constructor inputs
    for ss_arg in (None, [], ()):
        with world("orig"):
            ro = construct(wo, pool_o, (), ["a"], [[0]])[1] if ss_arg != None else call(  # noqa: E711
                lambda: wo.setup.MultiSetup_PoSER(ref_ind=[[0]], single_setups=None, names=["a"]))
        with world("new"):
            rn = construct(wn, pool_n, (), ["a"], [[0]])[1] if ss_arg != None else call(  # noqa: E711
                lambda: wn.setup.MultiSetup_PoSER(ref_ind=[[0]], single_setups=None, names=["a"]))
        same(ro, rn, "PoSER degenerate")
    # the pools were not modified by constructing / merging
    same([digest(setup_state(s, s.data)) for _, s in pool_o],
         [digest(setup_state(s, s.data)) for _, s in pool_n], "PoSER pool after")
    # lazy generator semantic of _init_setups (first setups yielded before a later one fails)
    for wname, w, pool in (("orig", wo, pool_o), ("new", wn, pool_n)):
        with world(wname):
            ms = object.__new__(w.multi.MultiSetup_PoSER)
            ms.names = ["a"]
            good = [i for i, (d, _) in enumerate(pool) if d == (("EFDD",), ("mpe",))][0]
            bad = [i for i, (d, _) in enumerate(pool) if d == (("EFDD",), ("run",))][0]
            gen_ = ms._init_setups(setups=[pool[good][1], pool[bad][1]])
            first = next(gen_)
            assert first is pool[good][1]
            try:
                next(gen_)
                raise AssertionError("expected ValueError")
            except ValueError as e:
                msg = str(e)
        if wname == "orig":
            keep = msg
        else:
            same(keep, msg, "lazy generator message")
    return len(configs) * len(NAME_LISTS), n_ok, n_merged


if __name__ == "__main__":
    check_numerics()
    print("numerics ok, checks so far:", N_CHECKS)
    check_base_algorithm()
    print("base algorithm ok")
    nprog = check_histories()
    print("histories ok:", nprog, "programs")
    check_preger()
    print("PreGER ok")
    ncfg, nok, nmerged = check_poser()
    print(f"PoSER ok: {ncfg} constructor configurations, {nok} accepted, {nmerged} merged")
    print("total comparisons:", N_CHECKS)
    print("outcomes of the compared calls (both worlds):")
    for key, cnt in sorted(OUTCOMES.items()):
        print("   ", key, cnt)
    print("PASS")
