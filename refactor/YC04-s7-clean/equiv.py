"""
Differential test: the CLEAN version of the commit against the unmodified library.

Run as:  PYTHONPATH=<tree>/src /venv/bin/python equiv.py     (with the CLEAN version applied)

The pristine implementations are loaded from the copies saved next to this script:
    orig_functions_fdd.py    <- src/pyoma2/functions/fdd.py   at HEAD
    orig_algorithms_fdd.py   <- src/pyoma2/algorithms/fdd.py  at HEAD
Compared: fdd.SD_est, fdd.SD_PreGER, FDD_MS.run, EFDD_MS.run (results and raised exceptions).
"""

import importlib.util
import logging
import os
import sys
import warnings
from functools import partial

import numpy as np

warnings.filterwarnings("ignore")
logging.disable(logging.CRITICAL)

HERE = os.path.dirname(os.path.abspath(__file__))


def _load(name, fname, package):
    spec = importlib.util.spec_from_file_location(name, os.path.join(HERE, fname))
    mod = importlib.util.module_from_spec(spec)
    mod.__package__ = package  # so that relative imports (".gen") resolve
    sys.modules[name] = mod
    spec.loader.exec_module(mod)
    return mod


import tqdm as _tqdm  # noqa: E402
from pyoma2.algorithms import fdd as new_alg  # noqa: E402
from pyoma2.functions import fdd as new_fn  # noqa: E402

orig_fn = _load("pyoma2.functions._orig_fdd", "orig_functions_fdd.py", "pyoma2.functions")
orig_alg = _load(
    "pyoma2.algorithms._orig_fdd", "orig_algorithms_fdd.py", "pyoma2.algorithms"
)
orig_alg.fdd = orig_fn  # the pristine classes must call the pristine functions
for m in (new_fn, orig_fn):
    m.trange = partial(_tqdm.trange, disable=True)

RTOL = 1e-12
problems = []
n_checks = 0


def same(a, b):
    """allclose(rtol=1e-12, equal_nan) with an absolute floor at rounding level of the
    largest entry (inv-then-multiply and solve round differently on near-zero entries)."""
    a, b = np.asarray(a), np.asarray(b)
    if a.shape != b.shape or a.dtype != b.dtype:
        return False
    if np.array_equal(a, b, equal_nan=True):
        return True
    scale = np.nanmax(np.abs(b)) if b.size else 0.0
    return bool(np.allclose(a, b, rtol=RTOL, atol=RTOL * scale, equal_nan=True))


def call(f, *a, **k):
    try:
        return ("ok", f(*a, **k))
    except Exception as exc:  # noqa: BLE001
        return ("exc", type(exc))


def compare(label, r_new, r_old, exact=False, any_exc=False):
    global n_checks
    n_checks += 1
    if r_new[0] != r_old[0]:
        problems.append("%s: %s vs %s" % (label, r_new, r_old))
        return
    if r_new[0] == "exc":
        if r_new[1] is not r_old[1] and not any_exc:
            problems.append("%s: raised %s, pristine raised %s" % (label, r_new[1], r_old[1]))
        return
    for i, (x, y) in enumerate(zip(r_new[1], r_old[1])):
        ok = np.array_equal(x, y, equal_nan=True) if exact else same(x, y)
        if not ok:
            x, y = np.asarray(x), np.asarray(y)
            dev = (
                float(np.max(np.abs(x - y)) / np.max(np.abs(y)))
                if x.shape == y.shape
                else "shape %s vs %s" % (x.shape, y.shape)
            )
            problems.append("%s: output %d differs (%s)" % (label, i, dev))


def coloured(rng, n_ch, n_dat):
    """Correlated coloured noise, [n_ch x n_dat]."""
    w = rng.standard_normal((n_ch + 2, n_dat + 8))
    k = rng.standard_normal(9)
    src = np.array([np.convolve(r, k, mode="valid") for r in w])
    return rng.standard_normal((n_ch, n_ch + 2)) @ src + 0.2 * rng.standard_normal(
        (n_ch, n_dat)
    )


def random_setups(rng, n_dat=None):
    n_ref = int(rng.integers(1, 4))
    n_setup = int(rng.integers(1, 5))
    n_dat = n_dat or int(rng.integers(1500, 6000))
    shared = rng.random() < 0.4  # identical reference records in every setup
    ref0 = coloured(rng, n_ref, n_dat)
    Y = []
    for _ in range(n_setup):
        n_mov = int(rng.integers(1, 5))
        blk = coloured(rng, n_ref + n_mov, n_dat)
        g = rng.uniform(0.2, 5.0)
        if shared:
            mix = rng.standard_normal((n_mov, n_ref))
            Y.append({"ref": g * ref0, "mov": g * (mix @ ref0 + blk[n_ref:])})
        else:
            Y.append({"ref": g * blk[:n_ref], "mov": g * blk[n_ref:]})
    return Y


def main():
    rng = np.random.default_rng(404)

    # ---- SD_est -------------------------------------------------------------------
    for k in range(24):
        n_all = int(rng.integers(1, 8))
        n_ref = int(rng.integers(1, 4))
        n_dat = int(rng.integers(600, 5000))
        Yall = coloured(rng, n_all, n_dat)
        Yref = Yall[:n_ref] if (rng.random() < 0.5 and n_ref <= n_all) else coloured(
            rng, n_ref, n_dat
        )
        method = ["per", "cor"][k % 2]
        nxseg = int(rng.choice([64, 100, 127, 256, 500, 1024, 2048]))
        pov = float(rng.choice([0.0, 0.25, 0.5, 0.66, 0.75]))
        dt = 1 / float(rng.choice([50.0, 100.0, 1000.0]))
        a0, r0 = Yall.copy(), Yref.copy()
        compare(
            "SD_est #%d (%s, nxseg=%d, pov=%g)" % (k, method, nxseg, pov),
            call(new_fn.SD_est, Yall, Yref, dt, nxseg, method, pov),
            call(orig_fn.SD_est, Yall, Yref, dt, nxseg, method, pov),
            exact=True,
        )
        if not (np.array_equal(a0, Yall) and np.array_equal(r0, Yref)):
            problems.append("SD_est #%d modified its inputs" % k)
        if Yall.shape != a0.shape or Yref.shape != r0.shape:
            problems.append("SD_est #%d reshaped its inputs" % k)
    # defaults and an unknown method
    Yall = coloured(rng, 3, 4000)
    compare(
        "SD_est defaults",
        call(new_fn.SD_est, Yall, Yall[:2], 0.01),
        call(orig_fn.SD_est, Yall, Yall[:2], 0.01),
        exact=True,
    )
    compare(
        "SD_est unknown method",
        call(new_fn.SD_est, Yall, Yall[:2], 0.01, 256, "welch"),
        call(orig_fn.SD_est, Yall, Yall[:2], 0.01, 256, "welch"),
    )

    # ---- SD_PreGER ----------------------------------------------------------------
    for k in range(30):
        Y = random_setups(rng)
        method = ["per", "cor"][k % 2]
        nxseg = int(rng.choice([64, 100, 127, 256, 500, 1024]))
        pov = float(rng.choice([0.0, 0.25, 0.5, 0.66, 0.75]))
        fs = float(rng.choice([50.0, 100.0, 1000.0]))
        keep = [{kk: v.copy() for kk, v in d.items()} for d in Y]
        compare(
            "SD_PreGER #%d (%d setups, n_ref=%d, %s, nxseg=%d, pov=%g)"
            % (k, len(Y), Y[0]["ref"].shape[0], method, nxseg, pov),
            call(new_fn.SD_PreGER, Y, fs, nxseg=nxseg, pov=pov, method=method),
            call(orig_fn.SD_PreGER, Y, fs, nxseg=nxseg, pov=pov, method=method),
        )
        for d0, d1 in zip(keep, Y):
            if not all(np.array_equal(d0[kk], d1[kk]) for kk in d0):
                problems.append("SD_PreGER #%d modified its inputs" % k)
    Y = random_setups(rng, n_dat=5000)
    compare(
        "SD_PreGER defaults",
        call(new_fn.SD_PreGER, Y, 100.0),
        call(orig_fn.SD_PreGER, Y, 100.0),
    )
    compare(
        "SD_PreGER positional",
        call(new_fn.SD_PreGER, Y, 100.0, 256, 0.25, "per"),
        call(orig_fn.SD_PreGER, Y, 100.0, 256, 0.25, "per"),
    )
    # not a legal value: both versions fail, the pristine one with an IndexError on its
    # empty list of spectra, the new one with SD_est's UnboundLocalError
    compare(
        "SD_PreGER unknown method",
        call(new_fn.SD_PreGER, Y, 100.0, 256, 0.5, "welch"),
        call(orig_fn.SD_PreGER, Y, 100.0, 256, 0.5, "welch"),
        any_exc=True,
    )
    compare(
        "SD_PreGER no setup",
        call(new_fn.SD_PreGER, [], 100.0),
        call(orig_fn.SD_PreGER, [], 100.0),
    )

    # ---- FDD_MS.run / EFDD_MS.run ---------------------------------------------------
    def run_alg(mod, cls_name, Y, fs, **params):
        alg = getattr(mod, cls_name)(name="a", **params)
        alg._set_data(data=Y, fs=fs)
        res = alg.run()
        if type(res).__name__ != getattr(mod, cls_name).ResultCls.__name__:
            raise TypeError("unexpected result class %s" % type(res).__name__)
        extra = [res.Fn, res.Phi]
        if any(e is not None for e in extra):
            raise ValueError("run() filled in modal results")
        return res.freq, res.Sy, res.S_val, res.S_vec

    for k in range(12):
        Y = random_setups(rng, n_dat=int(rng.integers(1500, 4000)))
        cls_name = ["FDD_MS", "EFDD_MS"][k % 2]
        params = {
            "nxseg": int(rng.choice([64, 128, 200, 512])),
            "method_SD": ["per", "cor"][(k // 2) % 2],
            "pov": float(rng.choice([0.0, 0.3, 0.5, 0.75])),
        }
        if k >= 10:
            params = {}  # class defaults
        compare(
            "%s.run #%d %s" % (cls_name, k, params),
            call(run_alg, new_alg, cls_name, Y, 100.0, **params),
            call(run_alg, orig_alg, cls_name, Y, 100.0, **params),
        )

    if problems:
        print("FAIL: %d difference(s) in %d comparisons" % (len(problems), n_checks))
        for p in problems:
            print("  -", p)
        return 1
    print("PASS (%d comparisons)" % n_checks)
    return 0


if __name__ == "__main__":
    sys.exit(main())
