"""
Differential test: MultiSetup_PoSER of the tree on PYTHONPATH against the pristine
implementation (orig_multi.py, a verbatim copy of src/pyoma2/setup/multi.py at HEAD).

Run as:  PYTHONPATH=<tree>/src /venv/bin/python equiv.py
Prints PASS and exits 0 when constructor outcome (accepted setups or exception type and
message), the lazily evaluated _init_setups generator and merge_results (values or
exception) agree on every randomly generated configuration.
"""

from __future__ import annotations

import importlib.util
import logging
import os
import sys
import typing
import warnings

os.environ.setdefault("TQDM_DISABLE", "1")
warnings.filterwarnings("ignore")
logging.disable(logging.CRITICAL)

import numpy as np  # noqa: E402

from pyoma2.algorithms import BaseAlgorithm  # noqa: E402
from pyoma2.algorithms.data.result import BaseResult  # noqa: E402
from pyoma2.algorithms.data.run_params import BaseRunParams  # noqa: E402
from pyoma2.setup import SingleSetup  # noqa: E402
from pyoma2.setup import multi as new_multi  # noqa: E402

HERE = os.path.dirname(os.path.abspath(__file__))
spec = importlib.util.spec_from_file_location("orig_multi", os.path.join(HERE, "orig_multi.py"))
orig_multi = importlib.util.module_from_spec(spec)
sys.modules["orig_multi"] = orig_multi
spec.loader.exec_module(orig_multi)

NewPoSER = new_multi.MultiSetup_PoSER
OldPoSER = orig_multi.MultiSetup_PoSER

N_CONFIGS = 600
RTOL = 1e-12


# ----------------------------------------------------------------------------
# stub algorithms with data-dependent, parameter-dependent results
# ----------------------------------------------------------------------------
class StubParams(BaseRunParams):
    seed: int = 0
    nmodes: int = 2
    cplx: bool = False


class StubResult(BaseResult):
    Xi: typing.Optional[typing.Any] = None
    payload: typing.Optional[typing.Any] = None


class NoXiResult(BaseResult):
    payload: typing.Optional[typing.Any] = None


class AlgA(BaseAlgorithm[StubParams, StubResult, typing.Iterable[float]]):
    RunParamCls = StubParams
    ResultCls = StubResult

    def run(self) -> BaseResult:
        return self.ResultCls(payload=float(np.sum(self.data)))

    def mpe(self, *args, **kwargs) -> None:
        if not self.result:
            raise ValueError("Run algorithm first")
        rng = np.random.default_rng(self.run_params.seed)
        nm = self.run_params.nmodes
        nch = self.data.shape[1]
        self.result.Fn = np.sort(rng.uniform(1, 20, nm))
        if "Xi" in self.result.model_fields:
            self.result.Xi = rng.uniform(0.005, 0.05, nm)
        phi = rng.standard_normal((nch, nm))
        if self.run_params.cplx:
            phi = phi + 1j * rng.standard_normal((nch, nm))
        self.result.Phi = phi

    def mpe_from_plot(self, *args, **kwargs) -> None:
        if not self.result:
            raise ValueError("Run algorithm first")


class AlgB(AlgA):
    """Subclass of AlgA: a different type as far as PoSER is concerned."""


class AlgC(BaseAlgorithm[StubParams, NoXiResult, typing.Iterable[float]]):
    """Result without damping (like FDD): merge_results fails on it in both versions."""

    RunParamCls = StubParams
    ResultCls = NoXiResult
    run = AlgA.run
    mpe = AlgA.mpe
    mpe_from_plot = AlgA.mpe_from_plot


CLASSES = [AlgA, AlgB, AlgC]
NOT_RUN, RUN, MPE = 0, 1, 2


def random_config(rng: np.random.Generator, k: int) -> dict:
    nset = int(rng.choice([0, 1, 2, 2, 3, 3, 4]))
    nch = int(rng.integers(3, 6))
    nref = int(rng.integers(1, 3))
    base_len = int(rng.choice([0, 1, 1, 2, 2, 3]))
    base = [CLASSES[i] for i in rng.choice([0, 0, 0, 1, 1, 2], size=base_len)]
    mode = rng.choice(["same", "same", "same", "mutate", "random"])
    nmodes_common = int(rng.integers(1, 4))
    layouts, states, seeds, nmodes = [], [], [], []
    for _ in range(nset):
        if mode == "same":
            lay = list(base)
        elif mode == "mutate":
            lay = list(base)
            op = rng.choice(["drop", "append", "swap", "replace", "keep"])
            if op == "drop" and lay:
                lay.pop(int(rng.integers(len(lay))))
            elif op == "append":
                lay.append(CLASSES[int(rng.integers(3))])
            elif op == "swap" and len(lay) > 1:
                lay[0], lay[-1] = lay[-1], lay[0]
            elif op == "replace" and lay:
                lay[int(rng.integers(len(lay)))] = CLASSES[int(rng.integers(3))]
        else:
            lay = [CLASSES[int(rng.integers(3))] for _ in range(int(rng.integers(0, 4)))]
        layouts.append(lay)
        ready = rng.random() < 0.8
        states.append([MPE if ready or rng.random() < 0.6 else int(rng.integers(0, 2)) for _ in lay])
        seeds.append([int(rng.integers(1_000_000)) for _ in lay])
        nmodes.append([nmodes_common if rng.random() < 0.95 else nmodes_common + 1 for _ in lay])
    # names: mostly the right count, sometimes short / long / repeated / a tuple
    target = len(layouts[0]) if layouts else 0
    r = rng.random()
    if r < 0.7:
        nn = target
    else:
        nn = max(0, target + int(rng.choice([-2, -1, 1, 2])))
    names: typing.Any = [f"name{i}" for i in range(nn)]
    if nn > 1 and rng.random() < 0.1:
        names[-1] = names[0]
    if rng.random() < 0.1:
        names = tuple(names)
    container = rng.choice(["list", "list", "list", "tuple", "none_if_empty"])
    return dict(
        k=k, nch=nch, nref=nref, layouts=layouts, states=states, seeds=seeds, nmodes=nmodes,
        names=names, container=container, cplx=bool(rng.random() < 0.3),
    )


def build(cfg: dict) -> typing.Tuple[typing.Any, typing.List[typing.List[int]]]:
    rng = np.random.default_rng(cfg["k"])
    setups = []
    for lay, sts, sds, nms in zip(cfg["layouts"], cfg["states"], cfg["seeds"], cfg["nmodes"]):
        ss = SingleSetup(rng.standard_normal((20, cfg["nch"])), fs=10.0)
        algs = [
            cls(name=f"{cls.__name__}_{i}", seed=sd, nmodes=nm, cplx=cfg["cplx"])
            for i, (cls, sd, nm) in enumerate(zip(lay, sds, nms))
        ]
        if algs:
            ss.add_algorithms(*algs)
        for alg, st in zip(algs, sts):
            if st >= RUN:
                ss.run_by_name(alg.name)
            if st >= MPE:
                ss.mpe(alg.name)
        setups.append(ss)
    ref_ind = [list(range(cfg["nref"])) for _ in setups]
    single_setups: typing.Any = setups
    if cfg["container"] == "tuple":
        single_setups = tuple(setups)
    elif cfg["container"] == "none_if_empty" and not setups:
        single_setups = None
    return single_setups, ref_ind


def outcome(fn: typing.Callable[[], typing.Any]) -> typing.Tuple[str, typing.Any]:
    try:
        return "ok", fn()
    except Exception as exc:  # noqa: BLE001 - exceptions are part of the behaviour compared
        return "exc", (type(exc).__name__, str(exc))


def same_value(a: typing.Any, b: typing.Any) -> bool:
    if a is None or b is None:
        return a is None and b is None
    a, b = np.asarray(a), np.asarray(b)
    if a.shape != b.shape or a.dtype != b.dtype:
        return False
    return bool(np.array_equal(a, b, equal_nan=True) or np.allclose(a, b, rtol=RTOL, atol=0, equal_nan=True))


def same_results(ra: dict, rb: dict) -> typing.Optional[str]:
    if list(ra) != list(rb):
        return f"keys {list(ra)} vs {list(rb)}"
    for key in ra:
        if type(ra[key]).__name__ != type(rb[key]).__name__:
            return f"{key}: result class differs"
        for field in ("Phi", "Fn", "Fn_cov", "Xi", "Xi_cov"):
            if not same_value(getattr(ra[key], field), getattr(rb[key], field)):
                return f"{key}.{field} differs"
    return None


def main() -> int:
    rng = np.random.default_rng(20240615)
    failures: typing.List[str] = []
    stats = {"accepted": 0, "refused": 0, "merged": 0, "merge_exc": 0}
    messages = set()

    for k in range(N_CONFIGS):
        cfg = random_config(rng, k)
        single_setups, ref_ind = build(cfg)
        tag = (
            f"#{k} types={[[c.__name__ for c in lay] for lay in cfg['layouts']]} "
            f"states={cfg['states']} names={cfg['names']}"
        )

        # 1. constructor
        kind_n, val_n = outcome(lambda: NewPoSER(ref_ind=ref_ind, single_setups=single_setups, names=cfg["names"]))
        kind_o, val_o = outcome(lambda: OldPoSER(ref_ind=ref_ind, single_setups=single_setups, names=cfg["names"]))
        if kind_n != kind_o or (kind_n == "exc" and val_n != val_o):
            failures.append(f"{tag}: constructor new={kind_n, val_n if kind_n == 'exc' else ''} old={kind_o, val_o if kind_o == 'exc' else ''}")
            continue

        # 2. the validation generator on its own (it is lazy in both versions): items yielded before raising
        def drain(cls: type) -> typing.Tuple[typing.List[int], typing.Any]:
            obj = cls.__new__(cls)
            obj.names = cfg["names"]
            seen: typing.List[int] = []
            try:
                for s in obj._init_setups(setups=single_setups if single_setups else []):
                    seen.append(id(s))
            except Exception as exc:  # noqa: BLE001
                return seen, (type(exc).__name__, str(exc))
            return seen, None

        if drain(NewPoSER) != drain(OldPoSER):
            failures.append(f"{tag}: _init_setups yields / raises differently")
            continue

        if kind_n == "exc":
            stats["refused"] += 1
            messages.add(val_n)
            continue
        stats["accepted"] += 1
        new, old = val_n, val_o
        if [id(s) for s in new.setups] != [id(s) for s in old.setups] or new.names != old.names or new.ref_ind != old.ref_ind:
            failures.append(f"{tag}: stored setups / names / ref_ind differ")
            continue
        if outcome(lambda: new.result) != outcome(lambda: old.result):
            failures.append(f"{tag}: .result before merge differs")
            continue

        # 3. merge_results (twice: the second call overwrites the first)
        for rep in range(2):
            kn, vn = outcome(new.merge_results)
            ko, vo = outcome(old.merge_results)
            if kn != ko or (kn == "exc" and vn != vo):
                failures.append(f"{tag}: merge_results new={kn, vn if kn == 'exc' else ''} old={ko, vo if ko == 'exc' else ''}")
                break
            if kn == "exc":
                stats["merge_exc"] += 1 if rep == 0 else 0
                # partially filled result dictionaries must agree as well
                pn, po = outcome(lambda: new.result), outcome(lambda: old.result)
                if pn[0] != po[0] or (pn[0] == "ok" and same_results(pn[1], po[1])) or (pn[0] == "exc" and pn != po):
                    failures.append(f"{tag}: state after failed merge differs")
                break
            diff = same_results(vn, vo) or same_results(new.result, old.result)
            if diff:
                failures.append(f"{tag}: merge_results {diff}")
                break
            stats["merged"] += 1 if rep == 0 else 0

    print(
        f"{N_CONFIGS} configurations: {stats['accepted']} accepted, {stats['refused']} refused "
        f"({len(messages)} distinct errors), {stats['merged']} merged, {stats['merge_exc']} merge errors"
    )
    if failures:
        print(f"FAIL ({len(failures)} differences)")
        for f in failures[:10]:
            print("  -", f)
        return 1
    print("PASS")
    return 0


if __name__ == "__main__":
    sys.exit(main())
