"""
Differential test: SSI_mpe of the library on PYTHONPATH versus the pristine copy saved
next to this script (orig_ssi.py), on randomly generated pole tables / configurations,
directly and through the mpe method of the SSI algorithm classes.

Run as:  PYTHONPATH=<tree>/src /venv/bin/python equiv.py
"""

import importlib.util
import logging
import os
import sys

import numpy as np

logging.disable(logging.CRITICAL)

HERE = os.path.dirname(os.path.abspath(__file__))
spec = importlib.util.spec_from_file_location("orig_ssi", os.path.join(HERE, "orig_ssi.py"))
orig_ssi = importlib.util.module_from_spec(spec)
spec.loader.exec_module(orig_ssi)
# the pristine routine shows progress bars, silence them
orig_ssi.tqdm = lambda x, *a, **k: x

from pyoma2.algorithms.data.result import SSIResult  # noqa: E402
from pyoma2.algorithms.ssi import SSIcov, SSIcov_MS, SSIdat  # noqa: E402
from pyoma2.functions import ssi as new_ssi  # noqa: E402


def make_table(rng, structured=True):
    """Random pole tables (Fn, Xi, Phi, Lab, covariances) and the underlying modes."""
    n_ord = int(rng.integers(8, 30))
    n_pol = int(rng.integers(6, 24))
    n_ch = int(rng.integers(1, 7))
    n_modes = int(rng.integers(1, 6))
    if rng.random() < 0.5:
        modes = np.sort(rng.uniform(0.2, 3.0, n_modes))
    else:
        modes = np.cumsum(rng.uniform(0.8, 6.0, n_modes))
    Fn = np.full((n_pol, n_ord), np.nan)
    Lab = np.zeros((n_pol, n_ord), dtype=int)
    if structured:
        for o in range(1, n_ord):
            vals, labs = [], []
            for f in modes:
                if rng.random() < 0.75:
                    vals.append(f * (1 + rng.choice([1e-4, 5e-3, 0.03, 0.08]) * rng.normal()))
                    labs.append(int(rng.random() < 0.8))
                if rng.random() < 0.25:  # spurious companion
                    vals.append(f * (1 + 0.04 * rng.normal()))
                    labs.append(int(rng.random() < 0.3))
            for _ in range(int(rng.integers(0, 4))):
                vals.append(rng.uniform(0.1, modes[-1] * 1.3))
                labs.append(int(rng.random() < 0.2))
            if rng.random() < 0.1 and vals:  # exact duplicate
                vals.append(vals[0])
                labs.append(labs[0])
            vals, labs = np.array(vals[:n_pol]), np.array(labs[:n_pol], dtype=int)
            pos = rng.permutation(n_pol)[: len(vals)]
            Fn[pos, o] = vals
            Lab[pos, o] = labs
    else:
        Fn = rng.uniform(0, modes[-1] * 1.2, (n_pol, n_ord))
        Fn[rng.random((n_pol, n_ord)) < 0.3] = np.nan
        Lab = rng.integers(0, 3, (n_pol, n_ord))
    nan = np.isnan(Fn)
    Xi = np.where(nan, np.nan, rng.uniform(0.001, 0.1, Fn.shape))
    Phi = rng.normal(size=(n_pol, n_ord, n_ch)) + 1j * rng.normal(size=(n_pol, n_ord, n_ch))
    Phi[nan] = np.nan
    Fn_cov = np.where(nan, np.nan, rng.uniform(0, 1e-3, Fn.shape))
    Xi_cov = np.where(nan, np.nan, rng.uniform(0, 1e-3, Fn.shape))
    Phi_cov = np.where(nan[..., None], np.nan, rng.uniform(0, 1e-3, Phi.shape))
    return modes, Fn, Xi, Phi, Lab, Fn_cov, Xi_cov, Phi_cov


def call(func, *args, **kwargs):
    try:
        return ("ok", func(*args, **kwargs))
    except Exception as e:  # noqa: BLE001
        return ("exc", type(e))


def same_value(a, b):
    if a is None or b is None:
        return a is None and b is None
    if isinstance(a, np.ndarray) or isinstance(b, np.ndarray):
        if not (isinstance(a, np.ndarray) and isinstance(b, np.ndarray)):
            return False
        if a.shape != b.shape or a.dtype != b.dtype:
            return False
        return bool(
            np.array_equal(a, b, equal_nan=True)
            or np.allclose(a, b, rtol=1e-12, atol=0, equal_nan=True)
        )
    return type(a) is type(b) and a == b


def same(r1, r2):
    if r1[0] != r2[0]:
        return False
    if r1[0] == "exc":
        return r1[1] is r2[1]
    return len(r1[1]) == len(r2[1]) and all(same_value(a, b) for a, b in zip(r1[1], r2[1]))


def random_config(rng, modes, n_ord):
    """Requested frequencies, order and tolerance."""
    k = int(rng.integers(1, len(modes) + 1))
    pick = np.sort(rng.choice(len(modes), k, replace=False))
    freq = [float(modes[i] * (1 + rng.choice([0, 1e-3, 0.02]) * rng.normal())) for i in pick]
    if rng.random() < 0.15:
        freq = [int(round(f)) if round(f) > 0 else f for f in freq]  # plain ints
        freq = sorted(set(freq))
    kind = rng.choice(["int", "list", "find_min", "bad"], p=[0.3, 0.3, 0.35, 0.05])
    if kind == "int":
        order = int(rng.integers(-2, n_ord))  # may hit the empty order 0
    elif kind == "list":
        order = [int(o) for o in rng.integers(1, n_ord, len(freq))]
        if rng.random() < 0.1:
            order = order + [1]  # longer than needed
        elif rng.random() < 0.05:
            order = order[:-1]  # too short
    elif kind == "find_min":
        order = "find_min"
    else:
        order = rng.choice([None, 2.0, "min"])
        order = None if order is None else order
    rtol = float(rng.choice([5e-2, 1e-2, 1e-3, 0.1, 0.3, 0.0]))
    return freq, order, rtol


def main():
    rng = np.random.default_rng(20240611)
    n_cases = 0
    n_found = 0
    stats = {}
    bad = []
    for it in range(400):
        modes, Fn, Xi, Phi, Lab, Fn_cov, Xi_cov, Phi_cov = make_table(
            rng, structured=rng.random() < 0.8
        )
        for _ in range(4):
            freq, order, rtol = random_config(rng, modes, Fn.shape[1])
            with_cov = rng.random() < 0.5
            lab = None if rng.random() < 0.05 else Lab
            kw = dict(Lab=lab, rtol=rtol)
            if with_cov:
                kw.update(Fn_cov=Fn_cov, Xi_cov=Xi_cov, Phi_cov=Phi_cov)
            if rng.random() < 0.3:
                kw.pop("rtol")  # default tolerance
            copies = [a.copy() for a in (Fn, Xi, Phi, Lab, Fn_cov, Xi_cov, Phi_cov)]
            r_old = call(orig_ssi.SSI_mpe, list(freq), Fn, Xi, Phi, order, **kw)
            r_new = call(new_ssi.SSI_mpe, list(freq), Fn, Xi, Phi, order, **kw)
            n_cases += 1
            if r_new[0] == "ok" and r_new[1][0].size:
                n_found += 1
            kind = order if isinstance(order, str) else type(order).__name__
            outcome = r_old[1].__name__ if r_old[0] == "exc" else (
                "modes" if r_old[1][0].size else "empty"
            )
            stats[(str(kind), outcome)] = stats.get((str(kind), outcome), 0) + 1
            if not same(r_old, r_new):
                bad.append(("function", it, freq, order, rtol, with_cov, r_old, r_new))
            # the inputs must be left untouched
            for a, b in zip(copies, (Fn, Xi, Phi, Lab, Fn_cov, Xi_cov, Phi_cov)):
                if not np.array_equal(a, b, equal_nan=True):
                    bad.append(("inputs modified", it, freq, order, rtol))

        # through the algorithm classes
        for cls in (SSIdat, SSIcov, SSIcov_MS):
            freq, order, rtol = random_config(rng, modes, Fn.shape[1])
            if not (isinstance(order, (int, list)) or order == "find_min"):
                order = "find_min"
            with_cov = rng.random() < 0.5
            alg = cls(name="alg", br=4, ordmax=Fn.shape[1] - 1)
            alg.result = SSIResult(
                Fn_poles=Fn,
                Xi_poles=Xi,
                Phi_poles=Phi,
                Lab=Lab,
                Fn_poles_cov=Fn_cov if with_cov else None,
                Xi_poles_cov=Xi_cov if with_cov else None,
                Phi_poles_cov=Phi_cov if with_cov else None,
            )
            use_default = rng.random() < 0.3
            kw = {} if use_default else {"rtol": rtol}

            def through_class(alg=alg, freq=freq, order=order, kw=kw):
                alg.mpe(sel_freq=list(freq), order=order, **kw)
                r = alg.result
                return (r.Fn, r.Xi, r.Phi, r.order_out, r.Fn_cov, r.Xi_cov, r.Phi_cov)

            r_new = call(through_class)
            kw_old = dict(Lab=Lab, rtol=5e-2 if use_default else rtol)
            if with_cov:
                kw_old.update(Fn_cov=Fn_cov, Xi_cov=Xi_cov, Phi_cov=Phi_cov)
            r_old = call(orig_ssi.SSI_mpe, list(freq), Fn, Xi, Phi, order, **kw_old)
            n_cases += 1
            if not same(r_old, r_new):
                bad.append(("class " + cls.__name__, it, freq, order, rtol, r_old, r_new))

    print(f"{n_cases} cases compared, {n_found} direct calls with at least one extracted mode")
    for key in sorted(stats):
        print(f"   order={key[0]:9s} pristine outcome={key[1]:15s} {stats[key]}")
    if bad:
        print(f"FAIL: {len(bad)} differences, first ones:")
        for b in bad[:3]:
            print("  ", b)
        sys.exit(1)
    print("PASS")


if __name__ == "__main__":
    main()
