"""Differential test: working tree (CLEAN version) against the pristine sources.

Run as:  PYTHONPATH=<tree>/src /venv/bin/python equiv.py
The pristine implementations are loaded from orig_gen.py / orig_multi.py (copies of
src/pyoma2/functions/gen.py and src/pyoma2/setup/multi.py at HEAD) next to this file;
the pristine MultiSetup_PreGER is wired to the pristine pre_multisetup.
"""
import os

os.environ.setdefault("TQDM_DISABLE", "1")

import copy  # noqa: E402
import importlib.util  # noqa: E402
import logging  # noqa: E402
import pathlib  # noqa: E402
import sys  # noqa: E402
import warnings  # noqa: E402

import numpy as np  # noqa: E402

warnings.filterwarnings("ignore")
logging.disable(logging.CRITICAL)

from pyoma2.algorithms import SSIcov_MS, SSIdat_MS  # noqa: E402
from pyoma2.functions import gen as new_gen  # noqa: E402
from pyoma2.setup import multi as new_multi  # noqa: E402

HERE = pathlib.Path(__file__).resolve().parent


def load(name, fname):
    spec = importlib.util.spec_from_file_location(name, HERE / fname)
    mod = importlib.util.module_from_spec(spec)
    sys.modules[name] = mod
    spec.loader.exec_module(mod)
    return mod


orig_gen = load("orig_gen", "orig_gen.py")
orig_multi = load("orig_multi", "orig_multi.py")
orig_multi.pre_multisetup = orig_gen.pre_multisetup  # pristine class -> pristine split

problems = []
n_checks = 0


def same(a, b, rtol=1e-12):
    """Structural comparison of results (arrays, lists, dicts, scalars, None)."""
    if isinstance(a, dict) or isinstance(b, dict):
        return (
            isinstance(a, dict)
            and isinstance(b, dict)
            and list(a.keys()) == list(b.keys())
            and all(same(a[k], b[k], rtol) for k in a)
        )
    if isinstance(a, (list, tuple)) or isinstance(b, (list, tuple)):
        return (
            isinstance(a, (list, tuple))
            and isinstance(b, (list, tuple))
            and len(a) == len(b)
            and all(same(x, y, rtol) for x, y in zip(a, b))
        )
    if a is None or b is None:
        return a is None and b is None
    a = np.asarray(a)
    b = np.asarray(b)
    if a.shape != b.shape or a.dtype != b.dtype:
        return False
    if a.dtype.kind in "fc":
        return np.array_equal(a, b, equal_nan=True) or np.allclose(
            a, b, rtol=rtol, atol=0.0, equal_nan=True
        )
    return np.array_equal(a, b)


def call(f, *args, **kwargs):
    try:
        return ("ok", f(*args, **kwargs))
    except Exception as e:  # noqa: BLE001
        return ("exc", type(e))


def compare(tag, r_new, r_old):
    global n_checks
    n_checks += 1
    if r_new[0] != r_old[0]:
        problems.append(f"{tag}: new -> {r_new[0]} {r_new[1]!r:.80}, old -> {r_old[0]} {r_old[1]!r:.80}")
    elif r_new[0] == "exc":
        if r_new[1] is not r_old[1]:
            problems.append(f"{tag}: exception {r_new[1].__name__} vs {r_old[1].__name__}")
    elif not same(r_new[1], r_old[1]):
        problems.append(f"{tag}: results differ")


# ----------------------------------------------------------------------------- inputs
def random_layout(rng, n_setup=None, as_type="list"):
    n_setup = n_setup or int(rng.integers(2, 5))
    n_ref = int(rng.integers(1, 4))
    datasets, ref_ind = [], []
    for _ in range(n_setup):
        n_mov = int(rng.integers(1, 5))
        n_ch = n_ref + n_mov
        n_dat = int(rng.integers(40, 90))
        datasets.append(rng.standard_normal((n_dat, n_ch)))
        refs = [int(c) for c in rng.permutation(n_ch)[:n_ref]]
        if as_type == "tuple":
            refs = tuple(refs)
        elif as_type == "array":
            refs = np.array(refs)
        ref_ind.append(refs)
    return datasets, ref_ind


def free_decay_case(rng):
    """Small noise-free multi-setup record (same construction as in demo.py)."""
    m = int(rng.integers(1, 4))
    n_setup = int(rng.integers(2, 4))
    n_ref = int(rng.integers(1, 4))
    n_mov = [int(v) for v in rng.integers(1, 4, n_setup)]
    fs, n_dat = 50.0, 300
    fn = np.linspace(1.5, 8.5, m) + rng.uniform(-0.3, 0.3, m)
    xi = rng.uniform(0.005, 0.03, m)
    n_dof = n_ref + sum(n_mov)
    phi = rng.uniform(0.3, 1.0, (n_dof, m)) * rng.choice([-1.0, 1.0], (n_dof, m))
    wn = 2 * np.pi * fn
    lam = np.exp((-xi * wn + 1j * wn * np.sqrt(1 - xi**2)) / fs)
    k = np.arange(n_dat)
    datasets, ref_ind = [], []
    first = n_ref
    for s in range(n_setup):
        rows = list(range(n_ref)) + list(range(first, first + n_mov[s]))
        first += n_mov[s]
        amp = 10.0 ** rng.uniform(-2, 2) * np.exp(1j * rng.uniform(0, 2 * np.pi, m))
        y = np.real(phi[rows] @ (amp[:, None] * lam[:, None] ** k[None, :]))
        n_ch = len(rows)
        perm = rng.permutation(n_ch)  # channel c of the record holds row perm[c]
        data = y[perm].T
        pos = [int(np.where(perm == j)[0][0]) for j in range(n_ref)]
        datasets.append(data)
        ref_ind.append(pos)
    return fs, m, fn, datasets, ref_ind


STATE = ("fs", "dt", "Nsetup", "ref_ind", "datasets", "data", "Nchs", "Ndats", "Ts")


def state(ms):
    return {k: getattr(ms, k) for k in STATE}


def main():
    rng = np.random.default_rng(2024)

    # 1. pre_multisetup on valid layouts: lists / tuples / arrays of indices, several dtypes
    for i in range(40):
        kind = ("list", "tuple", "array")[i % 3]
        datasets, ref_ind = random_layout(rng, as_type=kind)
        if i % 5 == 0:
            datasets = [(100 * d).astype(np.int64) for d in datasets]
        if i % 5 == 1:
            datasets = [d.astype(np.float32) for d in datasets]
        if i % 5 == 2:
            datasets = [np.asfortranarray(d) for d in datasets]
        d_before = copy.deepcopy(datasets)
        r_before = copy.deepcopy(ref_ind)
        r_new = call(new_gen.pre_multisetup, datasets, ref_ind)
        r_old = call(orig_gen.pre_multisetup, copy.deepcopy(datasets), copy.deepcopy(ref_ind))
        compare(f"pre_multisetup valid #{i}", r_new, r_old)
        if not same(datasets, d_before) or not same(ref_ind, r_before):
            problems.append(f"pre_multisetup valid #{i}: inputs modified")
        if r_new[0] == "ok":
            for blk, d in zip(r_new[1], datasets):
                for arr in blk.values():
                    if np.shares_memory(arr, d) or not arr.flags["C_CONTIGUOUS"]:
                        problems.append(f"pre_multisetup valid #{i}: output not owned/contiguous")

    # 2. pre_multisetup on rejected inputs: same exception class as before
    for i in range(24):
        datasets, ref_ind = random_layout(rng)
        n_ch = datasets[-1].shape[1]
        bad = i % 6
        if bad == 0:  # duplicated index
            ref_ind[-1] = [ref_ind[-1][0], ref_ind[-1][0]] + list(ref_ind[-1][1:])
        elif bad == 1:  # index beyond the channels
            ref_ind[-1] = list(ref_ind[-1][:-1]) + [n_ch]
        elif bad == 2:  # negative index
            ref_ind[-1] = list(ref_ind[-1][:-1]) + [-1]
        elif bad == 3:  # every channel is a reference
            ref_ind[-1] = [int(c) for c in rng.permutation(n_ch)]
        elif bad == 4:  # no reference at all
            ref_ind[-1] = []
        else:  # fewer reference lists than datasets
            ref_ind = ref_ind[:-1]
        r_new = call(new_gen.pre_multisetup, datasets, ref_ind)
        r_old = call(orig_gen.pre_multisetup, datasets, ref_ind)
        compare(f"pre_multisetup rejected #{i} (kind {bad})", r_new, r_old)

    # 3. MultiSetup_PreGER: state after construction, preprocessing steps and rollback
    for i in range(24):
        datasets, ref_ind = random_layout(rng, as_type=("list", "tuple")[i % 2])
        datasets = [np.cumsum(d, axis=0) for d in datasets]  # something to detrend/filter
        fs = float(rng.choice([20.0, 50.0, 128.0]))
        ms_new = new_multi.MultiSetup_PreGER(fs, copy.deepcopy(ref_ind), copy.deepcopy(datasets))
        ms_old = orig_multi.MultiSetup_PreGER(fs, copy.deepcopy(ref_ind), copy.deepcopy(datasets))
        compare(f"PreGER #{i} init", ("ok", state(ms_new)), ("ok", state(ms_old)))
        steps = [
            ("detrend", lambda ms: ms.detrend_data()),
            ("detrend-const", lambda ms: ms.detrend_data(type="constant")),
            ("filter", lambda ms: ms.filter_data(Wn=fs / 5, order=3, btype="lowpass")),
            ("decimate", lambda ms: ms.decimate_data(q=2)),
            ("rollback", lambda ms: ms.rollback()),
        ]
        order = rng.permutation(len(steps)).tolist() + [4] + rng.permutation(4).tolist()[:2]
        for j in order:
            name, step = steps[j]
            r_new = call(step, ms_new)
            r_old = call(step, ms_old)
            compare(f"PreGER #{i} {name} outcome", r_new, r_old)
            compare(f"PreGER #{i} state after {name}", ("ok", state(ms_new)), ("ok", state(ms_old)))
        ms_new.rollback()
        ms_old.rollback()
        compare(f"PreGER #{i} final rollback", ("ok", state(ms_new)), ("ok", state(ms_old)))
        if not same(ms_new.datasets, datasets) or not same(ms_new.ref_ind, [list(r) for r in ref_ind]):
            problems.append(f"PreGER #{i}: rollback does not restore the initial datasets/ref_ind")

    # 4. MultiSetup_PreGER rejected constructions
    for i in range(6):
        datasets, ref_ind = random_layout(rng)
        ref_ind[0] = [ref_ind[0][0]] * 2 if i % 2 else [datasets[0].shape[1]]
        r_new = call(new_multi.MultiSetup_PreGER, 10.0, ref_ind, datasets)
        r_old = call(orig_multi.MultiSetup_PreGER, 10.0, ref_ind, datasets)
        compare(f"PreGER rejected #{i}", (r_new[0], r_new[1] if r_new[0] == "exc" else None),
                (r_old[0], r_old[1] if r_old[0] == "exc" else None))

    # 5. end to end: SSIcov_MS / SSIdat_MS through both classes
    fields = ("Obs", "A", "C", "Fn_poles", "Xi_poles", "Phi_poles", "Lab", "Fn", "Xi", "Phi")
    for i in range(10):
        fs, m, fn, datasets, ref_ind = free_decay_case(rng)
        for cls in (SSIcov_MS, SSIdat_MS):
            out = []
            for mod in (new_multi, orig_multi):
                ms = mod.MultiSetup_PreGER(fs, copy.deepcopy(ref_ind), copy.deepcopy(datasets))
                if i % 2:
                    ms.detrend_data(type="constant")
                alg = cls(name="a", br=2 * m + 2, ordmax=2 * m)

                def go(ms=ms, alg=alg):
                    ms.add_algorithms(alg)
                    ms.run_all()
                    ms.mpe("a", sel_freq=[float(f) for f in fn], order=2 * m)
                    return {k: getattr(alg.result, k) for k in fields}

                out.append(call(go))
            compare(f"SSI end-to-end #{i} {cls.__name__}", out[0], out[1])

    if problems:
        for p in problems[:20]:
            print("  ", p)
        print(f"FAIL: {len(problems)} difference(s) in {n_checks} comparisons")
        sys.exit(1)
    print(f"PASS ({n_checks} comparisons)")
    sys.exit(0)


if __name__ == "__main__":
    main()
