"""Differential test: library under PYTHONPATH (CLEAN version) vs. the pristine
functions/fdd.py saved next to this file as orig_fdd.py.

Run as:  PYTHONPATH=<tree>/src /venv/bin/python equiv.py
"""
import importlib.util
import logging
import os
import sys

import numpy as np

logging.disable(logging.CRITICAL)
os.environ.setdefault("TQDM_DISABLE", "1")

import pyoma2.functions  # noqa: E402
from pyoma2.functions import fdd as new  # noqa: E402

HERE = os.path.dirname(os.path.abspath(__file__))
spec = importlib.util.spec_from_file_location(
    "pyoma2.functions.orig_fdd", os.path.join(HERE, "orig_fdd.py")
)
old = importlib.util.module_from_spec(spec)
sys.modules[spec.name] = old
spec.loader.exec_module(old)

# silence the progress bars of both modules
for m in (new, old):
    m.tqdm = lambda x, *a, **k: x
    m.trange = lambda *a, **k: range(*a)

RTOL = 1e-12
n_cases = 0
n_exc = 0
failures = []


def same(a, b, path=""):
    """structural comparison with allclose(rtol=1e-12, equal_nan=True)"""
    if isinstance(a, (list, tuple)):
        if not isinstance(b, (list, tuple)) or len(a) != len(b):
            return f"{path}: container mismatch"
        for i, (x, y) in enumerate(zip(a, b)):
            r = same(x, y, f"{path}[{i}]")
            if r:
                return r
        return None
    a = np.asarray(a)
    b = np.asarray(b)
    if a.shape != b.shape:
        return f"{path}: shape {a.shape} vs {b.shape}"
    if np.iscomplexobj(a) != np.iscomplexobj(b):
        return f"{path}: dtype {a.dtype} vs {b.dtype}"
    if np.array_equal(a, b, equal_nan=True):
        return None
    scale = np.nanmax(np.abs(b)) if b.size else 0.0
    atol = 1e-13 * scale if np.isfinite(scale) else 0.0
    if np.allclose(a, b, rtol=RTOL, atol=atol, equal_nan=True):
        return None
    return f"{path}: max abs diff {np.nanmax(np.abs(a - b)):.3e} (scale {scale:.3e})"


def call(f, *a, **k):
    try:
        with np.errstate(all="ignore"):
            return ("ok", f(*a, **k))
    except Exception as e:  # noqa: BLE001
        return ("exc", type(e).__name__)


def check(label, fname, *a, **k):
    global n_cases
    n_cases += 1
    r_new = call(getattr(new, fname), *a, **k)
    r_old = call(getattr(old, fname), *a, **k)
    if r_new[0] != r_old[0]:
        failures.append(f"{label}: new {r_new[0]}:{r_new[1] if r_new[0]=='exc' else ''} "
                        f"old {r_old[0]}:{r_old[1] if r_old[0]=='exc' else ''}")
        return
    if r_new[0] == "exc":
        global n_exc
        n_exc += 1
        if r_new[1] != r_old[1]:
            failures.append(f"{label}: exception {r_new[1]} vs {r_old[1]}")
        return
    msg = same(r_new[1], r_old[1])
    if msg:
        failures.append(f"{label}: {msg}")


def analytic(rng, fs, nxseg, fn, xi, phi, floor=1e-9, scale=1.0, real=False):
    Nf = nxseg // 2 + 1
    freq = np.arange(Nf) * fs / nxseg
    w = 2 * np.pi * freq
    wn = 2 * np.pi * fn
    H2 = 1.0 / ((wn**2 - w**2) ** 2 + (2 * xi * wn * w) ** 2)
    H2 /= H2.max()
    Sy = np.outer(phi, phi)[:, :, None] * H2[None, None, :]
    Sy = Sy + floor * np.eye(len(phi))[:, :, None]
    if not real:
        Sy = Sy.astype(complex)
    return freq, Sy * scale


def estimated(rng, fs, nxseg, Nch, N, method):
    t = np.arange(N) / fs
    Y = rng.standard_normal((Nch, N))
    for k in range(2):
        f0 = rng.uniform(0.05, 0.3) * fs
        Y += np.outer(rng.uniform(-1, 1, Nch), np.sin(2 * np.pi * f0 * t + rng.uniform(0, 6)))
    return old.SD_est(Y, Y, 1 / fs, nxseg, method=method, pov=0.5)


def main():
    rng = np.random.default_rng(20240607)

    # ---- SD_svalsvec ---------------------------------------------------
    for it in range(12):
        nr = int(rng.integers(2, 7))
        nf = int(rng.integers(5, 60))
        kind = it % 4
        if kind == 0:  # hermitian psd
            A = rng.standard_normal((nr, nr, nf)) + 1j * rng.standard_normal((nr, nr, nf))
            SD = np.einsum("ikf,jkf->ijf", A, A.conj())
        elif kind == 1:  # general complex
            SD = rng.standard_normal((nr, nr, nf)) + 1j * rng.standard_normal((nr, nr, nf))
        elif kind == 2:  # real, not symmetric (as in the unit tests)
            SD = rng.random((nr, nr, nf))
        else:  # tall / wide blocks
            nc = int(rng.integers(2, 7))
            SD = rng.standard_normal((nr, nc, nf)) + 1j * rng.standard_normal((nr, nc, nf))
        check(f"SD_svalsvec#{it}", "SD_svalsvec", SD)

    # ---- FDD_mpe -------------------------------------------------------
    for it in range(8):
        nch = int(rng.integers(2, 6))
        nf = int(rng.integers(200, 1200))
        Sval = rng.random((nch, nch, nf))
        Svec = rng.random((nch, nch, nf)) + 1j * rng.random((nch, nch, nf))
        fmax = float(rng.choice([1.0, 50.0, 500.0]))
        freq = np.linspace(0, fmax, nf)
        sel = list(rng.uniform(0.05, 0.95, int(rng.integers(1, 4))) * fmax)
        DF = float(rng.choice([0.1, 0.01 * fmax, 0.3 * fmax, 1e-9]))
        if it % 3 == 0:
            sel = tuple(sel)
        if it % 3 == 1:
            sel = np.array(sel)
        check(f"FDD_mpe#{it}", "FDD_mpe", Sval, Svec, freq, sel, DF)

    # ---- SDOF_bellandMS ------------------------------------------------
    for it in range(16):
        fs = float(rng.choice([5.0, 20.0, 100.0, 1000.0]))
        nxseg = int(rng.choice([256, 512, 1024]))
        nch = int(rng.integers(2, 7))
        if it % 2 == 0:
            freq, Sy = estimated(rng, fs, nxseg, nch, 6 * nxseg, "per" if it % 4 else "cor")
        else:
            phi = rng.uniform(-1, 1, nch)
            freq, Sy = analytic(rng, fs, nxseg, rng.uniform(0.06, 0.25) * fs,
                                rng.uniform(0.02, 0.05), phi, real=(it % 4 == 1))
        k0 = int(rng.integers(5, len(freq) - 5))
        _, Svec = old.SD_svalsvec(Sy)
        phi_ref = Svec[0, :, k0]
        phi_ref = phi_ref / phi_ref[np.argmax(np.abs(phi_ref))]
        sel_fn = float(freq[k0])
        for method in ("FSDD", "EFDD", "other"):
            cm = int(rng.integers(1, 3))
            MAClim = float(rng.choice([0.0, 0.5, 0.85, 0.95]))
            DF = float(rng.choice([1.0, 0.02 * fs, 0.2 * fs, 2 * fs, 1e-9]))
            if method == "other":  # undocumented value: only with a non-empty band
                DF = 0.2 * fs
            check(f"SDOF_bellandMS#{it}/{method}", "SDOF_bellandMS",
                  Sy, 1 / fs, sel_fn, phi_ref, method, cm, MAClim, DF)

    # ---- EFDD_mpe ------------------------------------------------------
    for it in range(14):
        fs = float(rng.choice([5.0, 20.0, 100.0, 1000.0]))
        nxseg = int(rng.choice([1024, 2048]))
        nch = int(rng.integers(2, 7))
        xi = rng.uniform(0.02, 0.05)
        fn = rng.uniform(0.07, 0.25) * fs
        phi = rng.uniform(-1, 1, nch)
        freq, Sy = analytic(rng, fs, nxseg, fn, xi, phi,
                            scale=float(rng.choice([1.0, 1e-8, 3e5])), real=(it % 5 == 0))
        bw = 2 * xi * fn
        sel = [fn] if it % 3 else [fn, fn * (1 + 0.2 * xi)]
        for method in ("FSDD", "EFDD"):
            kw = dict(method=method, DF1=max(2 * fs / nxseg, 0.2 * bw),
                      DF2=float(rng.choice([4, 6, 50])) * bw)
            if it % 4 == 0:
                kw.update(sppk=int(rng.integers(0, 5)), npmax=int(rng.integers(5, 30)))
            if it == 13:
                kw.update(npmax=100000)  # more extrema than the record holds
            check(f"EFDD_mpe#{it}/{method}", "EFDD_mpe", Sy, freq, 1 / fs, sel,
                  "per" if it % 2 else "cor", **kw)
    # spectra estimated from signals, as in the unit tests (random, loose fit)
    for it in range(4):
        Sy = rng.random((3, 3, 100))
        freq = np.linspace(0, 1, 100)
        for method in ("FSDD", "EFDD"):
            check(f"EFDD_mpe/random#{it}/{method}", "EFDD_mpe", Sy=Sy, freq=freq, dt=0.1,
                  sel_freq=[0.3, 0.5, 0.7], methodSy="per", method=method, npmax=2)

    # ---- algorithm classes (calling layer) ------------------------------
    import pyoma2.algorithms.fdd as alg
    from pyoma2.algorithms import EFDD, FSDD

    for it in range(4):
        fs = float(rng.choice([20.0, 100.0]))
        nxseg = 1024
        nch = int(rng.integers(2, 6))
        N = 12 * nxseg
        data = rng.standard_normal((N, nch))
        xi = rng.uniform(0.02, 0.05)
        fn = rng.uniform(0.07, 0.25) * fs
        phi = rng.uniform(-1, 1, nch)
        freq, Sy = analytic(rng, fs, nxseg, fn, xi, phi)
        out = {}
        for tag, mod in (("new", new), ("old", old)):
            alg.fdd = mod
            for cls in (EFDD, FSDD):
                a = cls(name="a", nxseg=nxseg, method_SD="per")
                a._set_data(data=data, fs=fs)
                a.result = a.run()
                r0 = (a.result.freq, a.result.Sy, a.result.S_val, a.result.S_vec)
                Sval, Svec = mod.SD_svalsvec(Sy)
                a.result = a.ResultCls(freq=freq, Sy=Sy, S_val=Sval, S_vec=Svec)
                a.mpe(sel_freq=[fn], DF1=max(2 * fs / nxseg, 0.4 * xi * fn), DF2=8 * xi * fn)
                out[(tag, cls.__name__)] = (r0, a.result.Fn, a.result.Xi, a.result.Phi)
        alg.fdd = new
        global n_cases
        for cname in ("EFDD", "FSDD"):
            n_cases += 1
            msg = same(out[("new", cname)], out[("old", cname)])
            if msg:
                failures.append(f"class {cname}#{it}: {msg}")

    print(f"{n_cases} cases compared ({n_exc} of them raise the same exception in both)")
    if failures:
        print("FAIL")
        for f in failures[:30]:
            print("  ", f)
        sys.exit(1)
    print("PASS")


if __name__ == "__main__":
    main()
