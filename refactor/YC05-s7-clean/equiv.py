"""Differential test: library as found under PYTHONPATH (CLEAN version applied)
against the pristine sources saved next to this file as orig_*.py.

Run as:  PYTHONPATH=<tree>/src /venv/bin/python equiv.py
Prints PASS and exits 0 if every compared output agrees
(numpy.allclose(rtol=1e-12, equal_nan=True), same exceptions).
"""
import importlib.util
import logging
import os
import sys
import warnings

import numpy as np

warnings.filterwarnings("ignore")
logging.disable(logging.CRITICAL)
os.environ.setdefault("TQDM_DISABLE", "1")

HERE = os.path.dirname(os.path.abspath(__file__))

import pyoma2.algorithms  # noqa: E402,F401  (package context for the relative import)
from pyoma2.algorithms import plscf as new_alg  # noqa: E402
from pyoma2.functions import plscf as new_fun  # noqa: E402


def _load(name, fname):
    spec = importlib.util.spec_from_file_location(name, os.path.join(HERE, fname))
    mod = importlib.util.module_from_spec(spec)
    sys.modules[name] = mod
    spec.loader.exec_module(mod)
    return mod


old_fun = _load("pyoma2.functions.orig_plscf", "orig_functions_plscf.py")
old_alg = _load("pyoma2.algorithms.orig_plscf", "orig_algorithms_plscf.py")
# the pristine classes must call the pristine functions
old_alg.plscf = old_fun

RTOL = 1e-12
# The classes feed smooth (nearly rational) estimated spectra to pLSCF; the reduced
# normal equations are then ill-conditioned (cond 1e4..1e7) and ANY re-association
# of the sums moves the coefficients by cond * eps (observed <= 1e-9).  Class results
# are therefore compared with this norm-wise tolerance; NaN patterns, labels, the
# frequency axis and the spectrum have to be identical.
RTOL_CLASS = 1e-8
failures = []
ncases = 0


def same(a, b, rtol=RTOL):
    if isinstance(a, (list, tuple)) and isinstance(b, (list, tuple)):
        return len(a) == len(b) and all(same(x, y, rtol) for x, y in zip(a, b))
    if a is None or b is None:
        return a is None and b is None
    a = np.asarray(a)
    b = np.asarray(b)
    if a.shape != b.shape:
        return False
    if np.array_equal(a, b, equal_nan=True):
        return True
    if a.dtype.kind in "fc" or b.dtype.kind in "fc":
        # infinities have to sit in the same places
        if not np.array_equal(np.isinf(a), np.isinf(b)):
            return False
        fin = ~(np.isinf(a) | np.isinf(b))
        a, b = a[fin], b[fin]
        # entries that are tiny next to the rest of the array (cancelled terms)
        # are compared against the scale of the array
        scale = np.nanmax(np.abs(b)) if np.any(~np.isnan(b)) else 0.0
        return np.allclose(a, b, rtol=rtol, atol=rtol * scale, equal_nan=True)
    return False


def call(f, *a, **k):
    try:
        return ("ok", f(*a, **k))
    except Exception as e:  # noqa: BLE001
        return ("exc", type(e).__name__)


def compare(label, r_new, r_old, rtol=RTOL):
    global ncases
    ncases += 1
    if r_new[0] != r_old[0]:
        failures.append(f"{label}: outcome {r_new[0]}:{r_new[1] if r_new[0]=='exc' else ''}"
                        f" vs {r_old[0]}:{r_old[1] if r_old[0]=='exc' else ''}")
        return
    if r_new[0] == "exc":
        if r_new[1] != r_old[1]:
            failures.append(f"{label}: raised {r_new[1]} vs {r_old[1]}")
        return
    if not same(r_new[1], r_old[1], rtol):
        failures.append(f"{label}: values differ")


rng = np.random.default_rng(20240517)


def rand_spectrum(kind, nref, nch, nf):
    if kind == "real":
        return rng.random((nref, nch, nf))
    if kind == "complex":
        return rng.standard_normal((nref, nch, nf)) + 1j * rng.standard_normal(
            (nref, nch, nf)
        )
    if kind == "psd":  # Hermitian positive definite at each line (needs nref == nch)
        G = rng.standard_normal((nf, nch, nch + 2)) + 1j * rng.standard_normal(
            (nf, nch, nch + 2)
        )
        S = G @ G.conj().transpose(0, 2, 1)
        return np.moveaxis(S, 0, 2)
    raise ValueError(kind)


# --------------------------------------------------------------------------
# 1. functions.pLSCF and, on its output, pLSCF_poles / rmfd2ac
# --------------------------------------------------------------------------
configs = []
for _ in range(36):
    nch = int(rng.integers(1, 6))
    kind = ["real", "complex", "psd"][int(rng.integers(0, 3))]
    nref = nch if kind == "psd" else int(rng.integers(1, 6))
    ordmax = int(rng.integers(1, 6))
    nf = int(rng.integers(4 * (ordmax + 1), 130))
    dt = float(rng.choice([0.1, 0.01, 0.004, 1 / 128, 0.037, 1.0]))
    sgn = [-1, 1, -1.0, 1.0][int(rng.integers(0, 4))]
    configs.append((kind, nref, nch, nf, ordmax, dt, sgn))

for kind, nref, nch, nf, ordmax, dt, sgn in configs:
    Sy = rand_spectrum(kind, nref, nch, nf)
    label = f"pLSCF[{kind},{nref}x{nch}x{nf},ordmax={ordmax},dt={dt},sgn={sgn}]"
    Sy0 = Sy.copy()
    r_new = call(new_fun.pLSCF, Sy, dt, ordmax, sgn)
    if not np.array_equal(Sy, Sy0):
        failures.append(label + ": input spectrum modified")
    r_old = call(old_fun.pLSCF, Sy, dt, ordmax, sgn)
    compare(label, r_new, r_old)
    if r_new[0] == "ok" and r_old[0] == "ok":
        for meth in ("per", "cor"):
            # poles of the same (pristine) coefficients through both pole routines
            Ad, Bn = r_old[1]
            compare(
                label + f"->poles[{meth}]",
                call(new_fun.pLSCF_poles, Ad, Bn, dt, meth, 2 * (nf - 1)),
                call(old_fun.pLSCF_poles, Ad, Bn, dt, meth, 2 * (nf - 1)),
            )
        Ad, Bn = r_old[1]
        compare(
            label + "->rmfd2ac",
            call(new_fun.rmfd2ac, Ad[-1], Bn[-1]),
            call(old_fun.rmfd2ac, Ad[-1], Bn[-1]),
        )

# default sign argument
Sy = rand_spectrum("complex", 3, 3, 60)
compare("pLSCF[default sign]", call(new_fun.pLSCF, Sy, 0.01, 4), call(old_fun.pLSCF, Sy, 0.01, 4))

# --------------------------------------------------------------------------
# 2. the sign that reaches pLSCF from the classes
# --------------------------------------------------------------------------
for meth, expected in (("per", -1), ("cor", +1)):
    ncases += 1
    if new_fun.basis_sign(meth) != expected:
        failures.append(f"basis_sign({meth!r}) = {new_fun.basis_sign(meth)}")


# --------------------------------------------------------------------------
# 3. classes: pLSCF.run and pLSCF_MS.run
# --------------------------------------------------------------------------
def synth_data(nch, ndat, fs):
    """Response of a few lightly damped oscillators to white noise plus noise."""
    t = np.arange(ndat) / fs
    nm = 3
    fn = np.sort(rng.uniform(0.08, 0.4, nm)) * fs
    xi = rng.uniform(0.01, 0.03, nm)
    shapes = rng.standard_normal((nch, nm))
    q = np.zeros((ndat, nm))
    for m in range(nm):
        wn = 2 * np.pi * fn[m]
        wd = wn * np.sqrt(1 - xi[m] ** 2)
        h = np.exp(-xi[m] * wn * t[: 4 * int(fs / fn[m] / xi[m])]) * np.sin(
            wd * t[: 4 * int(fs / fn[m] / xi[m])]
        )
        q[:, m] = np.convolve(rng.standard_normal(ndat), h)[:ndat]
    y = q @ shapes.T
    y /= y.std(axis=0)
    return y + 0.05 * rng.standard_normal(y.shape)


RESULT_FIELDS = ("freq", "Sy", "Ad", "Bn", "Fn_poles", "Xi_poles", "Phi_poles", "Lab")


def run_alg(cls, data, fs, **params):
    alg = cls(name="x", **params)
    alg._set_data(data=data, fs=fs)
    res = alg.run()
    return {f: getattr(res, f) for f in RESULT_FIELDS}


def compare_runs(label, r_new, r_old):
    """Exact parts exactly, NaN patterns exactly, numbers to RTOL_CLASS."""
    if r_new[0] == "exc" or r_old[0] == "exc":
        compare(label, r_new, r_old)
        return
    new, old = r_new[1], r_old[1]
    for f in ("freq", "Sy", "Lab"):
        compare(f"{label}.{f}", ("ok", new[f]), ("ok", old[f]), rtol=0.0)
    for f in ("Fn_poles", "Xi_poles", "Phi_poles"):
        compare(
            f"{label}.{f}.nan",
            ("ok", np.isnan(new[f])),
            ("ok", np.isnan(old[f])),
        )
    for f in ("Ad", "Bn", "Fn_poles", "Xi_poles", "Phi_poles"):
        compare(f"{label}.{f}", ("ok", new[f]), ("ok", old[f]), rtol=RTOL_CLASS)


ss_cfg = [
    dict(nch=3, fs=100.0, ordmax=4, nxseg=128, method_SD="per"),
    dict(nch=4, fs=64.0, ordmax=5, nxseg=256, method_SD="per"),
    dict(nch=2, fs=50.0, ordmax=3, nxseg=100, method_SD="per", pov=0.25),
    dict(nch=5, fs=200.0, ordmax=3, nxseg=128, method_SD="per"),
    dict(nch=3, fs=100.0, ordmax=4, nxseg=128, method_SD="cor"),
    dict(nch=4, fs=37.5, ordmax=3, nxseg=256, method_SD="cor"),
    dict(nch=2, fs=100.0, ordmax=5, nxseg=64, method_SD="cor"),
    dict(nch=3, fs=100.0, ordmax=3, nxseg=128, method_SD="welch"),  # rejected by the run parameters
]
for cfg in ss_cfg:
    cfg = dict(cfg)
    nch = cfg.pop("nch")
    fs = cfg.pop("fs")
    data = synth_data(nch, 4096, fs)
    compare_runs(
        f"pLSCF.run[{nch}ch,{cfg}]",
        call(run_alg, new_alg.pLSCF, data, fs, **cfg),
        call(run_alg, old_alg.pLSCF, data, fs, **cfg),
    )

ms_cfg = [
    dict(nref=2, nmov=(2, 1), fs=100.0, ordmax=4, nxseg=128, method_SD="per"),
    dict(nref=3, nmov=(1, 2, 2), fs=64.0, ordmax=3, nxseg=128, method_SD="per"),
    dict(nref=2, nmov=(3, 3), fs=100.0, ordmax=4, nxseg=128, method_SD="cor"),
    dict(nref=1, nmov=(2, 2), fs=50.0, ordmax=3, nxseg=64, method_SD="cor"),
]
for cfg in ms_cfg:
    cfg = dict(cfg)
    nref = cfg.pop("nref")
    nmov = cfg.pop("nmov")
    fs = cfg.pop("fs")
    ntot = nref + sum(nmov)
    full = [synth_data(ntot, 4096, fs).T for _ in nmov]
    Y = []
    start = nref
    for k, nm in enumerate(nmov):
        Y.append({"ref": full[k][:nref], "mov": full[k][start : start + nm]})
        start += nm
    compare_runs(
        f"pLSCF_MS.run[ref={nref},mov={nmov},{cfg}]",
        call(run_alg, new_alg.pLSCF_MS, Y, fs, **cfg),
        call(run_alg, old_alg.pLSCF_MS, Y, fs, **cfg),
    )

if failures:
    print(f"FAIL ({len(failures)} of {ncases} comparisons)")
    for f in failures[:40]:
        print("  -", f)
    sys.exit(1)
print(f"PASS ({ncases} comparisons)")
sys.exit(0)
