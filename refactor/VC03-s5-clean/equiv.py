"""
Differential test: the library on PYTHONPATH (CLEAN version of the commit) against the
pristine gen.py / ssi.py saved next to this file as orig_gen.py / orig_ssi.py.

Run as:  PYTHONPATH=<tree>/src /venv/bin/python equiv.py      -> prints PASS, exit 0
"""
import importlib.util
import logging
import os
import sys

os.environ.setdefault("TQDM_DISABLE", "1")

import numpy as np  # noqa: E402

logging.disable(logging.CRITICAL)

HERE = os.path.dirname(os.path.abspath(__file__))


def load(name):
    spec = importlib.util.spec_from_file_location(name, os.path.join(HERE, name + ".py"))
    mod = importlib.util.module_from_spec(spec)
    spec.loader.exec_module(mod)
    return mod


orig_gen = load("orig_gen")
orig_ssi = load("orig_ssi")

from pyoma2.functions import gen, ssi  # noqa: E402

problems = []
counts = {}


def same(a, b):
    """exact, or allclose(rtol=1e-12) with an absolute floor tied to the data scale"""
    a, b = np.asarray(a), np.asarray(b)
    if a.shape != b.shape or a.dtype.kind != b.dtype.kind:
        return False
    if np.array_equal(a, b, equal_nan=a.dtype.kind in "fc"):
        return True
    scale = np.nanmax(np.abs(b)) if b.size else 0.0
    return bool(np.allclose(a, b, rtol=1e-12, atol=1e-12 * scale, equal_nan=True))


def run(f, *a, **k):
    try:
        return ("ok", f(*a, **k))
    except Exception as e:  # noqa: BLE001
        return ("exc", type(e))


def compare(tag, new, old, cmp):
    counts[tag.split(":")[0]] = counts.get(tag.split(":")[0], 0) + 1
    if new[0] != old[0]:
        problems.append(f"{tag}: new {new[0]} {new[1] if new[0]=='exc' else ''} / "
                        f"old {old[0]} {old[1] if old[0]=='exc' else ''}")
    elif new[0] == "exc":
        key = tag.split(":")[0] + " raised in both"
        counts[key] = counts.get(key, 0) + 1
        if new[1] is not old[1]:
            problems.append(f"{tag}: exception {new[1].__name__} vs {old[1].__name__}")
    elif not cmp(new[1], old[1]):
        problems.append(f"{tag}: results differ")


def cmp_Y(a, b):
    if len(a) != len(b):
        return False
    for da, db in zip(a, b):
        if set(da) != set(db):
            return False
        for key in da:
            if da[key].dtype != db[key].dtype or not np.array_equal(da[key], db[key]):
                return False
            if not da[key].flags["C_CONTIGUOUS"] or not da[key].flags["OWNDATA"] and (
                da[key].base is not None and da[key].base.size != da[key].size
            ):
                return False
    return True


def cmp_ssi(a, b):
    Oa, Aa, Ca = a
    Ob, Ab, Cb = b
    if not same(Oa, Ob) or len(Aa) != len(Ab) or len(Ca) != len(Cb):
        return False
    return all(same(x, y) for x, y in zip(Aa, Ab)) and all(
        same(x, y) for x, y in zip(Ca, Cb)
    )


rng = np.random.default_rng(7)

# ---------------------------------------------------------------- pre_multisetup
for it in range(150):
    n_setup = int(rng.integers(1, 5))
    data, refs = [], []
    for _ in range(n_setup):
        n_sens = int(rng.integers(2, 8))
        Ndat = int(rng.integers(3, 30))
        n_ref = int(rng.integers(1, n_sens))
        kind = rng.integers(0, 5)
        y = rng.standard_normal((Ndat, n_sens))
        if kind == 1:
            y = np.asfortranarray(y)
        elif kind == 2:
            y = rng.integers(-50, 50, (Ndat, n_sens))
        elif kind == 3:
            y = rng.standard_normal((2 * Ndat, n_sens + 2))[::2, 1:-1]  # strided view
        r = list(rng.permutation(n_sens)[:n_ref])
        mode = rng.integers(0, 10)
        if mode <= 2:
            r = sorted(r)
        elif mode == 3:
            r = list(range(n_ref))  # leading block, ascending
        elif mode == 4:
            r = list(rng.permutation(n_ref))  # leading block, any order
        elif mode == 5 and it % 3 == 0:
            r = r + [r[0]]  # repeated index
        elif mode == 6 and it % 3 == 0:
            r[-1] = n_sens + int(rng.integers(0, 2))  # not a channel
        elif mode == 7 and it % 3 == 0:
            r[0] = -1  # negative index
        r = [int(v) for v in r]
        if rng.integers(0, 4) == 0:
            r = np.array(r)
        data.append(y)
        refs.append(r)
    keep = [d.copy() for d in data]
    new = run(gen.pre_multisetup, data, refs)
    old = run(orig_gen.pre_multisetup, [d.copy() for d in data], refs)
    compare(f"pre_multisetup:{it} refs={[list(r) for r in refs]}", new, old, cmp_Y)
    if not all(np.array_equal(a, b) for a, b in zip(keep, data)):
        problems.append(f"pre_multisetup:{it}: input modified")
    if new[0] == "ok":
        # results must not alias the input
        for d_in, d_out in zip(data, new[1]):
            for key in ("ref", "mov"):
                if np.shares_memory(d_in, d_out[key]):
                    problems.append(f"pre_multisetup:{it}: '{key}' aliases the data set")

# ---------------------------------------------------------------- SSI_multi_setup
for it in range(60):
    n_setup = int(rng.integers(1, 5))
    n_ref = int(rng.integers(1, 4))
    n_mov = [int(rng.integers(1, 5)) for _ in range(n_setup)]
    Ndat = int(rng.integers(60, 200))
    br = int(rng.integers(2, 7))
    method = ["cov_mm", "dat", "cov_R"][it % 3]
    max_ord = (br + 1) * n_ref
    ordmax = int(rng.integers(1, max_ord + 1))
    if it % 10 == 9:
        ordmax = max_ord + int(rng.integers(1, 4))  # too large -> error in both
    if it % 10 == 8:
        method = "nonsense"
    step = int(rng.integers(1, 3))
    if it % 2:
        # noise-free decays (rank-deficient Hankel matrices)
        t = np.arange(Ndat) / 30.0
        m = int(rng.integers(1, 4))
        fn = rng.uniform(1, 6, m)
        q = np.exp(-0.01 * 2 * np.pi * fn[:, None] * t) * np.cos(
            2 * np.pi * fn[:, None] * t + rng.uniform(0, 6, (m, 1))
        )
        Phi = rng.standard_normal((n_ref + sum(n_mov), m))
        Y, off = [], n_ref
        for k in range(n_setup):
            g = 10.0 ** rng.uniform(-2, 2)
            Y.append({"ref": g * Phi[:n_ref] @ q, "mov": g * Phi[off : off + n_mov[k]] @ q})
            off += n_mov[k]
    else:
        Y = [
            {
                "ref": rng.standard_normal((n_ref, Ndat)),
                "mov": rng.standard_normal((n_mov[k], Ndat)),
            }
            for k in range(n_setup)
        ]
    Yc = [{k: v.copy() for k, v in d.items()} for d in Y]
    new = run(ssi.SSI_multi_setup, Y, 30.0, br, ordmax, method, step)
    old = run(orig_ssi.SSI_multi_setup, Yc, 30.0, br, ordmax, method, step)
    compare(
        f"SSI_multi_setup:{it} {method} br={br} ordmax={ordmax} n_ref={n_ref} n_mov={n_mov}",
        new, old, cmp_ssi,
    )
    if not all(np.array_equal(a[k], b[k]) for a, b in zip(Y, Yc) for k in a):
        problems.append(f"SSI_multi_setup:{it}: input modified")

# ------------------------------------------- whole chain through the setup classes
from pyoma2.algorithms import SSIcov_MS, SSIdat_MS  # noqa: E402
import pyoma2.algorithms.ssi as alg_ssi  # noqa: E402
import pyoma2.setup.multi as multi  # noqa: E402


class _OrigSsi:
    """pyoma2.functions.ssi with the pristine SSI_multi_setup"""

    def __getattr__(self, name):
        if name == "SSI_multi_setup":
            return orig_ssi.SSI_multi_setup
        return getattr(ssi, name)


def chain(datasets, ref_ind, fs, br, ordmax, step, pre):
    ms = multi.MultiSetup_PreGER(fs=fs, ref_ind=ref_ind, datasets=datasets)
    if pre == 1:
        ms.detrend_data()
    elif pre == 2:
        ms.decimate_data(q=2)
    elif pre == 3:
        ms.filter_data(Wn=8.0, order=4, btype="lowpass")
    ms.add_algorithms(
        SSIcov_MS(name="cov", br=br, ordmax=ordmax, step=step, method="cov_mm"),
        SSIdat_MS(name="dat", br=br, ordmax=ordmax, step=step),
    )
    ms.run_all()
    out = [np.concatenate([d["ref"], d["mov"]]) for d in ms.data]
    for n in ("cov", "dat"):
        r = ms[n].result
        out += [r.Obs, r.Fn_poles, r.Xi_poles, r.Phi_poles, r.Lab, r.Lambds] + list(r.A)
    return out


def cmp_chain(a, b):
    return len(a) == len(b) and all(same(x, y) for x, y in zip(a, b))


for it in range(24):
    n_setup = int(rng.integers(2, 5))
    n_ref = int(rng.integers(1, 4))
    n_mov = [int(rng.integers(1, 4)) for _ in range(n_setup)]
    Ndat = 300
    fs = 40.0
    datasets, ref_ind = [], []
    for k in range(n_setup):
        n_sens = n_ref + n_mov[k]
        datasets.append(np.cumsum(rng.standard_normal((Ndat, n_sens)), axis=0) * 0.1
                        + rng.standard_normal((Ndat, n_sens)))
        if it % 4 == 0:
            ref_ind.append(list(range(n_ref)))
        elif it % 4 == 1:
            ref_ind.append([int(v) for v in rng.permutation(n_ref)])
        else:
            ref_ind.append([int(v) for v in rng.permutation(n_sens)[:n_ref]])
    br = int(rng.integers(3, 6))
    ordmax = int(rng.integers(2, (br + 1) * n_ref + 1))
    step = 1  # (SSI_poles itself fails for step > 1, independent of this commit)
    pre = it % 4
    new = run(chain, [d.copy() for d in datasets], ref_ind, fs, br, ordmax, step, pre)
    saved = (multi.pre_multisetup, alg_ssi.ssi)
    multi.pre_multisetup, alg_ssi.ssi = orig_gen.pre_multisetup, _OrigSsi()
    try:
        old = run(chain, [d.copy() for d in datasets], ref_ind, fs, br, ordmax, step, pre)
    finally:
        multi.pre_multisetup, alg_ssi.ssi = saved
    compare(f"chain:{it} ref_ind={ref_ind} n_mov={n_mov} pre={pre}", new, old, cmp_chain)

print("compared:", counts)
if problems:
    for p in problems[:20]:
        print("  DIFF", p)
    print(f"FAIL: {len(problems)} difference(s)")
    sys.exit(1)
print("PASS")
sys.exit(0)
