"""
Equivalence check of the C12 refactoring (Hankel/Toeplitz assembly + SSI calling layer).

Runs the refactored code (pyoma2 from PYTHONPATH=/tmp/wt/U12/src) and the ORIGINAL
code (pristine copies orig_functions_ssi.py / orig_algorithms_ssi.py taken from HEAD)
on the same inputs and asserts bit-identical outputs / equal exceptions.
"""

import importlib.util
import logging
import os
import sys
import warnings

import numpy as np

HERE = os.path.dirname(os.path.abspath(__file__))
logging.disable(logging.CRITICAL)
warnings.filterwarnings("ignore")

import tqdm  # noqa: E402

# silence the progress bars (both modules import trange/tqdm from tqdm at import time)
_orig_trange, _orig_tqdm = tqdm.trange, tqdm.tqdm
tqdm.trange = lambda *a, **k: _orig_trange(*a, disable=True, **k)
tqdm.tqdm = lambda *a, **k: _orig_tqdm(*a, disable=True, **k)

import pyoma2.algorithms  # noqa: E402,F401  (parent package for the relative import)
from pyoma2.algorithms import ssi as new_algo  # noqa: E402
from pyoma2.functions import ssi as new_fun  # noqa: E402

assert new_fun.__file__.startswith("/tmp/wt/U12/src"), new_fun.__file__


def _load(name, fname):
    spec = importlib.util.spec_from_file_location(name, os.path.join(HERE, fname))
    mod = importlib.util.module_from_spec(spec)
    sys.modules[name] = mod
    spec.loader.exec_module(mod)
    return mod


orig_fun = _load("pyoma2.functions._orig_ssi", "orig_functions_ssi.py")
orig_algo = _load("pyoma2.algorithms._orig_ssi", "orig_algorithms_ssi.py")
orig_algo.ssi = orig_fun  # the original calling layer must call the original routines
assert new_algo.ssi is new_fun

N_CHECKS = 0


def same(a, b, where=""):
    """Strict equality: type, dtype, shape, values (NaN == NaN), recursively."""
    global N_CHECKS
    N_CHECKS += 1
    if a is None or b is None:
        assert a is None and b is None, (where, type(a), type(b))
        return
    if isinstance(a, (list, tuple)):
        assert type(a) is type(b) and len(a) == len(b), (where, type(a), type(b))
        for i, (x, y) in enumerate(zip(a, b)):
            same(x, y, f"{where}[{i}]")
        return
    if isinstance(a, np.ndarray):
        assert isinstance(b, np.ndarray), (where, type(b))
        assert a.dtype == b.dtype, (where, a.dtype, b.dtype)
        assert a.shape == b.shape, (where, a.shape, b.shape)
        assert np.array_equal(a, b, equal_nan=True), (where, np.nanmax(np.abs(a - b)))
        return
    assert type(a) is type(b) and a == b, (where, a, b)


def outcome(fn, *args, **kwargs):
    try:
        return ("ok", fn(*args, **kwargs))
    except Exception as exc:  # noqa: BLE001
        return ("exc", type(exc), str(exc))


def same_outcome(o1, o2, where=""):
    assert o1[0] == o2[0], (where, o1[:2], o2[:2])
    if o1[0] == "exc":
        global N_CHECKS
        N_CHECKS += 1
        assert o1[1] is o2[1] and o1[2] == o2[2], (where, o1, o2)
    else:
        same(o1[1], o2[1], where)


rng = np.random.default_rng(20261004)


def ref_variants(Y):
    """Reference data: the data itself (same object), subsets (also non ascending)."""
    n = Y.shape[0]
    out = [("same", Y), ("all-idx", Y[list(range(n)), :])]
    perm = list(rng.permutation(n))
    out.append(("perm", Y[perm, :]))
    k = int(rng.integers(1, n + 1))
    out.append(("subset", Y[perm[:k], :]))
    out.append(("desc", Y[sorted(perm[:k], reverse=True), :]))
    out.append(("view", Y[:k]))
    return out


# ---------------------------------------------------------------------------
# 1. build_hank on the whole quantifier grid with random data (every record
#    length up to 40 -> also the degenerate ones: equal exceptions)
# ---------------------------------------------------------------------------
METHODS = ["cov_mm", "cov_R", "dat"]
n_exc = 0
for nch in range(1, 5):
    for br in range(1, 6):
        for ndat in list(range(1, 41)) + [64, 173]:
            Y = rng.standard_normal((nch, ndat))
            for tag, Yref in ref_variants(Y)[:: 1 if ndat % 3 == 0 else 2]:
                for method in METHODS:
                    o_new = outcome(new_fun.build_hank, Y, Yref, br, method)
                    o_old = outcome(orig_fun.build_hank, Y, Yref, br, method)
                    n_exc += o_old[0] == "exc"
                    same_outcome(o_old, o_new, f"build_hank {nch},{br},{ndat},{tag},{method}")
print(f"build_hank grid done ({N_CHECKS} checks, {n_exc} of them equal exceptions)")

# expected layout shape on a valid case (sanity of the comparison itself)
H, _ = new_fun.build_hank(rng.standard_normal((3, 40)), rng.standard_normal((2, 40)), 4, "cov_R")
assert H.shape == (5 * 3, 5 * 2)

# ---------------------------------------------------------------------------
# 2. unit impulses: the bilinear map on a basis (cov methods), small shapes
# ---------------------------------------------------------------------------
for nch, nref, br, ndat in [(1, 1, 1, 5), (2, 1, 2, 9), (3, 2, 1, 8), (2, 2, 3, 12), (4, 3, 2, 11)]:
    ref_idx = list(rng.permutation(nch)[:nref])
    for a in range(nch):
        for s in range(ndat):
            Y = np.zeros((nch, ndat))
            Y[a, s] = 1.0
            for b in range(nch):
                for t in range(0, ndat, 2):
                    Z = np.zeros((nch, ndat))
                    Z[b, t] = 1.0
                    for method in ("cov_mm", "cov_R"):
                        same_outcome(
                            outcome(orig_fun.build_hank, Y, Z[ref_idx, :], br, method),
                            outcome(new_fun.build_hank, Y, Z[ref_idx, :], br, method),
                            f"impulse {nch},{nref},{br},{ndat},{a},{s},{b},{t},{method}",
                        )
print(f"unit impulses done ({N_CHECKS} checks)")

# ---------------------------------------------------------------------------
# 3. uncertainty (cov_mm only), invalid arguments, odd calc_unc values, layouts
# ---------------------------------------------------------------------------
for _ in range(60):
    nch = int(rng.integers(1, 5))
    br = int(rng.integers(1, 6))
    ndat = int(rng.integers(2 * br + 3, 400))
    nb = int(rng.choice([1, 2, 3, 7, 10, 50, 100, 500]))
    Y = rng.standard_normal((nch, ndat))
    if rng.random() < 0.3:
        Y = np.asfortranarray(Y)
    if rng.random() < 0.2:
        Y = Y.astype(np.float32)
    for tag, Yref in ref_variants(Y):
        for method in METHODS + ["cov_bias", "", None]:
            for calc_unc in (True, False, 1, 0, None):
                same_outcome(
                    outcome(orig_fun.build_hank, Y, Yref, br, method, calc_unc, nb),
                    outcome(new_fun.build_hank, Y, Yref, br, method, calc_unc, nb),
                    f"unc {nch},{br},{ndat},{nb},{tag},{method},{calc_unc}",
                )
    # keyword form, br given as float / numpy integer
    for brv in (float(br), np.int64(br)):
        same_outcome(
            outcome(orig_fun.build_hank, Y=Y, Yref=Y[::-1], br=brv, method="cov_mm", calc_unc=True, nb=nb),
            outcome(new_fun.build_hank, Y=Y, Yref=Y[::-1], br=brv, method="cov_mm", calc_unc=True, nb=nb),
            "kw",
        )
# degenerate record lengths with the uncertainty switched on (equal exceptions / values)
for ndat in range(1, 30):
    for br in (1, 2, 5):
        for nb in (1, 2, 5):
            Yd = rng.standard_normal((2, ndat))
            same_outcome(
                outcome(orig_fun.build_hank, Yd, Yd[[1]], br, "cov_mm", True, nb),
                outcome(new_fun.build_hank, Yd, Yd[[1]], br, "cov_mm", True, nb),
                f"degenerate unc {ndat},{br},{nb}",
            )
same_outcome(
    outcome(orig_fun.build_hank, Y, Y, 2, "dat", True, 0),
    outcome(new_fun.build_hank, Y, Y, 2, "dat", True, 0),
)
same_outcome(
    outcome(orig_fun.build_hank, Y, Y, 2, "cov_mm", True, 0),
    outcome(new_fun.build_hank, Y, Y, 2, "cov_mm", True, 0),
)
print(f"uncertainty / invalid arguments done ({N_CHECKS} checks)")

# ---------------------------------------------------------------------------
# 4. SSI_multi_setup (positional -> keyword hand-over to build_hank)
# ---------------------------------------------------------------------------
for _ in range(12):
    n_ref = int(rng.integers(1, 4))
    n_setup = int(rng.integers(1, 4))
    ndat = int(rng.integers(150, 400))
    br = int(rng.integers(3, 7))
    data = [
        {
            "ref": rng.standard_normal((n_ref, ndat)),
            "mov": rng.standard_normal((int(rng.integers(1, 4)), ndat)),
        }
        for _ in range(n_setup)
    ]
    ordmax = int(rng.integers(2, n_ref * br + 1))
    for method in METHODS + ["nope"]:
        for step in (1, 2):
            same_outcome(
                outcome(orig_fun.SSI_multi_setup, data, 100.0, br, ordmax, method, step),
                outcome(new_fun.SSI_multi_setup, data, 100.0, br, ordmax, method, step),
                f"multi_setup {method}",
            )
print(f"SSI_multi_setup done ({N_CHECKS} checks)")


# ---------------------------------------------------------------------------
# 5. calling layer: run / mpe / mpe_from_plot of the algorithm classes
# ---------------------------------------------------------------------------
class _FakeSFP:
    """Stands in for the interactive plot: hands back a fixed selection."""

    selection = None

    def __init__(self, algo, freqlim=None, plot="SSI"):
        assert plot == "SSI"
        self.result = list(_FakeSFP.selection)


new_algo.SelFromPlot = _FakeSFP
orig_algo.SelFromPlot = _FakeSFP


def synth(n_samples, nch, fs, seed):
    """Response of a lightly damped spring-mass chain (nch dofs) to white noise."""
    from scipy import signal

    r = np.random.default_rng(seed)
    K = 2000.0 * (2 * np.eye(nch) - np.eye(nch, k=1) - np.eye(nch, k=-1))
    w2, V = np.linalg.eigh(K)
    Cd = V @ np.diag(2 * 0.02 * np.sqrt(w2)) @ V.T
    Ac = np.block([[np.zeros((nch, nch)), np.eye(nch)], [-K, -Cd]])
    Bc = np.vstack([np.zeros((nch, nch)), np.eye(nch)])
    Cc = np.hstack([np.eye(nch), np.zeros((nch, nch))])
    Ad, Bd, Cdd, Dd, _ = signal.cont2discrete((Ac, Bc, Cc, np.zeros((nch, nch))), 1 / fs)
    _, y, _ = signal.dlsim((Ad, Bd, Cdd, Dd, 1 / fs), r.standard_normal((n_samples, nch)))
    return y + 0.01 * y.std() * r.standard_normal(y.shape)


def result_dict(res):
    return res.model_dump() if hasattr(res, "model_dump") else dict(res.__dict__)


def compare_results(r_old, r_new, where):
    d_old, d_new = result_dict(r_old), result_dict(r_new)
    assert list(d_old) == list(d_new), where
    for key in d_old:
        same(d_old[key], d_new[key], f"{where}.{key}")


def compare_params(a_old, a_new, where):
    d_old, d_new = a_old.run_params.model_dump(), a_new.run_params.model_dump()
    assert list(d_old) == list(d_new)
    for key in d_old:
        same(d_old[key], d_new[key], f"{where}.run_params.{key}")


FS = 50.0
single_cases = [
    ("SSIdat", dict(br=6, ordmax=12)),
    ("SSIdat", dict(br=5, ordmax=10, ref_ind=[2, 0], ordmin=2)),
    ("SSIdat", dict(br=5, ordmax=10, ref_ind=[2, 0], step=2)),  # step != 1 raises in the library
    ("SSIcov", dict(br=6, ordmax=12)),
    ("SSIcov", dict(br=6, ordmax=12, method="cov_R", ref_ind=[1, 3, 0])),
    ("SSIcov", dict(br=5, ordmax=10, method="cov_mm", ref_ind=[3, 1], calc_unc=True, nb=20)),
    ("SSIcov", dict(br=5, ordmax=10, calc_unc=True, nb=15, ordmin=4,
                    hc=dict(conj=False, xi_max=0.2, mpc_lim=0.5, mpd_lim=0.6, cov_max=0.3),
                    sc=dict(err_fn=0.05, err_xi=0.2, err_phi=0.1))),
    ("SSIcov", dict(br=4, ordmax=8, method="dat", ref_ind=[3, 0])),
    ("SSIdat", dict(br=4, ordmax=8, method="cov_R",
                    hc=dict(conj=True, xi_max=0.15, mpc_lim=0.3, mpd_lim=0.7, cov_max=0.2))),
    ("SSIcov", dict(br=4, ordmax=8, method="cov_R", calc_unc=True)),  # must raise
    ("SSIdat", dict(br=4, ordmax=8, method="bogus")),  # must raise
]
for i, (cls_name, kw) in enumerate(single_cases):
    data = synth(3000, 4, FS, seed=100 + i)
    algos = []
    outs = []
    for mod in (orig_algo, new_algo):
        algo = getattr(mod, cls_name)(name="x", **kw)
        algo._set_data(data=data.copy(), fs=FS)
        algos.append(algo)
        outs.append(outcome(algo.run))
    assert outs[0][0] == outs[1][0], (cls_name, kw, outs[0][:2], outs[1][:2])
    if outs[0][0] == "exc":
        same_outcome(outs[0], outs[1], f"run {cls_name} {kw}")
        print(f"  run[{i}] {cls_name}: both raise {outs[0][1].__name__}: {outs[0][2][:60]}")
        continue
    compare_results(outs[0][1], outs[1][1], f"run[{i}] {cls_name}")
    for algo, out in zip(algos, outs):
        algo._set_result(out[1])
    # mpe with the automatic order, a fixed order, and a failing call
    for sel, order, rtol in [([4.4, 8.4], "find_min", 5e-2), ([4.4, 11.5, 13.5], 8, 1e-1), ([8.4], "bad", 5e-2)]:
        o_old = outcome(algos[0].mpe, sel_freq=sel, order=order, rtol=rtol)
        o_new = outcome(algos[1].mpe, sel_freq=sel, order=order, rtol=rtol)
        same_outcome(o_old, o_new, f"mpe[{i}] {order}")
        compare_results(algos[0].result, algos[1].result, f"mpe[{i}] {order}")
        compare_params(algos[0], algos[1], f"mpe[{i}] {order}")
    for selection in [([4.4, 8.4], 8), ([8.4], 6)]:
        _FakeSFP.selection = selection
        o_old = outcome(algos[0].mpe_from_plot, freqlim=(0, 20), rtol=2e-2)
        o_new = outcome(algos[1].mpe_from_plot, freqlim=(0, 20), rtol=2e-2)
        same_outcome(o_old, o_new, f"mpe_from_plot[{i}]")
        compare_results(algos[0].result, algos[1].result, f"mpe_from_plot[{i}]")
        compare_params(algos[0], algos[1], f"mpe_from_plot[{i}]")
print(f"single-setup classes done ({N_CHECKS} checks)")

ms_cases = [
    ("SSIdat_MS", dict(br=6, ordmax=10)),
    ("SSIcov_MS", dict(br=6, ordmax=10, step=2)),  # run_params.step=2 but SSI_multi_setup gets step=1
    ("SSIcov_MS", dict(br=5, ordmax=8, method="cov_R",
                       hc=dict(conj=True, xi_max=0.2, mpc_lim=0.4, mpd_lim=0.6, cov_max=0.2))),
    ("SSIcov_MS", dict(br=5, ordmax=8, method="dat")),
    ("SSIdat_MS", dict(br=5, ordmax=8, method="bogus")),
]
for i, (cls_name, kw) in enumerate(ms_cases):
    full = [synth(2500, 5, FS, seed=200 + 10 * i + s) for s in range(3)]
    data = [{"ref": x[:, :2].T.copy(), "mov": x[:, 2 : 3 + s].T.copy()} for s, x in enumerate(full)]
    algos, outs = [], []
    for mod in (orig_algo, new_algo):
        algo = getattr(mod, cls_name)(name="x", **kw)
        algo._set_data(data=data, fs=FS)
        algos.append(algo)
        outs.append(outcome(algo.run))
    assert outs[0][0] == outs[1][0], (cls_name, kw, outs[0][:2], outs[1][:2])
    if outs[0][0] == "exc":
        same_outcome(outs[0], outs[1], f"run {cls_name} {kw}")
        continue
    compare_results(outs[0][1], outs[1][1], f"run_ms[{i}] {cls_name}")
    for algo, out in zip(algos, outs):
        algo._set_result(out[1])
    o_old = outcome(algos[0].mpe, sel_freq=[3.7, 7.1], order="find_min", rtol=5e-2)
    o_new = outcome(algos[1].mpe, sel_freq=[3.7, 7.1], order="find_min", rtol=5e-2)
    same_outcome(o_old, o_new, f"mpe_ms[{i}]")
    compare_results(algos[0].result, algos[1].result, f"mpe_ms[{i}]")
print(f"multi-setup classes done ({N_CHECKS} checks)")

print("PASS")
