"""Equivalence check: refactored gen.MAC/MPC/MPD/MSF/MCF vs. the pristine HEAD copy.

Run:  PYTHONPATH=/tmp/wt/R18/src /venv/bin/python /tmp/wt/R18/_refactor/equiv.py
"""
import importlib.util
import os
import sys
import warnings

import numpy as np

HERE = os.path.dirname(os.path.abspath(__file__))


def _load(name, path):
    spec = importlib.util.spec_from_file_location(name, path)
    mod = importlib.util.module_from_spec(spec)
    spec.loader.exec_module(mod)
    return mod


orig = _load("orig_gen", os.path.join(HERE, "orig_gen.py"))
from pyoma2.functions import gen as new  # noqa: E402

assert os.path.abspath(new.__file__).startswith("/tmp/wt/R18/src/"), new.__file__

warnings.simplefilter("ignore")
np.seterr(all="ignore")

N_CHECKS = 0


def same(a, b, what):
    """Bit-identical outputs: same python/numpy type, dtype, shape, values, NaNs."""
    global N_CHECKS
    N_CHECKS += 1
    assert type(a) is type(b), (what, type(a), type(b))
    a_, b_ = np.asarray(a), np.asarray(b)
    assert a_.dtype == b_.dtype, (what, a_.dtype, b_.dtype)
    assert a_.shape == b_.shape, (what, a_.shape, b_.shape)
    assert np.array_equal(a_, b_, equal_nan=True), (what, a_, b_)


def call(f, *args):
    try:
        return ("ok", f(*[np.array(x, copy=True) for x in args]))
    except BaseException as e:  # noqa: BLE001
        return ("exc", type(e), str(e))


def compare(name, *args):
    r_o = call(getattr(orig, name), *args)
    r_n = call(getattr(new, name), *args)
    assert r_o[0] == r_n[0], (name, r_o, r_n)
    if r_o[0] == "exc":
        global N_CHECKS
        N_CHECKS += 1
        assert r_o[1:] == r_n[1:], (name, r_o, r_n)
    else:
        same(r_o[1], r_n[1], name)


def rand_c(rng, *shape):
    return rng.standard_normal(shape) + 1j * rng.standard_normal(shape)


def rand_scale(rng):
    mod = 10.0 ** rng.uniform(-6, 6)
    return mod * np.exp(1j * rng.uniform(-np.pi, np.pi))


def shape_variants(rng, n):
    """Single mode shapes covering the quantifier of the property."""
    v = rand_c(rng, n)
    real_vec = rng.standard_normal(n)
    out = {
        "generic": v,
        "scaled": rand_scale(rng) * v,
        "unit_component": v / v[np.argmax(np.abs(v))],
        "unit_first": v / v[0],
        "collinear": rand_scale(rng) * real_vec,
        "collinear_real_scale": rng.uniform(-5, 5) * real_vec.astype(complex),
        "nearly_collinear": np.exp(1j * 0.7) * real_vec
        + 1e-9 * rand_c(rng, n),
        "nearly_collinear_2": real_vec * (1 + 1e-13j) + 1e-15 * rand_c(rng, n),
        "purely_real_complex_dtype": real_vec.astype(complex),
        "purely_imag": 1j * real_vec,
        "real_dtype": real_vec,
        "int_dtype": rng.integers(-5, 6, size=n),
        "all_zero": np.zeros(n, dtype=complex),
    }
    z = v.copy()
    z[rng.integers(0, n, size=max(1, n // 3))] = 0
    out["zero_components"] = z
    zc = (rand_scale(rng) * real_vec).copy()
    zc[rng.integers(0, n, size=max(1, n // 3))] = 0
    out["collinear_zero_components"] = zc
    return out


def main():
    rng = np.random.default_rng(20261003)
    sizes = [2, 3, 4, 5, 7, 8, 13, 16, 31, 32, 33, 50, 63, 64]

    # ---- single vectors: MPC, MPD, MCF, MAC, MSF --------------------------
    for n in sizes:
        for rep in range(3):
            variants = shape_variants(rng, n)
            ref = rand_c(rng, n)
            for key, v in variants.items():
                compare("MPC", v)
                compare("MPD", v)
                compare("MCF", v)
                compare("MAC", v, v)
                compare("MAC", v, ref)
                compare("MAC", ref, v)
                compare("MSF", v, ref)
                compare("MSF", ref, v)
                c = rng.uniform(-1e3, 1e3)
                compare("MSF", v, c * v)
                s = rand_scale(rng)
                compare("MAC", v, s * v)
                compare("MPC", s * v)
                compare("MPD", s * v)
                compare("MCF", s * v)
            # collinear shape against its real generator
            r = rng.standard_normal(n)
            s = rand_scale(rng)
            compare("MAC", s * r, r)
            compare("MAC", r, s * r)
            compare("MAC", s * r, r.astype(complex))

    # ---- sets of shapes (matrices): MAC, MSF, MCF --------------------------
    for n in sizes:
        for (mx, ma) in [(1, 1), (1, 3), (4, 1), (2, 2), (3, 5), (6, 6)]:
            X = rand_c(rng, n, mx)
            A = rand_c(rng, n, ma)
            # mix in special columns
            X[:, 0] = rand_scale(rng) * rng.standard_normal(n)
            if ma > 1:
                A[:, 1] = rand_scale(rng) * X[:, 0]
                A[rng.integers(0, n), 0] = 0
            compare("MAC", X, A)
            compare("MAC", A, X)
            compare("MAC", X, X)
            compare("MAC", X, A[:, 0])
            compare("MAC", X[:, 0], A)
            compare("MAC", X.real, A)
            compare("MAC", X.real, A.real)
            compare("MCF", X)
            compare("MCF", A)
            compare("MCF", X.real)
            # non-contiguous (Fortran ordered / strided) inputs
            compare("MAC", np.asfortranarray(X), np.asfortranarray(A))
            compare("MCF", np.asfortranarray(A))
            if mx == ma:
                compare("MSF", X, A)
                compare("MSF", A, X)
                compare("MSF", X, rng.uniform(-9, 9) * X)
                compare("MSF", X.real, A.real)
                compare("MSF", np.asfortranarray(X), np.asfortranarray(A))
            else:
                compare("MSF", X, A)  # exception: shape mismatch

    # strided views handed in directly (call() copies, so do it by hand here)
    for n in [2, 9, 64]:
        big = rand_c(rng, 2 * n, 6)
        Xv, Av = big[::2, ::2], big[1::2, 1::2]
        for name, args in [
            ("MAC", (Xv, Av)),
            ("MSF", (Xv, Av)),
            ("MCF", (Xv,)),
            ("MPC", (Xv[:, 0],)),
            ("MPD", (Xv[:, 0],)),
        ]:
            same(getattr(orig, name)(*args), getattr(new, name)(*args), name + "/view")

    # ---- exceptions --------------------------------------------------------
    compare("MAC", rand_c(rng, 5, 2), rand_c(rng, 6, 2))
    compare("MAC", rand_c(rng, 5), rand_c(rng, 6))
    compare("MAC", rand_c(rng, 5, 2, 2), rand_c(rng, 5, 2))
    compare("MAC", rand_c(rng, 5, 2), rand_c(rng, 5, 2, 2))
    compare("MSF", rand_c(rng, 5), rand_c(rng, 6))
    compare("MSF", rand_c(rng, 5, 2), rand_c(rng, 5, 3))
    compare("MSF", rand_c(rng, 5, 2), rand_c(rng, 5))
    # degenerate sizes
    compare("MCF", rand_c(rng, 5, 0))
    compare("MSF", rand_c(rng, 5, 0), rand_c(rng, 5, 0))
    compare("MAC", rand_c(rng, 5, 0), rand_c(rng, 5, 2))
    compare("MPC", rand_c(rng, 1))
    compare("MPD", rand_c(rng, 1))
    compare("MCF", rand_c(rng, 1))

    # the vector pinned by the test-suite
    t = np.array([1 + 2j, 2 + 3j, 3 + 4j])
    for name in ("MPC", "MPD", "MCF"):
        compare(name, t)
    compare("MAC", t, t)
    compare("MSF", t, t)

    print(f"{N_CHECKS} comparisons, all bit-identical")
    print("PASS")


if __name__ == "__main__":
    main()
    sys.exit(0)
