"""
Differential test: SelFromPlot of the tree on PYTHONPATH against the pristine copy
orig_sel_from_plot.py saved next to this file.

Both classes are driven head-less through identical random sessions (key presses,
clicks with all three buttons, with and without SHIFT, also on the empty selection,
outside the table / frequency range, with a None coordinate) and directly through the
touched methods (get_closest_pole, get_closest_freq, sort_selected_poles).  After
every single action the selection lists, the number of redraws and any raised
exception are compared; at the end the handed-over result and what SSI_mpe /
pLSCF_mpe extract from it.

Pole tables have distinct frequencies (the same pole may be picked several times, which
gives coincident identical pairs).  Exactly equal frequencies at *different* orders are
left out on purpose: the original orders such entries with numpy's default, non-stable
argsort, so their relative position is not defined by the original code either.

Run:  PYTHONPATH=<tree>/src /venv/bin/python equiv.py
"""
import importlib.util
import logging
import os
import sys
import types
from unittest import mock

os.environ.setdefault("TQDM_DISABLE", "1")

import matplotlib  # noqa: E402

matplotlib.use("Agg")
import numpy as np  # noqa: E402

logging.disable(logging.CRITICAL)

HERE = os.path.dirname(os.path.abspath(__file__))

from pyoma2.functions import plscf as f_plscf  # noqa: E402
from pyoma2.functions import ssi as f_ssi  # noqa: E402
from pyoma2.support.sel_from_plot import SelFromPlot as NewSFP  # noqa: E402

spec = importlib.util.spec_from_file_location(
    "orig_sel_from_plot", os.path.join(HERE, "orig_sel_from_plot.py")
)
_orig = importlib.util.module_from_spec(spec)
spec.loader.exec_module(_orig)
OldSFP = _orig.SelFromPlot

PROBLEMS = []


def make_algo(plot, table, rng):
    if plot == "FDD":
        sval = np.abs(rng.normal(size=(2, 2, len(table)))) + 1.0
        res = types.SimpleNamespace(freq=table, S_val=sval)
        return types.SimpleNamespace(fs=2 * float(table[-1]), result=res, run_params=None)
    res = types.SimpleNamespace(Fn_poles=table, Lab=np.ones(table.shape))
    rp = types.SimpleNamespace(ordmin=0, ordmax=table.shape[1] - 1, step=1)
    return types.SimpleNamespace(fs=100.0, result=res, run_params=rp)


class Session:
    """One dialog instance, built by the real __init__ with the GUI parts replaced."""

    def __init__(self, cls, algo, plot):
        self.redraws = 0
        outer = self

        def gui(dlg):
            dlg.root = mock.MagicMock()
            dlg.fig = dlg.ax2 = None

        def redraw(dlg, *a, **k):
            outer.redraws += 1

        with mock.patch.object(cls, "_initialize_gui", gui), mock.patch.object(
            cls, "plot_stab", redraw
        ), mock.patch.object(cls, "plot_svPSD", redraw):
            self.dlg = cls(algo=algo, plot=plot)
        self.cls = cls
        self.redraws = 0
        self._redraw = redraw

    def act(self, action):
        """Returns the name of the raised exception or None."""
        d = self.dlg
        kind = action[0]
        try:
            with mock.patch.object(self.cls, "plot_stab", self._redraw), mock.patch.object(
                self.cls, "plot_svPSD", self._redraw
            ):
                if kind == "press":
                    d.on_key_press(types.SimpleNamespace(key=action[1]))
                elif kind == "release":
                    d.on_key_release(types.SimpleNamespace(key=action[1]))
                elif kind == "click":
                    ev = types.SimpleNamespace(
                        button=action[1], xdata=action[2], ydata=action[3]
                    )
                    if d.plot == "FDD":
                        d.on_click_FDD(ev)
                    else:
                        d.on_click_SSI(ev, d.plot)
                elif kind == "direct":  # the picking routine called by hand
                    d.x_data_pole = action[1]
                    d.y_data_pole = action[2]
                    if d.plot == "FDD":
                        d.get_closest_freq()
                    else:
                        d.get_closest_pole(d.plot)
                elif kind == "sort":
                    d.sort_selected_poles()
        except Exception as e:
            return type(e).__name__
        return None

    def state(self):
        d = self.dlg
        ind = d.freq_ind if d.plot == "FDD" else d.pole_ind
        return (
            [float(f) for f in d.sel_freq],
            [int(i) for i in ind],
            bool(d.shift_is_held),
            self.redraws,
        )


def same_state(a, b):
    return (
        len(a[0]) == len(b[0])
        and np.array_equal(np.array(a[0]), np.array(b[0]), equal_nan=True)
        and a[1] == b[1]
        and a[2] == b[2]
        and a[3] == b[3]
    )


def random_table(plot, rng):
    if plot == "FDD":
        if rng.random() < 0.5:
            n = int(rng.integers(3, 400))
            return np.arange(n) * float(rng.uniform(0.01, 0.5))
        n = int(rng.integers(3, 80))
        return np.cumsum(rng.uniform(0.05, 0.4, size=n))  # ascending, not uniform
    nr, no = int(rng.integers(1, 9)), int(rng.integers(1, 12))
    table = rng.uniform(0.2, 10.0, size=(nr, no))
    hole = rng.random(size=table.shape) < 0.35
    if rng.random() < 0.8:
        hole[rng.integers(0, nr, size=no), np.arange(no)] = False  # no empty order
    table[hole] = np.nan
    return table


def random_actions(plot, table, rng):
    if plot == "FDD":
        fmax, ylo, yhi = float(table[-1]), -60.0, 5.0
    else:
        fmax, ylo, yhi = 10.0, -1.5, table.shape[1] + 1.0
    acts = []
    shift = False
    for _ in range(int(rng.integers(3, 15))):
        r = rng.random()
        if r < 0.12:
            key = "shift" if rng.random() < 0.85 else "control"
            acts.append(("release" if shift else "press", key))
            if key == "shift":
                shift = not shift
        elif r < 0.22 and not shift:
            acts.append(("press", "shift"))
            shift = True
        elif r < 0.27:
            x = float(rng.uniform(-0.5, fmax + 0.5))
            y = float(rng.uniform(ylo, yhi))
            acts.append(("direct", x, [y] if rng.random() < 0.7 else y))
        elif r < 0.30:
            acts.append(("sort",))
        else:
            button = int(rng.choice([1, 1, 1, 1, 2, 2, 3, 8]))
            x = float(rng.uniform(-0.5, fmax + 0.5))
            y = float(rng.uniform(ylo, yhi))
            u = rng.random()
            if u < 0.04:
                x = None
            elif u < 0.08:
                y = None
            elif u < 0.2 and plot != "FDD":
                # exactly on a pole / half way between two orders
                col = int(rng.integers(0, table.shape[1]))
                vals = table[:, col][~np.isnan(table[:, col])]
                if len(vals):
                    x = float(rng.choice(vals))
                y = float(col) + (0.5 if rng.random() < 0.5 else 0.0)
            elif u < 0.2:
                i = int(rng.integers(0, len(table) - 1))
                x = float(table[i]) if rng.random() < 0.5 else float(
                    (table[i] + table[i + 1]) / 2
                )
            acts.append(("click", button, x, y))
    return acts


def extraction(plot, table, result, rng_seed):
    """What the algorithm layer extracts from a handed-over selection."""
    if plot == "FDD":
        return ("fdd", [float(f) for f in result[0]], result[1])
    rng = np.random.default_rng(rng_seed)
    xi = rng.uniform(0.001, 0.05, size=table.shape)
    phi = rng.normal(size=table.shape + (3,))
    try:
        if plot == "SSI":
            out = f_ssi.SSI_mpe(result[0], table, xi, phi, result[1], Lab=None, rtol=1e-2)
            out = out[:4]
        else:
            out = f_plscf.pLSCF_mpe(
                result[0], table, xi, phi, result[1], Lab=None, rtol=5e-2
            )
        return tuple(np.asarray(o, dtype=float) for o in out)
    except Exception as e:
        return ("raised", type(e).__name__)


def same_extraction(a, b):
    if len(a) != len(b):
        return False
    for u, v in zip(a, b):
        if isinstance(u, np.ndarray) or isinstance(v, np.ndarray):
            u, v = np.asarray(u), np.asarray(v)
            if u.shape != v.shape or not np.allclose(
                u, v, rtol=1e-12, atol=0.0, equal_nan=True
            ):
                return False
        elif u != v:
            return False
    return True


def main(ntrial=600):
    rng = np.random.default_rng(2016)
    nact = nexc = 0
    for trial in range(ntrial):
        plot = ("SSI", "pLSCF", "FDD")[trial % 3]
        table = random_table(plot, rng)
        algo = make_algo(plot, table, rng)
        acts = random_actions(plot, table, rng)
        old, new = Session(OldSFP, algo, plot), Session(NewSFP, algo, plot)
        for k, a in enumerate(acts):
            eo, en = old.act(a), new.act(a)
            nact += 1
            nexc += eo is not None
            so, sn = old.state(), new.state()
            if eo != en or not same_state(so, sn):
                PROBLEMS.append(
                    f"trial {trial} ({plot}) after action {k} {a}:\n"
                    f"     original: exc={eo} state={so}\n"
                    f"     modified: exc={en} state={sn}\n"
                    f"     history : {acts[: k + 1]}"
                )
                break
            if eo is not None:
                break  # a session does not survive an exception in a handler
        else:
            ro = (old.dlg.sel_freq, getattr(old.dlg, "pole_ind", None))
            rn = (new.dlg.sel_freq, getattr(new.dlg, "pole_ind", None))
            xo = extraction(plot, table, ro, trial)
            xn = extraction(plot, table, rn, trial)
            if not same_extraction(xo, xn):
                PROBLEMS.append(
                    f"trial {trial} ({plot}): extraction differs\n"
                    f"     original: {xo}\n     modified: {xn}"
                )

    # the result attribute as built by __init__ (empty session, as in the test-suite)
    for plot in ("SSI", "pLSCF", "FDD"):
        table = random_table(plot, rng)
        algo = make_algo(plot, table, rng)
        ro = Session(OldSFP, algo, plot).dlg.result
        rn = Session(NewSFP, algo, plot).dlg.result
        if not (list(ro[0]) == list(rn[0]) and ro[1] == rn[1]):
            PROBLEMS.append(f"{plot}: result of an empty session differs: {ro} / {rn}")

    if PROBLEMS:
        print(f"FAIL  {len(PROBLEMS)} of {ntrial} sessions differ")
        for p in PROBLEMS[:5]:
            print("  -", p)
        return 1
    print(
        f"PASS  {ntrial} random sessions, {nact} actions compared step by step "
        f"({nexc} of them raising identically in both versions)"
    )
    return 0


if __name__ == "__main__":
    sys.exit(main())
