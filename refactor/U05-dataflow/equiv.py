"""
Equivalence check of the refactored pLSCF code (functions + algorithm classes)
against the pristine copies taken from HEAD.

Run:  PYTHONPATH=/tmp/wt/U05/src /venv/bin/python /tmp/wt/U05/_refactor/equiv.py
Prints PASS and exits 0 when every comparison is IDENTICAL (shape, dtype, NaN
pattern, real and imaginary parts bit for bit) and the same exceptions are raised.
"""

import importlib.util
import logging
import os
import sys
import warnings

import numpy as np

HERE = os.path.dirname(os.path.abspath(__file__))
sys.path.insert(0, os.path.join(os.path.dirname(HERE), "src"))
warnings.filterwarnings("ignore")
logging.disable(logging.CRITICAL)

import tqdm  # noqa: E402
import tqdm.std  # noqa: E402

from pyoma2.algorithms import plscf as new_algo  # noqa: E402
from pyoma2.functions import fdd  # noqa: E402
from pyoma2.functions import plscf as new_fun  # noqa: E402


def _load(name, filename):
    spec = importlib.util.spec_from_file_location(name, os.path.join(HERE, filename))
    mod = importlib.util.module_from_spec(spec)
    sys.modules[name] = mod
    spec.loader.exec_module(mod)
    return mod


old_fun = _load("orig_functions_plscf", "orig_functions_plscf.py")
# loaded inside the package so that the relative import of .base resolves
old_algo = _load("pyoma2.algorithms.orig_algorithms_plscf", "orig_algorithms_plscf.py")
# the original classes must call the ORIGINAL numerical routines
old_algo.plscf = old_fun
assert new_algo.plscf is new_fun and old_algo.plscf is old_fun
assert old_algo.gen is new_algo.gen and old_algo.fdd is new_algo.fdd is fdd


# silence the progress bars
class _Quiet(tqdm.std.tqdm):
    def __init__(self, *a, **k):
        k["disable"] = True
        super().__init__(*a, **k)


for m in (old_fun, new_fun, fdd):
    if hasattr(m, "trange"):
        m.trange = lambda *a, **k: _Quiet(range(*a), **k)
    if hasattr(m, "tqdm"):
        m.tqdm = _Quiet

N_CMP = [0]
STATS = dict(runs=0, kept_poles=0, blanked_poles=0, stable_labels=0, mpe_nonempty=0, mpe_calls=0)


def same(a, b, where=""):
    """Strict identity of two results (arrays, scalars, lists/tuples of them, None)."""
    N_CMP[0] += 1
    if a is None or b is None:
        assert a is None and b is None, where
        return
    if isinstance(a, (list, tuple)):
        assert type(a) is type(b) and len(a) == len(b), (where, type(a), type(b))
        for k, (x, y) in enumerate(zip(a, b)):
            same(x, y, f"{where}[{k}]")
        return
    if isinstance(a, str) or isinstance(b, str):
        assert a == b, where
        return
    assert isinstance(a, np.ndarray) == isinstance(b, np.ndarray), (where, type(a), type(b))
    a_ = np.asarray(a)
    b_ = np.asarray(b)
    assert a_.dtype == b_.dtype, (where, a_.dtype, b_.dtype)
    assert a_.shape == b_.shape, (where, a_.shape, b_.shape)
    if a_.dtype == object:
        assert all(x == y for x, y in zip(a_.ravel(), b_.ravel())), where
        return
    assert np.array_equal(np.isnan(a_.real), np.isnan(b_.real)), (where, "NaN pattern re")
    assert np.array_equal(np.isnan(a_.imag), np.isnan(b_.imag)), (where, "NaN pattern im")
    assert np.array_equal(a_.real, b_.real, equal_nan=True), (
        where,
        np.nanmax(np.abs(a_.real - b_.real)),
    )
    assert np.array_equal(a_.imag, b_.imag, equal_nan=True), (
        where,
        np.nanmax(np.abs(a_.imag - b_.imag)),
    )


def outcome(fun, *args, **kwargs):
    """Return ('ok', value) or ('exc', type, message)."""
    try:
        return ("ok", fun(*args, **kwargs))
    except Exception as e:  # noqa: BLE001
        return ("exc", type(e), str(e))


def same_outcome(o1, o2, where):
    assert o1[0] == o2[0], (where, o1[:1], o2[:1], o1[1:] if o1[0] == "exc" else o2[1:])
    if o1[0] == "exc":
        assert o1[1] is o2[1] and o1[2] == o2[2], (where, o1, o2)
        return None
    same(o1[1], o2[1], where)
    return o1[1], o2[1]


# ---------------------------------------------------------------------------------
# inputs
# ---------------------------------------------------------------------------------
def rational_spectrum(rng, n, Nch, Nref, Nf, dt, sgn):
    """Sy = B(z) A(z)^-1 with real coefficients of order n, library normalisation."""
    A = rng.normal(size=(n + 1, Nch, Nch))
    B = rng.normal(size=(n + 1, Nref, Nch))
    A[0 if sgn == -1 else n] = np.eye(Nch)
    # keep it well conditioned: dominant free leading / trailing coefficient
    A[n if sgn == -1 else 0] += 3.0 * np.eye(Nch)
    omega = 2 * np.pi * np.linspace(0.0, 0.5 / dt, Nf)
    z = np.exp(sgn * 1j * omega * dt)
    Sy = np.empty((Nref, Nch, Nf), dtype=complex)
    for f in range(Nf):
        Az = sum(A[k] * z[f] ** k for k in range(n + 1))
        Bz = sum(B[k] * z[f] ** k for k in range(n + 1))
        Sy[:, :, f] = Bz @ np.linalg.inv(Az)
    return Sy


def random_cfg(rng):
    n = int(rng.integers(1, 9))
    Nch = int(rng.integers(2, 6))
    Nref = int(rng.integers(1, 6))
    Nf = int(4 * (n + 1) + rng.integers(0, 80))
    dt = float(rng.choice([0.01, 0.005, 0.1, 1.0 / 37.0, 1.0, 2.5e-4]))
    sgn = int(rng.choice([-1, 1]))
    ordmax = int(n + rng.integers(0, 3))
    return n, Nch, Nref, Nf, dt, sgn, ordmax


# ---------------------------------------------------------------------------------
# 1. numerical routines
# ---------------------------------------------------------------------------------
def check_functions(rng, n_cases=80):
    n_exc = 0
    for t in range(n_cases):
        n, Nch, Nref, Nf, dt, sgn, ordmax = random_cfg(rng)
        if t >= 70:
            Nch = 1  # outside the quantifier, but met by the multi-setup class
        if t % 3 == 2:
            # noisy, not rational spectrum (a float sign as in the default argument)
            Sy = rng.normal(size=(Nref, Nch, Nf)) + 1j * rng.normal(size=(Nref, Nch, Nf))
            sgn = float(sgn)
        else:
            Sy = rational_spectrum(rng, n, Nch, Nref, Nf, dt, sgn)
        if t % 5 == 0:
            ordmax = n  # exactly the order of the spectrum
        tag = f"case {t} (n={n} Nch={Nch} Nref={Nref} Nf={Nf} dt={dt} sgn={sgn} ordmax={ordmax})"
        res = same_outcome(
            outcome(old_fun.pLSCF, Sy.copy(), dt, ordmax, sgn),
            outcome(new_fun.pLSCF, Sy.copy(), dt, ordmax, sgn),
            tag + " pLSCF",
        )
        if res is None:
            n_exc += 1
            # exercise the remaining routines with the orders below the singular one
            ordmax = n
            res = same_outcome(
                outcome(old_fun.pLSCF, Sy.copy(), dt, ordmax, sgn),
                outcome(new_fun.pLSCF, Sy.copy(), dt, ordmax, sgn),
                tag + " pLSCF (ordmax=n)",
            )
            if res is None:
                continue
        (Ad, Bn), _ = res
        assert len(Ad) == ordmax == len(Bn)
        for methodSy in ("per", "cor"):
            nxseg = int(rng.choice([32, 64, 1024]))
            cp = lambda L: [x.copy() for x in L]  # noqa: E731
            same_outcome(
                outcome(old_fun.pLSCF_poles, cp(Ad), cp(Bn), dt, methodSy, nxseg),
                outcome(new_fun.pLSCF_poles, cp(Ad), cp(Bn), dt, methodSy, nxseg),
                tag + f" pLSCF_poles {methodSy}",
            )
            for k, (A_den, B_num) in enumerate(zip(Ad, Bn)):
                r = same_outcome(
                    outcome(old_fun.rmfd2ac, A_den.copy(), B_num.copy()),
                    outcome(new_fun.rmfd2ac, A_den.copy(), B_num.copy()),
                    tag + f" rmfd2ac order {k + 1}",
                )
                (A, C), _ = r
                same_outcome(
                    outcome(old_fun.ac2mp_poly, A.copy(), C.copy(), dt, methodSy, nxseg),
                    outcome(new_fun.ac2mp_poly, A.copy(), C.copy(), dt, methodSy, nxseg),
                    tag + f" ac2mp_poly order {k + 1} {methodSy}",
                )
    # inputs of the unit tests (degenerate companion, integer matrices, real poles)
    A_den = np.array([[[1, 2], [3, 4]]])
    B_num = np.array([[[1, 2]], [[3, 4]], [[5, 6]]])
    same_outcome(
        outcome(old_fun.rmfd2ac, A_den, B_num), outcome(new_fun.rmfd2ac, A_den, B_num), "ut1"
    )
    for A in (
        np.array([[-1, -2], [1, 0]]),
        np.array([[0.5, 0.0], [0.0, 0.25]]),  # real eigenvalues only
        np.array([[1.5, 0.0], [0.0, 0.25]]),  # one unstable real pole
        np.array([[0.0, 0.0], [1.0, 0.0]]),  # zero eigenvalues (log -> -inf)
    ):
        for C in (np.array([[1, 0], [0, 1]]), np.array([[1.0, 2.0]])):
            for meth in ("per", "cor"):
                same_outcome(
                    outcome(old_fun.ac2mp_poly, A, C, 0.1, meth, 100),
                    outcome(new_fun.ac2mp_poly, A, C, 0.1, meth, 100),
                    "ut2",
                )
    # equal exceptions: singular normal equations, sign that is neither -1 nor +1
    Sy0 = np.zeros((2, 3, 40), dtype=complex)
    for sgn in (-1, 1, 2):
        o1 = outcome(old_fun.pLSCF, Sy0, 0.01, 3, sgn)
        o2 = outcome(new_fun.pLSCF, Sy0, 0.01, 3, sgn)
        assert o1[0] == "exc", o1
        same_outcome(o1, o2, f"zero spectrum sgn={sgn}")
        n_exc += 1
    # real-only pole tables (dtype of the padded tables must follow the input)
    Ad = [np.array([np.eye(2), np.diag([-0.5, -0.25])])]
    Bn = [np.array([np.ones((1, 2)), np.ones((1, 2))])]
    same_outcome(
        outcome(old_fun.pLSCF_poles, Ad, Bn, 0.1, "per", 64),
        outcome(new_fun.pLSCF_poles, Ad, Bn, 0.1, "per", 64),
        "real poles",
    )
    return n_exc


# ---------------------------------------------------------------------------------
# 2. algorithm classes
# ---------------------------------------------------------------------------------
RESULT_FIELDS = (
    "freq Sy Ad Bn Fn_poles Xi_poles Phi_poles Lab Fn Xi Phi order_out".split()
)
PARAM_FIELDS = "ordmax ordmin nxseg method_SD pov sc hc sel_freq order_in rtol".split()


def compare_algos(a_old, a_new, where):
    assert type(a_old.result) is type(a_new.result) is new_algo.pLSCFResult, where
    for name in RESULT_FIELDS:
        same(getattr(a_old.result, name), getattr(a_new.result, name), f"{where} result.{name}")
    assert set(a_old.result.model_fields_set) == set(a_new.result.model_fields_set), where
    for name in PARAM_FIELDS:
        v1, v2 = getattr(a_old.run_params, name), getattr(a_new.run_params, name)
        assert type(v1) is type(v2) and v1 == v2, (where, name, v1, v2)


class FakeSelFromPlot:
    picks = ([], [])

    def __init__(self, algo, freqlim=None, plot=None):
        assert plot == "pLSCF" and algo.result is not None
        self.result = (list(self.picks[0]), list(self.picks[1]))


old_algo.SelFromPlot = FakeSelFromPlot
new_algo.SelFromPlot = FakeSelFromPlot


def run_pair(cls_name, params, data, fs, where):
    algos = []
    outs = []
    for mod in (old_algo, new_algo):
        algo = getattr(mod, cls_name)(name="x", **params)
        algo._set_data(data=data, fs=fs)
        o = outcome(algo.run)
        if o[0] == "ok":
            algo._set_result(o[1])
        algos.append(algo)
        outs.append(("ok", None) if o[0] == "ok" else o)
    same_outcome(outs[0], outs[1], where + " run")
    if outs[0][0] == "exc":
        return None
    compare_algos(*algos, where + " run")
    res = algos[0].result
    STATS["runs"] += 1
    STATS["kept_poles"] += int(np.sum(~np.isnan(res.Fn_poles)))
    STATS["blanked_poles"] += int(np.sum(np.isnan(res.Fn_poles)))
    STATS["stable_labels"] += int(np.sum(res.Lab != 0))
    return algos


def exercise_mpe(algos, rng, where):
    a_old, a_new = algos
    Fn = a_old.result.Fn_poles
    ordmax = a_old.run_params.ordmax
    good = Fn[~np.isnan(Fn)]
    if good.size == 0:
        good = np.array([1.0, 2.0])
    # a few frequencies close to actual poles of a high order column
    col = Fn[:, ordmax - 1]
    col = np.unique(col[~np.isnan(col)])
    sel = list(col[:: max(1, len(col) // 3)][:3]) if col.size else list(good[:2])
    requests = [
        dict(sel_freq=sel, order=ordmax - 1, rtol=5e-2),
        dict(sel_freq=sel, order=[ordmax - 1] * len(sel), rtol=1e-3),
        dict(sel_freq=[float(s) * 1.001 for s in sel], order=max(ordmax - 2, 0)),
        dict(sel_freq=sel, order="find_min", rtol=2e-2),
        dict(sel_freq=sel),
        dict(sel_freq=sel, order=2.5),  # invalid order -> ValueError in both
    ]
    for k, kw in enumerate(requests):
        o1 = outcome(a_old.mpe, **kw)
        o2 = outcome(a_new.mpe, **kw)
        same_outcome(o1, o2, f"{where} mpe#{k}")
        STATS["mpe_calls"] += 1
        STATS["mpe_nonempty"] += int(o1[0] == "ok" and np.size(a_old.result.Fn) > 0)
        compare_algos(a_old, a_new, f"{where} mpe#{k}")
    # graphical selection, replaced by a fake that returns the picks
    for k, picks in enumerate(
        [(sel, [ordmax - 1] * len(sel)), (sel[:1], [max(ordmax - 2, 0)]), ([], [])]
    ):
        FakeSelFromPlot.picks = picks
        kw = [dict(), dict(freqlim=(0.0, 10.0), rtol=1e-2), dict(rtol=0.2)][k]
        o1 = outcome(a_old.mpe_from_plot, **kw)
        o2 = outcome(a_new.mpe_from_plot, **kw)
        same_outcome(o1, o2, f"{where} mpe_from_plot#{k}")
        compare_algos(a_old, a_new, f"{where} mpe_from_plot#{k}")


def random_params(rng, k, ordmax):
    params = dict(ordmax=ordmax, nxseg=int(rng.choice([32, 64, 128])))
    params["method_SD"] = ["per", "cor"][k % 2]
    if k % 3 == 0:
        params["pov"] = 0.0  # zero overlap
    elif k % 3 == 1:
        params["pov"] = float(rng.choice([0.25, 0.5, 0.75]))
    if k % 4 != 0:
        # user-set limits of the hard criteria, also the docstring's extra key
        params["hc"] = dict(
            conj=bool(k % 4 == 1),
            xi_max=float(rng.choice([0.05, 0.2, 0.6, 2.0])),
            mpc_lim=float(rng.choice([0.0, 0.3, 0.7, 0.95])),
            mpd_lim=float(rng.choice([0.05, 0.3, 0.9, 10.0])),
            cov_max=0.2,
        )
    if k % 2 == 1:
        params["sc"] = dict(
            err_fn=float(rng.choice([0.005, 0.05, 0.5])),
            err_xi=float(rng.choice([0.02, 0.2, 2.0])),
            err_phi=float(rng.choice([0.01, 0.1, 0.9])),
        )
    if k % 5 == 3:
        params["ordmin"] = int(rng.integers(1, ordmax))
    return params


def check_classes(rng, n_cases=24):
    n_exc = 0
    # (a) measured data through the real spectral estimators
    for k in range(n_cases):
        Nch = int(rng.integers(2, 6))
        ordmax = int(rng.integers(2, 9))
        fs = float(rng.choice([50.0, 100.0, 37.0]))
        Ndat = int(rng.integers(600, 1500))
        t = np.arange(Ndat) / fs
        # lightly damped oscillators + noise -> stable poles survive the criteria
        data = 0.3 * rng.normal(size=(Ndat, Nch))
        for f0 in rng.uniform(1.0, fs / 2.5, size=3):
            shape = rng.normal(size=Nch)
            x = np.convolve(
                rng.normal(size=Ndat),
                np.exp(-0.02 * 2 * np.pi * f0 * t[:200]) * np.sin(2 * np.pi * f0 * t[:200]),
            )[:Ndat]
            data += np.outer(x, shape)
        params = random_params(rng, k, ordmax)
        algos = run_pair("pLSCF", params, data, fs, f"single#{k} {params}")
        if algos is None:
            n_exc += 1
            continue
        exercise_mpe(algos, rng, f"single#{k}")

    # equal exceptions: a hard / soft criteria dictionary without a needed entry
    data = rng.normal(size=(400, 3))
    for bad in (dict(hc=dict(conj=True, xi_max=0.1)), dict(sc=dict(err_fn=0.01))):
        assert run_pair("pLSCF", dict(ordmax=3, nxseg=64, **bad), data, 50.0, str(bad)) is None
        n_exc += 1

    # (b) exactly rational spectra fed through a patched spectral estimator
    true_SD_est = fdd.SD_est
    try:
        for k in range(n_cases):
            n, Nch, Nref, Nf, dt, sgn, ordmax = random_cfg(rng)
            Sy = rational_spectrum(rng, n, Nch, Nref, Nf, dt, sgn)
            freq = np.linspace(0.0, 0.5 / dt, Nf)
            calls = []

            def fake_SD_est(Yall, Yref, dt_, nxseg=1024, method="cor", pov=0.5):
                calls.append((Yall.shape, Yref.shape, dt_, nxseg, method, pov))
                return freq.copy(), Sy.copy()

            fdd.SD_est = fake_SD_est
            params = random_params(rng, k + 1, max(ordmax, 2))
            params["method_SD"] = "per" if sgn == -1 else "cor"
            data = rng.normal(size=(50, Nch))
            algos = run_pair("pLSCF", params, data, 1.0 / dt, f"rational#{k} {params}")
            # both classes must have forwarded the very same options
            assert len(calls) == 2 and calls[0] == calls[1], calls
            if algos is None:
                n_exc += 1
                continue
            exercise_mpe(algos, rng, f"rational#{k}")
    finally:
        fdd.SD_est = true_SD_est

    # (c) multi setup class
    for k in range(8):
        n_ref = int(rng.integers(1, 4))
        fs = 100.0
        Ndat = int(rng.integers(500, 900))
        data = []
        for _ in range(int(rng.integers(2, 4))):
            n_mov = int(rng.integers(1, 4))
            common = rng.normal(size=(2, Ndat)).cumsum(axis=1)
            common -= common.mean(axis=1, keepdims=True)
            mk = lambda r: rng.normal(size=(r, 2)) @ common * 0.05 + rng.normal(size=(r, Ndat))  # noqa: E731
            data.append({"ref": mk(n_ref), "mov": mk(n_mov)})
        params = random_params(rng, k, int(rng.integers(2, 6)))
        algos = run_pair("pLSCF_MS", params, data, fs, f"multi#{k} {params}")
        if algos is None:
            n_exc += 1
            continue
        exercise_mpe(algos, rng, f"multi#{k}")
    return n_exc


if __name__ == "__main__":
    rng = np.random.default_rng(20261004)
    e1 = check_functions(rng)
    n1 = N_CMP[0]
    e2 = check_classes(rng)
    print(
        f"functions: {n1} identical comparisons ({e1} cases with equal exceptions); "
        f"classes: {N_CMP[0] - n1} identical comparisons ({e2} runs with equal exceptions)"
    )
    print("statistics of the class level runs:", STATS)
    assert STATS["kept_poles"] > 0 and STATS["stable_labels"] > 0 and STATS["mpe_nonempty"] > 0
    print("PASS")
