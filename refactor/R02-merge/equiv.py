"""
Equivalence check for the behaviour-preserving refactoring of

    pyoma2.functions.gen.flatten_sns_names
    pyoma2.functions.gen.merge_mode_shapes   (+ new private helper _split_ref_rov)
    pyoma2.functions.gen.MSF
    pyoma2.setup.multi.MultiSetup_PoSER.merge_results (+ new helper _mean_and_cov)

The refactored code (imported from the worktree's src/) is compared with the
pristine HEAD copies orig_gen.py / orig_multi.py (imported by path).

Run:  PYTHONPATH=/tmp/wt/R02/src /venv/bin/python /tmp/wt/R02/_refactor/equiv.py
"""
import importlib.util
import logging
import os
import sys
import types

import numpy as np
import pandas as pd

HERE = os.path.dirname(os.path.abspath(__file__))
sys.path.insert(0, os.path.join(os.path.dirname(HERE), "src"))

from pyoma2.functions import gen as new_gen  # noqa: E402
from pyoma2.setup import multi as new_multi  # noqa: E402

assert os.path.abspath(new_gen.__file__).startswith("/tmp/wt/R02/src"), new_gen.__file__
assert os.path.abspath(new_multi.__file__).startswith("/tmp/wt/R02/src")


def _load(name, fname):
    spec = importlib.util.spec_from_file_location(name, os.path.join(HERE, fname))
    mod = importlib.util.module_from_spec(spec)
    sys.modules[name] = mod
    spec.loader.exec_module(mod)
    return mod


old_gen = _load("orig_gen", "orig_gen.py")
old_multi = _load("orig_multi", "orig_multi.py")
# the pristine multi.py imports merge_mode_shapes from the (refactored) package:
# re-bind it to the pristine implementation so that "old" is old all the way down
old_multi.merge_mode_shapes = old_gen.merge_mode_shapes
assert old_gen.merge_mode_shapes.__globals__["MSF"] is old_gen.MSF
assert not hasattr(old_gen, "_split_ref_rov") and hasattr(new_gen, "_split_ref_rov")
assert not hasattr(old_multi, "_mean_and_cov") and hasattr(new_multi, "_mean_and_cov")

N_CHECKS = {"exact": 0, "exc": 0}


def same(a, b, what):
    """bitwise identical arrays: same shape, dtype, values, NaN pattern"""
    a = np.asarray(a)
    b = np.asarray(b)
    assert a.shape == b.shape, (what, a.shape, b.shape)
    assert a.dtype == b.dtype, (what, a.dtype, b.dtype)
    assert np.array_equal(a, b, equal_nan=True), (what, np.max(np.abs(a - b)))
    # signed zeros as well
    if np.iscomplexobj(a):
        assert np.array_equal(np.signbit(a.real), np.signbit(b.real)), what
        assert np.array_equal(np.signbit(a.imag), np.signbit(b.imag)), what
    elif a.dtype.kind == "f":
        assert np.array_equal(np.signbit(a), np.signbit(b)), what
    N_CHECKS["exact"] += 1


def outcome(f, *a, **kw):
    try:
        return ("ok", f(*a, **kw))
    except BaseException as e:  # noqa: BLE001
        return ("exc", type(e), str(e))


def same_outcome(f_old, f_new, what, *a, **kw):
    o = outcome(f_old, *a, **kw)
    n = outcome(f_new, *a, **kw)
    assert o[0] == n[0], (what, o, n)
    if o[0] == "exc":
        assert o[1] is n[1], (what, o, n)
        assert o[2] == n[2], (what, o, n)
        N_CHECKS["exc"] += 1
    else:
        if isinstance(o[1], list):
            assert o[1] == n[1], (what, o[1], n[1])
            N_CHECKS["exact"] += 1
        else:
            same(o[1], n[1], what)
    return o


# ---------------------------------------------------------------------------
# random multi-setup layouts covering the quantifier of the property
# ---------------------------------------------------------------------------
def random_case(rng, cplx, n_setups=None, n_ref=None, n_modes=None):
    n_setups = n_setups or int(rng.integers(2, 6))  # 2..5
    n_ref = n_ref or int(rng.integers(1, 5))  # 1..4
    n_modes = n_modes or int(rng.integers(1, 9))  # 1..8
    n_rov = [int(rng.integers(0, 6)) for _ in range(n_setups)]  # 0..5
    n_glob = n_ref + sum(n_rov)
    glob = rng.standard_normal((n_glob, n_modes))
    if cplx:
        glob = glob + 1j * rng.standard_normal((n_glob, n_modes))
    MS, refl, names = [], [], []
    start = n_ref
    for s in range(n_setups):
        n_ch = n_ref + n_rov[s]
        # position and ordering of the references inside the channel list
        ref_pos = [int(p) for p in rng.permutation(n_ch)[:n_ref]]
        rov_pos = [p for p in range(n_ch) if p not in ref_pos]
        rows = np.empty(n_ch, dtype=int)
        rows[ref_pos] = np.arange(n_ref)  # ref_pos[j] holds global reference j
        rows[rov_pos] = np.arange(start, start + n_rov[s])
        start += n_rov[s]
        scale = rng.uniform(0.05, 20.0, n_modes) * rng.choice([-1.0, 1.0], n_modes)
        MS.append(glob[rows, :] * scale[None, :])
        refl.append(ref_pos)
        names.append([f"s{s}_g{r}" for r in rows])
    return glob, MS, refl, names


def check_gen(rng):
    for it in range(60):
        cplx = bool(it % 2)
        glob, MS, refl, names = random_case(rng, cplx)
        same_outcome(
            old_gen.merge_mode_shapes, new_gen.merge_mode_shapes, f"merge {it}", MS, refl
        )
        # keyword call, as done by merge_results before the refactoring
        same_outcome(
            old_gen.merge_mode_shapes,
            new_gen.merge_mode_shapes,
            f"merge kw {it}",
            MSarr_list=MS,
            reflist=refl,
        )
        # sanity: the property itself holds for the refactored code
        merged = new_gen.merge_mode_shapes(MS, refl)
        scale0 = MS[0][refl[0][0], :] / glob[0, :]
        assert np.allclose(merged, glob * scale0[None, :], rtol=1e-9, atol=1e-12)
        # mixed real / complex setups, Fortran ordered / non contiguous inputs
        MS2 = [np.asfortranarray(m) if i % 2 else m for i, m in enumerate(MS)]
        MS2[-1] = MS2[-1].astype(complex)
        same_outcome(
            old_gen.merge_mode_shapes, new_gen.merge_mode_shapes, f"mergeF {it}", MS2, refl
        )
        # reference indices as numpy arrays / tuples of setups
        same_outcome(
            old_gen.merge_mode_shapes,
            new_gen.merge_mode_shapes,
            f"merge nd {it}",
            MS,
            [np.array(r) for r in refl],
        )
        # names flattening (list of lists and DataFrame form)
        same_outcome(
            old_gen.flatten_sns_names, new_gen.flatten_sns_names, f"flat {it}", names, refl
        )
        same_outcome(
            old_gen.flatten_sns_names,
            new_gen.flatten_sns_names,
            f"flat kw {it}",
            sens_names=names,
            ref_ind=refl,
        )
        df = pd.DataFrame(names)
        same_outcome(
            old_gen.flatten_sns_names, new_gen.flatten_sns_names, f"flat df {it}", df, refl
        )
        flat = new_gen.flatten_sns_names(names, refl)
        assert len(flat) == merged.shape[0]

        # MSF: vectors and matrices, real and complex
        n, m = int(rng.integers(1, 7)), int(rng.integers(1, 9))
        for shape in [(n,), (n, m)]:
            a = rng.standard_normal(shape)
            b = rng.standard_normal(shape)
            if cplx:
                a = a + 1j * rng.standard_normal(shape)
                b = b + 1j * rng.standard_normal(shape)
            same_outcome(old_gen.MSF, new_gen.MSF, f"MSF {it}", a, b)
            same_outcome(old_gen.MSF, new_gen.MSF, f"MSF kw {it}", phi_1=a, phi_2=b)
            same_outcome(old_gen.MSF, new_gen.MSF, f"MSF mixed {it}", a, b.real)
            same_outcome(old_gen.MSF, new_gen.MSF, f"MSF F {it}", np.asfortranarray(a), b)
        # a vector against a one-column matrix
        a = rng.standard_normal(n)
        same_outcome(old_gen.MSF, new_gen.MSF, f"MSF 1d2d {it}", a, a[:, None] * 3.0)

    # --- degenerate values: zero reference vector -> nan/inf pattern ------------
    with np.errstate(all="ignore"):
        _, MS, refl, _ = random_case(rng, False, n_setups=3, n_ref=2, n_modes=3)
        MS[1] = MS[1].copy()
        MS[1][refl[1], 1] = 0.0
        same_outcome(old_gen.merge_mode_shapes, new_gen.merge_mode_shapes, "zero ref", MS, refl)
        same_outcome(old_gen.MSF, new_gen.MSF, "MSF zero", np.zeros(3), np.ones(3))
        MS[2] = MS[2].copy()
        MS[2][0, 0] = np.nan
        same_outcome(old_gen.merge_mode_shapes, new_gen.merge_mode_shapes, "nan", MS, refl)

    # --- equal exceptions --------------------------------------------------------
    _, MS, refl, names = random_case(rng, True, n_setups=3, n_ref=2, n_modes=4)
    bad = [MS[0], MS[1][:, :3], MS[2]]
    o = same_outcome(old_gen.merge_mode_shapes, new_gen.merge_mode_shapes, "modes", bad, refl)
    assert o[0] == "exc" and o[1] is ValueError
    o = same_outcome(
        old_gen.merge_mode_shapes,
        new_gen.merge_mode_shapes,
        "oob",
        MS,
        [refl[0], [0, 99], refl[2]],
    )
    assert o[0] == "exc" and o[1] is IndexError
    o = same_outcome(
        old_gen.merge_mode_shapes, new_gen.merge_mode_shapes, "short reflist", MS, refl[:2]
    )
    assert o[0] == "exc" and o[1] is IndexError
    # different number of references in one setup
    same_outcome(
        old_gen.merge_mode_shapes,
        new_gen.merge_mode_shapes,
        "nref mismatch",
        MS,
        [refl[0], refl[1][:1], refl[2]],
    )
    same_outcome(old_gen.merge_mode_shapes, new_gen.merge_mode_shapes, "1d", [MS[0][:, 0]], refl)
    same_outcome(old_gen.merge_mode_shapes, new_gen.merge_mode_shapes, "empty", [], [])
    # negative reference indices are handled by both in the same way
    nneg = [[r - MS[i].shape[0] for r in refl[i]] for i in range(3)]
    same_outcome(old_gen.merge_mode_shapes, new_gen.merge_mode_shapes, "neg", MS, nneg)

    o = same_outcome(old_gen.MSF, new_gen.MSF, "MSF shape", np.ones(3), np.ones(4))
    assert o[0] == "exc" and o[1] is Exception
    o = same_outcome(old_gen.MSF, new_gen.MSF, "MSF shape2", np.ones((3, 2)), np.ones((3, 4)))
    assert o[0] == "exc" and o[1] is Exception
    same_outcome(old_gen.MSF, new_gen.MSF, "MSF shape3", np.ones((3, 2)), np.ones(3))

    o = same_outcome(old_gen.flatten_sns_names, new_gen.flatten_sns_names, "flat none", names)
    assert o[0] == "exc" and o[1] is AttributeError
    o = same_outcome(old_gen.flatten_sns_names, new_gen.flatten_sns_names, "flat bad", 3)
    assert o[0] == "exc" and o[1] is ValueError
    o = same_outcome(
        old_gen.flatten_sns_names, new_gen.flatten_sns_names, "flat short", names, refl[:2]
    )
    assert o[0] == "exc" and o[1] is IndexError
    # untouched branches still behave the same
    same_outcome(old_gen.flatten_sns_names, new_gen.flatten_sns_names, "flat 1", ["a", "b"])
    same_outcome(
        old_gen.flatten_sns_names, new_gen.flatten_sns_names, "flat arr", np.array(["a", "b"])
    )
    same_outcome(
        old_gen.flatten_sns_names, new_gen.flatten_sns_names, "flat df1", pd.DataFrame([["a", "b"]])
    )
    # DataFrame with rows of different length (NaN padded)
    ragged = pd.DataFrame([["a", "b", "c"], ["d", "e", None]])
    same_outcome(
        old_gen.flatten_sns_names, new_gen.flatten_sns_names, "flat rag", ragged, [[0], [1]]
    )


# ---------------------------------------------------------------------------
# MultiSetup_PoSER.merge_results
# ---------------------------------------------------------------------------
class _Log(logging.Handler):
    def __init__(self):
        super().__init__(level=logging.DEBUG)
        self.msgs = []

    def emit(self, record):
        self.msgs.append((record.levelname, record.getMessage()))


def run_poser(mod, ref_ind, setups, names):
    h = _Log()
    lg = mod.logger
    old_level = lg.level
    lg.addHandler(h)
    lg.setLevel(logging.DEBUG)
    try:
        msp = mod.MultiSetup_PoSER(ref_ind=ref_ind, single_setups=setups, names=names)
        res = msp.merge_results()
        assert res is msp.result
        res2 = msp.merge_results()  # second call re-uses / overwrites the dict
        assert res2 is res
    finally:
        lg.removeHandler(h)
        lg.setLevel(old_level)
    return res, h.msgs


def compare_poser(ref_ind, setups, names, what):
    o = outcome(run_poser, old_multi, ref_ind, setups, names)
    n = outcome(run_poser, new_multi, ref_ind, setups, names)
    assert o[0] == n[0], (what, o, n)
    if o[0] == "exc":
        assert o[1] is n[1] and o[2] == n[2], (what, o, n)
        N_CHECKS["exc"] += 1
        return o
    (ro, lo), (rn, ln) = o[1], n[1]
    assert lo == ln, (what, lo, ln)  # same log records in the same order
    assert list(ro.keys()) == list(rn.keys()) == list(names), what
    for key in ro:
        assert type(rn[key]).__name__ == "MsPoserResult"
        for field in ("Phi", "Fn", "Fn_cov", "Xi", "Xi_cov"):
            same(getattr(ro[key], field), getattr(rn[key], field), f"{what} {key}.{field}")
    return o


class FakeAlgA:
    def __init__(self, name, Fn, Xi, Phi):
        self.name = name
        self.result = types.SimpleNamespace(Fn=Fn, Xi=Xi, Phi=Phi)


class FakeAlgB(FakeAlgA):
    pass


def check_poser_fake(rng):
    for it in range(40):
        cplx = bool(it % 2)
        n_alg = 1 + it % 2
        glob, MS, refl, _ = random_case(rng, cplx)
        n_modes = glob.shape[1]
        fn0 = np.sort(rng.uniform(0.5, 40.0, n_modes))
        xi0 = rng.uniform(0.002, 0.05, n_modes)
        setups = []
        for s, phi in enumerate(MS):
            algs = {}
            for a, cls in enumerate([FakeAlgA, FakeAlgB][:n_alg]):
                fn = fn0 * (1 + 1e-3 * rng.standard_normal(n_modes))
                xi = xi0 * (1 + 1e-1 * rng.standard_normal(n_modes))
                # the second algorithm sees the shapes with yet another scale
                algs[f"alg{a}_{s}"] = cls(f"alg{a}_{s}", fn, xi, phi * (1.0 + a))
            setups.append(types.SimpleNamespace(algorithms=algs))
        names = ["first", "second"][:n_alg]
        o = compare_poser(refl, setups, names, f"poser fake {it}")
        assert o[0] == "ok"
        res = o[1][0]
        fn_all = np.array([list(s.algorithms.values())[0].result.Fn for s in setups])
        assert np.allclose(res["first"].Fn, fn_all.mean(axis=0), rtol=1e-13)
        assert np.allclose(
            res["first"].Fn_cov, fn_all.std(axis=0, ddof=0) / fn_all.mean(axis=0), rtol=1e-12
        )

    # exceptions raised through merge_results: mode number mismatch between setups
    glob, MS, refl, _ = random_case(rng, False, n_setups=2, n_ref=2, n_modes=3)
    setups = [
        types.SimpleNamespace(
            algorithms={"a": FakeAlgA("a0", np.ones(3), np.ones(3), MS[0])}
        ),
        types.SimpleNamespace(
            algorithms={"a": FakeAlgA("a1", np.ones(3), np.ones(3), MS[1][:, :2])}
        ),
    ]
    o = compare_poser(refl, setups, ["x"], "poser exc")
    assert o[0] == "exc" and o[1] is ValueError
    # ragged Fn between the setups
    setups[1].algorithms["a"] = FakeAlgA("a1", np.ones(2), np.ones(3), MS[1])
    compare_poser(refl, setups, ["x"], "poser ragged")


def check_poser_ssi(rng):
    """end-to-end: SSI runs on noise-free data of one global system, recorded
    with a different amplitude in every setup"""
    from pyoma2.algorithms import SSIcov
    from pyoma2.setup import SingleSetup

    fs = 50.0
    n_dof = 6
    # shear-type chain, proportional damping
    K = 2.0e3 * (2 * np.eye(n_dof) - np.eye(n_dof, k=1) - np.eye(n_dof, k=-1))
    K[-1, -1] = 2.0e3
    w2, V = np.linalg.eigh(K)
    wn = np.sqrt(w2)
    xi = np.full(n_dof, 0.01)
    t = np.arange(0, 120.0, 1 / fs)
    wd = wn * np.sqrt(1 - xi**2)

    def record(amp, seed):
        r = np.random.default_rng(seed)
        q = np.zeros((n_dof, t.size))
        for m in range(n_dof):
            a, ph = r.uniform(0.5, 1.5), r.uniform(0, 2 * np.pi)
            q[m] = a * np.exp(-xi[m] * wn[m] * t) * np.cos(wd[m] * t + ph)
        return amp * (V @ q).T  # (time, dof)

    layouts = [[0, 1, 2, 3], [4, 1, 0], [0, 5, 1]]  # global dofs per setup
    ref_ind = [[0, 1], [2, 1], [0, 2]]  # positions of global dofs 0 and 1
    amps = [1.0, -7.5, 0.08]
    fn_true = wn / (2 * np.pi)
    sel = [float(f) for f in fn_true[:3]]
    setups = []
    for s, (lay, amp) in enumerate(zip(layouts, amps)):
        data = record(amp, 100 + s)[:, lay]
        ss = SingleSetup(data, fs=fs)
        alg = SSIcov(name=f"SSIcov{s}", method="cov_mm", br=20, ordmax=30, calc_unc=False)
        ss.add_algorithms(alg)
        ss.run_all()
        ss.mpe(f"SSIcov{s}", sel_freq=sel, order=2 * n_dof)
        setups.append(ss)
    o = compare_poser(ref_ind, setups, ["ssi"], "poser ssi")
    assert o[0] == "ok", o
    res = o[1][0]["ssi"]
    assert np.allclose(res.Fn, fn_true[:3], rtol=1e-3), (res.Fn, fn_true[:3])
    # the merged shape is (up to one factor per mode) the global shape
    glob = V[:, :3][[0, 1, 2, 3, 4, 5], :]
    mac = np.abs(np.sum(res.Phi.conj() * glob, axis=0)) ** 2 / (
        np.sum(np.abs(res.Phi) ** 2, axis=0) * np.sum(glob**2, axis=0)
    )
    assert np.all(mac > 0.999), mac


if __name__ == "__main__":
    rng = np.random.default_rng(20261003)
    check_gen(rng)
    check_poser_fake(rng)
    try:
        check_poser_ssi(rng)
        ssi = "ran"
    except ImportError as e:  # pragma: no cover
        ssi = f"skipped ({e})"
    print(f"checks: {N_CHECKS['exact']} identical results, {N_CHECKS['exc']} identical exceptions; SSI end-to-end {ssi}")
    print("PASS")
