"""
Differential test: the refactored pyoma2.functions.ssi (CLEAN version) against the
pristine copy saved next to this script as orig_ssi.py, on randomly generated inputs
and configurations of the touched routines (SSI_fast, SSI_poles and their new
helpers) and of the layer that calls them (SSIcov.run).

Run as:  PYTHONPATH=<tree>/src /venv/bin/python equiv.py
"""

import importlib.util
import logging
import os
import sys
import warnings

import numpy as np

logging.disable(logging.CRITICAL)
warnings.filterwarnings("ignore")

HERE = os.path.dirname(os.path.abspath(__file__))


def load(name, path):
    spec = importlib.util.spec_from_file_location(name, path)
    mod = importlib.util.module_from_spec(spec)
    spec.loader.exec_module(mod)
    return mod


orig = load("orig_ssi", os.path.join(HERE, "orig_ssi.py"))
from pyoma2.functions import ssi as new  # noqa: E402

for m in (orig, new):
    m.trange = lambda *a, **k: range(*a)
    m.tqdm = lambda it, *a, **k: it

DT = 0.05
failures = []
n_compared = 0
n_raised = 0


def same(a, b):
    if a is None or b is None:
        return a is None and b is None
    if isinstance(a, (list, tuple)):
        return (
            isinstance(b, (list, tuple))
            and len(a) == len(b)
            and all(same(x, y) for x, y in zip(a, b))
        )
    a, b = np.asarray(a), np.asarray(b)
    if a.shape != b.shape or a.dtype != b.dtype:
        return False
    return np.array_equal(a, b, equal_nan=True) or np.allclose(
        a, b, rtol=1e-12, atol=0, equal_nan=True
    )


def call(f, *args, **kw):
    try:
        return ("ok", f(*args, **kw))
    except Exception as e:  # noqa: BLE001 - the exception type is what is compared
        return ("raised", type(e).__name__)


def compare(label, f_name, *args, **kw):
    global n_compared, n_raised
    a = call(getattr(orig, f_name), *args, **kw)
    b = call(getattr(new, f_name), *args, **kw)
    n_compared += 1
    n_raised += a[0] == "raised"
    if a[0] != b[0] or (a[0] == "raised" and a[1] != b[1]):
        failures.append(f"{label}: {f_name}: orig {a[0]} {a[1] if a[0]=='raised' else ''}"
                        f" / new {b[0]} {b[1] if b[0]=='raised' else ''}")
        return None
    if a[0] == "ok" and not same(a[1], b[1]):
        failures.append(f"{label}: {f_name}: outputs differ")
    return b[1] if b[0] == "ok" else None


def random_hankel(rng, l, r, p, n):  # noqa: E741
    nm = max(n // 2, 1)
    f = rng.uniform(0.5, 8.0, nm)
    xi = rng.uniform(0.005, 0.06, nm)
    lam = np.exp((-xi * 2 * np.pi * f + 2j * np.pi * f * np.sqrt(1 - xi**2)) * DT)
    A = np.zeros((2 * nm, 2 * nm))
    for k, lk in enumerate(lam):
        A[2 * k : 2 * k + 2, 2 * k : 2 * k + 2] = [
            [lk.real, lk.imag],
            [-lk.imag, lk.real],
        ]
    C = rng.standard_normal((l, 2 * nm))
    G = rng.standard_normal((2 * nm, r))
    O = np.vstack([C @ np.linalg.matrix_power(A, i) for i in range(p + 1)])  # noqa: E741
    Ctr = np.hstack([np.linalg.matrix_power(A, i) @ G for i in range(p + 1)])
    H = O @ Ctr
    eps = 10.0 ** rng.uniform(-5, -1)
    return H + eps * np.linalg.norm(H) / np.sqrt(H.size) * rng.standard_normal(H.shape)


def main():
    rng = np.random.default_rng(20240917)

    # ---- function level: 40 random configurations -------------------------------
    for case in range(40):
        l = int(rng.integers(1, 4))  # noqa: E741
        r = int(rng.integers(1, l + 1))
        p = int(rng.integers(2, 6))
        n = 2 * int(rng.integers(1, 4))
        ordmax = int(rng.integers(2, min(8, p * l, (p + 1) * r) + 1))
        ncol = int(rng.integers(1, 21))
        step = 1 if case % 8 else 2  # step 2 is not supported by either version
        H = random_hankel(rng, l, r, p, n)
        T = rng.standard_normal((H.size, ncol)) * 10.0 ** rng.uniform(-4, 0)
        if case % 5 == 0:
            T = np.asfortranarray(T)
        label = f"case {case} (l={l} r={r} br={p} ordmax={ordmax} nb={ncol} step={step})"

        # without uncertainties
        out = compare(label + " plain", "SSI_fast", H, p, ordmax, step=step)
        if out is not None:
            Obs, A, C = out[:3]
            compare(label + " plain", "SSI_poles", Obs, A, C, ordmax, DT, step=step)

        # with uncertainties, twice in a row (the second call must not differ)
        for rep in range(2):
            lab = f"{label} unc #{rep}"
            out = compare(
                lab, "SSI_fast", H, p, ordmax, step=step, calc_unc=True, T=T, nb=ncol
            )
            if out is None:
                continue
            Obs, A, C, Q1, Q2, Q3, Q4 = out
            compare(
                lab, "SSI_poles", Obs, A, C, ordmax, DT, step=step,
                calc_unc=True, Q1=Q1, Q2=Q2, Q3=Q3, Q4=Q4,
            )  # fmt: skip
            # positional spelling of the same call
            compare(
                lab + " positional", "SSI_poles",
                Obs, A, C, ordmax, DT, step, True, Q1, Q2, Q3, Q4,
            )  # fmt: skip

        # misuse that both versions must reject alike
        if case % 10 == 3:
            compare(label + " T=None", "SSI_fast", H, p, ordmax, calc_unc=True)
            compare(
                label + " nb mismatch", "SSI_fast",
                H, p, ordmax, calc_unc=True, T=T, nb=ncol + 1,
            )  # fmt: skip
            compare(
                label + " Q=None", "SSI_poles", Obs, A, C, ordmax, DT, calc_unc=True
            )

        # ac2mp with and without the eigenvectors
        Am = rng.standard_normal((ordmax, ordmax))
        Cm = rng.standard_normal((l, ordmax))
        compare(label, "ac2mp", Am, Cm, DT, calc_unc=bool(case % 2))

    # ---- data level: build_hank + the algorithm class ---------------------------
    import pyoma2.algorithms.ssi as alg_mod
    from pyoma2.algorithms import SSIcov
    from pyoma2.setup import SingleSetup

    def run_ssicov(module, data, **params):
        alg_mod.ssi = module
        try:
            ss = SingleSetup(data, fs=1 / DT)
            ss.add_algorithms(SSIcov(name="a", **params))
            ss.run_by_name("a")
            res = ss["a"].result
            return [
                res.H, res.Obs, res.A, res.C, res.Lambds, res.Fn_poles, res.Xi_poles,
                res.Phi_poles, res.Lab, res.Fn_poles_cov, res.Xi_poles_cov,
                res.Phi_poles_cov,
            ]  # fmt: skip
        finally:
            alg_mod.ssi = new

    global n_compared, n_raised
    for case in range(8):
        nch = int(rng.integers(1, 4))
        ndat = int(rng.integers(1500, 3000))
        x = np.zeros(4)
        f = np.array([1.3, 3.1])
        lam = np.exp((-0.02 * 2 * np.pi * f + 2j * np.pi * f) * DT)
        A = np.zeros((4, 4))
        for k, lk in enumerate(lam):
            A[2 * k : 2 * k + 2, 2 * k : 2 * k + 2] = [
                [lk.real, lk.imag],
                [-lk.imag, lk.real],
            ]
        Cm = rng.standard_normal((nch, 4))
        data = np.empty((ndat, nch))
        for t in range(ndat):
            x = A @ x + rng.standard_normal(4)
            data[t] = Cm @ x
        data += 0.05 * data.std() * rng.standard_normal(data.shape)
        ref = sorted(rng.choice(nch, size=int(rng.integers(1, nch + 1)), replace=False))
        ref_ind = None if case % 3 == 0 else [int(i) for i in ref]
        br = int(rng.integers(2, 6))
        nref = nch if ref_ind is None else len(ref_ind)
        ordmax = int(rng.integers(2, min(8, br * nch, (br + 1) * nref) + 1))
        nb = int(rng.integers(2, 21))
        calc_unc = case != 7
        label = (
            f"data case {case} (nch={nch} ref={ref_ind} br={br} ordmax={ordmax} "
            f"nb={nb} calc_unc={calc_unc})"
        )
        Y = data.T
        Yref = Y if ref_ind is None else Y[ref_ind, :]
        compare(label, "build_hank", Y, Yref, br, "cov_mm", calc_unc=calc_unc, nb=nb)
        params = dict(br=br, ordmax=ordmax, ref_ind=ref_ind, calc_unc=calc_unc, nb=nb)
        for rep in range(2):
            a = call(run_ssicov, orig, data, **params)
            b = call(run_ssicov, new, data, **params)
            n_compared += 1
            n_raised += a[0] == "raised"
            if a[0] != b[0] or (a[0] == "raised" and a[1] != b[1]):
                failures.append(f"{label} run #{rep}: orig {a} / new {b}")
            elif a[0] == "ok" and not same(a[1], b[1]):
                failures.append(f"{label} run #{rep}: SSIcov results differ")

    if failures:
        print("FAIL")
        for line in failures[:20]:
            print("  " + line)
        print(f"{len(failures)} difference(s) in {n_compared} comparisons")
        return 1
    print(
        f"PASS ({n_compared} comparisons, no difference; in {n_raised} of them both "
        "versions raised the same exception)"
    )
    return 0


if __name__ == "__main__":
    sys.exit(main())
