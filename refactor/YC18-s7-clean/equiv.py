"""Differential test: touched routines of pyoma2.functions.gen (as importable
through PYTHONPATH) against the pristine copy saved next to this file as
orig_gen.py.

    PYTHONPATH=<tree>/src /venv/bin/python equiv.py
"""
import importlib.util
import os
import sys
import warnings

import numpy as np

warnings.filterwarnings("ignore")

HERE = os.path.dirname(os.path.abspath(__file__))


def _load(name, path):
    spec = importlib.util.spec_from_file_location(name, path)
    mod = importlib.util.module_from_spec(spec)
    spec.loader.exec_module(mod)
    return mod


orig = _load("orig_gen", os.path.join(HERE, "orig_gen.py"))
from pyoma2.functions import gen as new  # noqa: E402

RTOL = 1e-12
ATOL = 1e-12  # only matters for the dimensionless indicators that are ~0
failures = []
n_cases = 0


def call(f, *a):
    try:
        return ("ok", f(*a))
    except Exception as e:  # noqa: BLE001
        return ("exc", type(e).__name__, str(e))


def same(r_o, r_n, atol=ATOL):
    if r_o[0] != r_n[0]:
        return False
    if r_o[0] == "exc":
        return r_o[1:] == r_n[1:]
    a, b = r_o[1], r_n[1]
    if isinstance(a, tuple):
        return len(a) == len(b) and all(
            same(("ok", x), ("ok", y), atol) for x, y in zip(a, b)
        )
    a = np.asarray(a)
    b = np.asarray(b)
    if a.shape != b.shape:
        return False
    if np.iscomplexobj(b) and not np.iscomplexobj(a):
        return False
    return bool(
        np.array_equal(a, b, equal_nan=True)
        or np.allclose(a, b, rtol=RTOL, atol=atol, equal_nan=True)
    )


def check(label, fname, *args, atol=ATOL):
    global n_cases
    n_cases += 1
    r_o = call(getattr(orig, fname), *args)
    r_n = call(getattr(new, fname), *args)
    if not same(r_o, r_n, atol):
        failures.append((label, fname, r_o, r_n))


def cshape(rng, n, m=None, kind="generic"):
    size = (n,) if m is None else (n, m)
    if kind == "real":
        return rng.standard_normal(size)
    if kind == "int":
        return rng.integers(-5, 6, size=size) + (rng.integers(0, 2, size=size) * 7)
    if kind == "collinear":
        ph = np.exp(1j * rng.uniform(0, 2 * np.pi, size=size[1:] or None))
        return rng.standard_normal(size) * ph
    if kind == "near":
        ph = np.exp(1j * rng.uniform(0, 2 * np.pi, size=size[1:] or None))
        return rng.standard_normal(size) * ph + 1e-7 * (
            rng.standard_normal(size) + 1j * rng.standard_normal(size)
        )
    phi = rng.standard_normal(size) + 1j * rng.standard_normal(size)
    if kind == "zeros":
        phi[rng.integers(0, n)] = 0
    if kind == "unitcomp":
        k = np.argmax(np.abs(phi), axis=0)
        phi = phi / (phi[k] if m is None else phi[k, np.arange(m)])
    return phi


rng = np.random.default_rng(20240518)
kinds = ["generic", "real", "collinear", "near", "zeros", "unitcomp", "int"]

for trial in range(60):
    n = int(rng.integers(2, 65))
    kind = kinds[trial % len(kinds)]
    p = int(rng.integers(1, 7))
    q = int(rng.integers(1, 7))
    sc1 = 10.0 ** rng.uniform(-6, 6) * np.exp(1j * rng.uniform(0, 2 * np.pi))
    sc2 = 10.0 ** rng.uniform(-6, 6) * np.exp(1j * rng.uniform(0, 2 * np.pi))
    if kind in ("real", "int"):
        sc1 = sc2 = 1

    # --- single vectors
    v = cshape(rng, n, kind=kind) * sc1
    w = cshape(rng, n, kind=kind) * sc2
    check(f"t{trial} vec", "MAC", v, w)
    check(f"t{trial} vec self", "MAC", v, v * sc2)
    check(f"t{trial} vec", "MCF", v)
    # MSF is a ratio carrying the scale of the inputs: relative comparison only
    check(f"t{trial} vec", "MSF", v, w, atol=0.0)
    check(f"t{trial} vec c", "MSF", v, -3.5 * v, atol=0.0)

    # --- sets of shapes (rectangular MAC), mixed vector / matrix
    X = cshape(rng, n, p, kind=kind) * sc1
    A = cshape(rng, n, q, kind=kind) * sc2
    check(f"t{trial} mat", "MAC", X, A)
    check(f"t{trial} mat", "MAC", A, X)
    check(f"t{trial} mat self", "MAC", X, X)
    check(f"t{trial} vec-mat", "MAC", v, A)
    check(f"t{trial} mat-vec", "MAC", X, w)
    check(f"t{trial} col-mat", "MAC", X[:, :1], A)
    check(f"t{trial} mat", "MCF", X)
    B = cshape(rng, n, p, kind=kind) * sc2
    check(f"t{trial} mat", "MSF", X, B, atol=0.0)
    check(f"t{trial} mat-col", "MSF", X[:, :1], B[:, 0], atol=0.0)

    # --- exceptions
    check(f"t{trial} exc rows", "MAC", X, A[:-1])
    check(f"t{trial} exc 3d", "MAC", X[:, :, None], A)
    check(f"t{trial} exc 3d b", "MAC", X, A[:, :, None])
    check(f"t{trial} exc msf", "MSF", X, A[:, : max(1, q - 1)][:-1], atol=0.0)
    check(f"t{trial} exc msf cols", "MSF", X, np.c_[X, X[:, :1]], atol=0.0)

    # --- zero vector (NaN in both)
    z = np.zeros(n, dtype=complex)
    check(f"t{trial} zero", "MAC", z, w)
    check(f"t{trial} zero", "MCF", z)

# --- calling layer: hard criteria on (orders, poles, channels) arrays with NaN rows
for trial in range(25):
    n_ord = int(rng.integers(1, 6))
    n_pol = int(rng.integers(1, 9))
    n_ch = int(rng.integers(2, 12))
    kind = ["generic", "near", "collinear", "zeros"][trial % 4]
    phi = np.stack(
        [cshape(rng, n_ch, n_pol, kind=kind).T for _ in range(n_ord)], axis=0
    )  # (orders, poles, channels)
    drop = rng.random((n_ord, n_pol)) < 0.3
    phi[drop] = np.nan
    if trial % 5 == 0:
        phi[0, 0, 0] = np.nan  # partially NaN shape
    mpc_lim = [0.5, 0.7, 0.9, 0.99][trial % 4]
    mpd_lim = [0.05, 0.15, 0.3, 0.8][(trial // 4) % 4]
    check(f"hc{trial}", "HC_phi_comp", phi, mpc_lim, mpd_lim)
    r_o = call(orig.HC_phi_comp, phi, mpc_lim, mpd_lim)
    r_n = call(new.HC_phi_comp, phi, mpc_lim, mpd_lim)
    if r_o[0] == "ok" and r_n[0] == "ok":
        for a, b in zip(r_o[1], r_n[1]):
            if a.dtype != b.dtype:
                failures.append((f"hc{trial} dtype", "HC_phi_comp", a.dtype, b.dtype))

# --- calling layer: soft criteria (MAC between poles of consecutive orders)
for trial in range(12):
    n_ord = int(rng.integers(3, 8))
    n_pol = int(rng.integers(2, 8))
    n_ch = int(rng.integers(2, 10))
    Fn = np.sort(rng.uniform(1, 20, size=(n_pol, 1)), axis=0) * (
        1 + 0.004 * rng.standard_normal((n_pol, n_ord))
    )
    Xi = 0.02 * (1 + 0.03 * rng.standard_normal((n_pol, n_ord)))
    base = cshape(rng, n_ch, n_pol).T[:, None, :]
    Phi = base * (1 + 0.02 * rng.standard_normal((n_pol, n_ord, n_ch)))
    Phi = Phi * np.exp(1j * rng.uniform(0, 2 * np.pi, size=(n_pol, n_ord, 1)))
    nanmask = rng.random((n_pol, n_ord)) < 0.2
    Fn[nanmask] = np.nan
    Xi[nanmask] = np.nan
    Phi[nanmask] = np.nan
    check(f"sc{trial}", "SC_apply", Fn, Xi, Phi, 0, n_ord - 1, 1, 0.01, 0.05, 0.03)

# --- merging layer (MSF)
for trial in range(12):
    n_modes = int(rng.integers(1, 5))
    n_ref = int(rng.integers(1, 4))
    n_set = int(rng.integers(2, 4))
    ms, refs = [], []
    for _ in range(n_set):
        n_s = n_ref + int(rng.integers(1, 5))
        ms.append(cshape(rng, n_s, n_modes))
        refs.append(sorted(rng.choice(n_s, size=n_ref, replace=False).tolist()))
    check(f"merge{trial}", "merge_mode_shapes", ms, refs, atol=0.0)

print(f"{n_cases} comparisons")
if failures:
    print("FAIL")
    for f in failures[:10]:
        print("  ", f)
    sys.exit(1)
print("PASS")
