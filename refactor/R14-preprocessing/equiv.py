"""Equivalence check: refactored pyoma2.setup.{base,single,multi} vs. the pristine HEAD copies.

Run:  PYTHONPATH=/tmp/wt/R14/src /venv/bin/python /tmp/wt/R14/_refactor/equiv.py
"""
import copy
import importlib.util
import itertools
import os
import sys

import numpy as np

HERE = os.path.dirname(os.path.abspath(__file__))

import pyoma2.setup  # noqa: E402  (refactored package, loads base/single/multi)
import pyoma2.setup.base as new_base  # noqa: E402
import pyoma2.setup.multi as new_multi  # noqa: E402
import pyoma2.setup.single as new_single  # noqa: E402
from pyoma2.algorithms import FDD, FDD_MS, SSIcov, SSIcov_MS  # noqa: E402

assert new_base.__file__.startswith("/tmp/wt/R14/src"), new_base.__file__


def _load(name, fname):
    spec = importlib.util.spec_from_file_location(name, os.path.join(HERE, fname))
    mod = importlib.util.module_from_spec(spec)
    spec.loader.exec_module(mod)
    return mod


# Load the originals so that orig_single/orig_multi inherit from the ORIGINAL BaseSetup /
# SingleSetup: temporarily redirect the module names they import from.
_saved = {k: sys.modules[k] for k in ("pyoma2.setup.base", "pyoma2.setup.single")}
try:
    orig_base = _load("orig_base", "orig_base.py")
    sys.modules["pyoma2.setup.base"] = orig_base
    orig_single = _load("orig_single", "orig_single.py")
    sys.modules["pyoma2.setup.single"] = orig_single
    orig_multi = _load("orig_multi", "orig_multi.py")
finally:
    sys.modules.update(_saved)

assert orig_single.SingleSetup.__mro__[1] is orig_base.BaseSetup
assert orig_multi.MultiSetup_PreGER.__mro__[1] is orig_base.BaseSetup
assert new_single.SingleSetup.__mro__[1] is new_base.BaseSetup
assert new_multi.MultiSetup_PreGER.__mro__[1] is new_base.BaseSetup
assert orig_base.BaseSetup is not new_base.BaseSetup

N_CHECKS = 0


def same(a, b, path="?"):
    """Strict structural + bitwise equality (types, dtypes, shapes, values incl. NaN pattern)."""
    global N_CHECKS
    N_CHECKS += 1
    assert type(a) is type(b), (path, type(a), type(b))
    if isinstance(a, np.ndarray):
        assert a.dtype == b.dtype and a.shape == b.shape, (path, a.dtype, b.dtype, a.shape, b.shape)
        assert np.array_equal(a, b, equal_nan=True), path
        assert a.flags["C_CONTIGUOUS"] == b.flags["C_CONTIGUOUS"], path
    elif isinstance(a, dict):
        assert list(a.keys()) == list(b.keys()), path
        for k in a:
            same(a[k], b[k], f"{path}[{k!r}]")
    elif isinstance(a, (list, tuple)):
        assert len(a) == len(b), path
        for i, (x, y) in enumerate(zip(a, b)):
            same(x, y, f"{path}[{i}]")
    elif isinstance(a, float):
        assert a == b or (a != a and b != b), (path, a, b)
    else:
        assert a == b, (path, a, b)


SINGLE_ATTRS = ["data", "fs", "dt", "Nch", "Ndat", "T", "_initial_data", "_initial_fs"]
MULTI_ATTRS = [
    "data", "datasets", "fs", "dt", "Nsetup", "Nchs", "Ndats", "Ts", "ref_ind",
    "_initial_fs", "_initial_ref_ind", "_initial_datasets",
]


def compare_state(o, n, attrs, tag):
    for a in attrs:
        ho, hn = hasattr(o, a), hasattr(n, a)
        assert ho == hn, (tag, a)
        if ho:
            same(getattr(o, a), getattr(n, a), f"{tag}.{a}")
    assert list(o.algorithms) == list(n.algorithms), tag
    for k in o.algorithms:
        ao, an = o.algorithms[k], n.algorithms[k]
        same(ao.data, an.data, f"{tag}.alg[{k}].data")
        same(ao.fs, an.fs, f"{tag}.alg[{k}].fs")
        same(ao.dt, an.dt, f"{tag}.alg[{k}].dt")
    # aliasing structure must agree as well (who shares memory with whom)
    if "datasets" in attrs:
        for i in range(len(o.datasets)):
            assert (o.datasets[i] is o._initial_datasets[i]) == (n.datasets[i] is n._initial_datasets[i]), tag
        assert (o.datasets is o._initial_datasets) == (n.datasets is n._initial_datasets), tag
        assert (o.ref_ind is o._initial_ref_ind) == (n.ref_ind is n._initial_ref_ind), tag
    else:
        assert (o.data is o._initial_data) == (n.data is n._initial_data), tag
        assert np.shares_memory(o.data, o._initial_data) == np.shares_memory(n.data, n._initial_data), tag


def call_both(fo, fn, tag):
    """Call both, return True if both succeeded; assert equal exception type+message otherwise."""
    eo = en = None
    try:
        ro = fo()
    except Exception as e:  # noqa: BLE001
        eo = e
    try:
        rn = fn()
    except Exception as e:  # noqa: BLE001
        en = e
    if eo is None and en is None:
        same(ro, rn, tag + ".ret")
        return True
    assert eo is not None and en is not None, (tag, repr(eo), repr(en))
    # the pristine copies are loaded under the module names orig_*; only that qualifier may differ
    mo = str(eo)
    for short in ("base", "single", "multi"):
        mo = mo.replace(f"orig_{short}.", f"pyoma2.setup.{short}.")
    assert type(eo) is type(en) and mo == str(en), (tag, repr(eo), repr(en))
    return False


# ------------------------------------------------------------------ operation vocabulary
def op_pool(rng):
    dec = [("decimate", dict(q=q)) for q in (2, 3, 4, 5)]
    dec += [
        ("decimate", dict(q=2, ftype="fir")),
        ("decimate", dict(q=3, ftype="fir", n=12)),
        ("decimate", dict(q=2, n=4)),
        ("decimate", dict(q=4, zero_phase=False)),
        ("decimate", dict(q=2, ftype="iir", n=6, zero_phase=True)),
        ("decimate", dict(q=3, axis=0)),
        ("decimate", dict(q=2, axis=0, ftype="fir", zero_phase=False)),
    ]
    det = [
        ("detrend", dict()),
        ("detrend", dict(type="constant")),
        ("detrend", dict(type="linear")),
        ("detrend", dict(type="linear", bp=[50])),
    ]
    fil = [
        ("filter", dict(Wn=0.08 * 1.0)),  # scaled by fs at call time
        ("filter", dict(Wn=0.05, order=4, btype="highpass")),
        ("filter", dict(Wn=(0.03, 0.1), order=4, btype="bandpass")),
        ("filter", dict(Wn=(0.04, 0.09), order=2, btype="bandstop")),
    ]
    return dec, det, fil, [("rollback", {})], [("add", {})]


def apply(setup, op, kw, multi, counter):
    kw = copy.deepcopy(kw)
    if op == "decimate":
        q = kw.pop("q")
        return setup.decimate_data(q, **kw) if counter % 2 else setup.decimate_data(q=q, **kw)
    if op == "detrend":
        return setup.detrend_data(**kw)
    if op == "filter":
        wn = kw.pop("Wn")
        wn = tuple(w * setup.fs for w in wn) if isinstance(wn, tuple) else wn * setup.fs
        return setup.filter_data(Wn=wn, **kw)
    if op == "rollback":
        return setup.rollback()
    if op == "add":
        if multi:
            algs = [FDD_MS(name=f"fdd{counter}", nxseg=64), SSIcov_MS(name=f"ssi{counter}", br=4)]
        else:
            algs = [FDD(name=f"fdd{counter}", nxseg=64), SSIcov(name=f"ssi{counter}", br=4)]
        return setup.add_algorithms(*algs)
    raise AssertionError(op)


def run_sequence(make_orig, make_new, seq, multi, tag, user_inputs):
    snapshot = copy.deepcopy(user_inputs)
    o, n = make_orig(), make_new()
    attrs = MULTI_ATTRS if multi else SINGLE_ATTRS
    compare_state(o, n, attrs, tag + "@init")
    init_o = copy.deepcopy(o._initial_datasets if multi else o._initial_data)
    for i, (op, kw) in enumerate(seq):
        call_both(
            lambda: apply(o, op, kw, multi, i),
            lambda: apply(n, op, kw, multi, i),
            f"{tag}#{i}:{op}{kw}",
        )
        compare_state(o, n, attrs, f"{tag}#{i}:{op}")
        # neither version may touch the user's arrays or the stored initial copy
        same(user_inputs, snapshot, tag + ".user_inputs")
        same(n._initial_datasets if multi else n._initial_data, init_o, tag + ".initial")


def make_single(rng, nch, ndat, fs):
    data = rng.standard_normal((ndat, nch)) + np.linspace(0, 3, ndat)[:, None] + 0.5
    mk_o = lambda: orig_single.SingleSetup(data, fs=fs)  # noqa: E731
    mk_n = lambda: new_single.SingleSetup(data, fs=fs)  # noqa: E731
    return mk_o, mk_n, [data]


def make_multi(rng, nsets, fs, equal_len=True):
    nref = int(rng.integers(1, 3))
    datasets, ref_ind = [], []
    base_len = int(rng.integers(600, 900))
    for _ in range(nsets):
        nch = int(rng.integers(max(2, nref + 1), 6))
        ndat = base_len if equal_len else base_len + int(rng.integers(0, 40))
        d = rng.standard_normal((ndat, nch)) + np.linspace(-1, 2, ndat)[:, None]
        datasets.append(d)
        ref_ind.append([int(v) for v in rng.permutation(nch)[:nref]])
    mk_o = lambda: orig_multi.MultiSetup_PreGER(fs=fs, ref_ind=ref_ind, datasets=datasets)  # noqa: E731
    mk_n = lambda: new_multi.MultiSetup_PreGER(fs=fs, ref_ind=ref_ind, datasets=datasets)  # noqa: E731
    return mk_o, mk_n, [datasets, ref_ind]


def main():
    rng = np.random.default_rng(20261003)
    dec, det, fil, rb, add = op_pool(rng)
    n_seq = 0

    # ---- 1. static helper, directly (incl. odd fs values and error cases)
    for k in range(40):
        ndat, nch = int(rng.integers(200, 1200)), int(rng.integers(2, 6))
        x = rng.standard_normal((ndat, nch))
        fs = float(rng.choice([100.0, 51.2, 33.3, 1000 / 3, 7.0, 256]))
        _, kw = dec[k % len(dec)]
        kw = dict(kw)
        q = kw.pop("q")
        kw.setdefault("axis", 0)
        x0 = x.copy()
        call_both(
            lambda: orig_base.BaseSetup._decimate_data(data=x, fs=fs, q=q, **kw),
            lambda: new_base.BaseSetup._decimate_data(data=x, fs=fs, q=q, **kw),
            f"static#{k}",
        )
        assert np.array_equal(x, x0)
    for bad in (dict(q=0), dict(q=2.5), dict(q=2, ftype="bogus"), dict(q=2, nope=1), dict(q=2, n=-1)):
        x = rng.standard_normal((300, 3))
        kw = dict(bad)
        q = kw.pop("q")
        call_both(
            lambda: orig_base.BaseSetup._decimate_data(x, 100.0, q, **kw),
            lambda: new_base.BaseSetup._decimate_data(x, 100.0, q, **kw),
            f"static-bad{bad}",
        )

    # ---- 2. exhaustive short sequences over a reduced alphabet (length <= 3), single + multi
    small = [dec[0], dec[1], dec[4], dec[7], det[1], det[2], fil[0], fil[2], rb[0], add[0]]
    for L in (1, 2, 3):
        for seq in itertools.product(small, repeat=L):
            mk_o, mk_n, ui = make_single(rng, int(rng.integers(2, 6)), int(rng.integers(700, 1000)), 100.0)
            run_sequence(mk_o, mk_n, seq, False, f"S{n_seq}", ui)
            n_seq += 1
    for L in (1, 2):
        for seq in itertools.product(small, repeat=L):
            mk_o, mk_n, ui = make_multi(rng, int(rng.integers(1, 4)), 100.0)
            run_sequence(mk_o, mk_n, seq, True, f"M{n_seq}", ui)
            n_seq += 1

    # ---- 3. random sequences up to length 5 over the full alphabet
    full = dec + det + fil + rb + add
    for k in range(250):
        L = int(rng.integers(1, 6))
        seq = [full[int(i)] for i in rng.integers(0, len(full), L)]
        fs = float(rng.choice([100.0, 51.2, 200.0, 1000 / 3]))
        if k % 2:
            mk_o, mk_n, ui = make_multi(rng, int(rng.integers(1, 4)), fs, equal_len=bool(k % 4 == 1))
            run_sequence(mk_o, mk_n, seq, True, f"RM{k}", ui)
        else:
            mk_o, mk_n, ui = make_single(rng, int(rng.integers(2, 6)), int(rng.integers(800, 1500)), fs)
            run_sequence(mk_o, mk_n, seq, False, f"RS{k}", ui)
        n_seq += 1

    # ---- 4. error paths through the public methods (state must stay identical, same exception)
    bad_ops = [
        ("decimate", dict(q=0)),
        ("decimate", dict(q=2, ftype="bogus")),
        ("decimate", dict(q=2, bogus_kw=3)),
        ("decimate", dict(q=2, data=None)),
        ("decimate", dict(q=2, fs=1.0)),
        ("decimate", dict(q=2, x=None)),
        ("decimate", dict(q=2, axis=1)),
        ("decimate", dict(q=5, n=3, ftype="fir", axis=0)),
    ]
    for bad in bad_ops:
        for pre in ([], [dec[0]], [fil[0], dec[1]]):
            seq = pre + [bad, det[0], add[0]]
            mk_o, mk_n, ui = make_single(rng, 3, 600, 100.0)
            run_sequence(mk_o, mk_n, seq, False, f"ES{bad}", ui)
            mk_o, mk_n, ui = make_multi(rng, 2, 100.0)
            run_sequence(mk_o, mk_n, seq, True, f"EM{bad}", ui)
            n_seq += 2
    # data too short for the decimation filter padding -> scipy raises inside the loop
    tiny = rng.standard_normal((20, 3))
    for cls_o, cls_n in ((orig_single.SingleSetup, new_single.SingleSetup),):
        o, n = cls_o(tiny, fs=10.0), cls_n(tiny, fs=10.0)
        for q in (2, 5, 2, 3):
            call_both(lambda: o.decimate_data(q=q), lambda: n.decimate_data(q=q), "tiny")
            compare_state(o, n, SINGLE_ATTRS, "tiny")
    tds = [rng.standard_normal((40, 3)), rng.standard_normal((22, 4))]
    o = orig_multi.MultiSetup_PreGER(fs=10.0, ref_ind=[[0], [1]], datasets=tds)
    n = new_multi.MultiSetup_PreGER(fs=10.0, ref_ind=[[0], [1]], datasets=tds)
    for q in (2, 3, 2, 2):
        call_both(lambda: o.decimate_data(q=q), lambda: n.decimate_data(q=q), "tinyM")
        compare_state(o, n, MULTI_ATTRS, "tinyM")
    # bad constructor inputs
    for fs, ref, ds in (
        (0.0, [[0]], [np.ones((10, 2))]),
        (10.0, [[5]], [np.ones((10, 2))]),
        (10.0, [[0], [1]], [np.ones((10, 2))]),
        (10.0, [[0]], [np.ones(10)]),
    ):
        call_both(
            lambda: orig_multi.MultiSetup_PreGER(fs=fs, ref_ind=ref, datasets=ds) and None,
            lambda: new_multi.MultiSetup_PreGER(fs=fs, ref_ind=ref, datasets=ds) and None,
            "badctor",
        )

    print(f"sequences checked: {n_seq}, element comparisons: {N_CHECKS}")
    print("PASS")


if __name__ == "__main__":
    main()
