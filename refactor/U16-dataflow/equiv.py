"""
Equivalence check for the C16 refactoring (interactive pole picking and the hand-over to
modal parameter extraction).

Runs the ORIGINAL code (pristine copies orig_*.py next to this file) and the REFACTORED code
(src/pyoma2) side by side on random pole tables / spectra and on random and exhaustively
enumerated click histories, and asserts that every observable is identical:

  * state of the dialog after every action: sel_freq, pole_ind / freq_ind (values AND element
    types), x_data_pole / y_data_pole, shift_is_held, raised exception type;
  * what is drawn: arguments handed to stab_plot / CMIF_plot / the marker artist (stub mode)
    and the marker data of the real matplotlib artist (real plotting mode);
  * SelFromPlot(...).result after the (patched) Tk main loop;
  * algorithm.result.{Fn, Xi, Phi, order_out, *_cov, forPlot} and run_params after
    mpe_from_plot() and mpe() for SSI (with / without covariances), pLSCF, FDD, EFDD, FSDD.

Prints PASS and exits 0 on success.
"""

from __future__ import annotations

import importlib.util
import itertools
import logging
import os
import sys
import types
import unittest.mock as mock

import matplotlib

matplotlib.use("Agg")

import numpy as np  # noqa: E402

HERE = os.path.dirname(os.path.abspath(__file__))
SRC = os.path.join(os.path.dirname(HERE), "src")
if SRC not in sys.path:
    sys.path.insert(0, SRC)

logging.disable(logging.CRITICAL)
import warnings  # noqa: E402

warnings.filterwarnings("ignore")

import pyoma2.algorithms.fdd as new_alg_fdd  # noqa: E402
import pyoma2.algorithms.plscf as new_alg_plscf  # noqa: E402
import pyoma2.algorithms.ssi as new_alg_ssi  # noqa: E402
import pyoma2.support.sel_from_plot as new_sfp  # noqa: E402
from pyoma2.algorithms.data.result import (  # noqa: E402
    EFDDResult,
    FDDResult,
    SSIResult,
    pLSCFResult,
)
from pyoma2.functions import fdd as fdd_funcs  # noqa: E402


def _load(name: str, fname: str):
    spec = importlib.util.spec_from_file_location(name, os.path.join(HERE, fname))
    mod = importlib.util.module_from_spec(spec)
    sys.modules[name] = mod
    spec.loader.exec_module(mod)
    return mod


orig_sfp = _load("pyoma2.support._orig_sel_from_plot", "orig_sel_from_plot.py")
orig_alg_ssi = _load("pyoma2.algorithms._orig_ssi", "orig_alg_ssi.py")
orig_alg_plscf = _load("pyoma2.algorithms._orig_plscf", "orig_alg_plscf.py")
orig_alg_fdd = _load("pyoma2.algorithms._orig_fdd", "orig_alg_fdd.py")
# the original algorithm classes must open the ORIGINAL dialog
for _m in (orig_alg_ssi, orig_alg_plscf, orig_alg_fdd):
    _m.SelFromPlot = orig_sfp.SelFromPlot

# silence the progress bars of the extraction routines
import pyoma2.functions.fdd as _ffdd  # noqa: E402
import pyoma2.functions.plscf as _fplscf  # noqa: E402
import pyoma2.functions.ssi as _fssi  # noqa: E402

for _m in (_ffdd, _fplscf, _fssi):
    _m.tqdm = lambda it, *a, **k: it
    _m.trange = lambda *a, **k: range(*a)

N_CHECKS = 0
STATS = {}  # family -> [runs, runs that raised, modes handed over]
QUICK = bool(os.environ.get("EQUIV_QUICK"))


# =============================================================================
# generic deep comparison (values, dtypes, NaN pattern, element types)
# =============================================================================
def same(a, b, path="") -> None:
    global N_CHECKS
    N_CHECKS += 1
    assert type(a) is type(b), f"{path}: type {type(a)} != {type(b)}"
    if isinstance(a, np.ndarray):
        assert a.dtype == b.dtype, f"{path}: dtype {a.dtype} != {b.dtype}"
        assert a.shape == b.shape, f"{path}: shape {a.shape} != {b.shape}"
        if a.dtype == object:
            same(list(a.ravel()), list(b.ravel()), path + "[obj]")
        else:
            assert np.array_equal(a, b, equal_nan=a.dtype.kind in "fc"), f"{path}: values"
    elif isinstance(a, (list, tuple)):
        assert len(a) == len(b), f"{path}: len {len(a)} != {len(b)}"
        for i, (x, y) in enumerate(zip(a, b)):
            same(x, y, f"{path}[{i}]")
    elif isinstance(a, dict):
        assert list(a.keys()) == list(b.keys()), f"{path}: keys"
        for k in a:
            same(a[k], b[k], f"{path}[{k!r}]")
    elif isinstance(a, (float, np.floating)):
        assert (a == b) or (a != a and b != b), f"{path}: {a!r} != {b!r}"
    elif isinstance(a, (mock.Mock, types.FunctionType, types.MethodType)):
        pass
    elif hasattr(a, "model_dump"):
        same(a.model_dump(), b.model_dump(), path + ".model")
    else:
        assert a == b, f"{path}: {a!r} != {b!r}"


# =============================================================================
# head-less dialog
# =============================================================================
def ev(button=None, x=None, y=None, key=None):
    return types.SimpleNamespace(button=button, xdata=x, ydata=y, key=key)


class _Recorder:
    """Stand-in for stab_plot / CMIF_plot: normalises the call to (name -> value)."""

    def __init__(self, names):
        self.names = names
        self.calls = []

    def __call__(self, *args, **kwargs):
        bound = dict(zip(self.names, args))
        assert not (set(bound) & set(kwargs))
        bound.update(kwargs)
        self.calls.append({k: bound[k] for k in sorted(bound)})


STAB_NAMES = ["Fn", "Lab", "step", "ordmax", "ordmin", "freqlim", "hide_poles", "fig", "ax"]
CMIF_NAMES = ["S_val", "freq", "freqlim", "nSv", "fig", "ax"]


def make_dialog(mod, algo, plot, freqlim=None, real_plots=False):
    """
    Builds a SelFromPlot of module `mod` without Tk: the GUI classes are patched like in the
    test-suite of the package, the main loop returns immediately.  In stub mode the drawing
    functions and the axes are replaced by recorders.
    """
    patches = [
        mock.patch.object(mod, "tk", mock.MagicMock()),
        mock.patch.object(mod, "FigureCanvasTkAgg", mock.MagicMock()),
        mock.patch.object(mod, "NavigationToolbar2Tk", mock.MagicMock()),
    ]
    rec = {}
    if not real_plots:
        rec["stab"] = _Recorder(STAB_NAMES)
        rec["cmif"] = _Recorder(CMIF_NAMES)

        def fake_figure(*a, **k):
            fig, ax = mock.MagicMock(), mock.MagicMock()
            ax.plot.side_effect = lambda *a, **k: (mock.MagicMock(),)
            fig.add_subplot.return_value = ax
            return fig

        patches += [
            mock.patch.object(mod, "stab_plot", rec["stab"]),
            mock.patch.object(mod, "CMIF_plot", rec["cmif"]),
            mock.patch.object(mod, "Figure", fake_figure),
        ]
    for p in patches:
        p.start()
    try:
        dlg = mod.SelFromPlot(algo, freqlim=freqlim, plot=plot)
    except BaseException:
        for p in patches:
            p.stop()
        raise
    dlg._equiv_patches = patches
    dlg._equiv_rec = rec
    return dlg


def close_dialog(dlg):
    for p in dlg._equiv_patches:
        p.stop()


def snapshot(dlg):
    st = {
        "sel_freq": list(dlg.sel_freq),
        "shift": dlg.shift_is_held,
        "x": getattr(dlg, "x_data_pole", "<unset>"),
        "y": getattr(dlg, "y_data_pole", "<unset>"),
        "has_pole_ind": hasattr(dlg, "pole_ind"),
        "has_freq_ind": hasattr(dlg, "freq_ind"),
    }
    for nm in ("pole_ind", "freq_ind"):
        if hasattr(dlg, nm):
            st[nm] = list(getattr(dlg, nm))
    return st


def draw_log(dlg):
    """What has been drawn so far (stub mode) / what the marker shows (real mode)."""
    if dlg._equiv_rec:
        out = {
            "stab": [
                {k: v for k, v in c.items() if k not in ("fig", "ax")}
                for c in dlg._equiv_rec["stab"].calls
            ],
            "cmif": [
                {k: v for k, v in c.items() if k not in ("fig", "ax")}
                for c in dlg._equiv_rec["cmif"].calls
            ],
            "marker": [
                (
                    [list(a) if isinstance(a, list) else a for a in c.args],
                    dict(c.kwargs),
                )
                for c in dlg.ax2.plot.call_args_list
            ],
            "n_clear": dlg.ax2.clear.call_count,
            "n_grid": dlg.ax2.grid.call_count,
            "n_draw": dlg.fig.canvas.draw_idle.call_count,
        }
        for c in dlg._equiv_rec["stab"].calls + dlg._equiv_rec["cmif"].calls:
            assert c["fig"] is dlg.fig and c["ax"] is dlg.ax2
        return out
    return {
        "mx": np.asarray(dlg.MARKER.get_xdata(), dtype=float),
        "my": np.asarray(dlg.MARKER.get_ydata(), dtype=float),
        "n_lines": len(dlg.ax2.lines),
    }


def apply_action(dlg, act):
    """act = (kind, payload). Returns the exception type name or None."""
    kind = act[0]
    try:
        if kind == "key_down":
            dlg.on_key_press(ev(key=act[1]))
        elif kind == "key_up":
            dlg.on_key_release(ev(key=act[1]))
        elif kind == "click":
            _, button, x, y = act
            e = ev(button=button, x=x, y=y)
            if dlg.plot == "FDD":
                dlg.on_click_FDD(e)
            else:
                dlg.on_click_SSI(e, dlg.plot)
        elif kind == "click_registry":
            # through the callbacks connected by _initialize_gui (real figure only)
            _, button, x, y = act
            dlg.fig.canvas.callbacks.process(
                "button_press_event", ev(button=button, x=x, y=y)
            )
        elif kind == "key_registry":
            _, name, key = act
            dlg.fig.canvas.callbacks.process(name, ev(key=key))
        elif kind == "toggle":
            _, which, val = act
            getattr(dlg, which)(val)
        elif kind == "ticks":
            if dlg.plot == "FDD":
                dlg.plot_svPSD(update_ticks=True)
            else:
                dlg.plot_stab(dlg.plot, update_ticks=True)
        elif kind == "sort":
            dlg.sort_selected_poles()
        else:
            raise AssertionError(kind)
    except AssertionError:
        raise
    except Exception as exc:  # noqa: BLE001
        return type(exc).__name__
    return None


def run_history(algo, plot, history, freqlim=None, real_plots=False, tag=""):
    """Runs one history on both dialogs, comparing after every action."""
    d_old = make_dialog(orig_sfp, algo, plot, freqlim, real_plots)
    d_new = make_dialog(new_sfp, algo, plot, freqlim, real_plots)
    try:
        same(snapshot(d_old), snapshot(d_new), f"{tag}/init")
        same(d_old.result, d_new.result, f"{tag}/init.result")
        for k, act in enumerate(history):
            e_old = apply_action(d_old, act)
            e_new = apply_action(d_new, act)
            assert e_old == e_new, f"{tag}/step{k} {act}: exception {e_old} != {e_new}"
            same(snapshot(d_old), snapshot(d_new), f"{tag}/step{k} {act}")
            same(draw_log(d_old), draw_log(d_new), f"{tag}/step{k} {act} draw")
        # the hand-over tuple: the lists as they are when the dialog is closed
        for d in (d_old, d_new):
            if d.plot == "FDD":
                d._final = (d.sel_freq, None)
            else:
                d._final = (d.sel_freq, d.pole_ind)
        same(d_old._final, d_new._final, f"{tag}/final")
        return d_old._final
    finally:
        close_dialog(d_old)
        close_dialog(d_new)


# =============================================================================
# random inputs
# =============================================================================
def fake_algo(result, run_params=None, fs=100.0):
    return types.SimpleNamespace(result=result, run_params=run_params, fs=fs)


def random_pole_table(rng, n_rows=None, n_ord=None, dtype=np.float64, dup=True):
    n_rows = n_rows or int(rng.integers(2, 9))
    n_ord = n_ord or int(rng.integers(2, 9))
    Fn = rng.uniform(0.5, 20.0, size=(n_rows, n_ord))
    if dup:
        # repeated frequencies across orders and inside one order (ties)
        base = rng.choice([1.0, 2.5, 2.5, 7.25, 11.0], size=(n_rows, n_ord))
        use = rng.random((n_rows, n_ord)) < 0.45
        Fn = np.where(use, base, Fn)
    Fn[rng.random((n_rows, n_ord)) < 0.3] = np.nan
    if rng.random() < 0.4:
        Fn[:, int(rng.integers(0, n_ord))] = np.nan  # an order without retained poles
    Fn = Fn.astype(dtype)
    Lab = rng.integers(0, 8, size=Fn.shape).astype(float)
    Lab[np.isnan(Fn)] = np.nan
    return Fn, Lab


def random_clicks(rng, n, x_rng, y_rng, plot):
    hist = []
    for _ in range(n):
        r = rng.random()
        if r < 0.12:
            hist.append(("key_down", rng.choice(["shift", "control", "a"])))
        elif r < 0.2:
            hist.append(("key_up", rng.choice(["shift", "control", "a"])))
        elif r < 0.23 and plot != "FDD":
            hist.append(
                ("toggle", rng.choice(["toggle_legend", "toggle_hide_poles"]), int(rng.integers(0, 2)))
            )
        elif r < 0.26:
            hist.append(("ticks",))
        elif r < 0.28:
            hist.append(("sort",))
        else:
            button = rng.choice([1, 1, 1, 1, 2, 2, 3, 3, 4, None])
            x = rng.uniform(*x_rng)
            y = rng.uniform(*y_rng)
            q = rng.random()
            if q < 0.08:
                x = None  # click outside of the axes
            elif q < 0.12:
                y = None
            elif q < 0.16:
                y = float(np.floor(y)) + 0.5  # exactly between two orders
            elif q < 0.2:
                x = float(rng.choice([1.0, 2.5, 7.25, 11.0]))
            elif q < 0.22:
                x = float("nan")
            elif q < 0.24:
                y = float("nan")
            hist.append(("click", button, x, y))
    return hist


def test_stab_dialogs(rng, n_cases=60):
    for c in range(n_cases):
        plot = ["SSI", "pLSCF"][c % 2]
        dtype = np.float32 if c % 7 == 3 else np.float64
        Fn, Lab = random_pole_table(rng, dtype=dtype)
        prm = types.SimpleNamespace(
            ordmin=int(rng.integers(0, 3)), ordmax=Fn.shape[1] - 1, step=1
        )
        res = types.SimpleNamespace(Fn_poles=Fn, Lab=Lab)
        algo = fake_algo(res, prm)
        hist = [("key_down", "shift")] if c % 3 else []
        hist += random_clicks(rng, int(rng.integers(1, 7)) + 3, (0.0, 21.0), (-1.5, Fn.shape[1] + 1.5), plot)
        freqlim = None if c % 2 else (0.5, 15.0)
        run_history(algo, plot, hist, freqlim=freqlim, tag=f"stab{c}")


def test_fdd_dialogs(rng, n_cases=40):
    for c in range(n_cases):
        nf = int(rng.integers(3, 30))
        freq = np.linspace(0.0, 50.0, nf)
        S_val = np.abs(rng.normal(size=(3, 3, nf))) + 1e-3
        if c % 5 == 0:
            S_val[0, 0, :] = 1.0  # ties in the peak search
        res = types.SimpleNamespace(freq=freq, S_val=S_val)
        algo = fake_algo(res, None)
        hist = [("key_down", "shift")] if c % 3 else []
        hist += random_clicks(rng, int(rng.integers(1, 7)) + 3, (-5.0, 55.0), (-80.0, 5.0), "FDD")
        run_history(algo, "FDD", hist, freqlim=None if c % 2 else (1.0, 20.0), tag=f"fdd{c}")


def test_exhaustive(rng):
    """All sequences up to length 4 over a small table / a small frequency axis."""
    Fn = np.array(
        [
            [1.0, np.nan, 2.5, np.nan],
            [2.5, 2.5, np.nan, np.nan],
            [np.nan, 7.25, 1.0, np.nan],
        ]
    )
    Lab = np.where(np.isnan(Fn), np.nan, 7.0)
    prm = types.SimpleNamespace(ordmin=0, ordmax=3, step=1)
    algo = fake_algo(types.SimpleNamespace(Fn_poles=Fn, Lab=Lab), prm)
    alphabet = [
        ("click", 1, 0.9, 0.2),
        ("click", 1, 2.6, 1.5),  # tie between the orders 1 and 2
        ("click", 1, 5.0, 2.2),
        ("click", 1, 3.0, 3.0),  # order without poles -> ValueError
        ("click", 3, 4.0, 1.0),
        ("click", 2, 2.0, 1.0),
        ("click", 2, 9.0, 0.0),
        ("key_up", "shift"),
        ("key_down", "shift"),
    ]
    n = 0
    max_len = 2 if QUICK else 4
    for L in range(1, max_len + 1):
        for seq in itertools.product(alphabet, repeat=L):
            run_history(algo, "SSI", [("key_down", "shift"), *seq], tag=f"exh-ssi{n}")
            n += 1
    # FDD
    freq = np.array([0.0, 1.0, 2.0, 3.0, 4.0])
    S_val = np.abs(rng.normal(size=(2, 2, 5))) + 0.1
    algo = fake_algo(types.SimpleNamespace(freq=freq, S_val=S_val), None)
    alphabet = [
        ("click", 1, 0.4, -3.0),
        ("click", 1, 2.5, -3.0),  # tie between two lines
        ("click", 1, 9.0, -3.0),
        ("click", 1, 2.5, None),
        ("click", 3, 1.0, 0.0),
        ("click", 2, 1.5, 0.0),
        ("click", 2, None, 0.0),
        ("key_up", "shift"),
        ("key_down", "shift"),
    ]
    for L in range(1, max_len + 1):
        for seq in itertools.product(alphabet, repeat=L):
            run_history(algo, "FDD", [("key_down", "shift"), *seq], tag=f"exh-fdd{n}")
            n += 1
    return n


def test_real_plots(rng, n_cases=12):
    """Real matplotlib figure (Agg), events sent through the connected callbacks."""
    for c in range(n_cases):
        plot = ["SSI", "pLSCF", "FDD"][c % 3]
        if plot == "FDD":
            nf = 40
            freq = np.linspace(0.0, 50.0, nf)
            S_val = np.abs(rng.normal(size=(3, 3, nf))) + 1e-3
            algo = fake_algo(types.SimpleNamespace(freq=freq, S_val=S_val), None)
            xr, yr = (0.0, 50.0), (-60.0, 3.0)
        else:
            Fn, Lab = random_pole_table(rng, n_rows=6, n_ord=7)
            Fn[:, 3] = np.where(np.isnan(Fn[:, 3]), 4.0, Fn[:, 3])
            prm = types.SimpleNamespace(ordmin=0, ordmax=6, step=1)
            algo = fake_algo(types.SimpleNamespace(Fn_poles=Fn, Lab=Lab), prm)
            xr, yr = (0.0, 21.0), (-1.0, 8.0)
        hist = [("key_registry", "key_press_event", "shift")]
        for act in random_clicks(rng, 7, xr, yr, plot):
            if act[0] == "click":
                hist.append(("click_registry",) + act[1:])
            elif act[0] == "key_down":
                hist.append(("key_registry", "key_press_event", act[1]))
            elif act[0] == "key_up":
                hist.append(("key_registry", "key_release_event", act[1]))
            else:
                hist.append(act)
        run_history(algo, plot, hist, freqlim=(0.0, 25.0), real_plots=True, tag=f"real{c}")


# =============================================================================
# end to end: algorithm.mpe_from_plot / mpe
# =============================================================================
class _Scripted:
    """Patches Tk so that the 'main loop' plays a click history on the dialog."""

    def __init__(self, sfp_mod, history):
        self.mod = sfp_mod
        self.history = history
        self.dialog = None
        self.errors = []

    def __enter__(self):
        script = self
        cls = self.mod.SelFromPlot
        orig_gui = cls._initialize_gui

        def gui(dlg):
            orig_gui(dlg)
            script.dialog = dlg

            def loop():
                for act in script.history:
                    script.errors.append(apply_action(dlg, act))

            dlg.root.mainloop.side_effect = loop

        self.patches = [
            mock.patch.object(self.mod, "tk", mock.MagicMock()),
            mock.patch.object(self.mod, "FigureCanvasTkAgg", mock.MagicMock()),
            mock.patch.object(self.mod, "NavigationToolbar2Tk", mock.MagicMock()),
            mock.patch.object(self.mod, "stab_plot", mock.MagicMock()),
            mock.patch.object(self.mod, "CMIF_plot", mock.MagicMock()),
            mock.patch.object(cls, "_initialize_gui", gui),
        ]
        for p in self.patches:
            p.start()
        return self

    def __exit__(self, *exc):
        for p in self.patches:
            p.stop()
        return False


def call_both(make_old, make_new, method, history, args=(), kwargs=None, tag=""):
    kwargs = kwargs or {}
    outs = []
    for make, sfp_mod in ((make_old, orig_sfp), (make_new, new_sfp)):
        algo = make()
        with _Scripted(sfp_mod, history) as sc:
            try:
                ret = getattr(algo, method)(*args, **kwargs)
                exc = None
            except Exception as e:  # noqa: BLE001
                ret, exc = None, type(e).__name__
        picked = None
        if sc.dialog is not None:
            picked = getattr(sc.dialog, "result", "<no result>")
        outs.append(
            {
                "ret": ret,
                "exc": exc,
                "errors": sc.errors,
                "picked": picked,
                "result": algo.result,
                "run_params": algo.run_params,
            }
        )
    same(outs[0], outs[1], tag)
    fam = STATS.setdefault(tag.split("-")[0] + ":" + method, [0, 0, 0])
    fam[0] += 1
    fam[1] += outs[1]["exc"] is not None
    if outs[1]["exc"] is not None and os.environ.get("EQUIV_VERBOSE"):
        print("   ", tag, outs[1]["exc"], "picked:", outs[1]["picked"])
    if outs[1]["exc"] is None and getattr(outs[1]["result"], "Fn", None) is not None:
        fam[2] += int(np.size(outs[1]["result"].Fn))
    return outs[1]


def ssi_factory(mod, cls_name, Fn, Xi, Phi, Lab, covs, ordmax):
    def make():
        algo = getattr(mod, cls_name)(name="x", br=10, ordmax=ordmax)
        algo.fs, algo.dt = 100.0, 0.01
        kw = {}
        if covs is not None:
            kw = dict(Fn_poles_cov=covs[0], Xi_poles_cov=covs[1], Phi_poles_cov=covs[2])
        algo.result = SSIResult(Fn_poles=Fn, Xi_poles=Xi, Phi_poles=Phi, Lab=Lab, **kw)
        return algo

    return make


def test_ssi_end_to_end(rng, n_cases=40):
    n_modes = 0
    for c in range(n_cases):
        Fn, Lab = random_pole_table(rng, n_rows=int(rng.integers(3, 8)), n_ord=int(rng.integers(3, 8)))
        Lab = np.where(np.isnan(Lab), np.nan, rng.choice([0.0, 1.0], size=Lab.shape))
        nch = int(rng.integers(2, 5))
        Xi = np.where(np.isnan(Fn), np.nan, rng.uniform(0.001, 0.1, Fn.shape))
        if c % 2:
            Phi = rng.normal(size=Fn.shape + (nch,)) + 1j * rng.normal(size=Fn.shape + (nch,))
        else:
            Phi = rng.normal(size=Fn.shape + (nch,))
        Phi[np.isnan(Fn)] = np.nan
        covs = None
        if c % 3 == 0:
            covs = (
                np.where(np.isnan(Fn), np.nan, rng.uniform(0, 0.1, Fn.shape)),
                np.where(np.isnan(Fn), np.nan, rng.uniform(0, 0.1, Fn.shape)),
                np.abs(rng.normal(size=Phi.shape)),
            )
        ordmax = Fn.shape[1] - 1
        cls_name = ["SSIcov", "SSIdat", "SSIcov_MS", "SSIdat_MS"][c % 4]
        mk_old = ssi_factory(orig_alg_ssi, cls_name, Fn, Xi, Phi, Lab, covs, ordmax)
        mk_new = ssi_factory(new_alg_ssi, cls_name, Fn, Xi, Phi, Lab, covs, ordmax)
        hist = [("key_down", "shift")] + random_clicks(
            rng, int(rng.integers(3, 10)), (0.0, 21.0), (-1.0, Fn.shape[1] + 1.0), "SSI"
        )
        rtol = [1e-2, 5e-2, 0.3][c % 3]
        kwargs = {"rtol": rtol} if c % 2 else {"freqlim": (0.0, 25.0), "rtol": rtol}
        out = call_both(mk_old, mk_new, "mpe_from_plot", hist, kwargs=kwargs, tag=f"ssi-e2e{c}")
        if out["exc"] is None and out["result"].Fn is not None:
            n_modes += len(out["result"].Fn)
            # every extracted mode is a picked pole at its own order
            f, o = out["picked"]
            assert len(f) == len(o) == len(out["result"].order_out)
        # manual extraction (same private helper after the refactoring)
        finite = Fn[~np.isnan(Fn)]
        sel = sorted(rng.choice(finite, size=min(3, finite.size), replace=False).tolist())
        for order in (
            int(rng.integers(0, Fn.shape[1])),
            [int(rng.integers(0, Fn.shape[1])) for _ in sel],
            "find_min",
            2.5,
        ):
            call_both(
                mk_old, mk_new, "mpe", [], args=(sel,), kwargs={"order": order, "rtol": rtol},
                tag=f"ssi-mpe{c}/{order}",
            )
    # algorithm not run yet
    for method, args in (("mpe_from_plot", ()), ("mpe", ([1.0],))):
        call_both(
            lambda: orig_alg_ssi.SSIcov(name="x", br=5),
            lambda: new_alg_ssi.SSIcov(name="x", br=5),
            method, [], args=args, tag=f"ssi-norun-{method}",
        )
    return n_modes


def plscf_factory(mod, cls_name, Fn, Xi, Phi, Lab, ordmax):
    def make():
        algo = getattr(mod, cls_name)(name="x", ordmax=ordmax)
        algo.fs, algo.dt = 100.0, 0.01
        algo.result = pLSCFResult(Fn_poles=Fn, Xi_poles=Xi, Phi_poles=Phi, Lab=Lab)
        return algo

    return make


def test_plscf_end_to_end(rng, n_cases=30):
    for c in range(n_cases):
        Fn, Lab = random_pole_table(rng, n_rows=int(rng.integers(3, 8)), n_ord=int(rng.integers(3, 8)))
        Lab = np.where(np.isnan(Lab), np.nan, rng.choice([0.0, 7.0], size=Lab.shape))
        nch = int(rng.integers(2, 5))
        Xi = np.where(np.isnan(Fn), np.nan, rng.uniform(0.001, 0.1, Fn.shape))
        Phi = rng.normal(size=Fn.shape + (nch,)) + 1j * rng.normal(size=Fn.shape + (nch,))
        Phi[np.isnan(Fn)] = np.nan
        ordmax = Fn.shape[1]
        cls_name = ["pLSCF", "pLSCF_MS"][c % 2]
        mk_old = plscf_factory(orig_alg_plscf, cls_name, Fn, Xi, Phi, Lab, ordmax)
        mk_new = plscf_factory(new_alg_plscf, cls_name, Fn, Xi, Phi, Lab, ordmax)
        hist = [("key_down", "shift")] + random_clicks(
            rng, int(rng.integers(3, 10)), (0.0, 21.0), (-1.0, Fn.shape[1] + 1.0), "pLSCF"
        )
        rtol = [1e-2, 5e-2, 0.3][c % 3]
        kwargs = {"rtol": rtol} if c % 2 else {"freqlim": (0.0, 25.0), "rtol": rtol}
        call_both(mk_old, mk_new, "mpe_from_plot", hist, kwargs=kwargs, tag=f"plscf-e2e{c}")
        finite = Fn[~np.isnan(Fn)]
        sel = sorted(rng.choice(finite, size=min(2, finite.size), replace=False).tolist())
        for order in (
            int(rng.integers(0, Fn.shape[1])),
            [int(rng.integers(0, Fn.shape[1])) for _ in sel],
            "find_min",
        ):
            call_both(
                mk_old, mk_new, "mpe", [], args=(sel,), kwargs={"order": order, "rtol": rtol},
                tag=f"plscf-mpe{c}/{order}",
            )


def synthetic_spectra(rng, nxseg=2048):
    fs = 100.0
    t = np.arange(30000) / fs
    modes = [(8.0, [1.0, 0.6, -0.3]), (17.0, [0.5, -1.0, 0.8]), (29.0, [-0.4, 0.7, 1.0])]
    Y = np.zeros((3, t.size))
    for f, shape in modes:
        # lightly damped response to white noise: filtered noise around f
        q = rng.normal(size=t.size)
        a = 2 * np.exp(-0.02 * 2 * np.pi * f / fs) * np.cos(2 * np.pi * f / fs)
        b = -np.exp(-0.04 * 2 * np.pi * f / fs)
        y = np.zeros(t.size)
        for k in range(2, t.size):
            y[k] = a * y[k - 1] + b * y[k - 2] + q[k]
        Y += np.outer(shape, y / y.std())
    Y += 0.05 * rng.normal(size=Y.shape)
    freq, Sy = fdd_funcs.SD_est(Y, Y, 1 / fs, nxseg, method="per", pov=0.5)
    S_val, S_vec = fdd_funcs.SD_svalsvec(Sy)
    return fs, freq, Sy, S_val, S_vec


def test_fdd_end_to_end(rng):
    fs, freq, Sy, S_val, S_vec = synthetic_spectra(rng)

    def fdd_factory(mod, cls_name):
        def make():
            algo = getattr(mod, cls_name)(name="x", nxseg=256, method_SD="per")
            algo.fs, algo.dt = fs, 1 / fs
            if cls_name.startswith("FDD"):
                algo.result = FDDResult(freq=freq, Sy=Sy, S_val=S_val, S_vec=S_vec)
            else:
                algo.result = EFDDResult(freq=freq, Sy=Sy, S_val=S_val, S_vec=S_vec)
            return algo

        return make

    peaks = [8.0, 17.0, 29.0]
    for c in range(24):
        cls_name = ["FDD", "EFDD", "FSDD", "FDD_MS", "EFDD_MS"][c % 5]
        mk_old = fdd_factory(orig_alg_fdd, cls_name)
        mk_new = fdd_factory(new_alg_fdd, cls_name)
        hist = [("key_down", "shift")]
        order = rng.permutation(3)
        for k in order[: int(rng.integers(1, 4))]:
            hist.append(("click", 1, peaks[k] + rng.uniform(-0.3, 0.3), -10.0))
        if c % 4 == 1:
            hist.append(("click", 1, 40.0, -10.0))
            hist.append(("click", 3, 0.0, 0.0))
        if c % 4 == 2:
            hist.append(("click", 1, 22.0, -10.0))
            hist.append(("click", 2, 21.0, 0.0))
        if c % 6 == 5:
            hist = [("click", 1, 8.0, 0.0)]  # no modifier: empty selection
        if cls_name.startswith("FDD"):
            kwargs = {"DF": [0.1, 0.5, 1.0][c % 3]}
            if c % 2:
                kwargs["freqlim"] = (0.0, 40.0)
            mpe_kwargs = {"DF": kwargs["DF"]}
        else:
            kwargs = {
                "DF1": [0.1, 0.5][c % 2],
                "DF2": [1.0, 2.0][c % 2],
                "cm": 1,
                "MAClim": [0.85, 0.9][c % 2],
                "sppk": [3, 2][c % 2],
                "npmax": [20, 12][c % 2],
            }
            mpe_kwargs = dict(kwargs)
            if c % 3 == 0:
                kwargs = {k: v for k, v in kwargs.items() if k in ("DF1", "sppk")}
                mpe_kwargs = dict(kwargs)
            if c % 2:
                kwargs["freqlim"] = (0.0, 40.0)
        out = call_both(mk_old, mk_new, "mpe_from_plot", hist, kwargs=kwargs, tag=f"fdd-e2e{c}")
        if out["exc"] is None and out["picked"][0]:
            assert out["picked"][1] is None
        call_both(
            mk_old, mk_new, "mpe", [], args=([8.1, 16.8, 29.2][: 1 + c % 3],), kwargs=mpe_kwargs,
            tag=f"fdd-mpe{c}",
        )
    for cls_name in ("FDD", "EFDD"):
        for method, args in (("mpe_from_plot", ()), ("mpe", ([8.0],))):
            call_both(
                lambda: getattr(orig_alg_fdd, cls_name)(name="x", nxseg=256),
                lambda: getattr(new_alg_fdd, cls_name)(name="x", nxseg=256),
                method, [], args=args, tag=f"fdd-norun-{cls_name}-{method}",
            )


def test_order_independence(rng):
    """The pairing (frequency, order) does not depend on the order of the clicks (both codes)."""
    Fn = np.array([[1.0, 1.1, np.nan], [5.0, np.nan, 5.2], [np.nan, 9.0, 9.1]])
    Lab = np.where(np.isnan(Fn), np.nan, 7.0)
    prm = types.SimpleNamespace(ordmin=0, ordmax=2, step=1)
    algo = fake_algo(types.SimpleNamespace(Fn_poles=Fn, Lab=Lab), prm)
    clicks = [("click", 1, 1.0, 0.1), ("click", 1, 5.3, 2.2), ("click", 1, 8.7, 0.8)]
    finals = []
    for perm in itertools.permutations(clicks):
        f, o = run_history(algo, "SSI", [("key_down", "shift"), *perm], tag="perm")
        finals.append((list(map(float, f)), list(o)))
    assert all(x == finals[0] for x in finals), finals
    assert finals[0] == ([1.0, 5.2, 9.0], [0, 2, 1]), finals[0]


def main():
    rng = np.random.default_rng(20240916)
    test_order_independence(rng)
    test_stab_dialogs(rng)
    test_fdd_dialogs(rng)
    n = test_exhaustive(rng)
    test_real_plots(rng)
    n_modes = test_ssi_end_to_end(rng)
    test_plscf_end_to_end(rng)
    test_fdd_end_to_end(rng)
    print(f"exhaustive histories: {n}; modes extracted in SSI end-to-end runs: {n_modes}")
    for fam, (runs, raised, modes) in sorted(STATS.items()):
        print(f"  {fam}: {runs} runs, {raised} raising (identically), {modes} modes stored")
    print(f"{N_CHECKS} comparisons")
    print("PASS")


if __name__ == "__main__":
    main()
