"""
Differential test: the CLEAN version of the commit against the unmodified library.

Run as:  PYTHONPATH=<tree>/src /venv/bin/python equiv.py      (CLEAN version applied)

The pristine implementations are loaded from the copies saved next to this file
(orig_functions_ssi.py, orig_algorithms_ssi.py).  Compared on random inputs:

* ssi.build_hank            (positional legacy call, every method, calc_unc, errors)
* ssi.ref_channels          (new helper) against the old in-line ``Y[ref_ind, :]``
* ssi.SSI_multi_setup       (calls build_hank positionally)
* SSIdat.run / SSIcov.run   through SingleSetup, with random ref_ind / method / br / ordmax
  (calc_unc=True included), every field of the result

Prints PASS and exits 0 when everything agrees.
"""

import importlib.util
import logging
import os
import sys

os.environ.setdefault("TQDM_DISABLE", "1")
os.environ.setdefault("MPLBACKEND", "Agg")

import numpy as np  # noqa: E402
from scipy import signal  # noqa: E402

logging.disable(logging.CRITICAL)

import pyoma2.algorithms.ssi as new_alg  # noqa: E402
import pyoma2.functions.ssi as new_fun  # noqa: E402
from pyoma2.setup import SingleSetup  # noqa: E402

HERE = os.path.dirname(os.path.abspath(__file__))


def _load(name, fname):
    spec = importlib.util.spec_from_file_location(name, os.path.join(HERE, fname))
    mod = importlib.util.module_from_spec(spec)
    sys.modules[name] = mod
    spec.loader.exec_module(mod)
    return mod


old_fun = _load("pyoma2.functions._orig_ssi", "orig_functions_ssi.py")
old_alg = _load("pyoma2.algorithms._orig_ssi", "orig_algorithms_ssi.py")
old_alg.ssi = old_fun  # the pristine classes call the pristine routines

N_EXACT = 0
N_CLOSE = 0
PROBLEMS = []


def same(a, b, what):
    """Compare two results (arrays, lists of arrays, None, scalars)."""
    global N_EXACT, N_CLOSE
    if a is None or b is None:
        if not (a is None and b is None):
            PROBLEMS.append(f"{what}: None vs not None")
        return
    if isinstance(a, (list, tuple)):
        if len(a) != len(b):
            PROBLEMS.append(f"{what}: length {len(a)} vs {len(b)}")
            return
        for i, (x, y) in enumerate(zip(a, b)):
            same(x, y, f"{what}[{i}]")
        return
    a = np.asarray(a)
    b = np.asarray(b)
    if a.shape != b.shape:
        PROBLEMS.append(f"{what}: shape {a.shape} vs {b.shape}")
        return
    if np.array_equal(a, b, equal_nan=True):
        N_EXACT += 1
    elif np.allclose(a, b, rtol=1e-12, atol=0.0, equal_nan=True):
        N_CLOSE += 1
    else:
        with np.errstate(all="ignore"):
            err = np.nanmax(np.abs(a - b) / np.maximum(np.abs(a), 1e-300))
        PROBLEMS.append(f"{what}: values differ (max rel {err:.3g})")


def call(fun, *args, **kw):
    """Return ('ok', value) or ('err', exception class name)."""
    try:
        return "ok", fun(*args, **kw)
    except Exception as e:  # noqa: BLE001
        return "err", type(e).__name__


def same_call(new, old, what):
    if new[0] != old[0]:
        PROBLEMS.append(f"{what}: {new[0]} {new[1] if new[0] == 'err' else ''} vs {old}")
    elif new[0] == "err":
        if new[1] != old[1]:
            PROBLEMS.append(f"{what}: raises {new[1]} vs {old[1]}")
    else:
        same(new[1], old[1], what)


def make_data(rng, n_ch, n_dat):
    """Sum of a few noise driven resonators with random shapes, plus noise."""
    n_modes = int(rng.integers(2, 5))
    y = np.zeros((n_dat, n_ch))
    for _ in range(n_modes):
        f = rng.uniform(0.03, 0.4)
        r = rng.uniform(0.97, 0.995)
        a = [1.0, -2 * r * np.cos(2 * np.pi * f), r * r]
        q = signal.lfilter([1.0], a, rng.standard_normal(n_dat))
        y += np.outer(q / q.std(), rng.standard_normal(n_ch))
    y += 0.05 * rng.standard_normal(y.shape)
    return y * 10.0 ** rng.uniform(-3, 3)


def random_ref(rng, n_ch):
    kind = rng.integers(0, 6)
    if kind == 0:
        return None
    if kind == 1:  # leading block
        return list(range(int(rng.integers(1, n_ch + 1))))
    if kind == 2:  # inner ascending block
        a = int(rng.integers(0, n_ch))
        b = int(rng.integers(a + 1, n_ch + 1))
        return list(range(a, b))
    if kind == 3:  # any ordered subset, any order
        m = int(rng.integers(1, n_ch + 1))
        return [int(i) for i in rng.permutation(n_ch)[:m]]
    if kind == 4:  # first and last span the length but the middle does not fill it
        if n_ch >= 4:
            a = int(rng.integers(0, n_ch - 2))
            others = [i for i in range(n_ch) if i not in (a, a + 1, a + 2)]
            return [a, int(rng.choice(others)), a + 2]
        return [n_ch - 1, 0]
    # descending block
    m = int(rng.integers(1, n_ch + 1))
    return list(range(m - 1, -1, -1))


RESULT_FIELDS = [
    "Obs", "A", "C", "H", "Lambds", "Fn_poles", "Xi_poles", "Phi_poles", "Lab",
    "Fn_poles_cov", "Xi_poles_cov", "Phi_poles_cov",
]  # fmt: skip


def run_alg(mod, clsname, data, fs, **kw):
    alg = getattr(mod, clsname)(name="a", **kw)
    ss = SingleSetup(np.array(data), fs=fs)
    ss.add_algorithms(alg)
    ss.run_by_name("a")
    return [getattr(alg.result, f) for f in RESULT_FIELDS]


def main():
    rng = np.random.default_rng(20240608)
    n_cases = 0

    # ---- build_hank, legacy positional call with an explicit Yref -----------------
    for i in range(30):
        n_ch = int(rng.integers(1, 9))
        n_dat = int(rng.integers(200, 1500))
        br = int(rng.integers(1, 9))
        Y = make_data(rng, n_ch, n_dat).T
        ref = random_ref(rng, n_ch)
        Yref = Y if ref is None else Y[ref, :]
        method = ["cov_mm", "cov_R", "dat"][i % 3]
        calc_unc = bool(method == "cov_mm" and i % 2 == 0)
        nb = int(rng.integers(5, 30))
        if i % 5 == 0:  # integer data, as in the unit tests
            Y = np.round(Y / np.abs(Y).max() * 50).astype(int)
            Yref = Y if ref is None else Y[ref, :]
        new = call(new_fun.build_hank, Y, Yref, br, method, calc_unc, nb)
        old = call(old_fun.build_hank, Y, Yref, br, method, calc_unc, nb)
        same_call(new, old, f"build_hank#{i} {method} ref={ref}")
        # the same through the new ref_ind argument
        new2 = call(
            new_fun.build_hank, Y, None, br, method, calc_unc=calc_unc, nb=nb, ref_ind=ref
        )
        same_call(new2, old, f"build_hank(ref_ind)#{i} {method} ref={ref}")
        # new selection helper against the old in-line indexing
        same(new_fun.ref_channels(Y, ref), Yref, f"ref_channels#{i} ref={ref}")
        n_cases += 1

    # ---- legacy error behaviour --------------------------------------------------
    Y = make_data(rng, 3, 300).T
    for method, calc_unc in [("cov_R", True), ("dat", True), ("YfYp", True),
                             ("YfYp", False), ("invalid_method", False)]:  # fmt: skip
        new = call(new_fun.build_hank, Y=Y, Yref=Y, br=4, method=method, calc_unc=calc_unc)
        old = call(old_fun.build_hank, Y=Y, Yref=Y, br=4, method=method, calc_unc=calc_unc)
        same_call(new, old, f"build_hank error {method}/{calc_unc}")
        if new[0] != "err":
            PROBLEMS.append(f"build_hank {method}/{calc_unc}: expected an error")
        n_cases += 1
    tiny = np.array([[1, 2, 3, 4, 5]])
    for method in ("cov_mm", "cov_R", "dat"):
        same_call(
            call(new_fun.build_hank, Y=tiny, Yref=tiny, br=1, method=method),
            call(old_fun.build_hank, Y=tiny, Yref=tiny, br=1, method=method),
            f"build_hank tiny {method}",
        )
        n_cases += 1

    # ---- SSI_multi_setup ---------------------------------------------------------
    for i in range(6):
        n_ref = int(rng.integers(1, 4))
        n_setup = int(rng.integers(2, 4))
        n_dat = int(rng.integers(400, 1200))
        Ys = []
        for _ in range(n_setup):
            n_mov = int(rng.integers(1, 4))
            d = make_data(rng, n_ref + n_mov, n_dat).T
            Ys.append({"ref": d[:n_ref], "mov": d[n_ref:]})
        br = int(rng.integers(3, 8))
        ordmax = int(rng.integers(2, br * n_ref + 1))
        method = ["cov_mm", "cov_R", "dat"][i % 3]
        new = call(new_fun.SSI_multi_setup, Ys, 10.0, br, ordmax, step=1, method_hank=method)
        old = call(old_fun.SSI_multi_setup, Ys, 10.0, br, ordmax, step=1, method_hank=method)
        same_call(new, old, f"SSI_multi_setup#{i} {method}")
        n_cases += 1

    # ---- the algorithm classes through SingleSetup -------------------------------
    for i in range(26):
        unc = i % 6 == 5
        n_ch = int(rng.integers(2, 4 if unc else 9))
        n_dat = int(rng.integers(600, 2500))
        br = int(rng.integers(3, 5 if unc else 10))
        data = make_data(rng, n_ch, n_dat)
        fs = float(10.0 ** rng.uniform(-1, 3))
        ref = random_ref(rng, n_ch)
        n_ref = n_ch if ref is None else len(ref)
        ordmax = int(rng.integers(2, min(br * n_ref, 6 if unc else 20) + 1))
        clsname, method = [
            ("SSIcov", None), ("SSIdat", None), ("SSIcov", "cov_R"), ("SSIcov", "cov_mm"),
            ("SSIdat", "dat"),
        ][i % 5]  # fmt: skip
        kw = dict(br=br, ordmax=ordmax, ref_ind=ref)
        if method is not None:
            kw["method"] = method
        if unc:
            clsname, kw["method"] = "SSIcov", "cov_mm"
            kw.update(calc_unc=True, nb=int(rng.integers(5, 15)))
        new = call(run_alg, new_alg, clsname, data, fs, **kw)
        old = call(run_alg, old_alg, clsname, data, fs, **kw)
        same_call(new, old, f"{clsname}.run#{i} {kw}")
        if new[0] == "err":
            PROBLEMS.append(f"{clsname}.run#{i} {kw}: unexpected {new[1]} in both versions")
        n_cases += 1

    print(f"{n_cases} cases, {N_EXACT} arrays bit-identical, {N_CLOSE} equal to rtol 1e-12")
    if PROBLEMS:
        print("FAIL")
        for p in PROBLEMS[:40]:
            print("  -", p)
        return 1
    print("PASS")
    return 0


if __name__ == "__main__":
    sys.exit(main())
