"""
Differential test: the refactored gen.pre_multisetup / ssi.SSI_multi_setup (and the
multi-setup SSI classes on top of them) against the pristine sources saved next to
this file as orig_gen.py / orig_ssi.py.

Run as:  PYTHONPATH=<tree>/src /venv/bin/python equiv.py
"""
import importlib.util
import logging
import os
import sys
import warnings
from functools import partialmethod

import numpy as np

warnings.filterwarnings("ignore")
logging.disable(logging.CRITICAL)

from tqdm import tqdm  # noqa: E402

tqdm.__init__ = partialmethod(tqdm.__init__, disable=True)

HERE = os.path.dirname(os.path.abspath(__file__))


def load(name, fname):
    spec = importlib.util.spec_from_file_location(name, os.path.join(HERE, fname))
    mod = importlib.util.module_from_spec(spec)
    spec.loader.exec_module(mod)
    return mod


orig_gen = load("orig_gen", "orig_gen.py")
orig_ssi = load("orig_ssi", "orig_ssi.py")

from pyoma2.algorithms.ssi import SSIcov_MS, SSIdat_MS  # noqa: E402
from pyoma2.functions import gen as new_gen  # noqa: E402
from pyoma2.functions import ssi as new_ssi  # noqa: E402
from pyoma2.setup.multi import MultiSetup_PreGER  # noqa: E402

RTOL = 1e-12
failures = []
n_cases = 0


def call(f, *a, **k):
    try:
        return ("ok", f(*a, **k))
    except Exception as e:  # noqa: BLE001 - exceptions are part of the comparison
        return ("exc", type(e))


def same(a, b):
    if isinstance(a, dict):
        return isinstance(b, dict) and a.keys() == b.keys() and all(
            same(a[k], b[k]) for k in a
        )
    if isinstance(a, (list, tuple)):
        return (
            isinstance(b, (list, tuple))
            and len(a) == len(b)
            and all(same(x, y) for x, y in zip(a, b))
        )
    if a is None or b is None:
        return a is None and b is None
    a = np.asarray(a)
    b = np.asarray(b)
    if a.shape != b.shape:
        return False
    if np.array_equal(a, b, equal_nan=True):
        return True
    return bool(np.allclose(a, b, rtol=RTOL, atol=0, equal_nan=True))


def check(tag, r_old, r_new):
    global n_cases
    n_cases += 1
    if r_old[0] != r_new[0]:
        failures.append(f"{tag}: old -> {r_old[0]} {r_old[1] if r_old[0]=='exc' else ''}, "
                        f"new -> {r_new[0]} {r_new[1] if r_new[0]=='exc' else ''}")
    elif r_old[0] == "exc":
        if r_old[1] is not r_new[1]:
            failures.append(f"{tag}: exception types differ {r_old[1]} vs {r_new[1]}")
    elif not same(r_old[1], r_new[1]):
        failures.append(f"{tag}: results differ")


rng = np.random.default_rng(8)


def coloured(n_samp, n_ch):
    """a few decaying oscillators mixed into n_ch channels + noise"""
    t = np.arange(n_samp)
    n_m = 3
    f = rng.uniform(0.03, 0.4, n_m)
    z = rng.uniform(0.005, 0.03, n_m)
    q = np.zeros((n_samp, n_m))
    for m in range(n_m):
        h = np.exp(-z[m] * 2 * np.pi * f[m] * t[:400]) * np.sin(2 * np.pi * f[m] * t[:400])
        q[:, m] = np.convolve(rng.standard_normal(n_samp), h)[:n_samp]
    mix = rng.standard_normal((n_m, n_ch))
    return q @ mix + 0.05 * rng.standard_normal((n_samp, n_ch))


# --------------------------------------------------------------------------
# 1. pre_multisetup: valid reference lists (ascending and not) + invalid ones
# --------------------------------------------------------------------------
for case in range(40):
    n_setup = int(rng.integers(1, 5))
    data, refs = [], []
    n_ref = int(rng.integers(1, 4))
    for _ in range(n_setup):
        n_ch = int(rng.integers(n_ref + 1, 9))
        n_samp = int(rng.integers(5, 60))
        kind = rng.integers(0, 3)
        if kind == 0:
            d = rng.standard_normal((n_samp, n_ch))
        elif kind == 1:
            d = np.asfortranarray(rng.standard_normal((n_samp, n_ch)))
        else:
            d = rng.integers(-50, 50, (n_samp, n_ch))
        data.append(d)
        r = list(rng.permutation(n_ch)[:n_ref])
        if rng.random() < 0.5:
            r = sorted(r)
        refs.append([int(x) for x in r])
    bad = case % 8
    if bad == 5:
        refs[-1][0] = data[-1].shape[1] + int(rng.integers(0, 3))  # out of range
    elif bad == 6 and n_ref > 1:
        refs[-1][1] = refs[-1][0]  # repeated index
    elif bad == 7:
        refs[0][0] = -1  # negative index
    keep = [d.copy() for d in data]
    r_old = call(orig_gen.pre_multisetup, [d.copy() for d in data], [list(r) for r in refs])
    r_new = call(new_gen.pre_multisetup, data, refs)
    check(f"pre_multisetup[{case}] refs={refs}", r_old, r_new)
    if not all(np.array_equal(a, b) for a, b in zip(keep, data)):
        failures.append(f"pre_multisetup[{case}]: input datasets were modified")
    if r_new[0] == "ok":
        for d, out in zip(data, r_new[1]):
            if np.shares_memory(d, out["ref"]) or np.shares_memory(d, out["mov"]):
                failures.append(f"pre_multisetup[{case}]: output aliases the input")

# reference lists given as tuples / arrays
d = [rng.standard_normal((30, 5)), rng.standard_normal((30, 4))]
for refs in ([(4, 0), (1, 3)], [np.array([2, 1]), np.array([0, 3])]):
    check(
        f"pre_multisetup refs={refs}",
        call(orig_gen.pre_multisetup, d, [list(map(int, r)) for r in refs]),
        call(new_gen.pre_multisetup, d, refs),
    )

# --------------------------------------------------------------------------
# 2. SSI_multi_setup on random multi-setup records
# --------------------------------------------------------------------------
methods = ["cov_mm", "cov_R", "dat"]
for case in range(30):
    n_setup = int(rng.integers(1, 4))
    n_ref = int(rng.integers(1, 4))
    n_samp = int(rng.integers(300, 900))
    Y = []
    for _ in range(n_setup):
        n_mov = int(rng.integers(1, 5))
        y = coloured(n_samp, n_ref + n_mov)
        Y.append({"ref": y[:, :n_ref].T, "mov": y[:, n_ref:].T})
    br = int(rng.integers(2, 9))
    ordmax = int(rng.integers(2, min(br * n_ref, 12) + 1))
    step = int(rng.choice([1, 1, 2, 3]))
    method = methods[case % 3] if case % 10 != 9 else "nope"
    if case == 7:
        ordmax = (br + 1) * n_ref + 3  # more columns than the Hankel matrix has
    fs = float(rng.uniform(0.5, 200))
    args = (Y, fs, br, ordmax, method)
    check(
        f"SSI_multi_setup[{case}] setups={n_setup} n_ref={n_ref} br={br} ordmax={ordmax} "
        f"step={step} method={method}",
        call(orig_ssi.SSI_multi_setup, *args, step=step),
        call(new_ssi.SSI_multi_setup, *args, step=step),
    )

# --------------------------------------------------------------------------
# 3. through the setup class: MultiSetup_PreGER + SSIcov_MS / SSIdat_MS
#    (old = pristine helpers patched into the calling layers)
# --------------------------------------------------------------------------
import pyoma2.algorithms.ssi as alg_ssi  # noqa: E402
import pyoma2.setup.multi as setup_multi  # noqa: E402


def run_ms(fs, refs, data, which):
    ms = MultiSetup_PreGER(fs=fs, ref_ind=refs, datasets=data)
    a = SSIcov_MS(name="a", br=8, ordmax=8, method=which[0])
    b = SSIdat_MS(name="b", br=6, ordmax=6)
    ms.add_algorithms(a, b)
    ms.run_all()
    out = []
    for alg in (a, b):
        r = alg.result
        out += [r.Obs, r.A, r.C, r.Fn_poles, r.Xi_poles, r.Phi_poles, r.Lambds, r.Lab]
    out.append([dict(d) for d in ms.data])
    return out


for case in range(6):
    n_ref = int(rng.integers(1, 3))
    data, refs = [], []
    for _ in range(int(rng.integers(2, 4))):
        n_ch = n_ref + int(rng.integers(1, 4))
        data.append(coloured(700, n_ch))
        refs.append([int(x) for x in rng.permutation(n_ch)[:n_ref]])
    fs = float(rng.uniform(5, 100))
    which = (["cov_mm", "cov_R"][case % 2],)
    r_new = call(run_ms, fs, refs, data, which)
    saved = (setup_multi.pre_multisetup, alg_ssi.ssi.SSI_multi_setup)
    setup_multi.pre_multisetup = orig_gen.pre_multisetup
    alg_ssi.ssi.SSI_multi_setup = orig_ssi.SSI_multi_setup
    try:
        r_old = call(run_ms, fs, refs, data, which)
    finally:
        setup_multi.pre_multisetup, alg_ssi.ssi.SSI_multi_setup = saved
    check(f"MultiSetup_PreGER[{case}] refs={refs}", r_old, r_new)

if failures:
    print("FAIL")
    for f in failures:
        print("  -", f)
    sys.exit(1)
print(f"PASS ({n_cases} cases)")
