"""
Differential test: the CLEAN version of the commit against the unmodified library.

Run as:  PYTHONPATH=<tree>/src /venv/bin/python equiv.py        (with clean.diff applied)

The pristine implementations of the two touched files are loaded from the copies saved
next to this script (orig_fdd_alg.py = src/pyoma2/algorithms/fdd.py at HEAD,
orig_setup_base.py = src/pyoma2/setup/base.py at HEAD).  Random call histories
(add / run_by_name / run_all / mpe / parameter changes / preprocessing that replaces the
data / rollback / invalid calls) over random subsets and orders of algorithm classes
and random spectral settings are replayed on both; after every call the raised exception,
every field of every algorithm's result, the run parameters and the data must agree.
"""

from __future__ import annotations

import copy
import importlib.util
import logging
import os
import pathlib
import pickle
import sys
import warnings

os.environ.setdefault("TQDM_DISABLE", "1")
warnings.filterwarnings("ignore")
logging.disable(logging.CRITICAL)

import numpy as np  # noqa: E402
from scipy import signal  # noqa: E402

HERE = pathlib.Path(__file__).resolve().parent


def _load(name: str, fname: str):
    spec = importlib.util.spec_from_file_location(name, HERE / fname)
    mod = importlib.util.module_from_spec(spec)
    sys.modules[name] = mod
    spec.loader.exec_module(mod)
    return mod


orig_alg = _load("orig_fdd_alg", "orig_fdd_alg.py")
orig_base = _load("orig_setup_base", "orig_setup_base.py")

import pyoma2.algorithms.fdd as new_alg  # noqa: E402
import pyoma2.setup.base as new_base  # noqa: E402
from pyoma2.algorithms import SSIcov, pLSCF  # noqa: E402  (untouched, same on both sides)
from pyoma2.functions.gen import pre_multisetup  # noqa: E402
from pyoma2.setup import SingleSetup  # noqa: E402

assert orig_base.BaseSetup is not new_base.BaseSetup
assert orig_alg.FDD is not new_alg.FDD

FS = 100.0


# ---------------------------------------------------------------------------------------
def make_data(rng, n, nch):
    modes = [(8.0, 0.02), (21.0, 0.015), (33.0, 0.02)]
    shapes = rng.normal(size=(nch, len(modes)))
    out = np.zeros((n, nch))
    for k, (fn, xi) in enumerate(modes):
        wn = 2 * np.pi * fn
        sysd = signal.cont2discrete(([wn**2], [1.0, 2 * xi * wn, wn**2]), 1 / FS)
        q = signal.lfilter(sysd[0].ravel(), sysd[1], rng.normal(size=n))
        out += np.outer(q, shapes[:, k])
    out += 0.05 * rng.normal(size=out.shape) + 0.3
    return out


class OrigSingle(orig_base.BaseSetup):
    """The parts of SingleSetup used here, on top of the pristine BaseSetup."""

    def __init__(self, data, fs):
        self.data = data
        self.fs = fs
        self._initialize_data(data, fs)

    def _initialize_data(self, data, fs):
        self._initial_data = copy.deepcopy(data)
        self._initial_fs = fs
        self.dt = 1 / fs
        self.algorithms = {}

    def rollback(self):
        self.data = self._initial_data
        self.fs = self._initial_fs
        self._initialize_data(data=self._initial_data, fs=self._initial_fs)

    def decimate_data(self, q, **kwargs):
        axis = kwargs.pop("axis", 0)
        data, fs, dt, _, _ = super()._decimate_data(
            data=self.data, fs=self.fs, q=q, axis=axis, **kwargs
        )
        self.data, self.fs, self.dt = data, fs, dt

    def detrend_data(self, **kwargs):
        self.data = super()._detrend_data(data=self.data, **kwargs)

    def filter_data(self, Wn, order=8, btype="lowpass"):
        self.data = super()._filter_data(
            data=self.data, fs=self.fs, Wn=Wn, order=order, btype=btype
        )


# ---------------------------------------------------------------------------------------
def equal(a, b, path="") -> str | None:
    """None if equal, else a description of the first difference."""
    if a is None or b is None:
        return None if (a is None and b is None) else f"{path}: None vs value"
    if isinstance(a, (list, tuple)) and isinstance(b, (list, tuple)):
        if len(a) != len(b):
            return f"{path}: length {len(a)} vs {len(b)}"
        for i, (x, y) in enumerate(zip(a, b)):
            d = equal(x, y, f"{path}[{i}]")
            if d:
                return d
        return None
    if isinstance(a, dict) and isinstance(b, dict):
        if list(a) != list(b):
            return f"{path}: keys {list(a)} vs {list(b)}"
        for k in a:
            d = equal(a[k], b[k], f"{path}.{k}")
            if d:
                return d
        return None
    if isinstance(a, (str, bool)) or isinstance(b, (str, bool)):
        return None if a == b and type(a) is type(b) else f"{path}: {a!r} vs {b!r}"
    xa, xb = np.asarray(a), np.asarray(b)
    if xa.shape != xb.shape or xa.dtype != xb.dtype:
        return f"{path}: {xa.dtype}{xa.shape} vs {xb.dtype}{xb.shape}"
    if xa.dtype == object:
        return equal(list(xa.ravel()), list(xb.ravel()), path)
    if np.array_equal(xa, xb, equal_nan=True) or np.allclose(
        xa, xb, rtol=1e-12, atol=0.0, equal_nan=True
    ):
        return None
    return f"{path}: values differ (max abs {np.nanmax(np.abs(xa - xb))})"


def state(setup) -> dict:
    algs = getattr(setup, "algorithms", {})
    out = {"names": list(algs), "fs": setup.fs, "data": setup.data}
    for nm, alg in algs.items():
        res = alg.result
        out[f"res:{nm}"] = (
            None
            if res is None
            else {"cls": type(res).__name__, **{k: getattr(res, k) for k in type(res).model_fields}}
        )
        rp = alg.run_params
        out[f"par:{nm}"] = None if rp is None else rp.model_dump()
        out[f"bound:{nm}"] = (getattr(alg, "fs", None), getattr(alg, "data", None))
    return out


def call(fn):
    try:
        fn()
        return ("ok",)
    except Exception as e:  # noqa: BLE001
        return (type(e).__name__, str(e))


# ---------------------------------------------------------------------------------------
FAMILY = ("FDD", "EFDD", "FSDD")


def new_algorithm(side, kind, name, kw):
    mod = new_alg if side == "new" else orig_alg
    if kind in FAMILY:
        return getattr(mod, kind)(name=name, **kw) if kw is not None else getattr(mod, kind)(name=name)
    if kind == "SSIcov":
        return SSIcov(name=name, br=6, ordmax=12)
    if kind == "pLSCF":
        return pLSCF(name=name, ordmax=8, nxseg=kw["nxseg"])
    raise AssertionError(kind)


def random_spec(rng):
    return dict(
        nxseg=int(rng.choice([128, 256, 256, 512])),
        method_SD=str(rng.choice(["per", "per", "cor"])),
        pov=float(rng.choice([0.0, 0.25, 0.5, 0.5, 0.67])),
    )


def mpe_kwargs(kind, rng):
    sel = [[8.0, 21.0], [21.0], [8.0, 21.0, 33.0]][int(rng.integers(3))]
    if kind == "FDD":
        return dict(sel_freq=sel, DF=float(rng.choice([0.3, 0.5])))
    if kind in ("EFDD", "FSDD"):
        return dict(sel_freq=sel, DF1=0.5, DF2=float(rng.choice([1.0, 2.0])), npmax=int(rng.choice([8, 20])))
    if kind == "SSIcov":
        return dict(sel_freq=sel, order=10)
    return dict(sel_freq=sel, order=6)


def history(seed: int) -> tuple[int, str | None]:
    rng = np.random.default_rng(seed)
    nch = int(rng.integers(2, 6))
    n = int(rng.choice([2400, 3000, 4000]))
    data = make_data(rng, n, nch)
    setups = {"new": SingleSetup(data.copy(), fs=FS), "orig": OrigSingle(data.copy(), fs=FS)}
    kinds: dict[str, str] = {}
    counter = 0
    nops = int(rng.integers(8, 15))
    done = 0
    for step in range(nops):
        names = list(kinds)
        r = rng.random()
        if not names or r < 0.22:
            k = int(rng.integers(1, 4))
            batch = []
            for _ in range(k):
                kind = str(rng.choice(["FDD", "EFDD", "FSDD", "FDD", "EFDD", "FSDD", "SSIcov", "pLSCF"]))
                counter += 1
                nm = f"{kind}_{counter}"
                spec = random_spec(rng)
                if kind in FAMILY and rng.random() < 0.08:
                    spec = None  # no run parameters: run must be refused
                elif rng.random() < 0.5 and batch:
                    spec = batch[0][2] or spec  # same spectral settings as the first
                batch.append((kind, nm, spec))
                kinds[nm] = kind
            desc = f"add {[(b[0], b[2]) for b in batch]}"

            def op(side, batch=batch):
                return lambda: setups[side].add_algorithms(
                    *[new_algorithm(side, kd, nm, sp) for kd, nm, sp in batch]
                )
        elif r < 0.45:
            nm = str(rng.choice(names + ["nobody"]))
            desc = f"run_by_name {nm}"

            def op(side, nm=nm):
                return lambda: setups[side].run_by_name(nm)
        elif r < 0.57:
            desc = "run_all"

            def op(side):
                return lambda: setups[side].run_all()
        elif r < 0.80:
            nm = str(rng.choice(names))
            kw = mpe_kwargs(kinds[nm], rng)
            desc = f"mpe {nm} {kw}"

            def op(side, nm=nm, kw=kw):
                return lambda: setups[side].mpe(nm, **copy.deepcopy(kw))
        elif r < 0.88:
            fam = [x for x in names if kinds[x] in FAMILY]
            if not fam:
                continue
            nm = str(rng.choice(fam))
            field, val = [
                ("nxseg", int(rng.choice([128, 256, 512]))),
                ("pov", float(rng.choice([0.25, 0.5]))),
                ("method_SD", str(rng.choice(["per", "cor"]))),
            ][int(rng.integers(3))]
            desc = f"set {nm}.{field}={val}"

            def op(side, nm=nm, field=field, val=val):
                def f():
                    alg = setups[side][nm]
                    if alg.run_params is None:
                        alg.set_run_params(alg.RunParamCls(**{field: val}))
                    else:
                        setattr(alg.run_params, field, val)

                return f
        elif r < 0.96:
            which = int(rng.integers(3))
            desc = ["detrend", "decimate q=2", "filter"][which]

            def op(side, which=which):
                s = setups[side]
                return [
                    lambda: s.detrend_data(),
                    lambda: s.decimate_data(q=2),
                    lambda: s.filter_data(Wn=40.0 if s.fs > 90 else 20.0, order=4),
                ][which]
        else:
            desc = "rollback"
            kinds.clear()

            def op(side):
                return lambda: setups[side].rollback()

        out_new = call(op("new"))
        out_orig = call(op("orig"))
        done += 1
        if out_new != out_orig:
            return done, f"seed {seed} step {step} ({desc}): outcome {out_new} vs {out_orig}"
        d = equal(state(setups["new"]), state(setups["orig"]), "state")
        if d:
            return done, f"seed {seed} step {step} ({desc}): {d}"

    # a saved and reloaded setup carries the same parameters and results
    back = pickle.loads(pickle.dumps(setups["new"]))
    d = equal(state(back), state(setups["orig"]), "pickled")
    if d:
        return done, f"seed {seed} pickle round trip: {d}"
    return done, None


def multisetup_case(seed: int) -> str | None:
    """FDD_MS / EFDD_MS on PreGER data through the two BaseSetup versions."""
    rng = np.random.default_rng(1000 + seed)
    datasets = [make_data(rng, 2400, 4) for _ in range(2)]
    ref_ind = [[0, 1], [0, 1]]
    setups = {}
    for side, Base, mod in (("new", new_base.BaseSetup, new_alg), ("orig", orig_base.BaseSetup, orig_alg)):
        s = Base()
        s.data = pre_multisetup([d.copy() for d in datasets], ref_ind)
        s.fs = FS
        spec = dict(nxseg=256, method_SD=str(rng.choice(["per", "cor"])), pov=0.5)
        setups[side] = (s, mod, spec)
    spec = setups["new"][2]
    for side in setups:
        s, mod, _ = setups[side]
        s.add_algorithms(mod.FDD_MS(name="f", **spec), mod.EFDD_MS(name="e", **spec))
    for opname in ("run_all", "mpe_f", "run_e", "mpe_e", "run_all"):
        outs = {}
        for side in setups:
            s = setups[side][0]
            outs[side] = call(
                {
                    "run_all": s.run_all,
                    "mpe_f": lambda s=s: s.mpe("f", sel_freq=[8.0, 21.0], DF=0.5),
                    "run_e": lambda s=s: s.run_by_name("e"),
                    "mpe_e": lambda s=s: s.mpe("e", sel_freq=[8.0], DF1=0.5, npmax=8),
                }[opname]
            )
        if outs["new"] != outs["orig"]:
            return f"MS seed {seed} {opname}: outcome {outs['new']} vs {outs['orig']}"
        a, b = state(setups["new"][0]), state(setups["orig"][0])
        d = equal(a, b, "state")
        if d:
            return f"MS seed {seed} {opname}: {d}"
    return None


def main() -> int:
    total_ops = 0
    nhist = 36
    for seed in range(nhist):
        done, err = history(seed)
        total_ops += done
        if err:
            print("FAIL")
            print("  ", err)
            return 1
    for seed in range(3):
        err = multisetup_case(seed)
        if err:
            print("FAIL")
            print("  ", err)
            return 1
    print(f"PASS ({nhist} random histories, {total_ops} calls compared, 3 multi-setup cases)")
    return 0


if __name__ == "__main__":
    sys.exit(main())
