"""
Differential test: the library on PYTHONPATH (CLEAN version of the commit) against the
pristine sources saved next to this file (orig_functions_ssi.py, orig_algorithms_ssi.py).

Run as:  PYTHONPATH=<tree>/src /venv/bin/python equiv.py
Prints PASS and exits 0 if every output (or raised exception type) agrees.
"""

import importlib.util
import logging
import os
import sys
from functools import partial

import numpy as np

logging.disable(logging.CRITICAL)

import tqdm as _tqdm  # noqa: E402

import pyoma2.algorithms  # noqa: E402,F401  (package must be imported before the copy)
from pyoma2.algorithms import ssi as new_alg  # noqa: E402
from pyoma2.functions import ssi as new_fn  # noqa: E402

HERE = os.path.dirname(os.path.abspath(__file__))


def load(name, filename):
    spec = importlib.util.spec_from_file_location(name, os.path.join(HERE, filename))
    mod = importlib.util.module_from_spec(spec)
    sys.modules[name] = mod
    spec.loader.exec_module(mod)
    return mod


old_fn = load("pyoma2.functions.orig_functions_ssi", "orig_functions_ssi.py")
# the module name keeps the relative import `from .base import BaseAlgorithm` working
old_alg = load("pyoma2.algorithms.orig_algorithms_ssi", "orig_algorithms_ssi.py")
old_alg.ssi = old_fn  # pristine algorithm layer on top of the pristine function layer

for m in (new_fn, old_fn):
    m.trange = partial(_tqdm.trange, disable=True)
    m.tqdm = partial(_tqdm.tqdm, disable=True)

mismatches = []
n_checks = 0


def same(a, b):
    if a is None or b is None:
        return a is None and b is None
    if isinstance(a, (list, tuple)):
        return (
            isinstance(b, (list, tuple))
            and len(a) == len(b)
            and all(same(x, y) for x, y in zip(a, b))
        )
    a = np.asarray(a)
    b = np.asarray(b)
    if a.shape != b.shape:
        return False
    if np.array_equal(a, b, equal_nan=True):
        return True
    return bool(np.allclose(a, b, rtol=1e-12, atol=0.0, equal_nan=True))


def outcome(fun, *args, **kwargs):
    try:
        return ("ok", fun(*args, **kwargs))
    except Exception as exc:  # noqa: BLE001
        return ("exc", type(exc))


def compare(tag, new, old):
    global n_checks
    n_checks += 1
    if new[0] != old[0]:
        mismatches.append(f"{tag}: new {new[0]} / old {old[0]} ({new[1]!r} vs {old[1]!r})")
    elif new[0] == "exc":
        if new[1] is not old[1]:
            mismatches.append(f"{tag}: exception {new[1].__name__} vs {old[1].__name__}")
    elif not same(new[1], old[1]):
        mismatches.append(f"{tag}: values differ")


def main():
    rng = np.random.default_rng(12)

    # ------------------------------------------------------------------ build_hank
    for case in range(40):
        n_ch = int(rng.integers(1, 6))
        n_ref = int(rng.integers(1, n_ch + 1))
        ref = rng.permutation(n_ch)[:n_ref]  # subset, any order
        br = int(rng.integers(1, 6))
        Ndat = int(rng.integers(2 * br + 4, 120))
        Y = rng.standard_normal((n_ch, Ndat))
        if case % 7 == 0:
            Y = rng.integers(-5, 6, size=(n_ch, Ndat))  # integer data
        Yref = Y if case % 5 == 0 else Y[ref, :]
        for method in ("cov_mm", "cov_R", "dat"):
            tag = f"build_hank[{case}] n_ch={n_ch} ref={ref.tolist()} br={br} N={Ndat} {method}"
            old = outcome(old_fn.build_hank, Y, Yref, br, method)
            compare(tag + " positional", outcome(new_fn.build_hank, Y, Yref, br, method), old)
            compare(
                tag + " method=",
                outcome(new_fn.build_hank, Y=Y, Yref=Yref, br=br, method=method,
                        calc_unc=False, nb=100),
                old,
            )
            compare(
                tag + " method_hank=",
                outcome(new_fn.build_hank, Y, Yref, br, method_hank=method),
                old,
            )
        # uncertainty matrix (cov_mm only; other methods must raise)
        nb = int(rng.integers(2, 6))
        for method in ("cov_mm", "cov_R", "dat", "YfYp"):
            compare(
                f"build_hank[{case}] calc_unc {method}",
                outcome(new_fn.build_hank, Y, Yref, br, method, True, nb),
                outcome(old_fn.build_hank, Y, Yref, br, method, True, nb),
            )
            compare(
                f"build_hank[{case}] calc_unc kw {method}",
                outcome(new_fn.build_hank, Y=Y, Yref=Yref, br=br, method=method,
                        calc_unc=True, nb=nb),
                outcome(old_fn.build_hank, Y=Y, Yref=Yref, br=br, method=method,
                        calc_unc=True, nb=nb),
            )
        compare(
            f"build_hank[{case}] invalid method",
            outcome(new_fn.build_hank, Y, Yref, br, "invalid"),
            outcome(old_fn.build_hank, Y, Yref, br, "invalid"),
        )
        compare(
            f"build_hank[{case}] missing method",
            outcome(new_fn.build_hank, Y, Yref, br),
            outcome(old_fn.build_hank, Y, Yref, br),
        )
        compare(
            f"build_hank[{case}] 1-D data",
            outcome(new_fn.build_hank, Y[0], Yref, br, "cov_mm"),
            outcome(old_fn.build_hank, Y[0], Yref, br, "cov_mm"),
        )

    # ------------------------------------------------------------- SSI_multi_setup
    for case in range(12):
        n_ref = int(rng.integers(1, 4))
        n_setup = int(rng.integers(1, 4))
        br = int(rng.integers(2, 5))
        ordmax = int(rng.integers(1, min(br * n_ref, 6) + 1))
        data = []
        for _ in range(n_setup):
            Ndat = int(rng.integers(150, 400))
            data.append(
                {
                    "ref": rng.standard_normal((n_ref, Ndat)),
                    "mov": rng.standard_normal((int(rng.integers(1, 4)), Ndat)),
                }
            )
        for method in ("cov_mm", "cov_R", "dat", "INVALID"):
            step = int(rng.integers(1, 3))
            tag = f"SSI_multi_setup[{case}] n_ref={n_ref} n_setup={n_setup} br={br} {method}"
            compare(
                tag + " positional",
                outcome(new_fn.SSI_multi_setup, data, 10.0, br, ordmax, method),
                outcome(old_fn.SSI_multi_setup, data, 10.0, br, ordmax, method),
            )
            compare(
                tag + " keyword",
                outcome(new_fn.SSI_multi_setup, data, 10.0, br, ordmax, step=step,
                        method_hank=method),
                outcome(old_fn.SSI_multi_setup, data, 10.0, br, ordmax, step=step,
                        method_hank=method),
            )

    # ------------------------------------------------------------ algorithm classes
    fields = ["H", "Obs", "A", "C", "Lambds", "Fn_poles", "Xi_poles", "Phi_poles", "Lab",
              "Fn_poles_cov", "Xi_poles_cov", "Phi_poles_cov"]

    def run_alg(mod, clsname, data, kwargs):
        alg = getattr(mod, clsname)(name="x", **kwargs)
        alg._set_data(data=data, fs=50.0)
        res = alg.run()
        return [getattr(res, f) for f in fields]

    for case in range(10):
        n_ch = int(rng.integers(2, 6))
        data = rng.standard_normal((int(rng.integers(300, 600)), n_ch))
        n_ref = int(rng.integers(1, n_ch + 1))
        ref = None if case % 3 == 0 else rng.permutation(n_ch)[:n_ref].tolist()
        br = int(rng.integers(3, 6))
        n_cols = (br + 1) * (n_ch if ref is None else len(ref))
        ordmax = int(min(6, n_cols))
        for clsname, method in [("SSIdat", None), ("SSIcov", None), ("SSIcov", "cov_R"),
                                ("SSIdat", "cov_mm")]:
            kwargs = dict(br=br, ordmax=ordmax, ref_ind=ref)
            if method is not None:
                kwargs["method"] = method
            tag = f"{clsname}[{case}] n_ch={n_ch} ref_ind={ref} br={br} method={method}"
            compare(tag, outcome(run_alg, new_alg, clsname, data, kwargs),
                    outcome(run_alg, old_alg, clsname, data, kwargs))
        if case % 2 == 0:
            kwargs = dict(br=br, ordmax=ordmax, ref_ind=ref, calc_unc=True, nb=5)
            compare(f"SSIcov[{case}] calc_unc",
                    outcome(run_alg, new_alg, "SSIcov", data, kwargs),
                    outcome(run_alg, old_alg, "SSIcov", data, kwargs))

    for case in range(6):
        n_ref = int(rng.integers(1, 4))
        br = int(rng.integers(3, 6))
        ordmax = int(min(br * n_ref, 6))
        data = []
        for _ in range(int(rng.integers(1, 4))):
            Ndat = int(rng.integers(200, 500))
            data.append(
                {
                    "ref": rng.standard_normal((n_ref, Ndat)),
                    "mov": rng.standard_normal((int(rng.integers(1, 4)), Ndat)),
                }
            )
        for clsname in ("SSIdat_MS", "SSIcov_MS"):
            kwargs = dict(br=br, ordmax=ordmax)
            compare(f"{clsname}[{case}] n_ref={n_ref} br={br}",
                    outcome(run_alg, new_alg, clsname, data, kwargs),
                    outcome(run_alg, old_alg, clsname, data, kwargs))

    if mismatches:
        print(f"FAIL: {len(mismatches)} of {n_checks} comparisons differ")
        for m in mismatches[:15]:
            print("  ", m)
        return 1
    print(f"PASS ({n_checks} comparisons with the pristine implementation)")
    return 0


if __name__ == "__main__":
    sys.exit(main())
