"""
Differential test: the library under PYTHONPATH (CLEAN version of the commit) against
the unmodified sources saved next to this file (orig_fdd_functions.py,
orig_fdd_algorithms.py).

Compared on randomly generated inputs / configurations:
  1. fdd.SDOF_bellandMS           - random complex spectral matrices, both methods
  2. fdd.EFDD_mpe                 - analytic single-mode bells, spectra estimated from
                                    simulated two-mode records ('per' and 'cor'), an
                                    unknown methodSy, several modes per call
  3. EFDD / FSDD .run + .mpe      - results and stored run parameters, repeated calls
  4. invalid input                - both versions have to refuse it (the commit replaces
                                    the IndexError of a too short free decay by a
                                    ValueError with a message: for these cases only the
                                    fact that both raise is compared; everywhere else
                                    the exception types have to agree as well)
Arrays are compared with numpy.array_equal or allclose(rtol=1e-12, equal_nan=True).
"""
import importlib.util
import logging
import os
import sys

os.environ.setdefault("TQDM_DISABLE", "1")

import numpy as np  # noqa: E402

import pyoma2.algorithms.fdd as new_alg  # noqa: E402
import pyoma2.functions.fdd as new_fdd  # noqa: E402

HERE = os.path.dirname(os.path.abspath(__file__))


def _load(name, filename):
    spec = importlib.util.spec_from_file_location(name, os.path.join(HERE, filename))
    mod = importlib.util.module_from_spec(spec)
    sys.modules[name] = mod
    spec.loader.exec_module(mod)
    return mod


orig_fdd = _load("pyoma2.functions._orig_fdd", "orig_fdd_functions.py")
orig_alg = _load("pyoma2.algorithms._orig_fdd", "orig_fdd_algorithms.py")
orig_alg.fdd = orig_fdd  # the pristine classes call the pristine functions

logging.disable(logging.CRITICAL)
np.seterr(all="ignore")

FAILS = []
COUNT = {"cases": 0, "ok": 0, "raised": 0}


def same(a, b):
    if isinstance(a, (list, tuple)):
        return (
            isinstance(b, (list, tuple))
            and len(a) == len(b)
            and all(same(x, y) for x, y in zip(a, b))
        )
    if a is None or b is None:
        return a is None and b is None
    a, b = np.asarray(a), np.asarray(b)
    if a.shape != b.shape:
        return False
    if np.array_equal(a, b):
        return True
    try:
        return bool(np.allclose(a, b, rtol=1e-12, equal_nan=True))
    except TypeError:
        return False


def outcome(fun, *args, **kwargs):
    try:
        return ("ok", fun(*args, **kwargs))
    except Exception as exc:  # noqa: BLE001
        return ("raised", exc)


def compare(label, new, old, exc_type_may_differ=False):
    COUNT["cases"] += 1
    COUNT[old[0]] += 1
    if new[0] != old[0]:
        FAILS.append(f"{label}: new {new[0]} ({new[1]!r:.80}) / orig {old[0]} ({old[1]!r:.80})")
    elif new[0] == "raised":
        if not exc_type_may_differ and type(new[1]) is not type(old[1]):
            FAILS.append(f"{label}: exception types differ {new[1]!r:.80} / {old[1]!r:.80}")
    elif not same(new[1], old[1]):
        FAILS.append(f"{label}: results differ")


# ----------------------------------------------------------------------------- inputs
def bell_matrix(rng, fs, nxseg, fn, xi, nch, scale):
    freq = np.arange(nxseg // 2 + 1) * fs / nxseg
    w, wn = 2 * np.pi * freq, 2 * np.pi * fn
    S = 1.0 / ((wn**2 - w**2) ** 2 + (2 * xi * wn * w) ** 2)
    S /= S.max()
    phi = rng.uniform(0.3, 1.0, nch) * rng.choice([-1.0, 1.0], nch)
    Sy = S[None, None, :] * np.outer(phi, phi)[:, :, None]
    Sy = scale * (Sy + 1e-9 * np.eye(nch)[:, :, None])
    return freq, Sy.astype(complex)


def records(rng, fs, npts, nch, fns, xis):
    """white-noise driven two-mode system, modal superposition, plus sensor noise"""
    t = np.arange(npts) / fs
    out = np.zeros((npts, nch))
    for fn, xi in zip(fns, xis):
        wn = 2 * np.pi * fn
        wd = wn * np.sqrt(1 - xi**2)
        h = np.exp(-xi * wn * t[: int(8 / (xi * fn) * fs / 6)])
        h = h * np.sin(wd * t[: len(h)])
        q = np.convolve(rng.standard_normal(npts), h)[:npts]
        out += np.outer(q / q.std(), rng.uniform(-1, 1, nch))
    return out + 0.05 * rng.standard_normal((npts, nch))


# ------------------------------------------------------------------------------ tests
def test_sdof_bell(rng, ncase=12):
    for k in range(ncase):
        nch, nf = int(rng.integers(2, 6)), int(rng.integers(60, 400))
        A = rng.standard_normal((nch, nch, nf)) + 1j * rng.standard_normal((nch, nch, nf))
        if k % 2:  # Hermitian positive, one dominant shape
            v = rng.standard_normal(nch)
            A = np.einsum("ijk,ljk->ilk", A, A.conj()) * 0.01
            A = A + np.outer(v, v)[:, :, None] * (1 + rng.random(nf))[None, None, :]
            phi = v + 0.05 * rng.standard_normal(nch)
        else:
            phi = rng.standard_normal(nch) + 1j * rng.standard_normal(nch)
        dt = float(rng.choice([0.001, 0.01, 0.1, 1.0]))
        fmax = 1 / dt / 2
        kw = dict(
            method=str(rng.choice(["FSDD", "EFDD"])),
            cm=int(rng.integers(1, 3)),
            MAClim=float(rng.choice([0.0, 0.5, 0.85, 0.95])),
            DF=float(rng.uniform(0.02, 0.3) * fmax),
        )
        sel_fn = float(rng.uniform(0.05, 0.95) * fmax)
        compare(
            f"SDOF_bellandMS #{k} {kw}",
            outcome(new_fdd.SDOF_bellandMS, A.copy(), dt, sel_fn, phi.copy(), **kw),
            outcome(orig_fdd.SDOF_bellandMS, A.copy(), dt, sel_fn, phi.copy(), **kw),
        )


def test_efdd_analytic(rng, ncase=14):
    for k in range(ncase):
        fs = float(rng.choice([1.0, 20.0, 100.0, 1000.0]))
        nxseg = int(rng.choice([1024, 2048, 4096]))
        xi = float(rng.uniform(0.02, 0.05))
        fn = float(rng.uniform(0.04, 0.25)) * fs
        nch = int(rng.integers(2, 7))
        scale = float(10.0 ** rng.uniform(-14, 6))
        freq, Sy = bell_matrix(rng, fs, nxseg, fn, xi, nch, scale)
        bw = 2 * xi * fn
        kw = dict(
            method=str(rng.choice(["FSDD", "EFDD"])),
            DF1=float(rng.uniform(1, 3) * bw),
            DF2=float(rng.uniform(4, 8) * bw),
            MAClim=float(rng.choice([0.85, 0.95])),
            sppk=int(rng.integers(0, 5)),
            npmax=int(rng.integers(5, 25)),
        )
        sel = [fn * (1 + rng.uniform(-0.2, 0.2) * xi)]
        compare(
            f"EFDD_mpe analytic #{k} fs={fs} nxseg={nxseg} scale={scale:.1e} {kw}",
            outcome(new_fdd.EFDD_mpe, Sy.copy(), freq, 1 / fs, sel, "per", **kw),
            outcome(orig_fdd.EFDD_mpe, Sy.copy(), freq, 1 / fs, sel, "per", **kw),
        )


def test_efdd_estimated(rng, ncase=10):
    for k in range(ncase):
        fs = float(rng.choice([50.0, 100.0]))
        nch = int(rng.integers(3, 6))
        fns, xis = [0.06 * fs, 0.17 * fs], [0.02, 0.03]
        Y = records(rng, fs, 30000, nch, fns, xis).T * float(10.0 ** rng.uniform(-5, 2))
        mSy = ["per", "cor"][k % 2]
        nxseg = int(rng.choice([1024, 2048]))
        freq, Sy = orig_fdd.SD_est(Y, Y, 1 / fs, nxseg, method=mSy, pov=0.5)
        label_mSy = "paer" if k == 4 else mSy
        kw = dict(
            method=str(rng.choice(["FSDD", "EFDD"])),
            DF1=0.02 * fs,
            DF2=float(rng.uniform(0.02, 0.05) * fs),
            cm=int(rng.integers(1, 3)),
            MAClim=float(rng.choice([0.8, 0.9])),
            sppk=int(rng.integers(1, 4)),
            npmax=int(rng.integers(4, 12)),
        )
        sel = fns if k % 3 else fns[::-1]
        compare(
            f"EFDD_mpe estimated #{k} {label_mSy} {kw}",
            outcome(new_fdd.EFDD_mpe, Sy.copy(), freq, 1 / fs, sel, label_mSy, **kw),
            outcome(orig_fdd.EFDD_mpe, Sy.copy(), freq, 1 / fs, sel, label_mSy, **kw),
        )


def _state(algo):
    res, rp = algo.result, algo.run_params
    return [
        res.Fn, res.Xi, res.Phi, res.forPlot, res.freq, res.Sy,
        None if rp.sel_freq is None else np.asarray(rp.sel_freq),
        [rp.DF1, rp.DF2, rp.cm, rp.MAClim, rp.sppk, rp.npmax, rp.nxseg, rp.pov],
    ]  # fmt: skip


def test_classes(rng, ncase=8):
    for k in range(ncase):
        fs = 100.0
        nch = int(rng.integers(3, 6))
        fns = [6.0, 17.0]
        data = records(rng, fs, 30000, nch, fns, [0.02, 0.03])
        clsname = ["EFDD", "FSDD"][k % 2]
        rp = dict(nxseg=int(rng.choice([1024, 2048])), method_SD=["per", "cor"][(k // 2) % 2])
        pair = []
        for mod in (new_alg, orig_alg):
            algo = getattr(mod, clsname)(name=clsname, **rp)
            algo._set_data(data.copy(), fs)
            algo._set_result(algo.run())
            pair.append(algo)
        calls = [
            dict(sel_freq=fns, DF1=1.0, DF2=float(rng.uniform(1.5, 4.0)),
                 MAClim=float(rng.choice([0.85, 0.9])), npmax=int(rng.integers(5, 15))),
            dict(sel_freq=[fns[1]], sppk=int(rng.integers(0, 4))),  # second call, defaults
        ]  # fmt: skip
        for j, kw in enumerate(calls):
            outs = []
            for algo in pair:
                o = outcome(algo.mpe, **kw)
                outs.append(o if o[0] == "raised" else ("ok", _state(algo)))
            compare(f"{clsname}.mpe #{k}.{j} {rp} {kw}", outs[0], outs[1])


def test_invalid(rng):
    fs, nxseg = 100.0, 1024
    freq, Sy = bell_matrix(rng, fs, nxseg, 10.0, 0.02, 3, 1.0)
    base = dict(method="FSDD", DF1=0.8, DF2=2.0)
    cases = [
        ("MAClim above 1 (empty bell)", dict(base, MAClim=1.5), False),
        ("DF2 = 0", dict(base, DF2=0.0), False),
        ("DF1 < 0", dict(base, DF1=-0.5), False),
        ("too few extrema", dict(base, npmax=400), True),
        ("too few extrema, sppk", dict(base, sppk=300), True),
        ("unknown method", dict(base, method="fsdd"), True),
    ]
    for label, kw, loose in cases:
        new = outcome(new_fdd.EFDD_mpe, Sy.copy(), freq, 1 / fs, [10.0], "per", **kw)
        old = outcome(orig_fdd.EFDD_mpe, Sy.copy(), freq, 1 / fs, [10.0], "per", **kw)
        compare(f"invalid: {label}", new, old, exc_type_may_differ=loose)
        if new[0] != "raised":
            FAILS.append(f"invalid: {label}: accepted by the new version")
    # a failing call must leave the object as the pristine class leaves its results
    for mod in (new_alg,):
        algo = mod.FSDD(name="FSDD", nxseg=nxseg, method_SD="per")
        algo._set_data(np.zeros((10, 3)), fs)
        S_val, S_vec = new_fdd.SD_svalsvec(Sy)
        algo._set_result(algo.ResultCls(freq=freq, Sy=Sy, S_val=S_val, S_vec=S_vec))
        algo.mpe(sel_freq=[10.0], DF1=0.8, DF2=2.0)
        before = _state(algo)
        o = outcome(algo.mpe, sel_freq=[10.0], DF1=0.8, DF2=2.0, npmax=400)
        COUNT["cases"] += 1
        if o[0] != "raised" or not same(before, _state(algo)):
            FAILS.append("failing mpe call changed the stored results / run parameters")


def main():
    rng = np.random.default_rng(20240707)
    test_sdof_bell(rng)
    test_efdd_analytic(rng)
    test_efdd_estimated(rng)
    test_classes(rng)
    test_invalid(rng)
    if FAILS:
        print(f"FAIL ({len(FAILS)} of {COUNT['cases']} comparisons)")
        for line in FAILS[:15]:
            print("  " + line)
        return 1
    print(
        f"PASS ({COUNT['cases']} comparisons: {COUNT['ok']} with results, "
        f"{COUNT['raised']} refused by both versions)"
    )
    return 0


if __name__ == "__main__":
    sys.exit(main())
