"""
Equivalence check for the C06 refactoring (FDD picks the dominant line in the band).

Runs the refactored code (src/pyoma2/functions/fdd.py, src/pyoma2/algorithms/fdd.py) and the
pristine HEAD copies (_refactor/orig_functions_fdd.py, _refactor/orig_algorithms_fdd.py) on the
same inputs and asserts identical outputs (bitwise: np.array_equal + dtype + shape; NaN pattern
included) and equal exception types.

    PYTHONPATH=/tmp/wt/Q06/src /venv/bin/python /tmp/wt/Q06/_refactor/equiv.py
"""

import copy
import importlib.util
import logging
import os
import sys
import warnings

import numpy as np

os.environ["TQDM_DISABLE"] = "1"  # before tqdm is imported

HERE = os.path.dirname(os.path.abspath(__file__))
SRC = os.path.join(os.path.dirname(HERE), "src")
if SRC not in sys.path:
    sys.path.insert(0, SRC)

import matplotlib  # noqa: E402

matplotlib.use("Agg")

import pyoma2.algorithms.fdd as new_alg  # noqa: E402
import pyoma2.functions.fdd as new_fun  # noqa: E402
from pyoma2.setup.multi import MultiSetup_PreGER  # noqa: E402
from pyoma2.setup.single import SingleSetup  # noqa: E402

assert os.path.abspath(new_fun.__file__).startswith(SRC), new_fun.__file__


def _load(modname, filename):
    # the module name places the copy inside the package so that relative imports resolve
    spec = importlib.util.spec_from_file_location(modname, os.path.join(HERE, filename))
    mod = importlib.util.module_from_spec(spec)
    sys.modules[modname] = mod
    spec.loader.exec_module(mod)
    return mod


old_fun = _load("pyoma2.functions._orig_fdd", "orig_functions_fdd.py")
old_alg = _load("pyoma2.algorithms._orig_fdd", "orig_algorithms_fdd.py")
# the original calling layer must call the original numerical routines
old_alg.fdd = old_fun
assert new_alg.fdd is new_fun and old_alg.fdd is old_fun

logging.disable(logging.CRITICAL)

NCHECK = {"n": 0}
TALLY = {}


# ----------------------------------------------------------------------------------------
# comparison helpers
# ----------------------------------------------------------------------------------------
def same(a, b, where=""):
    """Recursive exact comparison (values, dtype, shape, NaN pattern, container types)."""
    NCHECK["n"] += 1
    if isinstance(a, np.ndarray) or isinstance(b, np.ndarray):
        assert isinstance(a, np.ndarray) and isinstance(b, np.ndarray), (where, type(a), type(b))
        assert a.dtype == b.dtype, (where, a.dtype, b.dtype)
        assert a.shape == b.shape, (where, a.shape, b.shape)
        if a.dtype == object:
            for i, (x, y) in enumerate(zip(a.ravel(), b.ravel())):
                same(x, y, f"{where}[{i}]")
        else:
            assert np.array_equal(a, b, equal_nan=a.dtype.kind in "fc"), where
        return
    if isinstance(a, (list, tuple)):
        assert type(a) is type(b) and len(a) == len(b), (where, type(a), type(b))
        for i, (x, y) in enumerate(zip(a, b)):
            same(x, y, f"{where}[{i}]")
        return
    if isinstance(a, dict):
        assert type(a) is type(b) and list(a) == list(b), (where, list(a), list(b))
        for k in a:
            same(a[k], b[k], f"{where}[{k!r}]")
        return
    assert type(a) is type(b), (where, type(a), type(b))
    if isinstance(a, (float, np.floating, complex, np.complexfloating)):
        assert a == b or (a != a and b != b), (where, a, b)
    else:
        assert a == b, (where, a, b)


def outcome(fn, *args, **kwargs):
    """('ok', value, warning categories) or ('exc', exception type, ...)."""
    with warnings.catch_warnings(record=True) as rec:
        warnings.simplefilter("always")
        try:
            val = fn(*args, **kwargs)
            kind = "ok"
        except Exception as e:  # noqa: BLE001
            val = type(e)
            kind = "exc"
    cats = sorted({w.category.__name__ for w in rec})
    return kind, val, cats


def both(name, f_old, f_new, *args, **kwargs):
    args_o, kw_o = copy.deepcopy(args), copy.deepcopy(kwargs)
    args_n, kw_n = copy.deepcopy(args), copy.deepcopy(kwargs)
    ko, vo, wo = outcome(f_old, *args_o, **kw_o)
    kn, vn, wn = outcome(f_new, *args_n, **kw_n)
    assert ko == kn, (name, ko, vo, kn, vn)
    key = (name.split("[")[0], ko if ko == "ok" else vo.__name__)
    TALLY[key] = TALLY.get(key, 0) + 1
    assert wo == wn, (name, "warnings", wo, wn)
    if ko == "exc":
        assert vo is vn, (name, vo, vn)
    else:
        same(vo, vn, name)
    # inputs must not have been modified differently
    same(list(args_o), list(args_n), name + ":args")
    return ko, vo


# ----------------------------------------------------------------------------------------
# input generators
# ----------------------------------------------------------------------------------------
def hermitian_psd(rng, nch, nf, rank=None):
    """Hermitian positive semi-definite spectral matrices [nch, nch, nf] with a few peaks."""
    rank = nch if rank is None else rank
    S = np.zeros((nch, nch, nf), dtype=complex)
    for k in range(nf):
        A = rng.standard_normal((nch, rank)) + 1j * rng.standard_normal((nch, rank))
        w = 10.0 ** rng.uniform(-3, 2, size=rank)
        S[:, :, k] = (A * w) @ A.conj().T
    return S


def modal_psd(rng, nch, nf, fs, nmodes=3):
    """Spectral matrix of a modal model: sum_k  phi_k phi_k^H |H_k(f)|^2 + noise floor."""
    freq = np.arange(nf) * (fs / 2 / (nf - 1))
    fn = np.sort(rng.uniform(0.1, 0.9, size=nmodes)) * fs / 2
    xi = rng.uniform(0.005, 0.03, size=nmodes)
    S = np.zeros((nch, nch, nf), dtype=complex)
    for f0, z in zip(fn, xi):
        phi = rng.standard_normal(nch) + 0.1j * rng.standard_normal(nch)
        H2 = 1.0 / ((f0**2 - freq**2) ** 2 + (2 * z * f0 * freq) ** 2 + 1e-12)
        S += np.einsum("i,j,k->ijk", phi, phi.conj(), H2)
    N = rng.standard_normal((nch, nch)) + 1j * rng.standard_normal((nch, nch))
    S += (1e-6 * (N @ N.conj().T))[:, :, None]
    return freq, S, fn


def simulate(rng, nch, ndat, fs, nmodes=3):
    """Response of a few SDOF oscillators to white noise, mixed into nch channels."""
    from scipy import signal

    t_fn = np.sort(rng.uniform(0.08, 0.8, size=nmodes)) * fs / 2
    y = np.zeros((ndat, nch))
    for f0 in t_fn:
        z = rng.uniform(0.005, 0.02)
        wn = 2 * np.pi * f0
        sysd = signal.cont2discrete(([wn**2], [1, 2 * z * wn, wn**2]), 1 / fs, method="bilinear")
        b, a = np.ravel(sysd[0]), np.ravel(sysd[1])
        q = signal.lfilter(b, a, rng.standard_normal(ndat))
        y += np.outer(q, rng.standard_normal(nch))
    y += 0.02 * np.std(y) * rng.standard_normal(y.shape)
    return y, t_fn


# ----------------------------------------------------------------------------------------
# 1. SD_svalsvec
# ----------------------------------------------------------------------------------------
def check_svalsvec(rng):
    decomps = []
    for nch in range(2, 9):
        for variant in ("hermitian", "rankdef", "general", "real", "halfspec", "modal"):
            nf = int(rng.integers(3, 70))
            if variant == "hermitian":
                SD = hermitian_psd(rng, nch, nf)
            elif variant == "rankdef":
                SD = hermitian_psd(rng, nch, nf, rank=max(1, nch - 1 - int(rng.integers(0, nch - 1))))
            elif variant == "general":
                SD = rng.standard_normal((nch, nch, nf)) + 1j * rng.standard_normal((nch, nch, nf))
            elif variant == "real":
                SD = rng.standard_normal((nch, nch, nf))
            elif variant == "halfspec":
                # one-sided estimate straight from the library's own estimator
                y, _ = simulate(rng, nch, 2048, 100.0)
                meth = "per" if nch % 2 else "cor"
                _, SD = old_fun.SD_est(y.T, y.T, 0.01, 128, method=meth, pov=0.5)
            else:
                _, SD, _ = modal_psd(rng, nch, nf, 50.0)
            # also in a non C-contiguous layout, as produced by np.moveaxis in SD_PreGER
            for lay, arr in (("C", np.ascontiguousarray(SD)), ("moved", np.moveaxis(np.ascontiguousarray(np.moveaxis(SD, 2, 0)), 0, 2))):
                k, v = both(f"SD_svalsvec[{nch},{variant},{lay}]", old_fun.SD_svalsvec, new_fun.SD_svalsvec, arr)
                assert k == "ok"
                # same memory layout of the returned views as well
                vn = new_fun.SD_svalsvec(arr)
                assert [x.strides for x in v] == [x.strides for x in vn]
            decomps.append((SD, v))
    # zero lines (all singular values zero) and lower precision input
    SD = hermitian_psd(rng, 3, 12)
    SD[:, :, 0] = 0
    SD[:, :, 7] = 0
    both("SD_svalsvec[zero lines]", old_fun.SD_svalsvec, new_fun.SD_svalsvec, SD)
    both("SD_svalsvec[complex64]", old_fun.SD_svalsvec, new_fun.SD_svalsvec, SD.astype(np.complex64))
    both("SD_svalsvec[float32]", old_fun.SD_svalsvec, new_fun.SD_svalsvec, SD.real.astype(np.float32))
    # reference-based (tall) spectra: more rows than columns
    for nr, nc in ((5, 2), (4, 3), (8, 1)):
        SD = rng.standard_normal((nr, nc, 9)) + 1j * rng.standard_normal((nr, nc, 9))
        k, _ = both(f"SD_svalsvec[{nr}x{nc}]", old_fun.SD_svalsvec, new_fun.SD_svalsvec, SD)
        assert k == "ok"
    # outside the quantifier, same exception type: wide matrices, wrong rank, non finite input
    for shape in ((2, 4, 5), (3, 5, 1)):
        k, _ = both(f"SD_svalsvec[{shape}]", old_fun.SD_svalsvec, new_fun.SD_svalsvec, rng.standard_normal(shape))
        assert k == "exc"
    both("SD_svalsvec[1x3]", old_fun.SD_svalsvec, new_fun.SD_svalsvec, rng.standard_normal((1, 3, 4)))
    both("SD_svalsvec[2d]", old_fun.SD_svalsvec, new_fun.SD_svalsvec, rng.standard_normal((3, 3)))
    both("SD_svalsvec[nf=0]", old_fun.SD_svalsvec, new_fun.SD_svalsvec, np.zeros((3, 3, 0), dtype=complex))
    bad = hermitian_psd(rng, 3, 6)
    bad[0, 0, 2] = np.nan
    both("SD_svalsvec[nan]", old_fun.SD_svalsvec, new_fun.SD_svalsvec, bad)
    return decomps


# ----------------------------------------------------------------------------------------
# 2. FDD_mpe
# ----------------------------------------------------------------------------------------
def check_fdd_mpe(rng, decomps):
    nok = 0
    for SD, (Sval, Svec) in decomps:
        nf = SD.shape[2]
        fs = float(rng.choice([1.0, 20.0, 100.0, 512.0]))
        freq = np.arange(nf) * (fs / 2 / max(nf - 1, 1))
        df = freq[1] - freq[0]
        for _ in range(3):
            nsel = int(rng.integers(1, 5))
            sel = rng.uniform(freq[0], freq[-1], size=nsel)
            if rng.random() < 0.3:  # exactly on grid lines
                sel = freq[rng.integers(0, nf, size=nsel)]
            DF = float(df * rng.choice([1.0, 1.5, 2.0, 3.7, 10.0, 1000.0]))
            for s in (list(sel), np.asarray(sel)):
                k, _ = both("FDD_mpe", old_fun.FDD_mpe, new_fun.FDD_mpe, Sval, Svec, freq, s, DF)
                nok += k == "ok"
        # default DF, keyword call, edges of the grid, too narrow band (empty -> exception)
        both("FDD_mpe[default DF]", old_fun.FDD_mpe, new_fun.FDD_mpe, Sval, Svec, freq, [freq[nf // 2]])
        both("FDD_mpe[kw]", old_fun.FDD_mpe, new_fun.FDD_mpe, Sval=Sval, Svec=Svec, freq=freq, sel_freq=[freq[nf // 2]], DF=2 * df)
        both("FDD_mpe[edges]", old_fun.FDD_mpe, new_fun.FDD_mpe, Sval, Svec, freq, [freq[0], freq[-1]], DF=2 * df)
        k, _ = both("FDD_mpe[narrow]", old_fun.FDD_mpe, new_fun.FDD_mpe, Sval, Svec, freq, [freq[nf // 2]], DF=df * 1e-3)
        assert k == "exc"
        both("FDD_mpe[outside]", old_fun.FDD_mpe, new_fun.FDD_mpe, Sval, Svec, freq, [freq[-1] + 5 * df], DF=df)
        both("FDD_mpe[none]", old_fun.FDD_mpe, new_fun.FDD_mpe, Sval, Svec, freq, [], DF=df)
    assert nok > 200, nok
    # plain random real arrays, as in the unit test, with ties, zeros, inf and nan in the ratio
    for _ in range(40):
        nch, nf = int(rng.integers(2, 9)), int(rng.integers(8, 60))
        Sval = rng.random((nch, nch, nf))
        Svec = rng.random((nch, nch, nf))
        mode = rng.integers(0, 5)
        if mode == 1:
            Sval = np.round(Sval, 1)  # ties and exact zeros
        elif mode == 2:
            Sval[1, 1, rng.integers(0, nf, size=3)] = 0.0  # infinite ratio
        elif mode == 3:
            j = rng.integers(0, nf, size=3)
            Sval[0, 0, j] = 0.0
            Sval[1, 1, j] = 0.0  # 0/0
        elif mode == 4:
            Svec = Svec + 1j * rng.random(Svec.shape)
            Svec[0, :, rng.integers(0, nf)] = 0.0  # zero vector -> nan shape
        freq = np.linspace(0, 10, nf)
        sel = list(rng.uniform(0, 10, size=int(rng.integers(1, 6))))
        DF = float(rng.uniform(freq[1], 4.0))
        both("FDD_mpe[random]", old_fun.FDD_mpe, new_fun.FDD_mpe, Sval, Svec, freq, sel, DF)
    both("FDD_mpe[2d]", old_fun.FDD_mpe, new_fun.FDD_mpe, np.ones((3, 3)), np.ones((3, 3, 3)), np.arange(3.0), [1.0], 1.0)


# ----------------------------------------------------------------------------------------
# 3. SDOF_bellandMS / EFDD_mpe (first stage = FDD_mpe, second stage uses the shared band helper)
# ----------------------------------------------------------------------------------------
def check_efdd(rng):
    nok = 0
    for nch in (2, 3, 5, 8):
        for methodSy in ("per", "cor"):
            fs, nxseg = 100.0, 1024
            y, t_fn = simulate(rng, nch, 30000, fs)
            freq, Sy = old_fun.SD_est(y.T, y.T, 1 / fs, nxseg, method=methodSy, pov=0.5)
            Sval, Svec = new_fun.SD_svalsvec(Sy)
            _, Phi = new_fun.FDD_mpe(Sval, Svec, freq, list(t_fn), DF=0.5)
            for method in ("FSDD", "EFDD"):
                for n, f0 in enumerate(t_fn):
                    both(
                        "SDOF_bellandMS", old_fun.SDOF_bellandMS, new_fun.SDOF_bellandMS,
                        Sy, 1 / fs, f0, Phi[:, n], method=method, cm=int(rng.integers(1, 3)),
                        MAClim=float(rng.uniform(0.7, 0.95)), DF=float(rng.uniform(0.3, 2.0)),
                    )
                for sel in (list(t_fn), np.asarray(t_fn[:1]), list(t_fn + 0.07)):
                    k, _ = both(
                        "EFDD_mpe", old_fun.EFDD_mpe, new_fun.EFDD_mpe,
                        Sy, freq, 1 / fs, sel, methodSy, method=method,
                        DF1=float(rng.choice([0.1, 0.3, 1.0])), DF2=float(rng.choice([0.5, 1.0, 2.0])),
                        cm=1, MAClim=0.85, sppk=int(rng.integers(1, 4)), npmax=int(rng.integers(8, 21)),
                    )
                    nok += k == "ok"
    assert nok >= 20, nok


# ----------------------------------------------------------------------------------------
# 4. calling layer: FDD / EFDD / FSDD / FDD_MS / EFDD_MS through the setup classes
# ----------------------------------------------------------------------------------------
class FakeSelFromPlot:
    """Stands in for the interactive window: returns the frequencies queued by the test."""

    queue = []
    seen = []

    def __init__(self, algo, freqlim=None, plot="FDD"):
        # what the interactive plot could see of the algorithm while the window is open
        FakeSelFromPlot.seen.append((freqlim, plot, algo.run_params.model_dump(), algo.result.model_dump()))
        sel = FakeSelFromPlot.queue.pop(0)
        if isinstance(sel, Exception):
            raise sel
        self.result = (sel, None)


def algo_state(alg):
    return {
        "run_params": alg.run_params.model_dump() if alg.run_params is not None else None,
        "result": alg.result.model_dump() if alg.result is not None else None,
        "result_type": type(alg.result).__name__,
        "name": alg.name,
    }


def drive(mod, make_setup, clsname, rp_kwargs, steps):
    """Runs one scenario on the classes of module `mod`; returns the list of observed states."""
    mod.SelFromPlot = FakeSelFromPlot
    FakeSelFromPlot.queue, FakeSelFromPlot.seen = [], []
    ss = make_setup()
    alg = getattr(mod, clsname)(name="A", **rp_kwargs)
    log = []
    # mpe before run -> "Run algorithm first"
    for meth, kw in (("mpe", {"sel_freq": [1.0]}), ("mpe_from_plot", {})):
        k, v, _ = outcome(getattr(alg, meth), **kw)
        log.append((meth + " before run", k, v if k == "exc" else None, str(v)))
    ss.add_algorithms(alg)
    ss.run_by_name("A")
    log.append(("run", algo_state(ss["A"])))
    for step in steps:
        kind, args, kwargs = step[0], step[1], step[2]
        if kind == "mpe_from_plot":
            FakeSelFromPlot.queue.append(copy.deepcopy(step[3]))
        k, v, w = outcome(getattr(ss, kind), "A", *copy.deepcopy(args), **copy.deepcopy(kwargs))
        log.append((kind, k, v if k == "exc" else None, w, algo_state(ss["A"])))
    log.append(("seen", copy.deepcopy(FakeSelFromPlot.seen)))
    # plotting methods that read the stored decomposition
    k, v, _ = outcome(ss["A"].plot_CMIF, freqlim=(0, 20), nSv=2)
    log.append(("plot_CMIF", k, v if k == "exc" else [ln.get_xydata() for ln in v[1].get_lines()]))
    import matplotlib.pyplot as plt

    plt.close("all")
    return log


def log_equal(lo, ln, where):
    assert len(lo) == len(ln), where
    for i, (a, b) in enumerate(zip(lo, ln)):
        same(a, b, f"{where}.step{i}")
        if a[0] in ("mpe", "mpe_from_plot"):
            key = (where.split("[")[0] + "." + a[0], "ok" if a[1] == "ok" else a[2].__name__)
            TALLY[key] = TALLY.get(key, 0) + 1


def check_classes(rng):
    fs = 100.0
    for trial in range(6):
        nch = int(rng.choice([2, 3, 4, 6, 8]))
        y, t_fn = simulate(rng, nch, 20000, fs)
        sel = [float(f) for f in t_fn]
        rp = {"nxseg": int(rng.choice([512, 1024])), "method_SD": str(rng.choice(["per", "cor"])), "pov": float(rng.choice([0.5, 0.25]))}

        def single():
            return SingleSetup(y.copy(), fs=fs)

        fdd_steps = [
            ("mpe", (), {"sel_freq": sel, "DF": 0.4}),
            ("mpe", (sel[:2],), {}),
            ("mpe", (np.asarray(sel), 1.3), {}),
            ("mpe_from_plot", (), {"freqlim": (0, 30), "DF": 0.6}, sel[::-1]),
            ("mpe_from_plot", (), {}, sel[:1]),
            ("mpe_from_plot", ((1, 40), 0.9), {}, sel),
            ("mpe", (), {"sel_freq": sel, "DF": 1e-6}),  # empty band -> exception
            ("mpe_from_plot", (), {"DF": 0.77}, RuntimeError("window closed")),
            ("mpe", (), {"sel_freq": [], "DF": 0.2}),
        ]
        efdd_steps = [
            ("mpe", (), {"sel_freq": sel, "DF1": 0.3, "DF2": 1.5, "cm": 1, "MAClim": 0.8, "sppk": 2, "npmax": 12}),
            ("mpe", (sel[:2],), {}),
            ("mpe", (sel, 0.2, 0.8, 2, 0.9, 1, 10), {}),
            ("mpe_from_plot", (), {"DF1": 0.5, "DF2": 1.2, "cm": 1, "MAClim": 0.75, "sppk": 1, "npmax": 15, "freqlim": (0, 30)}, sel[::-1]),
            ("mpe_from_plot", (), {}, sel[:1]),
            ("mpe_from_plot", (0.25, 0.9, 1, 0.8, 2, 9, (0, 45)), {}, sel),
            ("mpe", (), {"sel_freq": sel, "DF1": 1e-6}),  # empty band in the first stage
            ("mpe_from_plot", (), {"DF1": 0.33, "npmax": 7}, RuntimeError("window closed")),
            ("mpe", (), {"sel_freq": sel, "npmax": 100000}),  # IndexError in the fit
        ]
        for clsname, steps in (("FDD", fdd_steps), ("EFDD", efdd_steps), ("FSDD", efdd_steps)):
            lo = drive(old_alg, single, clsname, rp, steps)
            ln = drive(new_alg, single, clsname, rp, steps)
            log_equal(lo, ln, f"{clsname}[{trial}]")
            assert lo[2][0] == "run" and lo[3][1] == "ok", lo[3][:3]

        # multi setup (PreGER): two or three setups sharing the reference channels
        nset = int(rng.integers(2, 4))
        nref = int(rng.integers(1, 3))
        datasets = [simulate(np.random.default_rng(1000 + trial), nref + int(rng.integers(1, 4)), 12000, fs)[0] for _ in range(nset)]
        ref_ind = [list(range(nref)) for _ in range(nset)]

        def multi():
            return MultiSetup_PreGER(fs=fs, ref_ind=copy.deepcopy(ref_ind), datasets=[d.copy() for d in datasets])

        for clsname, steps in (("FDD_MS", fdd_steps), ("EFDD_MS", efdd_steps)):
            lo = drive(old_alg, multi, clsname, rp, steps)
            ln = drive(new_alg, multi, clsname, rp, steps)
            log_equal(lo, ln, f"{clsname}[{trial}]")
            assert lo[2][0] == "run"

    # default run parameters and run_params object given explicitly
    y, t_fn = simulate(rng, 4, 8000, fs)
    for mod_pair in ((old_alg, new_alg),):
        outs = []
        for mod in mod_pair:
            alg = mod.FDD(run_params=mod.FDDRunParams(nxseg=256, method_SD="cor"), name="X")
            alg._set_data(data=y, fs=fs)
            alg._pre_run()
            res = alg.run()
            alg._set_result(res)
            alg.mpe(list(t_fn), DF=0.5)
            outs.append(algo_state(alg))
        same(outs[0], outs[1], "explicit run_params")


def main():
    rng = np.random.default_rng(20260106)
    decomps = check_svalsvec(rng)
    check_fdd_mpe(rng, decomps)
    check_efdd(rng)
    check_classes(rng)
    for key in sorted(TALLY):
        print(f"  {key[0]:24s} {key[1]:14s} x{TALLY[key]}")
    print(f"{NCHECK['n']} comparisons")
    print("PASS")


if __name__ == "__main__":
    main()
