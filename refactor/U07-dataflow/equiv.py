"""
Equivalence check for the C07 refactoring (EFDD / FSDD free-decay fit and its callers).

Runs the refactored code (src/pyoma2/functions/fdd.py, src/pyoma2/algorithms/fdd.py) and
the pristine HEAD copies (orig_functions_fdd.py, orig_algorithms_fdd.py in this directory)
on the same inputs and requires BIT-IDENTICAL outputs (type, dtype, shape, bytes) or the
same exception type.

    PYTHONPATH=/tmp/wt/U07/src /venv/bin/python /tmp/wt/U07/_refactor/equiv.py
"""

import importlib.util
import logging
import os
import sys
import warnings

import numpy as np

HERE = os.path.dirname(os.path.abspath(__file__))
logging.disable(logging.CRITICAL)
warnings.filterwarnings("ignore")
os.environ.setdefault("TQDM_DISABLE", "1")
os.environ.setdefault("MPLBACKEND", "Agg")


def _load(name, fname, package):
    spec = importlib.util.spec_from_file_location(name, os.path.join(HERE, fname))
    mod = importlib.util.module_from_spec(spec)
    mod.__package__ = package  # make the relative imports of the original resolve
    sys.modules[name] = mod
    spec.loader.exec_module(mod)
    return mod


from pyoma2.algorithms import fdd as new_alg  # noqa: E402
from pyoma2.functions import fdd as new_fun  # noqa: E402
from pyoma2.functions.gen import MAC, pre_multisetup  # noqa: E402

assert new_fun.__file__.startswith("/tmp/wt/U07/src"), new_fun.__file__
orig_fun = _load("pyoma2.functions._orig_fdd", "orig_functions_fdd.py", "pyoma2.functions")
orig_alg = _load("pyoma2.algorithms._orig_fdd", "orig_algorithms_fdd.py", "pyoma2.algorithms")
orig_alg.fdd = orig_fun  # the original classes must call the original routines
assert orig_alg.fdd is orig_fun and new_alg.fdd is new_fun
assert not hasattr(orig_fun, "_free_decay_extrema") and hasattr(new_fun, "_free_decay_extrema")

NCHECK = 0
OUTCOMES = {}


# ----------------------------------------------------------------------------- comparison
def same(a, b, path="out"):
    """Strict structural / bitwise equality."""
    global NCHECK
    NCHECK += 1
    if isinstance(a, (list, tuple)):
        assert type(a) is type(b), (path, type(a), type(b))
        assert len(a) == len(b), (path, len(a), len(b))
        for i, (x, y) in enumerate(zip(a, b)):
            same(x, y, f"{path}[{i}]")
    elif isinstance(a, dict):
        assert isinstance(b, dict) and list(a) == list(b), (path, list(a), list(b))
        for k in a:
            same(a[k], b[k], f"{path}[{k!r}]")
    elif isinstance(a, (np.ndarray, np.generic)):
        assert type(a) is type(b), (path, type(a), type(b))
        assert a.dtype == b.dtype, (path, a.dtype, b.dtype)
        assert a.shape == b.shape, (path, a.shape, b.shape)
        assert np.ascontiguousarray(a).tobytes() == np.ascontiguousarray(b).tobytes(), (
            path,
            "values differ",
            np.max(np.abs(np.asarray(a) - np.asarray(b))) if a.size else None,
        )
    else:
        assert type(a) is type(b) and a == b, (path, a, b)


def both(f_orig, f_new, label):
    """Call both, compare results or exception types; returns the new result (or None)."""
    res = []
    for f in (f_orig, f_new):
        try:
            res.append(("ok", f()))
        except Exception as e:  # noqa: BLE001
            res.append(("exc", type(e)))
    (k0, v0), (k1, v1) = res
    assert k0 == k1, (label, res)
    if k0 == "exc":
        assert v0 is v1, (label, v0, v1)
        OUTCOMES[v0.__name__] = OUTCOMES.get(v0.__name__, 0) + 1
        return None
    OUTCOMES["returned"] = OUTCOMES.get("returned", 0) + 1
    same(v0, v1, label)
    return v1


# ----------------------------------------------------------------------------- inputs
def sdof_spectrum(rng, nxseg, fs, fn, xi, nch, complex_shape=False, floor=1e-9, nmodes=1):
    """Analytic spectral density of lightly damped modes times the mode-shape dyads."""
    nf = nxseg // 2 + 1
    freq = np.arange(nf) * fs / nxseg
    Sy = np.zeros((nch, nch, nf), dtype=complex)
    fns = np.atleast_1d(fn)
    xis = np.atleast_1d(xi)
    shapes = []
    for m in range(nmodes):
        phi = rng.uniform(0.3, 1.0, nch) * rng.choice([-1.0, 1.0], nch)
        if complex_shape:
            phi = phi * np.exp(1j * rng.uniform(-0.6, 0.6, nch))
        H = 1.0 / (fns[m] ** 2 - freq**2 + 2j * xis[m] * fns[m] * freq)
        Sy += np.abs(H) ** 2 * np.einsum("i,j->ij", phi, phi.conj())[:, :, None]
        shapes.append(phi)
    peak = np.max(np.abs(Sy))
    d = rng.uniform(0.5, 1.5, nch) * floor * peak
    Sy += np.diag(d)[:, :, None]
    if not complex_shape:
        Sy = Sy.real.copy()
    return freq, Sy, np.array(shapes).T


def draw_mode(rng, nxseg, fs):
    """A (fn, xi) inside the quantifier of the property."""
    df = fs / nxseg
    for _ in range(1000):
        fn = rng.uniform(0.04, 0.25) * fs
        xi = rng.uniform(0.02, 0.05)
        half_record = nxseg / fs / 2
        if 2 * xi * fn >= 4 * df and fn * half_record >= 30:
            return fn, xi
    raise RuntimeError("no admissible mode")


# ----------------------------------------------------------------------------- function level
def check_functions(rng):
    worst = {"fn": 0.0, "xi": 0.0, "mac": 1.0}
    ncase = 0
    for it in range(36):
        nxseg = int(rng.choice([1024, 1024, 2048, 2048, 4096, 8192]))
        fs = float(rng.choice([1.0, 50.0, 100.0, 256.0, 1000.0]))
        nch = int(rng.integers(2, 7))
        fn, xi = draw_mode(rng, nxseg, fs)
        complex_shape = it % 6 == 5
        freq, Sy, phi = sdof_spectrum(rng, nxseg, fs, fn, xi, nch, complex_shape)
        bw = 2 * xi * fn
        DF2 = float(rng.uniform(4.0, 7.0)) * bw
        DF1 = float(rng.uniform(0.5, 2.0)) * bw
        sel = [fn * (1 + rng.uniform(-0.3, 0.3) * xi)]
        dt = 1 / fs
        # default options inside the quantifier, user-set options outside of it
        if it % 3 == 0:
            opt = {}
        elif it % 3 == 1:
            opt = {"MAClim": float(rng.uniform(0.5, 0.99)), "sppk": int(rng.integers(0, 6)),
                   "npmax": int(rng.integers(2, 25))}
        else:
            opt = {"cm": 2, "MAClim": float(rng.uniform(0.3, 0.95)),
                   "sppk": int(rng.integers(1, 4)), "npmax": int(rng.integers(5, 21))}
        for method in ("EFDD", "FSDD"):
            for methodSy in ("per", "cor", "paer"):
                for scale in (1.0, 37.5):
                    S = Sy * scale
                    kw = dict(Sy=S, freq=freq, dt=dt, sel_freq=sel, methodSy=methodSy,
                              method=method, DF1=DF1, DF2=DF2, **opt)
                    out = both(lambda: orig_fun.EFDD_mpe(**kw), lambda: new_fun.EFDD_mpe(**kw),
                               f"EFDD_mpe[{it},{method},{methodSy},{scale}]")
                    ncase += 1
                    if out is not None and not opt and methodSy == "per" and not complex_shape:
                        Fn, Xi, Phi, _ = out
                        worst["fn"] = max(worst["fn"], abs(Fn[0, 0] / fn - 1))
                        worst["xi"] = max(worst["xi"], abs(Xi[0, 0] / xi - 1))
                        worst["mac"] = min(worst["mac"], float(MAC(Phi[:, 0], phi[:, 0])))
            # the bell routine on its own (positional and keyword use)
            phi0 = phi[:, 0] / phi[np.argmax(np.abs(phi[:, 0])), 0]
            both(lambda: orig_fun.SDOF_bellandMS(Sy, dt, sel[0], phi0, method, opt.get("cm", 1),
                                                 opt.get("MAClim", 0.85), DF2),
                 lambda: new_fun.SDOF_bellandMS(Sy, dt, sel[0], phi0, method, opt.get("cm", 1),
                                                opt.get("MAClim", 0.85), DF2),
                 f"SDOF_bellandMS[{it},{method}]")
            ncase += 1
        both(lambda: orig_fun.SDOF_bellandMS(Sy, dt, sel[0], phi0, method="XXX", DF=DF2),
             lambda: new_fun.SDOF_bellandMS(Sy, dt, sel[0], phi0, method="XXX", DF=DF2),
             f"SDOF_bellandMS[{it},unknown method]")
        Sval, Svec = orig_fun.SD_svalsvec(Sy)
        both(lambda: orig_fun.FDD_mpe(Sval, Svec, freq, sel, DF1),
             lambda: new_fun.FDD_mpe(Sval, Svec, freq, sel, DF1), f"FDD_mpe[{it}]")
        ncase += 2

    # several modes at once (outside the claim, same code path): list and ndarray sel_freq
    for it in range(6):
        nxseg, fs, nch = 2048, 100.0, int(rng.integers(3, 7))
        fns = np.array([8.0, 17.0, 23.5]) * (1 + 0.02 * rng.standard_normal(3))
        xis = rng.uniform(0.02, 0.05, 3)
        freq, Sy, phi = sdof_spectrum(rng, nxseg, fs, fns, xis, nch, it % 2 == 1, nmodes=3)
        sel = list(fns) if it % 2 else np.array(fns)
        for method in ("EFDD", "FSDD"):
            kw = dict(Sy=Sy, freq=freq, dt=1 / fs, sel_freq=sel, methodSy="per", method=method,
                      DF1=0.3, DF2=float(rng.uniform(1.5, 3.0)), cm=1 + it % 2,
                      MAClim=float(rng.uniform(0.7, 0.95)), sppk=int(rng.integers(1, 5)),
                      npmax=int(rng.integers(8, 21)))
            both(lambda: orig_fun.EFDD_mpe(**kw), lambda: new_fun.EFDD_mpe(**kw),
                 f"EFDD_mpe multi[{it},{method}]")
            ncase += 1

    # random arrays as in the unit tests (+ complex hermitian ones)
    for it in range(12):
        nch, nf = int(rng.integers(2, 6)), int(rng.choice([100, 257, 513]))
        A = rng.random((nch, nch, nf))
        if it % 2:
            B = A + 1j * rng.random((nch, nch, nf))
            A = np.einsum("ikf,jkf->ijf", B, B.conj())
        freq = np.linspace(0, 1, nf)
        sel = [0.3, 0.5, 0.7]
        for method in ("EFDD", "FSDD"):
            for methodSy in ("cor", "paer", "per"):
                kw = dict(Sy=A, freq=freq, dt=0.1, sel_freq=sel, methodSy=methodSy, method=method,
                          npmax=int(rng.integers(1, 4)), sppk=int(rng.integers(0, 3)),
                          cm=int(rng.integers(1, 3)), MAClim=float(rng.uniform(0.1, 0.9)))
                both(lambda: orig_fun.EFDD_mpe(**kw), lambda: new_fun.EFDD_mpe(**kw),
                     f"EFDD_mpe random[{it},{method},{methodSy}]")
                ncase += 1
            phi0 = rng.random(nch) + (1j * rng.random(nch) if it % 2 else 0)
            both(lambda: orig_fun.SDOF_bellandMS(A, 0.1, 2.0, phi0, method=method, cm=2, MAClim=0.4),
                 lambda: new_fun.SDOF_bellandMS(A, 0.1, 2.0, phi0, method=method, cm=2, MAClim=0.4),
                 f"SDOF_bellandMS random[{it},{method}]")
            ncase += 1

    # equal exceptions: more extrema requested than the half record contains; empty selection
    freq, Sy, phi = sdof_spectrum(rng, 1024, 100.0, 12.0, 0.03, 3)
    for kw_extra in ({"npmax": 5000}, {"sppk": 4000}, {"sppk": -3, "npmax": 6}):
        kw = dict(Sy=Sy, freq=freq, dt=0.01, sel_freq=[12.0], methodSy="per", DF2=2.0, **kw_extra)
        both(lambda: orig_fun.EFDD_mpe(**kw), lambda: new_fun.EFDD_mpe(**kw), f"exc {kw_extra}")
        ncase += 1
    # empty analysis band (DF below the line spacing): ValueError in both versions
    for method in ("EFDD", "FSDD", "XXX"):
        for cm in (0, 1, 2):
            both(lambda: orig_fun.SDOF_bellandMS(Sy, 0.01, 12.0, phi[:, 0], method, cm, 0.85, 0.01),
                 lambda: new_fun.SDOF_bellandMS(Sy, 0.01, 12.0, phi[:, 0], method, cm, 0.85, 0.01),
                 f"empty band [{method},{cm}]")
            ncase += 1
    kw = dict(Sy=Sy, freq=freq, dt=0.01, sel_freq=[12.0], methodSy="per", DF2=0.01)
    both(lambda: orig_fun.EFDD_mpe(**kw), lambda: new_fun.EFDD_mpe(**kw), "empty band EFDD_mpe")
    kw = dict(Sy=Sy, freq=freq, dt=0.01, sel_freq=[12.0], methodSy="per", DF1=0.01)
    both(lambda: orig_fun.EFDD_mpe(**kw), lambda: new_fun.EFDD_mpe(**kw), "empty DF1 band EFDD_mpe")
    ncase += 2
    kw = dict(Sy=Sy, freq=freq, dt=0.01, sel_freq=[], methodSy="per")
    both(lambda: orig_fun.EFDD_mpe(**kw), lambda: new_fun.EFDD_mpe(**kw), "empty sel_freq")
    ncase += 1
    return ncase, worst


# ----------------------------------------------------------------------------- class level
class FakeSelFromPlot:
    picked = None

    def __init__(self, algo, freqlim=None, plot="FDD"):
        assert plot == "FDD"
        self.result = (list(FakeSelFromPlot.picked), None)


orig_alg.SelFromPlot = FakeSelFromPlot
new_alg.SelFromPlot = FakeSelFromPlot


def dump(algo):
    return {"run_params": algo.run_params.model_dump(), "result": algo.result.model_dump(),
            "result_type": type(algo.result).__name__}


def pair(clsname, fs, data, **run_kw):
    algos = []
    for mod in (orig_alg, new_alg):
        a = getattr(mod, clsname)(name="x", **run_kw)
        a._set_data(data=data, fs=fs)
        algos.append(a)
    return algos


def check_classes(rng):
    ncase = 0
    # (a) run() on time series, then mpe / mpe_from_plot with default and user-set options
    for it in range(8):
        fs = float(rng.choice([50.0, 100.0, 200.0]))
        nch = int(rng.integers(3, 6))
        ndat = 12000
        f1, f2 = 0.08 * fs, 0.19 * fs
        sh = rng.standard_normal((2, nch))
        # two narrow-band responses (AR(2) resonators driven by noise) + noise
        data = 0.05 * rng.standard_normal((ndat, nch))
        for f0, s in zip((f1, f2), sh):
            r = np.exp(-0.03 * 2 * np.pi * f0 / fs)
            a1, a2 = 2 * r * np.cos(2 * np.pi * f0 / fs), -r * r
            e = rng.standard_normal(ndat)
            q = np.zeros(ndat)
            for k in range(2, ndat):
                q[k] = a1 * q[k - 1] + a2 * q[k - 2] + e[k]
            data += np.outer(q / q.std(), s)
        run_kw = [dict(nxseg=1024, method_SD="per", pov=0.5), dict(nxseg=2048, method_SD="per", pov=0.0),
                  dict(nxseg=1024, method_SD="cor", pov=0.5), dict(nxseg=512, method_SD="per", pov=0.75)][it % 4]
        for clsname in ("FDD", "EFDD", "FSDD"):
            ao, an = pair(clsname, fs, data, **run_kw)
            ao._set_result(ao.run())
            an._set_result(an.run())
            same(dump(ao), dump(an), f"{clsname}.run[{it}]")
            assert type(an.result) is an.ResultCls
            sel = [f1 * 1.01, f2 * 0.995]
            FakeSelFromPlot.picked = sel
            if clsname == "FDD":
                calls = [("mpe", (sel,), {}), ("mpe", (sel,), {"DF": 0.4}),
                         ("mpe_from_plot", (), {"DF": 0.25, "freqlim": (0, fs / 3)}),
                         ("mpe_from_plot", ((1.0, 20.0), 0.3), {})]
            else:
                bw = 0.06 * f1
                calls = [
                    ("mpe", (sel,), {"DF2": 4 * bw}),
                    ("mpe", (sel, 0.2, 5 * bw, 2, 0.7, 2, 12), {}),
                    ("mpe", (sel,), {"DF1": 0.3, "DF2": 4 * bw, "MAClim": 0.95, "sppk": 1, "npmax": 9}),
                    ("mpe_from_plot", (), {"DF2": 4 * bw, "freqlim": (0.0, fs / 2)}),
                    ("mpe_from_plot", (0.15, 6 * bw, 1, 0.6, 4, 15, (0.0, 30.0)), {}),
                    ("mpe", (sel,), {"DF2": 4 * bw, "npmax": 100000}),  # IndexError in both
                ]
            for meth, args, kwargs in calls:
                both(lambda: getattr(ao, meth)(*args, **kwargs), lambda: getattr(an, meth)(*args, **kwargs),
                     f"{clsname}.{meth}[{it}] return")
                same(dump(ao), dump(an), f"{clsname}.{meth}[{it}] state")
                ncase += 1
            if clsname != "FDD":
                # the plot consumes result.Fn / Xi / forPlot
                import matplotlib.pyplot as plt

                ao.mpe(sel, DF2=4 * bw)
                an.mpe(sel, DF2=4 * bw)
                fo, _ = ao.plot_EFDDfit(freqlim=(0, fs / 2))
                fn_, _ = an.plot_EFDDfit(freqlim=(0, fs / 2))
                for x, y in zip(fo, fn_):
                    for axo, axn in zip(x.axes, y.axes):
                        for lo, ln in zip(axo.lines, axn.lines):
                            same(np.asarray(lo.get_xydata()), np.asarray(ln.get_xydata()), "plot line")
                plt.close("all")
        # mpe before run
        ao, an = pair("EFDD", fs, data, **run_kw)
        both(lambda: ao.mpe([1.0]), lambda: an.mpe([1.0]), "mpe before run")
        both(lambda: ao.mpe_from_plot(), lambda: an.mpe_from_plot(), "mpe_from_plot before run")
        both(lambda: ao.plot_EFDDfit(), lambda: an.plot_EFDDfit(), "plot before run")

    # (b) exact SDOF spectra handed over through the result object (the property's set-up)
    for it in range(10):
        nxseg = int(rng.choice([1024, 2048, 4096]))
        fs = float(rng.choice([20.0, 100.0, 512.0]))
        nch = int(rng.integers(2, 7))
        fn, xi = draw_mode(rng, nxseg, fs)
        freq, Sy, phi = sdof_spectrum(rng, nxseg, fs, fn, xi, nch, complex_shape=(it % 5 == 4))
        Sval, Svec = orig_fun.SD_svalsvec(Sy)
        for clsname in ("EFDD", "FSDD"):
            ao, an = pair(clsname, fs, None, nxseg=nxseg, method_SD="per")
            for a in (ao, an):
                a._set_result(a.ResultCls(freq=freq, Sy=Sy, S_val=Sval, S_vec=Svec))
            DF2 = 5 * 2 * xi * fn
            both(lambda: ao.mpe([fn], DF2=DF2), lambda: an.mpe([fn], DF2=DF2), "exact mpe")
            same(dump(ao), dump(an), f"exact {clsname}.mpe[{it}] state")
            assert abs(an.result.Fn[0] / fn - 1) < 0.025 and an.result.Fn.ndim == 1
            if it % 5 != 4:
                assert abs(an.result.Xi[0] / xi - 1) < 0.15, (an.result.Xi, xi)
            ncase += 1

    # (c) multi-setup run() (PreGER merge) + mpe, non-ascending reference lists
    for it in range(4):
        fs = 100.0
        ndat = 6000
        common = rng.standard_normal((ndat, 2))
        mix = rng.standard_normal((2, 5))
        datasets = [common @ mix + 0.3 * rng.standard_normal((ndat, 5)) for _ in range(3)]
        reflist = [[2, 0], [3, 1], [0, 4]] if it % 2 else [[0, 1], [0, 1], [0, 1]]
        Y = pre_multisetup(datasets, reflist)
        run_kw = dict(nxseg=512, method_SD=("per", "cor")[it // 2], pov=(0.5, 0.0)[it % 2])
        for clsname in ("FDD_MS", "EFDD_MS"):
            ao, an = pair(clsname, fs, Y, **run_kw)
            ao._set_result(ao.run())
            an._set_result(an.run())
            same(dump(ao), dump(an), f"{clsname}.run[{it}]")
            sel = [11.0, 27.0]
            if clsname == "FDD_MS":
                both(lambda: ao.mpe(sel, DF=0.5), lambda: an.mpe(sel, DF=0.5), "ms mpe")
            else:
                both(lambda: ao.mpe(sel, DF2=3.0, npmax=3, sppk=1, MAClim=0.2),
                     lambda: an.mpe(sel, DF2=3.0, npmax=3, sppk=1, MAClim=0.2), "ms mpe")
            same(dump(ao), dump(an), f"{clsname}.mpe[{it}] state")
            ncase += 1
    return ncase


if __name__ == "__main__":
    rng = np.random.default_rng(20261004)
    nfun, worst = check_functions(rng)
    ncls = check_classes(rng)
    print(f"function-level cases: {nfun}, class-level cases: {ncls}, comparisons: {NCHECK}")
    print("outcomes of the paired calls (identical in both versions):", OUTCOMES)
    print("property sanity on the refactored code (default options, 'per', real shapes): "
          f"worst |dFn| = {100 * worst['fn']:.2f} %, worst |dXi| = {100 * worst['xi']:.2f} %, "
          f"min MAC = {worst['mac']:.6f}")
    assert worst["fn"] < 0.025 and worst["xi"] < 0.15 and worst["mac"] >= 0.999
    print("PASS")
