"""
Differential test: the library as found on PYTHONPATH (CLEAN version of the commit)
against the unmodified sources saved next to this script as
    orig_functions_ssi.py    (src/pyoma2/functions/ssi.py  at HEAD)
    orig_algorithms_ssi.py   (src/pyoma2/algorithms/ssi.py at HEAD)

Run as:  PYTHONPATH=<tree>/src /venv/bin/python equiv.py
Prints PASS and exits 0 if every output (or raised exception type) agrees.

Compared:
  * build_hank          - random shapes / reference subsets / methods / calc_unc, old call form,
                          error cases (invalid method, calc_unc with another method, bad shapes)
  * SSIdat / SSIcov.run - every field of SSIResult, ref_ind None / ascending / non-ascending /
                          repeated / negative / out of range / empty, calc_unc on and off
  * SSI_multi_setup     - random multi-setup data (Obs, A, C)
"""

import importlib.util
import logging
import os
import sys
import warnings

os.environ["TQDM_DISABLE"] = "1"
warnings.filterwarnings("ignore")
logging.disable(logging.CRITICAL)

import numpy as np  # noqa: E402

import pyoma2.algorithms  # noqa: E402,F401  (package must be imported before the copy is loaded)
from pyoma2.algorithms import ssi as new_alg  # noqa: E402
from pyoma2.functions import ssi as new_fn  # noqa: E402

HERE = os.path.dirname(os.path.abspath(__file__))


def _load(name, fname):
    spec = importlib.util.spec_from_file_location(name, os.path.join(HERE, fname))
    mod = importlib.util.module_from_spec(spec)
    sys.modules[name] = mod
    spec.loader.exec_module(mod)
    return mod


orig_fn = _load("pyoma2.functions._orig_ssi", "orig_functions_ssi.py")
orig_alg = _load("pyoma2.algorithms._orig_ssi", "orig_algorithms_ssi.py")
orig_alg.ssi = orig_fn  # the pristine classes call the pristine numerical routines

assert orig_fn.build_hank is not new_fn.build_hank
assert orig_alg.SSIdat is not new_alg.SSIdat

failures = []
n_cases = 0


def same(a, b):
    """Structural comparison of outputs (arrays, None, lists / tuples, scalars)."""
    if a is None or b is None:
        return a is None and b is None
    if isinstance(a, (list, tuple)):
        return (
            isinstance(b, (list, tuple))
            and len(a) == len(b)
            and all(same(x, y) for x, y in zip(a, b))
        )
    a, b = np.asarray(a), np.asarray(b)
    if a.shape != b.shape:
        return False
    if a.dtype == object or b.dtype == object:
        return all(same(x, y) for x, y in zip(a.ravel().tolist(), b.ravel().tolist()))
    return bool(np.array_equal(a, b, equal_nan=True)) or bool(
        np.allclose(a, b, rtol=1e-12, atol=0.0, equal_nan=True)
    )


def outcome(f, *args, **kw):
    try:
        return ("ok", f(*args, **kw))
    except Exception as e:  # noqa: BLE001
        return ("exc", type(e).__name__)


def compare(tag, f_new, f_old, *args, **kw):
    global n_cases
    n_cases += 1
    # every implementation gets its own copy of the inputs; the inputs must come back intact
    args_n = [np.array(a, copy=True) if isinstance(a, np.ndarray) else a for a in args]
    args_o = [np.array(a, copy=True) if isinstance(a, np.ndarray) else a for a in args]
    rn = outcome(f_new, *args_n, **kw)
    ro = outcome(f_old, *args_o, **kw)
    if rn[0] != ro[0]:
        failures.append(f"{tag}: new {rn[0]} ({rn[1] if rn[0] == 'exc' else ''}) / old {ro[0]} ({ro[1] if ro[0] == 'exc' else ''})")
    elif rn[0] == "exc":
        if rn[1] != ro[1]:
            failures.append(f"{tag}: exception {rn[1]} / {ro[1]}")
    elif not same(rn[1], ro[1]):
        failures.append(f"{tag}: results differ")
    for x, y, z in zip(args, args_n, args_o):
        if isinstance(x, np.ndarray) and not (np.array_equal(x, y) and np.array_equal(x, z)):
            failures.append(f"{tag}: an input array was modified")


rng = np.random.default_rng(12)

# ---------------------------------------------------------------------------
# 1. build_hank, old call form
for case in range(60):
    l = int(rng.integers(1, 6))  # noqa: E741
    r = int(rng.integers(1, l + 1))
    refs = rng.permutation(l)[:r]
    if case % 3 == 0:
        refs = np.sort(refs)
    br = int(rng.integers(1, 7))
    n = int(rng.integers(2 * br + 4, 120)) + (l + r) * (br + 1)
    method = ("cov_mm", "cov_R", "dat")[case % 3]
    if case % 7 == 0:
        Y = rng.integers(-5, 6, size=(l, n))  # integer data, as in the unit tests
    else:
        Y = rng.standard_normal((l, n)) * 10.0 ** rng.integers(-3, 4)
    Yref = Y[refs, :] if case % 5 else Y  # a copy of selected rows, or the same object
    if case % 11 == 0:
        Yref = rng.standard_normal((r, n))  # references that are not channels of Y
    compare(f"build_hank#{case}[{method}]", new_fn.build_hank, orig_fn.build_hank, Y, Yref, br, method)
    compare(
        f"build_hank#{case}[{method}] keywords", new_fn.build_hank, orig_fn.build_hank,
        Y=Y, Yref=Yref, br=br, method=method, calc_unc=False, nb=int(rng.integers(2, 50)),
    )  # fmt: skip

# uncertainty matrix of cov_mm
for case in range(8):
    l = int(rng.integers(1, 4))  # noqa: E741
    refs = rng.permutation(l)[: int(rng.integers(1, l + 1))]
    br = int(rng.integers(1, 4))
    nb = int(rng.integers(2, 12))
    Y = rng.standard_normal((l, int(rng.integers(200, 400))))
    compare(
        f"build_hank unc#{case}", new_fn.build_hank, orig_fn.build_hank,
        Y, Y[refs, :], br, "cov_mm", calc_unc=True, nb=nb,
    )  # fmt: skip

# error behaviour
Y = rng.standard_normal((3, 50))
compare("invalid method", new_fn.build_hank, orig_fn.build_hank, Y, Y[:2], 2, "YfYp")
compare("invalid method 2", new_fn.build_hank, orig_fn.build_hank, Y, Y[:2], 2, "cov")
for m in ("cov_R", "dat", "YfYp"):
    compare(f"calc_unc with {m}", new_fn.build_hank, orig_fn.build_hank, Y, Y, 2, m, calc_unc=True)
compare("record length mismatch", new_fn.build_hank, orig_fn.build_hank, Y, Y[:2, :40], 2, "cov_mm")
compare("record length mismatch R", new_fn.build_hank, orig_fn.build_hank, Y, Y[:2, :40], 2, "cov_R")
compare("record too short", new_fn.build_hank, orig_fn.build_hank, Y[:, :6], Y[:2, :6], 4, "cov_mm")
compare("no reference rows", new_fn.build_hank, orig_fn.build_hank, Y, Y[:0], 2, "cov_mm")
compare("no reference rows R", new_fn.build_hank, orig_fn.build_hank, Y, Y[:0], 2, "cov_R")


# ---------------------------------------------------------------------------
# 2. the algorithm classes
def synth(n, nch, rng):
    t = np.arange(n) / 100.0
    fr = rng.uniform(2.0, 30.0, size=3)
    sig = np.stack([np.sin(2 * np.pi * f * t + rng.uniform(0, 6)) for f in fr])
    return (rng.standard_normal((nch, 3)) @ sig).T + 0.3 * rng.standard_normal((n, nch))


def run_cls(cls, data, kw):
    alg = cls(name="x", **kw)
    alg._set_data(data=data, fs=100.0)
    res = alg.run()
    return [getattr(res, k) for k in sorted(type(res).model_fields)]


ref_choices = {
    3: [None, [0], [0, 2], [2, 0], [1, 1], [-1, 0], [2, 1, 0], [0, 3], []],
    4: [None, [1, 3], [3, 1], [3, 0, 2], [0, 1, 2, 3], [2, 2, 0], [-2, 1], [4], [0, -5]],
}
case = 0
for nch in (3, 4):
    for ref_ind in ref_choices[nch]:
        for cls_name, method in (("SSIcov", "cov_mm"), ("SSIcov", "cov_R"), ("SSIdat", "dat"), ("SSIcov", None)):
            case += 1
            data = synth(int(rng.integers(300, 500)), nch, rng)
            br = int(rng.integers(3, 7))
            n_ref = nch if ref_ind is None else max(len(ref_ind), 1)
            # (step > 1 and orders above the column count fail in SSI_fast / SSI_poles at HEAD)
            kw = dict(br=br, ordmax=min(int(rng.integers(4, 9)), n_ref * (br + 1)), step=1)
            if method is not None:
                kw["method"] = method
            if ref_ind is not None:
                kw["ref_ind"] = ref_ind
            compare(
                f"{cls_name}.run#{case} method={method} ref_ind={ref_ind}",
                lambda d, c=cls_name, k=kw: run_cls(getattr(new_alg, c), d, k),
                lambda d, c=cls_name, k=kw: run_cls(getattr(orig_alg, c), d, k),
                data,
            )  # fmt: skip

for ref_ind in (None, [1, 0], [2]):
    data = synth(600, 3, rng)
    kw = dict(br=3, ordmax=6, method="cov_mm", calc_unc=True, nb=10)
    if ref_ind is not None:
        kw["ref_ind"] = ref_ind
    compare(
        f"SSIcov.run calc_unc ref_ind={ref_ind}",
        lambda d, k=kw: run_cls(new_alg.SSIcov, d, k),
        lambda d, k=kw: run_cls(orig_alg.SSIcov, d, k),
        data,
    )  # fmt: skip


# ---------------------------------------------------------------------------
# 3. multi-setup
def ms_call(fn, refs, movs, br, ordmax, method):
    Y = [{"ref": a, "mov": b} for a, b in zip(refs, movs)]
    return fn(Y, 100.0, br, ordmax, step=1, method_hank=method)


for case in range(9):
    n_ref = int(rng.integers(1, 4))
    n_set = int(rng.integers(2, 4))
    br = int(rng.integers(3, 7))
    ordmax = int(rng.integers(2, 2 * br))
    method = ("cov_mm", "cov_R", "dat")[case % 3]
    refs, movs = [], []
    for _ in range(n_set):
        d = synth(int(rng.integers(300, 500)), n_ref + int(rng.integers(1, 4)), rng).T
        refs.append(d[:n_ref])
        movs.append(d[n_ref:])
    for f_new, f_old, nm in (
        (new_fn.SSI_multi_setup, orig_fn.SSI_multi_setup, "SSI_multi_setup"),
    ):
        n_cases += 1
        rn = outcome(ms_call, f_new, [x.copy() for x in refs], [x.copy() for x in movs], br, ordmax, method)
        ro = outcome(ms_call, f_old, [x.copy() for x in refs], [x.copy() for x in movs], br, ordmax, method)
        if rn[0] != ro[0] or (rn[0] == "exc" and rn[1] != ro[1]):
            failures.append(f"{nm}#{case}[{method}]: {rn[:2] if rn[0] == 'exc' else rn[0]} / {ro[:2] if ro[0] == 'exc' else ro[0]}")
        elif rn[0] == "ok" and not same(rn[1], ro[1]):
            failures.append(f"{nm}#{case}[{method}]: results differ")

# SSIdat_MS through the class
for case, method in enumerate(("dat", "cov_mm")):
    n_ref = 2
    sets = []
    for _ in range(3):
        d = synth(400, n_ref + 2, rng).T
        sets.append({"ref": d[:n_ref], "mov": d[n_ref:]})

    def run_ms(cls, sets=sets, method=method):
        alg = cls(name="ms", br=4, ordmax=6, method=method)
        alg._set_data(data=[{k: v.copy() for k, v in s.items()} for s in sets], fs=100.0)
        res = alg.run()
        return [getattr(res, k) for k in sorted(type(res).model_fields)]

    n_cases += 1
    rn, ro = outcome(run_ms, new_alg.SSIdat_MS), outcome(run_ms, orig_alg.SSIdat_MS)
    if rn[0] != ro[0] or (rn[0] == "exc" and rn[1] != ro[1]) or (rn[0] == "ok" and not same(rn[1], ro[1])):
        failures.append(f"SSIdat_MS.run[{method}]: differs ({rn[0]}/{ro[0]})")

if failures:
    print(f"FAIL: {len(failures)} of {n_cases} comparisons")
    for f in failures[:15]:
        print("  -", f)
    sys.exit(1)
print(f"PASS ({n_cases} comparisons)")
sys.exit(0)
