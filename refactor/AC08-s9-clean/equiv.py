"""
Differential test: touched routines of the working tree (pyoma2.functions.gen.pre_multisetup,
pyoma2.functions.fdd.SD_PreGER) against the pristine implementations kept next to this file
(orig_gen.py, orig_fdd.py), on randomly generated inputs and configurations, plus end-to-end
runs of the multi-setup algorithm classes with the pristine routines patched in.

Run:  PYTHONPATH=<tree>/src /venv/bin/python equiv.py
"""

import importlib.util
import logging
import os
import sys
import types
import warnings

import numpy as np
from scipy.signal import lfilter

warnings.filterwarnings("ignore")
logging.disable(logging.CRITICAL)
os.environ.setdefault("TQDM_DISABLE", "1")
os.environ.setdefault("MPLBACKEND", "Agg")

HERE = os.path.dirname(os.path.abspath(__file__))


def _load_orig():
    """load orig_gen.py / orig_fdd.py as the package `_orig` (fdd does `from .gen import MAC`)"""
    pkg = types.ModuleType("_orig")
    pkg.__path__ = [HERE]
    sys.modules["_orig"] = pkg
    mods = {}
    for name in ("gen", "fdd"):
        spec = importlib.util.spec_from_file_location(
            f"_orig.{name}", os.path.join(HERE, f"orig_{name}.py")
        )
        mod = importlib.util.module_from_spec(spec)
        sys.modules[f"_orig.{name}"] = mod
        spec.loader.exec_module(mod)
        setattr(pkg, name, mod)
        mods[name] = mod
    return mods["gen"], mods["fdd"]


orig_gen, orig_fdd = _load_orig()

import pyoma2.setup.multi as multi_mod  # noqa: E402
from pyoma2.algorithms.fdd import EFDD_MS, FDD_MS  # noqa: E402
from pyoma2.algorithms.plscf import pLSCF_MS  # noqa: E402
from pyoma2.algorithms.ssi import SSIcov_MS, SSIdat_MS  # noqa: E402
from pyoma2.functions import fdd as new_fdd  # noqa: E402
from pyoma2.functions import gen as new_gen  # noqa: E402

# silence the progress bars of both implementations
for _m in (new_fdd, orig_fdd):
    _m.trange = lambda *a, **k: range(*a)
    _m.tqdm = lambda it, *a, **k: it

FAILS = []
NCASE = 0
NBIT = 0


def fail(msg):
    FAILS.append(msg)
    print("MISMATCH:", msg)


def call(f, *a, **k):
    try:
        return ("ok", f(*a, **k))
    except Exception as e:  # noqa: BLE001
        return ("exc", type(e))


def same_array(a, b, what, layout=False):
    """values equal bit for bit or within rtol 1e-12 (nan == nan); optionally same layout"""
    global NBIT
    a = np.asarray(a)
    b = np.asarray(b)
    if a.shape != b.shape or a.dtype != b.dtype:
        fail(f"{what}: shape/dtype {a.shape}/{a.dtype} vs {b.shape}/{b.dtype}")
        return False
    if np.array_equal(a, b, equal_nan=True):
        NBIT += 1
    elif not np.allclose(a, b, rtol=1e-12, atol=0.0, equal_nan=True):
        fail(f"{what}: values differ, max abs diff {np.nanmax(np.abs(a - b)):.3e}")
        return False
    if layout and (
        a.strides != b.strides
        or a.flags["C_CONTIGUOUS"] != b.flags["C_CONTIGUOUS"]
        or a.flags["F_CONTIGUOUS"] != b.flags["F_CONTIGUOUS"]
    ):
        fail(f"{what}: memory layout differs {a.strides} vs {b.strides}")
        return False
    return True


# ---------------------------------------------------------------------------------------
# synthetic structure: chain of n masses, white-noise excited, sampled response
# ---------------------------------------------------------------------------------------
def simulate(rng, n_dof, n_dat, fs):
    k = 4000.0 * (1 + 0.3 * rng.random(n_dof + 1))
    K = np.zeros((n_dof, n_dof))
    for i in range(n_dof):
        K[i, i] = k[i] + k[i + 1]
        if i:
            K[i, i - 1] = K[i - 1, i] = -k[i]
    lam, V = np.linalg.eigh(K)
    wn = np.sqrt(lam)
    wn *= 2 * np.pi * (0.08 * fs) / wn[0]  # first mode at 8 % of fs
    wn = np.minimum(wn, 2 * np.pi * 0.4 * fs * (1 + 0.01 * np.arange(n_dof)))
    xi = 0.01 + 0.01 * rng.random(n_dof)
    dt = 1 / fs
    q = np.zeros((n_dat, n_dof))
    f = rng.standard_normal((n_dat, n_dof))
    for m in range(n_dof):
        wd = wn[m] * np.sqrt(1 - xi[m] ** 2)
        r = np.exp(-xi[m] * wn[m] * dt)
        q[:, m] = lfilter([1.0], [1.0, -2 * r * np.cos(wd * dt), r**2], f[:, m])
    y = q @ V.T
    return y + 0.02 * y.std() * rng.standard_normal(y.shape)


# ---------------------------------------------------------------------------------------
# 1. pre_multisetup
# ---------------------------------------------------------------------------------------
def check_pre_multisetup(rng, n_cases=40):
    global NCASE
    for c in range(n_cases):
        n_setup = int(rng.integers(1, 5))
        datasets, reflist = [], []
        kind = c % 8  # 0..4 valid, 5..7 invalid in some way
        for _s in range(n_setup):
            n_sens = int(rng.integers(2, 9))
            n_dat = int(rng.integers(20, 200))
            y = rng.standard_normal((n_dat, n_sens))
            lay = int(rng.integers(0, 4))
            if lay == 1:
                y = np.asfortranarray(y)
            elif lay == 2:
                y = rng.standard_normal((2 * n_dat, n_sens + 3))[::2, 1 : n_sens + 1]
            elif lay == 3:
                y = (100 * y).astype(np.int64 if c % 2 else np.float32)
            n_ref = int(rng.integers(1, n_sens))
            refs = [int(v) for v in rng.permutation(n_sens)[:n_ref]]  # any order
            datasets.append(y)
            reflist.append(refs)
        s = int(rng.integers(0, n_setup))
        ns = datasets[s].shape[1]
        if kind == 5:
            reflist[s] = reflist[s] + [reflist[s][0]]  # repeated index
        elif kind == 6:
            reflist[s] = [[ns], [-1], [], list(range(ns))][(c // 8) % 4]  # out of range / none / all
        elif kind == 7:
            reflist = reflist[:-1]  # one list short
        if c % 3 == 0:
            reflist = [np.array(r, dtype=int) for r in reflist]  # index arrays instead of lists
        elif c % 3 == 1:
            reflist = [tuple(r) for r in reflist]
        before = [np.array(d, copy=True) for d in datasets]
        ro = call(orig_gen.pre_multisetup, datasets, reflist)
        rn = call(new_gen.pre_multisetup, datasets, reflist)
        NCASE += 1
        if ro[0] != rn[0] or (ro[0] == "exc" and ro[1] is not rn[1]):
            fail(f"pre_multisetup case {c}: outcome {ro[:2]} vs {rn[:2]}")
            continue
        if ro[0] == "exc":
            continue
        if len(ro[1]) != len(rn[1]):
            fail(f"pre_multisetup case {c}: number of setups")
            continue
        for i, (do, dn) in enumerate(zip(ro[1], rn[1])):
            if set(do) != set(dn):
                fail(f"pre_multisetup case {c}: keys")
                continue
            for key in ("ref", "mov"):
                same_array(do[key], dn[key], f"pre_multisetup case {c} setup {i} {key}", layout=True)
                if np.shares_memory(dn[key], datasets[i]):
                    fail(f"pre_multisetup case {c}: output shares memory with the dataset")
        for d, b in zip(datasets, before):
            if not np.array_equal(d, b):
                fail(f"pre_multisetup case {c}: input modified")


# ---------------------------------------------------------------------------------------
# 2. SD_PreGER on random multi-setup data
# ---------------------------------------------------------------------------------------
def random_multisetup(rng, fs, n_dat, min_ref=1):
    n_setup = int(rng.integers(2, 4))
    n_ref = int(rng.integers(min_ref, 4))
    n_movs = [int(rng.integers(1, 4)) for _ in range(n_setup)]
    n_dof = n_ref + sum(n_movs)
    datasets, reflist = [], []
    first_mov = n_ref
    for s in range(n_setup):
        y = simulate(rng, n_dof, n_dat, fs)
        dofs = list(range(n_ref)) + list(range(first_mov, first_mov + n_movs[s]))
        first_mov += n_movs[s]
        perm = rng.permutation(len(dofs))  # channel order inside the setup's file
        datasets.append(np.ascontiguousarray(y[:, [dofs[j] for j in perm]]))
        # position of physical reference r in the file, for r = 0..n_ref-1
        reflist.append([int(np.where(perm == r)[0][0]) for r in range(n_ref)])
    return datasets, reflist


def check_SD_PreGER(rng, n_cases=24):
    global NCASE
    for c in range(n_cases):
        fs = float(rng.choice([0.5, 1.0, 33.3, 100.0, 1000.0]))
        nxseg = int(rng.choice([64, 100, 128, 255, 256]))
        pov = float(rng.choice([0.0, 0.3, 0.5, 0.66]))
        method = ["per", "cor"][c % 2]
        datasets, reflist = random_multisetup(rng, fs, int(rng.integers(1500, 3000)))
        Yo = orig_gen.pre_multisetup(datasets, reflist)
        Yn = new_gen.pre_multisetup(datasets, reflist)
        keep = [{k: v.copy() for k, v in d.items()} for d in Yn]
        if c % 4 == 3:  # positional form as well
            ro = call(orig_fdd.SD_PreGER, Yo, fs, nxseg, pov, method)
            rn = call(new_fdd.SD_PreGER, Yn, fs, nxseg, pov, method)
        else:
            ro = call(orig_fdd.SD_PreGER, Yo, fs, nxseg=nxseg, method=method, pov=pov)
            rn = call(new_fdd.SD_PreGER, Yn, fs, nxseg=nxseg, method=method, pov=pov)
        NCASE += 1
        if ro[0] != rn[0] or (ro[0] == "exc" and ro[1] is not rn[1]):
            fail(f"SD_PreGER case {c}: outcome {ro[:2]} vs {rn[:2]}")
            continue
        if ro[0] == "exc":
            continue
        same_array(ro[1][0], rn[1][0], f"SD_PreGER case {c} freq")
        same_array(ro[1][1], rn[1][1], f"SD_PreGER case {c} Sy")
        for d, b in zip(Yn, keep):
            for k in d:
                if not np.array_equal(d[k], b[k]):
                    fail(f"SD_PreGER case {c}: input {k} modified")
        if any(np.shares_memory(rn[1][1], d[k]) for d in Yn for k in d):
            fail(f"SD_PreGER case {c}: Sy shares memory with the input")
    # defaults (nxseg=1024, pov=0.5, method='per')
    datasets, reflist = random_multisetup(rng, 100.0, 4096)
    ro = call(orig_fdd.SD_PreGER, orig_gen.pre_multisetup(datasets, reflist), 100.0)
    rn = call(new_fdd.SD_PreGER, new_gen.pre_multisetup(datasets, reflist), 100.0)
    NCASE += 1
    if ro[0] == rn[0] == "ok":
        same_array(ro[1][0], rn[1][0], "SD_PreGER defaults freq")
        same_array(ro[1][1], rn[1][1], "SD_PreGER defaults Sy")
    else:
        fail(f"SD_PreGER defaults: outcome {ro[:2]} vs {rn[:2]}")


# ---------------------------------------------------------------------------------------
# 3. the multi-setup algorithm classes, run through MultiSetup_PreGER, once with the tree's
#    routines and once with the pristine routines patched into the calling layer
# ---------------------------------------------------------------------------------------
RESULT_FIELDS = (
    "freq Sy S_val S_vec Fn Xi Phi Fn_poles Xi_poles Phi_poles Lab Lambds Obs H order_out"
).split()


def run_classes(datasets, reflist, fs, cfg):
    ms = multi_mod.MultiSetup_PreGER(fs=fs, ref_ind=reflist, datasets=datasets)
    algs = [
        FDD_MS(name="fdd", nxseg=cfg["nxseg"], method_SD=cfg["sd"], pov=cfg["pov"]),
        EFDD_MS(name="efdd", nxseg=cfg["nxseg"], method_SD=cfg["sd"], pov=cfg["pov"]),
        SSIcov_MS(name="ssicov", br=cfg["br"], ordmax=cfg["ordmax"], method=cfg["hank"]),
        SSIdat_MS(name="ssidat", br=cfg["br"], ordmax=cfg["ordmax"]),
        pLSCF_MS(name="plscf", ordmax=cfg["pord"], nxseg=cfg["nxseg"], method_SD=cfg["sd"]),
    ]
    ms.add_algorithms(*algs)
    ms.run_all()
    f1 = 0.08 * fs
    ms.mpe("fdd", sel_freq=[f1], DF=0.02 * fs)
    out = {"data": ms.data}
    for a in algs:
        out[a.name] = {
            k: getattr(a.result, k) for k in RESULT_FIELDS if getattr(a.result, k, None) is not None
        }
    return out


def check_classes(rng, n_cases=6):
    global NCASE
    for c in range(n_cases):
        fs = float(rng.choice([1.0, 50.0, 200.0]))
        cfg = dict(
            nxseg=int(rng.choice([128, 200, 256])),
            sd=["per", "cor"][c % 2],
            pov=float(rng.choice([0.3, 0.5])),
            br=int(rng.integers(6, 11)),
            ordmax=int(rng.integers(8, 15)),
            hank=["cov_mm", "cov_R"][c % 2],
            pord=int(rng.integers(4, 9)),
        )
        # FDD_mpe needs a second singular value, i.e. two references at least
        datasets, reflist = random_multisetup(rng, fs, 2500, min_ref=2)
        rn = call(run_classes, datasets, reflist, fs, cfg)
        saved = (multi_mod.pre_multisetup, new_fdd.SD_PreGER)
        multi_mod.pre_multisetup = orig_gen.pre_multisetup
        new_fdd.SD_PreGER = orig_fdd.SD_PreGER
        try:
            ro = call(run_classes, datasets, reflist, fs, cfg)
        finally:
            multi_mod.pre_multisetup, new_fdd.SD_PreGER = saved
        NCASE += 1
        if ro[0] != rn[0] or (ro[0] == "exc" and ro[1] is not rn[1]):
            fail(f"classes case {c}: outcome {ro[:2]} vs {rn[:2]}")
            continue
        if ro[0] == "exc":
            fail(f"classes case {c}: both raised {ro[1]} - configuration not exercised")
            continue
        for i, (do, dn) in enumerate(zip(ro[1]["data"], rn[1]["data"])):
            for key in ("ref", "mov"):
                same_array(do[key], dn[key], f"classes case {c} data[{i}][{key}]", layout=True)
        for name in ("fdd", "efdd", "ssicov", "ssidat", "plscf"):
            if set(ro[1][name]) != set(rn[1][name]):
                fail(f"classes case {c} {name}: result fields differ")
            for k in ro[1][name]:
                vo, vn = ro[1][name][k], rn[1][name][k]
                if isinstance(vo, list):
                    continue
                same_array(vo, vn, f"classes case {c} {name}.{k}")


if __name__ == "__main__":
    rng = np.random.default_rng(20240608)
    check_pre_multisetup(rng)
    check_SD_PreGER(rng)
    check_classes(rng)
    print(f"{NCASE} cases, {NBIT} array comparisons bit-identical, {len(FAILS)} mismatches")
    if FAILS:
        print("FAIL")
        sys.exit(1)
    print("PASS")
    sys.exit(0)
