"""
Equivalence check for the Q07 (property C07) refactoring.

Runs the refactored code (src/pyoma2/functions/fdd.py, src/pyoma2/algorithms/fdd.py)
and the pristine copies (orig_functions_fdd.py, orig_algorithms_fdd.py, taken from
HEAD) on the same inputs and asserts identical outputs / identical exception types.

    PYTHONPATH=/tmp/wt/Q07/src /venv/bin/python /tmp/wt/Q07/_refactor/equiv.py
"""

import importlib.util
import logging
import os
import sys
import warnings

import numpy as np

HERE = os.path.dirname(os.path.abspath(__file__))
SRC = os.path.join(os.path.dirname(HERE), "src")
if SRC not in sys.path:
    sys.path.insert(0, SRC)

os.environ.setdefault("MPLBACKEND", "Agg")
warnings.filterwarnings("ignore")
logging.disable(logging.CRITICAL)

import tqdm as _tqdm_mod  # noqa: E402

# silence the progress bars (presentation only)
_orig_tqdm_init = _tqdm_mod.tqdm.__init__


def _quiet_init(self, *a, **k):
    k["disable"] = True
    _orig_tqdm_init(self, *a, **k)


_tqdm_mod.tqdm.__init__ = _quiet_init

import pyoma2.algorithms.fdd as new_alg  # noqa: E402
import pyoma2.functions.fdd as new_fn  # noqa: E402
from pyoma2.functions.gen import MAC, pre_multisetup  # noqa: E402


def _load(name, fname):
    spec = importlib.util.spec_from_file_location(name, os.path.join(HERE, fname))
    mod = importlib.util.module_from_spec(spec)
    sys.modules[name] = mod
    spec.loader.exec_module(mod)
    return mod


# the relative import `.gen` of the original resolves inside pyoma2.functions
orig_fn = _load("pyoma2.functions.orig_functions_fdd", "orig_functions_fdd.py")
orig_alg = _load("pyoma2.algorithms.orig_algorithms_fdd", "orig_algorithms_fdd.py")
# the original calling layer must call the ORIGINAL numerical routines
orig_alg.fdd = orig_fn
assert orig_fn.__file__ != new_fn.__file__ and orig_alg.__file__ != new_alg.__file__
assert new_alg.fdd is new_fn

N_CHECKS = 0
STRICT_FAILS = []  # comparisons that are only allclose, not bitwise equal


# ----------------------------------------------------------------------------
# comparison helpers
# ----------------------------------------------------------------------------
def same(a, b, where=""):
    """Recursive identity check: type/shape/dtype/NaN pattern and values."""
    global N_CHECKS
    N_CHECKS += 1
    if isinstance(a, (list, tuple)):
        assert type(a) is type(b), (where, type(a), type(b))
        assert len(a) == len(b), (where, len(a), len(b))
        for i, (x, y) in enumerate(zip(a, b)):
            same(x, y, f"{where}[{i}]")
        return
    if a is None or b is None:
        assert a is None and b is None, (where, a, b)
        return
    if isinstance(a, (str, bool, int)) and not isinstance(a, np.generic):
        assert type(a) is type(b) and a == b, (where, a, b)
        return
    a_ = np.asarray(a)
    b_ = np.asarray(b)
    assert a_.shape == b_.shape, (where, a_.shape, b_.shape)
    assert a_.dtype == b_.dtype, (where, a_.dtype, b_.dtype)
    if a_.dtype.kind in "fc":
        assert np.array_equal(np.isnan(a_), np.isnan(b_)), (where, "NaN pattern")
        if not np.array_equal(a_, b_, equal_nan=True):
            assert np.allclose(a_, b_, rtol=1e-12, atol=0, equal_nan=True), (
                where,
                np.max(np.abs(a_ - b_)),
            )
            STRICT_FAILS.append(where)
    else:
        assert np.array_equal(a_, b_), (where,)


def call(f, *a, **k):
    try:
        return ("ok", f(*a, **k))
    except Exception as e:  # noqa: BLE001
        return ("exc", type(e))


def same_call(f_new, f_old, args_new, args_old, kwargs, where):
    r_new = call(f_new, *args_new, **kwargs)
    r_old = call(f_old, *args_old, **kwargs)
    assert r_new[0] == r_old[0], (where, r_new, r_old)
    if r_new[0] == "exc":
        assert r_new[1] is r_old[1], (where, r_new[1], r_old[1])
    else:
        same(r_new[1], r_old[1], where)
    return r_new


# ----------------------------------------------------------------------------
# input generators
# ----------------------------------------------------------------------------
def sdof_spectrum(rng, fs, nxseg, nch, fn, xi, floor=1e-12, scale=1.0):
    """Periodogram-convention full spectral matrix of ONE mode (property C07)."""
    freq = np.arange(nxseg // 2 + 1) * fs / nxseg
    H = 1.0 / ((fn**2 - freq**2) + 2j * xi * fn * freq)
    S = np.abs(H) ** 2
    S = S / S.max()
    phi = rng.uniform(0.2, 1.0, nch) * rng.choice([-1.0, 1.0], nch)
    Sy = S[None, None, :] * np.outer(phi, phi)[:, :, None] + floor * np.eye(nch)[
        :, :, None
    ]
    return freq, (scale * Sy).astype(complex), phi


def mdof_data(rng, fs, ndat, nch, fns, xis):
    """Response of a few modes to white noise (state-space free of scipy.signal.lsim)."""
    t = np.arange(ndat) / fs
    Y = np.zeros((ndat, nch))
    for fn, xi in zip(fns, xis):
        wn = 2 * np.pi * fn
        wd = wn * np.sqrt(1 - xi**2)
        nh = int(min(ndat, 8.0 / (xi * wn) * fs))
        h = np.exp(-xi * wn * t[:nh]) * np.sin(wd * t[:nh])
        q = np.convolve(rng.standard_normal(ndat), h)[:ndat]
        Y += np.outer(q / q.std(), rng.uniform(-1, 1, nch))
    Y += 0.05 * rng.standard_normal(Y.shape)
    return Y


# ----------------------------------------------------------------------------
# 1. numerical routines on the property's domain (exact SDOF bells)
# ----------------------------------------------------------------------------
def check_property_domain(rng, n_cases=36):
    worst_fn = worst_xi = 0.0
    done = 0
    while done < n_cases:
        nxseg = int(rng.choice([1024, 2048, 4096, 8192]))
        fs = float(rng.choice([1.0, 20.0, 100.0, 256.0, 1000.0])) * rng.uniform(0.5, 2)
        nch = int(rng.integers(2, 7))
        fn = rng.uniform(0.04, 0.25) * fs
        xi = rng.uniform(0.02, 0.05)
        df = fs / nxseg
        if 2 * xi * fn < 4 * df:  # bell resolved by the grid
            continue
        if fn * (nxseg / fs) < 30:  # at least 30 periods in the half record
            continue
        done += 1
        scale = float(rng.choice([1.0, 1e-6, 3.7e4]))
        freq, Sy, phi = sdof_spectrum(rng, fs, nxseg, nch, fn, xi, scale=scale)
        DF2 = rng.uniform(4, 8) * 2 * xi * fn
        DF1 = rng.uniform(1, 3) * 2 * xi * fn
        sel = [fn * rng.uniform(0.995, 1.005)]
        if done % 3 == 0:
            sel = np.array(sel)
        for method in ("EFDD", "FSDD"):
            for methodSy in ("per", "cor"):
                kw = dict(method=method, DF1=DF1, DF2=DF2)
                where = f"prop[{done}] {method}/{methodSy}"
                r = same_call(
                    new_fn.EFDD_mpe,
                    orig_fn.EFDD_mpe,
                    (Sy, freq, 1 / fs, sel, methodSy),
                    (Sy.copy(), freq.copy(), 1 / fs, sel, methodSy),
                    kw,
                    where,
                )
                assert r[0] == "ok", (where, r)
                if methodSy == "per":
                    Fn, Xi, Phi, _ = r[1]
                    assert MAC(Phi[:, 0], phi) >= 0.999, where
                    worst_fn = max(worst_fn, abs(Fn[0, 0] / fn - 1))
                    worst_xi = max(worst_xi, abs(Xi[0, 0] / xi - 1))
            # the bell itself
            phi_ref = phi / phi[np.argmax(np.abs(phi))] + 0j
            for method in ("EFDD", "FSDD"):
                same_call(
                    new_fn.SDOF_bellandMS,
                    orig_fn.SDOF_bellandMS,
                    (Sy, 1 / fs, sel[0], phi_ref),
                    (Sy, 1 / fs, sel[0], phi_ref),
                    dict(method=method, DF=DF2),
                    f"bell[{done}] {method}",
                )
    # the property itself still holds on these cases (sanity of the generator)
    assert worst_fn < 0.025 and worst_xi < 0.15, (worst_fn, worst_xi)
    return worst_fn, worst_xi


# ----------------------------------------------------------------------------
# 2. numerical routines on estimated multi-mode spectra, non-default arguments,
#    degenerate arguments (equal exceptions)
# ----------------------------------------------------------------------------
def check_estimated_spectra(rng, n_cases=10):
    n_exc = n_ok = 0
    for c in range(n_cases):
        fs = float(rng.choice([50.0, 100.0, 200.0]))
        nch = int(rng.integers(2, 6))
        nxseg = int(rng.choice([512, 1024, 2048]))
        fns = np.sort(rng.uniform(0.05, 0.3, 3)) * fs
        xis = rng.uniform(0.01, 0.04, 3)
        Y = mdof_data(rng, fs, 30 * nxseg, nch, fns, xis)
        for methodSy in ("per", "cor"):
            freq, Sy = new_fn.SD_est(Y.T, Y.T, 1 / fs, nxseg, method=methodSy, pov=0.5)
            freq_o, Sy_o = orig_fn.SD_est(
                Y.T, Y.T, 1 / fs, nxseg, method=methodSy, pov=0.5
            )
            same((freq, Sy), (freq_o, Sy_o), f"est[{c}] SD_est {methodSy}")
            Sval, Svec = new_fn.SD_svalsvec(Sy)
            for DF in (0.1, 0.5, 2.0, 1e-9):
                same_call(
                    new_fn.FDD_mpe,
                    orig_fn.FDD_mpe,
                    (Sval, Svec, freq, list(fns)),
                    (Sval, Svec, freq, list(fns)),
                    dict(DF=DF),
                    f"est[{c}] FDD_mpe DF={DF}",
                )
            variants = [
                dict(method="EFDD"),
                dict(method="FSDD"),
                dict(method="FSDD", cm=2, MAClim=0.6, DF2=0.05 * fs),
                dict(method="EFDD", cm=2, MAClim=0.95, DF1=0.3, DF2=0.02 * fs),
                dict(method="EFDD", sppk=1, npmax=8, DF2=0.1 * fs),
                dict(method="FSDD", sppk=0, npmax=5, MAClim=0.0),
                dict(method="FSDD", npmax=100000),  # more extrema than available
                dict(method="EFDD", MAClim=1.5),  # nothing passes the filter
                dict(method="EFDD", DF2=1e-9),  # empty band
                dict(method="FSDD", cm=nch + 1),  # more close modes than channels
                dict(method="other"),  # unknown method: empty bell
                dict(method="EFDD", npmax=0),
            ]
            for kw in variants:
                for sel in (list(fns), np.array(fns[:1]), [], [fs]):
                    for mSy in (methodSy, "xxx"):
                        r = same_call(
                            new_fn.EFDD_mpe,
                            orig_fn.EFDD_mpe,
                            (Sy, freq, 1 / fs, sel, mSy),
                            (Sy, freq, 1 / fs, sel, mSy),
                            kw,
                            f"est[{c}] {methodSy} EFDD_mpe {kw} sel={len(sel)} {mSy}",
                        )
                        n_exc += r[0] == "exc"
                        n_ok += r[0] == "ok"
            # bell routine alone, random reference shapes (complex), several bands
            for k in range(6):
                phi = rng.standard_normal(nch) + 1j * rng.standard_normal(nch)
                if k % 2:
                    phi = Svec[0, :, np.argmin(np.abs(freq - fns[k % 3]))]
                for kw in (
                    dict(method="FSDD", DF=rng.uniform(0.2, 5)),
                    dict(method="EFDD", DF=rng.uniform(0.2, 5)),
                    dict(method="EFDD", cm=2, MAClim=0.3, DF=3.0),
                    dict(method="FSDD", cm=2, MAClim=0.3, DF=3.0),
                    dict(method="FSDD", DF=0.0),
                    dict(method="nope", DF=1.0),
                    dict(),
                ):
                    same_call(
                        new_fn.SDOF_bellandMS,
                        orig_fn.SDOF_bellandMS,
                        (Sy, 1 / fs, float(fns[k % 3]), phi),
                        (Sy, 1 / fs, float(fns[k % 3]), phi),
                        kw,
                        f"est[{c}] bell {kw}",
                    )
    return n_ok, n_exc


# ----------------------------------------------------------------------------
# 3. calling layer: FDD / EFDD / FSDD (+ multi-setup) run, mpe, mpe_from_plot
# ----------------------------------------------------------------------------
class FakeSelFromPlot:
    """Stands in for the Tk window: returns preset frequencies and records the run
    parameters and results the algorithm holds at the moment the plot is opened."""

    preset = None
    log = None

    def __init__(self, algo, freqlim=None, plot="FDD"):
        type(self).log.append(
            (
                type(algo).__name__,
                freqlim,
                plot,
                algo.run_params.model_dump(),
                None if algo.result is None else sorted(algo.result.model_dump()),
            )
        )
        self.result = (type(self).preset, None)


def dump(algo):
    rp = algo.run_params.model_dump() if algo.run_params is not None else None
    res = algo.result.model_dump() if algo.result is not None else None
    return rp, res


def same_dump(a_new, a_old, where):
    (rp_n, res_n), (rp_o, res_o) = dump(a_new), dump(a_old)
    for d_n, d_o, lab in ((rp_n, rp_o, "run_params"), (res_n, res_o, "result")):
        if d_n is None or d_o is None:
            assert d_n is None and d_o is None, (where, lab)
            continue
        assert list(d_n) == list(d_o), (where, lab, list(d_n), list(d_o))
        for key in d_n:
            same(d_n[key], d_o[key], f"{where} {lab}.{key}")


def check_calling_layer(rng, n_cases=6):
    new_alg.SelFromPlot = type("FakeNew", (FakeSelFromPlot,), {"log": []})
    orig_alg.SelFromPlot = type("FakeOld", (FakeSelFromPlot,), {"log": []})

    for c in range(n_cases):
        fs = float(rng.choice([50.0, 100.0, 128.0]))
        nch = int(rng.integers(2, 6))
        nxseg = int(rng.choice([512, 1024]))
        fns = np.sort(rng.uniform(0.06, 0.3, 3)) * fs
        xis = rng.uniform(0.01, 0.04, 3)
        Y = mdof_data(rng, fs, 24 * nxseg, nch, fns, xis)
        method_SD = "per" if c % 2 == 0 else "cor"
        pov = float(rng.choice([0.5, 0.25]))
        mpe_variants = [
            dict(),
            dict(DF1=0.2, DF2=0.08 * fs, cm=1, MAClim=0.9, sppk=2, npmax=10),
            dict(cm=2, MAClim=0.5),
            dict(npmax=100000),  # raises inside the numerical routine
        ]

        for cls in ("FDD", "EFDD", "FSDD"):
            pair = []
            for mod in (new_alg, orig_alg):
                a = getattr(mod, cls)(
                    name=f"{cls}_{c}", nxseg=nxseg, method_SD=method_SD, pov=pov
                )
                pair.append(a)
            a_new, a_old = pair
            sel = list(fns) if c % 2 else np.array(fns)

            # before run: both entry points refuse and store nothing
            for meth, args in (("mpe", (sel,)), ("mpe_from_plot", ())):
                r_n = call(getattr(a_new, meth), *args)
                r_o = call(getattr(a_old, meth), *args)
                assert r_n == r_o and r_n[0] == "exc", (cls, meth, r_n, r_o)
                try:
                    getattr(a_new, meth)(*args)
                except Exception as e_n:  # noqa: BLE001
                    msg_n = str(e_n)
                try:
                    getattr(a_old, meth)(*args)
                except Exception as e_o:  # noqa: BLE001
                    msg_o = str(e_o)
                assert msg_n == msg_o, (cls, meth, msg_n, msg_o)
                same_dump(a_new, a_old, f"alg[{c}] {cls} {meth} before run")

            # run
            for a in pair:
                a._set_data(data=Y, fs=fs)
                a._set_result(a.run())
            same_dump(a_new, a_old, f"alg[{c}] {cls} run")

            # mpe
            if cls == "FDD":
                variants = [dict(), dict(DF=0.5), dict(DF=1e-9)]
            else:
                variants = mpe_variants
            for kw in variants:
                r_n = call(a_new.mpe, sel, **kw)
                r_o = call(a_old.mpe, sel, **kw)
                assert r_n == r_o, (cls, kw, r_n, r_o)
                same_dump(a_new, a_old, f"alg[{c}] {cls} mpe {kw}")
            # positional call of mpe
            if cls != "FDD":
                r_n = call(a_new.mpe, sel, 0.15, 0.07 * fs, 1, 0.8, 2, 12)
                r_o = call(a_old.mpe, sel, 0.15, 0.07 * fs, 1, 0.8, 2, 12)
                assert r_n == r_o == ("ok", None), (cls, r_n, r_o)
                same_dump(a_new, a_old, f"alg[{c}] {cls} mpe positional")

            # mpe_from_plot
            for kw in variants:
                preset = [float(f) for f in fns[: 1 + c % 3]]
                new_alg.SelFromPlot.preset = preset
                orig_alg.SelFromPlot.preset = list(preset)
                flim = (0.0, fs / 4) if c % 2 else None
                r_n = call(a_new.mpe_from_plot, freqlim=flim, **kw)
                r_o = call(a_old.mpe_from_plot, freqlim=flim, **kw)
                assert r_n == r_o, (cls, kw, r_n, r_o)
                same_dump(a_new, a_old, f"alg[{c}] {cls} mpe_from_plot {kw}")
            # what the plot window saw (state handed over BEFORE the selection)
            log_n, log_o = new_alg.SelFromPlot.log, orig_alg.SelFromPlot.log
            assert len(log_n) == len(log_o) > 0
            for i, (e_n, e_o) in enumerate(zip(log_n, log_o)):
                assert e_n[:3] == e_o[:3], (e_n[:3], e_o[:3])
                assert list(e_n[3]) == list(e_o[3])
                for key in e_n[3]:
                    same(e_n[3][key], e_o[3][key], f"alg[{c}] {cls} plotlog[{i}].{key}")
                assert e_n[4] == e_o[4]

            # plotting hand-over of the stored results
            if cls != "FDD":
                for a in pair:
                    a.mpe(sel)
                import matplotlib.pyplot as plt

                f_n = call(a_new.plot_EFDDfit)
                f_o = call(a_old.plot_EFDDfit)
                assert f_n[0] == f_o[0] == "ok"
                for (fig_n, ax_n), (fig_o, ax_o) in zip(zip(*f_n[1]), zip(*f_o[1])):
                    for axn, axo in zip(np.ravel(ax_n), np.ravel(ax_o)):
                        assert len(axn.lines) == len(axo.lines)
                        for ln, lo in zip(axn.lines, axo.lines):
                            same(
                                ln.get_xydata(), lo.get_xydata(), f"alg[{c}] {cls} fit plot"
                            )
                plt.close("all")

    # multi-setup classes (mpe / mpe_from_plot are inherited)
    for c in range(2):
        fs = 100.0
        nxseg = 512
        fns = np.array([8.0, 17.0, 29.0])
        xis = np.array([0.02, 0.02, 0.03])
        Y = mdof_data(rng, fs, 30 * nxseg, 6, fns, xis)
        data = pre_multisetup(
            [Y[: 15 * nxseg, [0, 1, 2, 3]], Y[15 * nxseg :, [0, 1, 4, 5]]],
            [[0, 1], [0, 1]],
        )
        for cls in ("FDD_MS", "EFDD_MS"):
            pair = []
            for mod in (new_alg, orig_alg):
                a = getattr(mod, cls)(
                    name=cls, nxseg=nxseg, method_SD=("per", "cor")[c], pov=0.5
                )
                a._set_data(data=data, fs=fs)
                a._set_result(a.run())
                pair.append(a)
            a_new, a_old = pair
            same_dump(a_new, a_old, f"ms[{c}] {cls} run")
            kw = dict(DF=0.3) if cls == "FDD_MS" else dict(DF1=0.3, DF2=3.0, npmax=10)
            r_n = call(a_new.mpe, list(fns), **kw)
            r_o = call(a_old.mpe, list(fns), **kw)
            assert r_n == r_o, (cls, r_n, r_o)
            same_dump(a_new, a_old, f"ms[{c}] {cls} mpe")
            new_alg.SelFromPlot.preset = [8.0, 29.0]
            orig_alg.SelFromPlot.preset = [8.0, 29.0]
            r_n = call(a_new.mpe_from_plot, **kw)
            r_o = call(a_old.mpe_from_plot, **kw)
            assert r_n == r_o, (cls, r_n, r_o)
            same_dump(a_new, a_old, f"ms[{c}] {cls} mpe_from_plot")


def main():
    rng = np.random.default_rng(20261003)
    worst_fn, worst_xi = check_property_domain(rng)
    print(
        f"property domain: 36 SDOF cases x 2 methods x 2 conventions identical; "
        f"worst errors fn {100 * worst_fn:.2f} %, xi {100 * worst_xi:.2f} %"
    )
    n_ok, n_exc = check_estimated_spectra(rng)
    print(
        "estimated spectra / non-default and degenerate arguments identical "
        f"(EFDD_mpe: {n_ok} equal results, {n_exc} equal exception types)"
    )
    check_calling_layer(rng)
    print("calling layer (FDD, EFDD, FSDD, FDD_MS, EFDD_MS) identical")
    print(f"{N_CHECKS} comparisons, {len(STRICT_FAILS)} of them only allclose(rtol=1e-12)")
    for w in sorted(set(STRICT_FAILS))[:20]:
        print("   not bitwise:", w)
    print("PASS")


if __name__ == "__main__":
    main()
