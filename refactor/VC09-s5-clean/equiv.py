"""
Differential test: library under test (PYTHONPATH=<tree>/src) against the pristine
sources saved next to this file as orig_gen.py / orig_ssi.py.

Run as:  PYTHONPATH=<tree>/src /venv/bin/python equiv.py

Part A  gen.HC_phi_comp on random mode shape tables (NaN / inf / zero rows, 1..7
        channels, thresholds over their whole ranges); the new `where=` argument is
        compared with the pristine function applied to the table blanked outside
        `where`.  Poles whose pristine MPC / MPD lie within a relative 1e-9 of a
        limit are not compared (the property does not judge them either).
Part B  SSIdat.run / SSIcov.run (rewritten hard-criteria block) against the pristine
        classes using the pristine gen module: all result tables, random data,
        run parameters and criteria (conj on/off, calc_unc on/off, ref_ind, ordmin,
        wrong / missing hc keys -> same exception).
Part C  callers that were not edited but reach the edited routine: SSIdat_MS,
        SSIcov_MS, pLSCF with gen.HC_phi_comp new vs pristine.

Prints PASS and exits 0 when everything matches, otherwise FAIL and exit 1.
"""

import importlib.util
import logging
import os
import sys
import warnings

os.environ.setdefault("TQDM_DISABLE", "1")
warnings.filterwarnings("ignore")

import numpy as np  # noqa: E402

import pyoma2.algorithms.ssi as new_ssi  # noqa: E402
import pyoma2.functions.gen as new_gen  # noqa: E402
from pyoma2.algorithms import pLSCF  # noqa: E402

logging.disable(logging.CRITICAL)
HERE = os.path.dirname(os.path.abspath(__file__))


def load(name, fname):
    spec = importlib.util.spec_from_file_location(name, os.path.join(HERE, fname))
    mod = importlib.util.module_from_spec(spec)
    sys.modules[name] = mod
    spec.loader.exec_module(mod)
    return mod


orig_gen = load("pyoma2.functions._orig_gen", "orig_gen.py")
orig_ssi = load("pyoma2.algorithms._orig_ssi", "orig_ssi.py")
orig_ssi.gen = orig_gen  # the pristine classes use the pristine helpers

failures = []


def same(a, b):
    if a is None or b is None:
        return a is None and b is None
    if isinstance(a, (list, tuple)):
        return len(a) == len(b) and all(same(x, y) for x, y in zip(a, b))
    a, b = np.asarray(a), np.asarray(b)
    if a.shape != b.shape:
        return False
    if np.array_equal(a, b, equal_nan=True):
        return True
    return bool(np.allclose(a, b, rtol=1e-12, atol=0, equal_nan=True))


def outcome(fun, *a, **k):
    try:
        return ("ok", fun(*a, **k))
    except Exception as e:  # noqa: BLE001
        return ("exc", type(e).__name__)


stats = {"ok": 0, "exc": 0}


def compare(tag, r_new, r_old, fields=None):
    stats[r_old[0]] += 1
    if r_new[0] != r_old[0]:
        failures.append(f"{tag}: new -> {r_new[0]} {r_new[1] if r_new[0] == 'exc' else ''}, "
                        f"pristine -> {r_old[0]} {r_old[1] if r_old[0] == 'exc' else ''}")
        return
    if r_new[0] == "exc":
        if r_new[1] != r_old[1]:
            failures.append(f"{tag}: exception {r_new[1]} vs pristine {r_old[1]}")
        return
    if fields is None:
        if not same(r_new[1], r_old[1]):
            failures.append(f"{tag}: outputs differ")
        return
    for f in fields:
        if not same(getattr(r_new[1], f), getattr(r_old[1], f)):
            failures.append(f"{tag}: result field {f} differs")


# --------------------------------------------------------------------------- A
def random_phi(rng):
    npol, nord, nch = rng.integers(1, 14), rng.integers(1, 14), rng.integers(1, 8)
    kind = rng.integers(0, 4)
    re = rng.standard_normal((npol, nord, nch))
    if kind == 0:  # nearly real modes
        im = 0.05 * rng.standard_normal((npol, nord, nch))
    elif kind == 1:  # generic complex
        im = rng.standard_normal((npol, nord, nch))
    elif kind == 2:  # exactly real
        im = np.zeros((npol, nord, nch))
    else:  # rotated real modes (collinear but not on the real axis)
        ang = rng.uniform(0, 2 * np.pi, (npol, nord, 1))
        im = re * np.sin(ang)
        re = re * np.cos(ang)
    phi = re + 1j * im
    # unity normalisation as in ac2mp
    if rng.random() < 0.5:
        k = np.argmax(np.abs(phi), axis=-1)[..., None]
        phi = phi / np.take_along_axis(phi, k, axis=-1)
    # blanked / degenerate poles
    blank = rng.random((npol, nord)) < 0.25
    phi[blank] = np.nan
    if rng.random() < 0.3:
        phi[rng.integers(npol), rng.integers(nord), rng.integers(nch)] = np.nan
    if rng.random() < 0.2:
        phi[rng.integers(npol), rng.integers(nord), rng.integers(nch)] = np.inf
    if rng.random() < 0.2:
        phi[rng.integers(npol), rng.integers(nord), :] = 0
    if rng.random() < 0.2:
        phi[rng.integers(npol), rng.integers(nord), :] = 1.0 + 0.5j
    return phi


def judged(phi, mpc_lim, mpd_lim):
    """True for the poles whose pristine MPC / MPD are not within a relative 1e-9 of
    the limits (there the verdict is rounding noise in either implementation)."""
    out = np.ones(phi.shape[:2], dtype=bool)
    for o in range(phi.shape[0]):
        for i in range(phi.shape[1]):
            try:
                with np.errstate(all="ignore"):
                    c, d = orig_gen.MPC(phi[o, i, :]), orig_gen.MPD(phi[o, i, :])
            except Exception:  # noqa: BLE001
                continue
            for v, lim in ((c, mpc_lim), (d, mpd_lim)):
                if np.isfinite(v) and abs(v - lim) <= 1e-9 * max(abs(v), abs(lim)):
                    out[o, i] = False
    return out


def compare_masks(tag, r_new, r_old, ok):
    if r_new[0] != "ok" or r_old[0] != "ok":
        compare(tag, r_new, r_old)
        return
    for k, nm in enumerate(("mask_mpd", "mask_mpc")):
        a, b = np.asarray(r_new[1][k]), np.asarray(r_old[1][k])
        if a.shape != b.shape or a.dtype.kind != b.dtype.kind:
            failures.append(f"{tag}: {nm} shape/dtype {a.shape}{a.dtype} vs {b.shape}{b.dtype}")
        elif not np.array_equal(a[ok], b[ok]):
            failures.append(f"{tag}: {nm} differs at {int(np.sum(a[ok] != b[ok]))} judged poles")


def part_a(n=150):
    rng = np.random.default_rng(2024)
    n_judged = n_skipped = 0
    for t in range(n):
        phi = random_phi(rng)
        mpc_lim = rng.choice([0.0, 1.0, rng.random(), rng.random()])
        mpd_lim = rng.choice([0.0, np.pi / 2, rng.uniform(0, np.pi / 2), rng.uniform(0, 0.5)])
        ok = judged(phi, mpc_lim, mpd_lim)
        n_judged += int(ok.sum())
        n_skipped += int((~ok).sum())
        compare_masks(f"A{t} HC_phi_comp{phi.shape} mpc={mpc_lim:.3f} mpd={mpd_lim:.3f}",
                      outcome(new_gen.HC_phi_comp, phi.copy(), mpc_lim, mpd_lim),
                      outcome(orig_gen.HC_phi_comp, phi.copy(), mpc_lim, mpd_lim), ok)
        where = rng.random(phi.shape[:2]) < 0.6
        if rng.random() < 0.5:
            where = where.astype(int)
        blanked = np.where(where.astype(bool)[..., None], phi, np.nan)
        compare_masks(f"A{t} HC_phi_comp where=",
                      outcome(new_gen.HC_phi_comp, phi.copy(), mpc_lim, mpd_lim, where=where),
                      outcome(orig_gen.HC_phi_comp, blanked, mpc_lim, mpd_lim), ok)
        # the input must not be modified
        p0 = phi.copy()
        new_gen.HC_phi_comp(phi, mpc_lim, mpd_lim, where=where)
        if not np.array_equal(p0, phi, equal_nan=True):
            failures.append(f"A{t}: input modified")
    print(f"part A: {n} tables, {n_judged} poles compared, {n_skipped} on a threshold skipped")


# --------------------------------------------------------------------------- B
def signal(rng, nch, N, fs):
    t = np.arange(N) / fs
    Y = np.zeros((N, nch))
    for _ in range(rng.integers(2, 5)):
        f0 = rng.uniform(1, fs / 2.5)
        shape = rng.standard_normal(nch)
        # narrow-band random response: filtered noise through a 2nd order resonator
        z = rng.uniform(0.005, 0.05)
        w0 = 2 * np.pi * f0
        r = np.exp(-z * w0 / fs)
        a1, a2 = 2 * r * np.cos(w0 * np.sqrt(1 - z**2) / fs), -r * r
        e = rng.standard_normal(N)
        q = np.zeros(N)
        for i in range(2, N):
            q[i] = a1 * q[i - 1] + a2 * q[i - 2] + e[i]
        Y += np.outer(q / q.std(), shape)
    Y += 0.1 * rng.standard_normal(Y.shape)
    return Y + 0 * t[:, None]


RES_FIELDS = ["Fn_poles", "Xi_poles", "Phi_poles", "Lambds", "Lab",
              "Fn_poles_cov", "Xi_poles_cov", "Phi_poles_cov", "A", "C", "H", "Obs"]


def run_alg(cls, Y, fs, kw):
    alg = cls(name="x", **kw)
    alg._set_data(data=Y, fs=fs)
    return alg.run()


def part_b(n=26):
    rng = np.random.default_rng(7)
    for t in range(n):
        nch = int(rng.integers(2, 6))
        fs = float(rng.choice([20.0, 50.0, 100.0]))
        Y = signal(rng, nch, int(rng.integers(600, 1500)), fs)
        cov = t % 2 == 0
        name = "SSIcov" if cov else "SSIdat"
        kw = dict(br=int(rng.integers(4, 9)), ordmax=int(rng.integers(6, 15)),
                  ordmin=int(rng.integers(0, 4)))
        kw["ordmax"] = min(kw["ordmax"], kw["br"] * nch - 1)
        hc = dict(conj=bool(rng.random() < 0.6),
                  xi_max=float(rng.choice([1.0, 0.1, rng.uniform(0.01, 0.3)])),
                  mpc_lim=float(rng.choice([0.0, 0.7, rng.random()])),
                  mpd_lim=float(rng.choice([np.pi / 2, 0.3, rng.uniform(0, 1.0)])),
                  cov_max=float(rng.choice([0.2, np.inf, 10 ** rng.uniform(-5, 0)])))
        if cov and rng.random() < 0.7:
            kw.update(calc_unc=True, nb=int(rng.integers(5, 20)))
        if rng.random() < 0.3:
            kw["ref_ind"] = sorted(rng.choice(nch, size=max(1, nch - 1), replace=False).tolist())
        if cov and rng.random() < 0.3:
            kw["method"] = "cov_R" if not kw.get("calc_unc") else "cov_mm"
        if t == n - 1:
            hc.pop("cov_max")  # missing key -> same exception
        if t == n - 2:
            hc["xi_max"] = None  # unusable threshold -> same exception
        kw["hc"] = hc
        compare(f"B{t} {name} {kw}",
                outcome(run_alg, getattr(new_ssi, name), Y, fs, kw),
                outcome(run_alg, getattr(orig_ssi, name), Y, fs, kw),
                fields=RES_FIELDS)


# --------------------------------------------------------------------------- C
def part_c():
    rng = np.random.default_rng(99)
    fs = 50.0
    cases = []
    for t in range(4):
        n_ref, n_mov = 2, int(rng.integers(1, 3))
        base = signal(rng, n_ref + 2 * n_mov, 1200, fs)
        Yms = [dict(ref=base[:, :n_ref].T.copy(),
                    mov=base[:, n_ref + k * n_mov:n_ref + (k + 1) * n_mov].T.copy())
               for k in range(2)]
        hc = dict(conj=bool(t % 2), xi_max=0.1, mpc_lim=float(rng.random()),
                  mpd_lim=float(rng.uniform(0.1, 1.0)), cov_max=0.2)
        cls = new_ssi.SSIcov_MS if t % 2 else new_ssi.SSIdat_MS
        cases.append((f"C{t} {cls.__name__}", cls, Yms,
                      dict(br=6, ordmax=10, hc=hc), RES_FIELDS))
    for t in range(2):
        Y = signal(rng, 3, 2048, fs)
        hc = dict(conj=bool(t), xi_max=0.2, mpc_lim=float(rng.random()),
                  mpd_lim=float(rng.uniform(0.1, 1.0)))
        cases.append((f"C{4 + t} pLSCF", pLSCF, Y,
                      dict(ordmax=8, nxseg=256, hc=hc),
                      ["Fn_poles", "Xi_poles", "Phi_poles", "Lab"]))
    keep = new_gen.HC_phi_comp
    for tag, cls, data, kw, fields in cases:
        r_new = outcome(run_alg, cls, data, fs, kw)
        new_gen.HC_phi_comp = orig_gen.HC_phi_comp
        try:
            r_old = outcome(run_alg, cls, data, fs, kw)
        finally:
            new_gen.HC_phi_comp = keep
        if r_new[0] == "exc":
            failures.append(f"{tag}: unexpected exception {r_new[1]}")
        compare(tag, r_new, r_old, fields=fields)


if __name__ == "__main__":
    part_a()
    na = len(failures)
    part_b()
    nb = len(failures) - na
    part_c()
    nc = len(failures) - na - nb
    print(f"compared runs/calls that returned: {stats['ok']}, that raised: {stats['exc']}")
    print(f"part A failures: {na}, part B failures: {nb}, part C failures: {nc}")
    if failures:
        print("FAIL")
        for f in failures[:15]:
            print("  -", f[:400])
        sys.exit(1)
    print("PASS")
    sys.exit(0)
