"""
Differential test: the library as found on PYTHONPATH (expected: the CLEAN
version of the commit) against the pristine implementation kept next to this
file as orig_gen.py / orig_multi.py.

Run as:  PYTHONPATH=<tree>/src /venv/bin/python equiv.py
Prints PASS and exits 0 when every comparison agrees.
"""
import copy
import importlib.util
import logging
import os
import sys
import types
import warnings

import numpy as np

from pyoma2.functions import gen as new_gen
from pyoma2.setup import multi as new_multi

logging.disable(logging.CRITICAL)
HERE = os.path.dirname(os.path.abspath(__file__))


def _load(name, fname):
    spec = importlib.util.spec_from_file_location(name, os.path.join(HERE, fname))
    mod = importlib.util.module_from_spec(spec)
    sys.modules[name] = mod
    spec.loader.exec_module(mod)
    return mod


old_gen = _load("orig_gen", "orig_gen.py")
old_multi = _load("orig_multi", "orig_multi.py")
# the pristine PoSER class must call the pristine merge routine
old_multi.merge_mode_shapes = old_gen.merge_mode_shapes
old_multi.pre_multisetup = old_gen.pre_multisetup

problems = []
n_cmp = 0


def call(f, *a, **k):
    with warnings.catch_warnings():
        warnings.simplefilter("ignore")
        try:
            return ("ok", f(*a, **k))
        except Exception as exc:  # noqa: BLE001
            return ("exc", exc)


def same(a, b):
    a = np.asarray(a)
    b = np.asarray(b)
    if a.shape != b.shape or a.dtype != b.dtype:
        return False
    return np.array_equal(a, b, equal_nan=True) or np.allclose(
        a, b, rtol=1e-12, atol=0.0, equal_nan=True
    )


def compare(tag, r_old, r_new, exact_exc=False):
    global n_cmp
    n_cmp += 1
    if r_old[0] != r_new[0]:
        problems.append(f"{tag}: old -> {r_old!r}, new -> {r_new!r}")
    elif r_old[0] == "ok":
        if not same(r_old[1], r_new[1]):
            problems.append(f"{tag}: values differ\n old={r_old[1]}\n new={r_new[1]}")
    else:
        # both raised: the new exception must be catchable wherever the old was
        if exact_exc and (
            not isinstance(r_new[1], type(r_old[1])) or str(r_old[1]) != str(r_new[1])
        ):
            problems.append(f"{tag}: exceptions differ {r_old[1]!r} vs {r_new[1]!r}")


rng = np.random.default_rng(7)


def random_case(kind):
    n_setups = int(rng.integers(1, 6))
    n_ref = int(rng.integers(1, 5))
    n_modes = int(rng.integers(1, 9))
    MS, refl = [], []
    for _ in range(n_setups):
        n_ch = n_ref + int(rng.integers(0, 6))
        if kind == "int":
            ms = rng.integers(-9, 10, (n_ch, n_modes))
        elif kind == "complex":
            ms = rng.standard_normal((n_ch, n_modes)) + 1j * rng.standard_normal(
                (n_ch, n_modes)
            )
        else:
            ms = rng.standard_normal((n_ch, n_modes))
        ref = rng.choice(n_ch, n_ref, replace=False)
        style = int(rng.integers(0, 4))
        if style == 0:
            ref = [int(r) for r in ref]
        elif style == 1:  # negative spelling of some indices
            ref = [int(r) - n_ch if rng.random() < 0.5 else int(r) for r in ref]
        elif style == 2:  # list of numpy integers
            ref = list(ref)
        # style 3: numpy integer array
        MS.append(ms)
        refl.append(ref)
    return MS, refl


# --- merge_mode_shapes on valid input -------------------------------------
for t in range(240):
    MS, refl = random_case(["real", "complex", "int"][t % 3])
    if t % 10 == 0:  # entries in excess are ignored, as before
        refl = refl + [[0]]
    compare(
        f"merge valid #{t}",
        call(old_gen.merge_mode_shapes, MS, refl),
        call(new_gen.merge_mode_shapes, MS, refl),
    )
    compare(
        f"merge valid kw #{t}",
        call(old_gen.merge_mode_shapes, MSarr_list=MS, reflist=refl),
        call(new_gen.merge_mode_shapes, MSarr_list=MS, reflist=refl),
    )

# --- merge_mode_shapes on invalid input: both must refuse -----------------
a32 = rng.standard_normal((3, 2))
a42 = rng.standard_normal((4, 2))
a41 = rng.standard_normal((4, 1))
invalid = [
    ("modes differ", [a32, a41], [[0], [1]]),
    ("modes differ, long reflist", [a32, a41], [[0], [1], [2]]),
    ("reflist too short", [a32, a42], [[0]]),
    ("index out of range", [a32, a42], [[0], [4]]),
    ("index out of range (neg)", [a32, a42], [[-4], [0]]),
    ("repeated index", [a32, a42], [[0, 0], [1, 2]]),
    ("repeated index (neg spelling)", [a32, a42], [[0, 1], [3, -1]]),
    ("ref counts differ", [a32, a42], [[0, 1], [1]]),
    ("ref counts differ 2", [a32, a42], [[0], [1, 2]]),
    ("float index", [a32, a42], [[0.0], [1.0]]),
]
for tag, MS, refl in invalid:
    r_old = call(old_gen.merge_mode_shapes, MS, refl)
    r_new = call(new_gen.merge_mode_shapes, MS, refl)
    compare(f"merge invalid: {tag}", r_old, r_new)
    if r_new[0] != "exc":
        problems.append(f"merge invalid: {tag}: new version did not raise")
# the message the test-suite pins
r_old = call(old_gen.merge_mode_shapes, [a32, a41], [[0], [1], [2]])
r_new = call(new_gen.merge_mode_shapes, [a32, a41], [[0], [1], [2]])
compare("merge invalid: pinned message", r_old, r_new, exact_exc=True)

# --- MSF ------------------------------------------------------------------
for t in range(60):
    n, m = int(rng.integers(1, 7)), int(rng.integers(1, 5))
    p1 = rng.standard_normal((n, m)) + (1j * rng.standard_normal((n, m)) if t % 2 else 0)
    p2 = rng.standard_normal((n, m)) + (1j * rng.standard_normal((n, m)) if t % 3 else 0)
    if t % 5 == 0:
        p1, p2 = p1[:, 0], p2[:, 0]
    compare(f"MSF #{t}", call(old_gen.MSF, p1, p2), call(new_gen.MSF, p1, p2))
compare(
    "MSF shape mismatch",
    call(old_gen.MSF, np.ones(3), np.ones(4)),
    call(new_gen.MSF, np.ones(3), np.ones(4)),
    exact_exc=True,
)

# --- flatten_sns_names (untouched, shares reflist with the merge) ---------
for t in range(20):
    MS, refl = random_case("real")
    refl = [[int(r) % ms.shape[0] for r in ref] for ms, ref in zip(MS, refl)]
    names = [[f"s{i}_{c}" for c in range(ms.shape[0])] for i, ms in enumerate(MS)]
    n_cmp += 1
    if old_gen.flatten_sns_names(names, refl) != new_gen.flatten_sns_names(names, refl):
        problems.append(f"flatten_sns_names #{t}")

# --- MultiSetup_PoSER.merge_results ---------------------------------------


class _AlgA:
    def __init__(self, name, Fn, Xi, Phi):
        self.name = name
        self.result = types.SimpleNamespace(Fn=Fn, Xi=Xi, Phi=Phi)


class _AlgB(_AlgA):
    pass


FIELDS = ("Phi", "Fn", "Fn_cov", "Xi", "Xi_cov")


def poser_case(t):
    MS, refl = random_case(["real", "complex"][t % 2])
    while len(MS) < 2:
        MS, refl = random_case(["real", "complex"][t % 2])
    n_modes = MS[0].shape[1]
    refl = [list(int(r) for r in ref) for ref in refl]
    setups = []
    for i, ms in enumerate(MS):
        algs = {
            "first": _AlgA(
                f"A{i}", rng.uniform(1, 30, n_modes), rng.uniform(0.001, 0.1, n_modes), ms
            ),
            "second": _AlgB(
                f"B{i}",
                rng.uniform(1, 30, n_modes),
                rng.uniform(0.001, 0.1, n_modes),
                ms * rng.uniform(0.5, 2.0, n_modes),
            ),
        }
        setups.append(types.SimpleNamespace(algorithms=algs))
    return refl, setups


def run_poser(mod, refl, setups, twice):
    msp = mod.MultiSetup_PoSER(ref_ind=refl, single_setups=setups, names=["g1", "g2"])
    res = msp.merge_results()
    if twice:
        # a later change of one setup's result must be picked up by a second call
        setups[-1].algorithms["first"].result.Fn = (
            setups[-1].algorithms["first"].result.Fn * 1.01
        )
        res2 = msp.merge_results()
        assert res2 is res and msp.result is res
    assert list(res.keys()) == ["g1", "g2"]
    return res


for t in range(40):
    refl, setups = poser_case(t)
    r_old = call(run_poser, old_multi, refl, copy.deepcopy(setups), t % 4 == 0)
    r_new = call(run_poser, new_multi, refl, copy.deepcopy(setups), t % 4 == 0)
    n_cmp += 1
    if r_old[0] != "ok" or r_new[0] != "ok":
        problems.append(f"PoSER #{t}: old -> {r_old!r}, new -> {r_new!r}")
        continue
    for grp in ("g1", "g2"):
        for f in FIELDS:
            if not same(getattr(r_old[1][grp], f), getattr(r_new[1][grp], f)):
                problems.append(f"PoSER #{t}: {grp}.{f} differs")

# invalid PoSER input: both refuse
refl, setups = poser_case(0)
setups[1].algorithms["first"].result.Fn = np.append(
    setups[1].algorithms["first"].result.Fn, 1.0
)
compare(
    "PoSER: mode counts differ",
    call(run_poser, old_multi, refl, setups, False),
    call(run_poser, new_multi, refl, setups, False),
)
refl, setups = poser_case(1)
compare(
    "PoSER: ref_ind too short",
    call(run_poser, old_multi, refl[:-1], setups, False),
    call(run_poser, new_multi, refl[:-1], setups, False),
)
for r in (
    call(run_poser, new_multi, refl[:-1], setups, False),
):
    if r[0] != "exc" or not isinstance(r[1], ValueError):
        problems.append(f"PoSER: ref_ind too short: expected ValueError, got {r!r}")

if problems:
    print(f"FAIL: {len(problems)} of {n_cmp} comparisons disagree")
    for p in problems[:15]:
        print("  -", p)
    sys.exit(1)
print(f"PASS ({n_cmp} comparisons)")
sys.exit(0)
