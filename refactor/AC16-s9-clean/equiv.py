"""
Differential test: the CLEAN version of pyoma2.support.sel_from_plot against the pristine
implementation (orig_sel_from_plot.py, a copy of the file at HEAD saved next to this script).

Run as:  PYTHONPATH=<tree>/src /venv/bin/python equiv.py

Both dialogs are driven head-less with the same random action sequences (picks, both kinds of
deselection, SHIFT pressed / released, clicks outside the axes, clicks on orders without
poles) on the same random tables, for the "SSI", "pLSCF" and "FDD" variants.  After every
single action the complete observable state is compared: the frequency list, the index list
(under its old name pole_ind / freq_ind), the modifier flag, the marker drawn on the chart and
the exception the callback raised, if any; at the end the `result` tuple.  In addition the
public methods get_closest_pole / get_closest_freq / sort_selected_poles / on_click_* are
called directly on prepared states.
"""

import importlib.util
import logging
import os
import sys
import types
import unittest.mock as mock
import warnings

import matplotlib

matplotlib.use("Agg")

import numpy as np  # noqa: E402
from matplotlib.backend_bases import KeyEvent, MouseEvent  # noqa: E402

logging.disable(logging.CRITICAL)
warnings.filterwarnings("ignore")

import pyoma2.support.sel_from_plot as new_mod  # noqa: E402

HERE = os.path.dirname(os.path.abspath(__file__))
spec = importlib.util.spec_from_file_location(
    "orig_sel_from_plot", os.path.join(HERE, "orig_sel_from_plot.py")
)
old_mod = importlib.util.module_from_spec(spec)
spec.loader.exec_module(old_mod)

MISMATCHES = []
N_COMPARED = 0


def same(a, b):
    """Structural equality with numpy semantics (NaN equal to NaN, rtol 1e-12)."""
    if a is None or b is None:
        return a is None and b is None
    if isinstance(a, str) or isinstance(b, str):
        return a == b
    if isinstance(a, (tuple, list)) and isinstance(b, (tuple, list)) and (
        any(isinstance(x, (tuple, list, str, type(None))) for x in list(a) + list(b))
    ):
        return len(a) == len(b) and all(same(x, y) for x, y in zip(a, b))
    a, b = np.asarray(a, dtype=float), np.asarray(b, dtype=float)
    return a.shape == b.shape and bool(np.allclose(a, b, rtol=1e-12, atol=0, equal_nan=True))


def compare(tag, a, b):
    global N_COMPARED
    N_COMPARED += 1
    if not same(a, b):
        MISMATCHES.append(f"{tag}: orig={a!r} clean={b!r}")


# ----------------------------------------------------------------------------------------
# head-less driving
# ----------------------------------------------------------------------------------------
def snapshot(dlg, plot, exc):
    ind = dlg.freq_ind if plot == "FDD" else dlg.pole_ind
    marker = getattr(dlg, "MARKER", None)
    return (
        list(dlg.sel_freq),
        list(ind),
        [float(dlg.shift_is_held)],
        None if marker is None else list(np.asarray(marker.get_xdata(), dtype=float)),
        None if marker is None else list(np.asarray(marker.get_ydata(), dtype=float)),
        exc,
    )


def replay(dlg, plot, actions, trace):
    reg = dlg.fig.canvas.callbacks
    raised = []
    reg.exception_handler = lambda exc: raised.append(f"{type(exc).__name__}: {exc}")
    for act in actions:
        del raised[:]
        if act[0] == "key":
            name = "key_press_event" if act[1] else "key_release_event"
            reg.process(name, KeyEvent(name, dlg.fig.canvas, act[2]))
        else:
            _, button, x, y = act
            ev = MouseEvent("button_press_event", dlg.fig.canvas, 0, 0, button=button)
            ev.inaxes, ev.xdata, ev.ydata = (None if x is None else dlg.ax2), x, y
            reg.process("button_press_event", ev)
        trace.append(snapshot(dlg, plot, "|".join(raised)))


def run_dialog(mod, algo, plot, actions, freqlim):
    trace = []

    class Driven(mod.SelFromPlot):
        def _initialize_gui(self):
            super()._initialize_gui()
            self.root.mainloop.side_effect = lambda: replay(self, plot, actions, trace)

    with mock.patch.object(mod.tk, "Tk"), mock.patch.object(mod.tk, "Menu"), mock.patch.object(
        mod, "FigureCanvasTkAgg"
    ), mock.patch.object(mod, "NavigationToolbar2Tk"):
        try:
            dlg = Driven(algo=algo, freqlim=freqlim, plot=plot)
            return trace, dlg.result, None
        except Exception as exc:  # noqa: BLE001
            return trace, None, f"{type(exc).__name__}: {exc}"


def bare(mod, algo, plot):
    """A dialog object without any GUI, with the redraws stubbed out (for direct method calls)."""
    dlg = mod.SelFromPlot.__new__(mod.SelFromPlot)
    dlg.algo, dlg.plot, dlg.fs = algo, plot, algo.fs
    dlg.shift_is_held = False
    dlg.sel_freq = []
    if plot == "FDD":
        dlg.freq_ind = []
    else:
        dlg.pole_ind = []
        dlg.show_legend, dlg.hide_poles = 0, 1
    dlg.calls = []
    dlg.plot_stab = lambda *a, **k: dlg.calls.append(("plot_stab", a, tuple(sorted(k.items()))))
    dlg.plot_svPSD = lambda *a, **k: dlg.calls.append(("plot_svPSD", a, tuple(sorted(k.items()))))
    return dlg


def guarded(fn, *args):
    try:
        fn(*args)
        return ""
    except Exception as exc:  # noqa: BLE001
        return f"{type(exc).__name__}: {exc}"


# ----------------------------------------------------------------------------------------
# random inputs
# ----------------------------------------------------------------------------------------
def stub_stab(rng):
    n_poles, n_orders = int(rng.integers(1, 7)), int(rng.integers(2, 10))
    Fn = np.round(rng.uniform(0.2, 9.8, size=(n_poles, n_orders)), int(rng.integers(0, 4)))
    Fn[rng.random(Fn.shape) < rng.uniform(0, 0.6)] = np.nan
    if rng.random() < 0.7:
        Fn[:, 0] = np.nan
    if rng.random() < 0.4:
        Fn[:, int(rng.integers(0, n_orders))] = np.nan
    Lab = np.where(np.isnan(Fn), 0, rng.integers(0, 2, size=Fn.shape))
    algo = types.SimpleNamespace(
        fs=20.0,
        result=types.SimpleNamespace(Fn_poles=Fn, Lab=Lab),
        run_params=types.SimpleNamespace(
            ordmin=int(rng.integers(0, 2)), ordmax=n_orders - 1, step=int(rng.integers(1, 3))
        ),
    )
    return algo, n_orders


def stub_fdd(rng):
    nf = int(rng.integers(3, 40))
    freq = np.linspace(0, 10, nf)
    nch = int(rng.integers(1, 4))
    S_val = np.zeros((nch, nch, nf))
    for k in range(nch):
        S_val[k, k] = rng.uniform(0.1, 5.0, nf) / (k + 1)
    algo = types.SimpleNamespace(fs=20.0, result=types.SimpleNamespace(freq=freq, S_val=S_val))
    return algo, 6


def random_actions(rng, n_orders):
    acts = []
    if rng.random() < 0.85:
        acts.append(("key", True, "shift"))
    for _ in range(int(rng.integers(1, 13))):
        r = rng.random()
        if r < 0.10:
            acts.append(("key", bool(rng.random() < 0.6), "shift"))
        elif r < 0.14:
            acts.append(("key", bool(rng.random() < 0.5), str(rng.choice(["control", "a", "shift+a"]))))
        elif r < 0.18:
            acts.append(("click", int(rng.choice([1, 2, 3])), None, None))  # outside the axes
        else:
            button = int(rng.choice([1, 1, 1, 1, 2, 3]))
            x = float(rng.uniform(-1, 11))
            y = float(rng.uniform(-1.5, n_orders + 0.5))
            if rng.random() < 0.15:
                y = float(np.round(y)) + 0.5 * float(rng.integers(0, 2))  # on / halfway between orders
            if rng.random() < 0.15:
                x = float(np.round(x))
            acts.append(("click", button, x, y))
    return acts


# ----------------------------------------------------------------------------------------
def main():
    rng = np.random.default_rng(16)
    n_cfg = 0

    # 1. complete dialogs
    for trial in range(120):
        plot = ("SSI", "pLSCF", "FDD")[trial % 3]
        algo, n_orders = stub_fdd(rng) if plot == "FDD" else stub_stab(rng)
        actions = random_actions(rng, n_orders)
        freqlim = None if rng.random() < 0.5 else (0.0, float(rng.uniform(5, 10)))
        t_old, r_old, e_old = run_dialog(old_mod, algo, plot, actions, freqlim)
        t_new, r_new, e_new = run_dialog(new_mod, algo, plot, actions, freqlim)
        tag = f"dialog {trial} ({plot}) actions={actions}"
        compare(tag + " constructor exception", e_old, e_new)
        compare(tag + " number of steps", [len(t_old)], [len(t_new)])
        for k, (so, sn) in enumerate(zip(t_old, t_new)):
            compare(tag + f" state after action {k}", so, sn)
        if r_old is not None and r_new is not None:
            compare(tag + " result[0]", list(r_old[0]), list(r_new[0]))
            compare(tag + " result[1]", r_old[1], r_new[1])
        else:
            compare(tag + " result", r_old, r_new)
        n_cfg += 1

    # 2. direct calls of the public methods on prepared states
    for trial in range(90):
        plot = ("SSI", "pLSCF", "FDD")[trial % 3]
        algo, n_orders = stub_fdd(rng) if plot == "FDD" else stub_stab(rng)
        k = int(rng.integers(0, 6))
        freqs = [float(v) for v in np.round(rng.uniform(0, 10, k), int(rng.integers(0, 3)))]
        inds = [int(v) for v in rng.integers(0, max(n_orders, 1), k)]
        x, y = float(rng.uniform(-1, 11)), float(rng.uniform(-1, n_orders))
        button = int(rng.choice([1, 2, 3]))
        shift = bool(rng.random() < 0.8)
        outs = []
        for mod in (old_mod, new_mod):
            rec = []
            for what in ("sort", "closest", "click"):
                dlg = bare(mod, algo, plot)
                dlg.sel_freq = list(freqs)
                if plot == "FDD":
                    dlg.freq_ind = list(inds)
                else:
                    dlg.pole_ind = list(inds)
                dlg.shift_is_held = shift
                if what == "sort":
                    exc = guarded(dlg.sort_selected_poles)
                elif what == "closest":
                    dlg.x_data_pole, dlg.y_data_pole = x, [y]  # the list form the old handlers stored
                    exc = (
                        guarded(dlg.get_closest_freq)
                        if plot == "FDD"
                        else guarded(dlg.get_closest_pole, plot)
                    )
                else:
                    ev = types.SimpleNamespace(button=button, xdata=x, ydata=y)
                    exc = (
                        guarded(dlg.on_click_FDD, ev)
                        if plot == "FDD"
                        else guarded(dlg.on_click_SSI, ev, plot)
                    )
                ind = dlg.freq_ind if plot == "FDD" else dlg.pole_ind
                rec.append((what, list(dlg.sel_freq), list(ind), exc, [len(dlg.calls)]))
                rec.append((what + " redraws", [c[0] for c in dlg.calls], None, "", [0]))
            outs.append(rec)
        for ro, rn in zip(*outs):
            compare(
                f"direct {trial} ({plot}) {ro[0]} freqs={freqs} inds={inds} x={x} y={y} "
                f"button={button} shift={shift}",
                ro[1:],
                rn[1:],
            )
        n_cfg += 1

    print(f"{n_cfg} configurations, {N_COMPARED} comparisons")
    if MISMATCHES:
        print(f"FAIL: {len(MISMATCHES)} differences between HEAD and the tree under test")
        for m in MISMATCHES[:5]:
            print("  ", m[:1500])
        sys.exit(1)
    print("PASS")
    sys.exit(0)


if __name__ == "__main__":
    main()
