"""
Differential test: library as found on PYTHONPATH (CLEAN version of the commit)
against the pristine sources saved next to this file (orig_ssi.py = functions/ssi.py,
orig_alg_ssi.py = algorithms/ssi.py at HEAD).

Run as:  PYTHONPATH=<tree>/src /venv/bin/python equiv.py
Prints PASS and exits 0 if all outputs (and raised exception types) agree.
"""

import importlib.util
import logging
import os
import sys

import numpy as np

logging.disable(logging.CRITICAL)
HERE = os.path.dirname(os.path.abspath(__file__))


def _load(name, fname):
    spec = importlib.util.spec_from_file_location(name, os.path.join(HERE, fname))
    mod = importlib.util.module_from_spec(spec)
    sys.modules[name] = mod
    spec.loader.exec_module(mod)
    return mod


import pyoma2.algorithms  # noqa: E402,F401  (package needed for the relative import below)
from pyoma2.algorithms import ssi as new_alg  # noqa: E402
from pyoma2.functions import ssi as new_ssi  # noqa: E402

orig_ssi = _load("orig_ssi", "orig_ssi.py")
orig_alg = _load("pyoma2.algorithms._orig_alg_ssi", "orig_alg_ssi.py")
orig_alg.ssi = orig_ssi  # pristine classes call the pristine functions

for m in (new_ssi, orig_ssi):
    m.trange = lambda *a, **k: range(*a)
    m.tqdm = lambda it, *a, **k: it

assert new_ssi.__file__ != orig_ssi.__file__
assert new_alg.ssi is new_ssi and orig_alg.ssi is orig_ssi

failures = []
n_cases = 0


def same(a, b):
    if a is None or b is None:
        return a is None and b is None
    if isinstance(a, (list, tuple)):
        return (
            isinstance(b, (list, tuple))
            and len(a) == len(b)
            and all(same(x, y) for x, y in zip(a, b))
        )
    a, b = np.asarray(a), np.asarray(b)
    if a.shape != b.shape:
        return False
    return bool(np.array_equal(a, b) or np.allclose(a, b, rtol=1e-12, atol=0, equal_nan=True))


def outcome(fn, *args, **kwargs):
    try:
        return ("ok", fn(*args, **kwargs))
    except Exception as exc:  # compared by type
        return ("exc", type(exc).__name__)


def compare(tag, new, old):
    global n_cases
    n_cases += 1
    if new[0] != old[0]:
        failures.append(f"{tag}: new {new[0]} {new[1] if new[0] == 'exc' else ''} / old {old[0]} {old[1] if old[0] == 'exc' else ''}")
    elif new[0] == "exc":
        if new[1] != old[1]:
            failures.append(f"{tag}: raised {new[1]} / {old[1]}")
    elif not same(new[1], old[1]):
        failures.append(f"{tag}: results differ")


rng = np.random.default_rng(2024)

# --------------------------------------------------------------------------
# 1. build_hank, old calling conventions
# --------------------------------------------------------------------------
for it in range(90):
    method = ("cov_mm", "cov_R", "dat")[it % 3]
    l = int(rng.integers(1, 6))
    br = int(rng.integers(1, 7))
    Ndat = int(rng.integers(2 * br + 3 + 2 * (br + 1) * l, 2 * br + 3 + 2 * (br + 1) * l + 200))
    Y = rng.standard_normal((l, Ndat))
    kind = it % 4
    if kind == 0:
        Yref = Y
    elif kind == 1:
        k = int(rng.integers(1, l + 1))
        Yref = Y[np.sort(rng.choice(l, size=k, replace=False)), :]
    elif kind == 2:
        k = int(rng.integers(1, l + 1))
        Yref = Y[rng.permutation(l)[:k], :]  # any order
    else:
        Yref = rng.standard_normal((int(rng.integers(1, l + 1)), Ndat))  # unrelated
    calc_unc = method == "cov_mm" and it % 2 == 0
    nb = int(rng.integers(2, 6))
    tag = f"build_hank #{it} {method} l={l} r={Yref.shape[0]} br={br} Ndat={Ndat} unc={calc_unc}"
    if it % 5 == 0:
        new = outcome(new_ssi.build_hank, Y.copy(), Yref.copy(), br, method, calc_unc, nb)
        old = outcome(orig_ssi.build_hank, Y.copy(), Yref.copy(), br, method, calc_unc, nb)
    else:
        kw = dict(br=br, method=method, calc_unc=calc_unc, nb=nb)
        new = outcome(new_ssi.build_hank, Y=Y.copy(), Yref=Yref.copy(), **kw)
        old = outcome(orig_ssi.build_hank, Y=Y.copy(), Yref=Yref.copy(), **kw)
    compare(tag, new, old)

# integer data and the cases pinned by the unit tests
Yi = np.array([[1, 2, 3, 4, 5]])
for method in ("cov_mm", "cov_R", "dat"):
    for unc in (False, True):
        compare(
            f"build_hank int {method} unc={unc}",
            outcome(new_ssi.build_hank, Y=Yi, Yref=Yi, br=1, method=method, calc_unc=unc, nb=100),
            outcome(orig_ssi.build_hank, Y=Yi, Yref=Yi, br=1, method=method, calc_unc=unc, nb=100),
        )
Yi = rng.integers(-9, 10, size=(3, 40))
for method in ("cov_mm", "cov_R", "dat"):
    compare(
        f"build_hank int3 {method}",
        outcome(new_ssi.build_hank, Yi, Yi[[0, 2]], 2, method),
        outcome(orig_ssi.build_hank, Yi, Yi[[0, 2]], 2, method),
    )
# errors that existed before keep their type
for method, unc in (("YfYp", True), ("YfYp", False), ("invalid_method", False), ("cov_R", True), ("dat", True)):
    Yx = rng.standard_normal((2, 50))
    compare(
        f"build_hank error {method} unc={unc}",
        outcome(new_ssi.build_hank, Y=Yx, Yref=Yx, br=2, method=method, calc_unc=unc),
        outcome(orig_ssi.build_hank, Y=Yx, Yref=Yx, br=2, method=method, calc_unc=unc),
    )

# --------------------------------------------------------------------------
# 2. new spellings give what the old interface gave for the same request
# --------------------------------------------------------------------------
for it in range(45):
    method = ("cov_mm", "cov_R", "dat")[it % 3]
    l = int(rng.integers(2, 6))
    br = int(rng.integers(1, 6))
    Ndat = int(rng.integers(2 * br + 3 + 2 * (br + 1) * l, 300))
    Y = rng.standard_normal((l, Ndat))
    k = int(rng.integers(1, l + 1))
    ref = [int(i) for i in rng.permutation(l)[:k]]
    if it % 2:
        ref = sorted(ref)
    calc_unc = method == "cov_mm" and it % 2 == 0
    forms = [ref, tuple(ref), np.array(ref), [i - l for i in ref]]
    if k == 1:
        forms.append(ref[0])
    form = forms[it % len(forms)]
    Yin = Y.tolist() if it % 7 == 0 else Y
    meth_in = "data" if (method == "dat" and it % 2) else method
    compare(
        f"build_hank ref_ind #{it} {meth_in} l={l} ref_ind={form!r} br={br}",
        outcome(new_ssi.build_hank, Yin, None, br, meth_in, calc_unc, 4, ref_ind=form),
        outcome(orig_ssi.build_hank, Y, Y[ref, :], br, method, calc_unc, 4),
    )
    compare(
        f"build_hank Yref=None #{it} {method}",
        outcome(new_ssi.build_hank, Y, None, br, method),
        outcome(orig_ssi.build_hank, Y, Y, br, method),
    )


# --------------------------------------------------------------------------
# 3. algorithm classes: SSIdat.run / SSIcov.run
# --------------------------------------------------------------------------
FIELDS = ("H", "Obs", "A", "C", "Lambds", "Fn_poles", "Xi_poles", "Phi_poles", "Lab",
          "Fn_poles_cov", "Xi_poles_cov", "Phi_poles_cov")


def run_alg(mod, clsname, data, fs, **params):
    algo = getattr(mod, clsname)(name="x", **params)
    algo._set_data(data=data.copy(), fs=fs)
    res = algo.run()
    return [getattr(res, f) for f in FIELDS]


def synth(n_ch, n_dat):
    """lightly damped 3-dof-like response + noise, so that poles survive the criteria"""
    t = np.arange(n_dat) / 50.0
    freqs = np.array([2.0, 5.5, 9.0])
    shapes = rng.standard_normal((n_ch, 3))
    x = np.zeros((n_dat, n_ch))
    for f, s in zip(freqs, shapes.T):
        drive = rng.standard_normal(n_dat)
        h = np.exp(-0.02 * 2 * np.pi * f * t[:400]) * np.sin(2 * np.pi * f * t[:400])
        x += np.outer(np.convolve(drive, h)[:n_dat], s)
    return x + 0.05 * x.std() * rng.standard_normal(x.shape)


configs = []
for it in range(24):
    clsname, method = (("SSIdat", "dat"), ("SSIcov", "cov_mm"), ("SSIcov", "cov_R"), ("SSIcov", None))[it % 4]
    n_ch = int(rng.integers(2, 6))
    kind = it % 3
    if kind == 0:
        ref = None
    elif kind == 1:
        ref = sorted(int(i) for i in rng.permutation(n_ch)[: int(rng.integers(1, n_ch + 1))])
    else:
        ref = [int(i) for i in rng.permutation(n_ch)[: int(rng.integers(1, n_ch + 1))]]
    br = int(rng.integers(4, 9))
    n_r = n_ch if ref is None else len(ref)
    ordmax = int(min(rng.integers(6, 13), (br + 1) * n_r, br * n_ch))
    params = dict(br=br, ordmax=ordmax, ref_ind=ref)
    if method is not None:
        params["method"] = method
    if clsname == "SSIcov" and method in (None, "cov_mm") and it % 8 in (1, 3):
        params.update(calc_unc=True, nb=5)
    configs.append((clsname, n_ch, params))

for i, (clsname, n_ch, params) in enumerate(configs):
    data = synth(n_ch, 600)
    compare(
        f"{clsname}.run #{i} n_ch={n_ch} {params}",
        outcome(run_alg, new_alg, clsname, data, 50.0, **params),
        outcome(run_alg, orig_alg, clsname, data, 50.0, **params),
    )

# --------------------------------------------------------------------------
# 4. multi-setup routine (calls build_hank positionally)
# --------------------------------------------------------------------------
for it in range(6):
    method = ("cov_mm", "cov_R", "dat")[it % 3]
    n_ref = int(rng.integers(1, 3))
    Yms = []
    for _ in range(int(rng.integers(2, 4))):
        d = synth(n_ref + int(rng.integers(1, 3)), 500).T
        Yms.append({"ref": d[:n_ref], "mov": d[n_ref:]})
    br, ordmax = int(rng.integers(6, 9)), 6
    compare(
        f"SSI_multi_setup #{it} {method}",
        outcome(new_ssi.SSI_multi_setup, Yms, 50.0, br, ordmax, method),
        outcome(orig_ssi.SSI_multi_setup, Yms, 50.0, br, ordmax, method),
    )

if failures:
    print(f"FAIL ({len(failures)} of {n_cases} cases)")
    for line in failures[:20]:
        print("  ", line)
    sys.exit(1)
print(f"PASS ({n_cases} cases)")
sys.exit(0)
