"""Differential test: library under PYTHONPATH vs the pristine functions/ssi.py (orig_ssi.py).

Run as:  PYTHONPATH=<tree>/src /venv/bin/python equiv.py
Prints PASS and exits 0 when every compared output agrees
(np.array_equal or np.allclose(rtol=1e-12, equal_nan=True); same exception types).
"""
import importlib.util
import logging
import os
import sys

import numpy as np

logging.disable(logging.CRITICAL)

import pyoma2.algorithms.ssi as alg_ssi  # noqa: E402
import pyoma2.functions.ssi as new  # noqa: E402
from pyoma2.algorithms.ssi import SSIcov  # noqa: E402
from pyoma2.setup import SingleSetup  # noqa: E402

HERE = os.path.dirname(os.path.abspath(__file__))
spec = importlib.util.spec_from_file_location("orig_ssi", os.path.join(HERE, "orig_ssi.py"))
old = importlib.util.module_from_spec(spec)
spec.loader.exec_module(old)
logging.disable(logging.CRITICAL)

for m in (new, old):  # silence progress bars
    m.trange = lambda *a, **k: range(*a)

RTOL = 1e-12
n_cmp = 0
fails = []


def same(a, b, what):
    global n_cmp
    n_cmp += 1
    if a is None or b is None:
        ok = a is None and b is None
    elif isinstance(a, str) or isinstance(b, str):
        ok = a == b
    elif isinstance(a, (list, tuple)):
        ok = len(a) == len(b)
        if ok:
            for i, (x, y) in enumerate(zip(a, b)):
                same(x, y, "%s[%d]" % (what, i))
            return
    else:
        a = np.asarray(a)
        b = np.asarray(b)
        ok = a.shape == b.shape and (
            np.array_equal(a, b, equal_nan=True)
            or np.allclose(a, b, rtol=RTOL, equal_nan=True)
        )
        if ok and a.size and np.issubdtype(a.dtype, np.number):
            # also a purely relative check, so large numbers are not let through
            fin = np.isfinite(a) & np.isfinite(b)
            scale = np.max(np.abs(b[fin])) if fin.any() else 0.0
            if scale > 0:
                ok = np.max(np.abs(a[fin] - b[fin])) <= 1e-10 * scale
    if not ok:
        fails.append(what)


def call(f, *a, **k):
    try:
        return ("ok", f(*a, **k))
    except Exception as e:  # noqa: BLE001
        return ("exc", type(e).__name__)


def both(name, what, *a, **k):
    r_new = call(getattr(new, name), *a, **k)
    r_old = call(getattr(old, name), *a, **k)
    if r_new[0] != r_old[0]:
        fails.append("%s: %s vs %s" % (what, r_new, r_old))
        return None
    if r_new[0] == "exc":
        if r_new[1] != r_old[1]:
            fails.append("%s: exception %s vs %s" % (what, r_new[1], r_old[1]))
        return None
    same(r_new[1], r_old[1], what)
    return r_new[1], r_old[1]


def rand_hankel(rng, l, r, p, n):
    O = rng.standard_normal(((p + 1) * l, n))
    Cc = rng.standard_normal((n, (p + 1) * r))
    return O @ Cc + 0.2 * rng.standard_normal(((p + 1) * l, (p + 1) * r))


def rand_data(rng, l, ndat, fs=100.0):
    t = np.arange(ndat) / fs
    y = np.zeros((l, ndat))
    for f0 in (4.0, 11.0, 17.5):
        ph = rng.uniform(0, 2 * np.pi, l)
        amp = rng.uniform(0.5, 1.5, l)
        y += amp[:, None] * np.sin(2 * np.pi * f0 * t[None, :] + ph[:, None])
    # coloured noise
    e = rng.standard_normal((l, ndat + 4))
    y += 0.8 * (e[:, 4:] + 0.7 * e[:, 3:-1] + 0.4 * e[:, 2:-2])
    return y


rng = np.random.default_rng(20240611)

# ---- 1. SSI_fast / SSI_poles on synthetic Hankel matrices --------------------
n_cases = 0
while n_cases < 30:
    l = int(rng.integers(1, 4))
    r = int(rng.integers(1, l + 1))
    p = int(rng.integers(2, 6))
    nmax = min(p * l, (p + 1) * r, 8)
    if nmax < 2:
        continue
    ordmax = int(rng.integers(2, nmax + 1))
    step = 1 if n_cases % 5 else int(rng.integers(1, 3))
    nb = int(rng.integers(1, 21))
    dt = float(rng.choice([0.01, 0.005, 0.02]))
    H = rand_hankel(rng, l, r, p, ordmax)
    T = rng.standard_normal((H.size, nb))
    tag = "case%d(l=%d,r=%d,p=%d,ordmax=%d,step=%d,nb=%d)" % (n_cases, l, r, p, ordmax, step, nb)
    n_cases += 1

    both("SSI_fast", tag + " fast/nounc", H, p, ordmax, step=step)
    res = both("SSI_fast", tag + " fast/unc", H, p, ordmax, step=step, calc_unc=True, T=T, nb=nb)
    if res is None:
        continue
    (Obs, A, C, Q1, Q2, Q3, Q4), (Obs0, A0, C0, Q10, Q20, Q30, Q40) = res
    both("SSI_poles", tag + " poles/nounc", Obs0, A0, C0, ordmax, dt, step=step)
    # same inputs to both implementations ...
    both("SSI_poles", tag + " poles/unc", Obs0, A0, C0, ordmax, dt, step=step,
         calc_unc=True, Q1=Q10, Q2=Q20, Q3=Q30, Q4=Q40)
    # ... and the full chain of each implementation
    r_new = call(new.SSI_poles, Obs, A, C, ordmax, dt, step=step, calc_unc=True,
                 Q1=Q1, Q2=Q2, Q3=Q3, Q4=Q4)
    r_old = call(old.SSI_poles, Obs0, A0, C0, ordmax, dt, step=step, calc_unc=True,
                 Q1=Q10, Q2=Q20, Q3=Q30, Q4=Q40)
    same(r_new, r_old, tag + " chain")
    # inputs must not be modified
    Tc, Hc, Qc = T.copy(), H.copy(), [q.copy() for q in (Q1, Q2, Q3, Q4)]
    call(new.SSI_fast, H, p, ordmax, step=step, calc_unc=True, T=T, nb=nb)
    call(new.SSI_poles, Obs, A, C, ordmax, dt, step=step, calc_unc=True, Q1=Q1, Q2=Q2, Q3=Q3, Q4=Q4)
    same([T, H, Q1, Q2, Q3, Q4], [Tc, Hc] + Qc, tag + " inputs untouched")

# exceptions: wrong number of factor columns, missing factor
H = rand_hankel(rng, 2, 2, 3, 4)
both("SSI_fast", "exc nb mismatch", H, 3, 4, calc_unc=True, T=rng.standard_normal((H.size, 3)), nb=5)
both("SSI_fast", "exc T wrong rows", H, 3, 4, calc_unc=True, T=rng.standard_normal((H.size - 1, 3)), nb=3)

# ---- 2. from data: build_hank -> SSI_fast -> SSI_poles ------------------------
for k in range(6):
    l = int(rng.integers(1, 4))
    ref = sorted(rng.choice(l, size=int(rng.integers(1, l + 1)), replace=False).tolist())
    p = int(rng.integers(2, 6))
    nb = int(rng.integers(2, 21))
    Y = rand_data(rng, l, int(rng.integers(1500, 2500)))
    Yref = Y[ref, :]
    ordmax = min(p * l, (p + 1) * len(ref), 8)
    tag = "data%d(l=%d,ref=%s,p=%d,nb=%d,ordmax=%d)" % (k, l, ref, p, nb, ordmax)
    res = both("build_hank", tag + " hank", Y, Yref, p, "cov_mm", calc_unc=True, nb=nb)
    (Hn, Tn), (Ho, To) = res
    rn = new.SSI_fast(Hn, p, ordmax, calc_unc=True, T=Tn, nb=nb)
    ro = old.SSI_fast(Ho, p, ordmax, calc_unc=True, T=To, nb=nb)
    same(rn, ro, tag + " fast")
    pn = new.SSI_poles(rn[0], rn[1], rn[2], ordmax, 0.01, calc_unc=True, Q1=rn[3], Q2=rn[4], Q3=rn[5], Q4=rn[6])
    po = old.SSI_poles(ro[0], ro[1], ro[2], ordmax, 0.01, calc_unc=True, Q1=ro[3], Q2=ro[4], Q3=ro[5], Q4=ro[6])
    same(pn, po, tag + " poles")
for meth in ("cov_R", "dat"):
    both("build_hank", "exc unc+" + meth, Y, Yref, p, meth, calc_unc=True, nb=nb)

# ---- 3. algorithm class, with and without reference subset -------------------
FIELDS = ["Fn_poles", "Xi_poles", "Phi_poles", "Lambds", "Fn_poles_cov", "Xi_poles_cov", "Lab", "H", "Obs"]
for k, (l, ref, omax) in enumerate([(3, None, 8), (3, [0, 2], 8), (2, [1], 6)]):
    data = rand_data(rng, l, 3000).T
    out = []
    for mod in (new, old):
        alg_ssi.ssi = mod
        try:
            ss = SingleSetup(data.copy(), fs=100.0)
            algo = SSIcov(name="a", br=5, ordmax=omax, calc_unc=True, nb=12, ref_ind=ref)
            ss.add_algorithms(algo)
            ss.run_by_name("a")
            out.append(algo.result)
        finally:
            alg_ssi.ssi = new
    for f in FIELDS:
        same(getattr(out[0], f), getattr(out[1], f), "SSIcov%d.%s" % (k, f))

if fails:
    print("FAIL: %d of %d comparisons differ" % (len(fails), n_cmp))
    for f in fails[:20]:
        print("   ", f)
    sys.exit(1)
print("PASS (%d comparisons, %d synthetic + 6 data + 3 class configurations)" % (n_cmp, n_cases))
