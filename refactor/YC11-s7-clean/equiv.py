"""
Differential test: the library under PYTHONPATH (CLEAN version of the commit) against
pristine copies of the two touched files (orig_functions_ssi.py, orig_algorithms_ssi.py).

Compared: functions.ssi.SSI_mpe and the mpe methods of SSIdat / SSIcov / SSIdat_MS /
SSIcov_MS (plus mpe_from_plot with a stubbed chart selection) on random pole tables:
NaN patterns, spurious poles, modes missing at some orders, order as int / list /
'find_min', with and without covariances, several tolerances, invalid arguments.

Run as:  PYTHONPATH=<tree>/src /venv/bin/python equiv.py      -> prints PASS, exit 0
"""
import importlib.util
import logging
import os
import sys

os.environ.setdefault("TQDM_DISABLE", "1")

import numpy as np  # noqa: E402

logging.disable(logging.CRITICAL)

HERE = os.path.dirname(os.path.abspath(__file__))


def load(name, fname, package=None):
    spec = importlib.util.spec_from_file_location(name, os.path.join(HERE, fname))
    mod = importlib.util.module_from_spec(spec)
    sys.modules[name] = mod
    spec.loader.exec_module(mod)
    return mod


from pyoma2.algorithms import ssi as new_alg  # noqa: E402
from pyoma2.algorithms.data.result import SSIResult  # noqa: E402
from pyoma2.functions import ssi as new_fn  # noqa: E402

orig_fn = load("orig_functions_ssi", "orig_functions_ssi.py")
# the pristine algorithm module uses a relative import (.base): load it as a
# member of the pyoma2.algorithms package under another name
orig_alg = load("pyoma2.algorithms._orig_ssi", "orig_algorithms_ssi.py")
orig_alg.ssi = orig_fn  # pristine calling layer -> pristine functions

failures = []
n_cases = 0


def same(a, b):
    if a is None or b is None:
        return a is None and b is None
    if isinstance(a, (int, np.integer)) and isinstance(b, (int, np.integer)):
        return type(a) is type(b) and a == b
    a = np.asarray(a)
    b = np.asarray(b)
    if a.shape != b.shape or a.dtype != b.dtype:
        return False
    return bool(np.allclose(a, b, rtol=1e-12, atol=0, equal_nan=True))


def call(fn, *a, **k):
    try:
        return ("ok", fn(*a, **k))
    except Exception as e:  # noqa: BLE001
        return ("exc", type(e))


def compare(label, r_new, r_old):
    global n_cases
    n_cases += 1
    if r_new[0] != r_old[0]:
        failures.append(f"{label}: new={r_new[0]}:{r_new[1]!r} old={r_old[0]}:{r_old[1]!r}")
        return
    if r_new[0] == "exc":
        if r_new[1] is not r_old[1]:
            failures.append(f"{label}: exception {r_new[1]} vs {r_old[1]}")
        return
    names = ("Fn", "Xi", "Phi", "order_out", "Fn_cov", "Xi_cov", "Phi_cov")
    for nm, x, y in zip(names, r_new[1], r_old[1]):
        if not same(x, y):
            failures.append(f"{label}: {nm} differs: new={x!r} old={y!r}")


def make_table(rng, n_ord, n_rows, n_ch, freqs, p_present, nan_mode):
    """Pole table with physical modes (sometimes missing), spurious poles and NaNs."""
    Fn = np.full((n_rows, n_ord), np.nan)
    for o in range(1, n_ord):
        col = []
        for f in freqs:
            if rng.random() < p_present:
                col.append(f * (1 + rng.uniform(-0.03, 0.03)))
        col += list(rng.uniform(0.2, 8.0, size=rng.integers(1, 4)))
        col = col[:n_rows]
        if nan_mode == "trailing":
            Fn[: len(col), o] = col
        else:
            slots = rng.choice(n_rows, size=len(col), replace=False)
            Fn[slots, o] = col
    mask = np.isnan(Fn)
    Xi = np.where(mask, np.nan, rng.uniform(0.001, 0.05, size=Fn.shape))
    Phi = rng.normal(size=(n_rows, n_ord, n_ch)) + 1j * rng.normal(size=(n_rows, n_ord, n_ch))
    Phi[mask] = np.nan
    Fn_cov = np.where(mask, np.nan, rng.uniform(1e-6, 1e-3, size=Fn.shape))
    Xi_cov = np.where(mask, np.nan, rng.uniform(1e-6, 1e-3, size=Fn.shape))
    Phi_cov = rng.uniform(1e-6, 1e-3, size=(n_rows, n_ord, n_ch))
    Phi_cov[mask] = np.nan
    Lab = np.where(mask, 0, rng.choice([0, 1, 1, 1, 2], size=Fn.shape))
    return Fn, Xi, Phi, Fn_cov, Xi_cov, Phi_cov, Lab


def random_case(rng):
    n_modes = int(rng.integers(1, 5))
    freqs = sorted(rng.choice(np.arange(1.0, 7.0, 0.8), size=n_modes, replace=False))
    n_ord = int(rng.integers(6, 16))
    n_rows = int(rng.integers(n_modes + 4, 18))
    n_ch = int(rng.integers(1, 7))
    tabs = make_table(
        rng, n_ord, n_rows, n_ch, freqs,
        p_present=float(rng.choice([1.0, 0.8, 0.5])),
        nan_mode=str(rng.choice(["trailing", "scattered"])),
    )
    sel_freq = [float(f) for f in freqs]
    kind = rng.choice(["int", "list", "find_min"], p=[0.4, 0.4, 0.2])
    if kind == "int":
        order = int(rng.integers(1, n_ord))
    elif kind == "list":
        order = [int(x) for x in rng.integers(1, n_ord, size=n_modes)]
    else:
        order = "find_min"
    rtol = float(rng.choice([1e-3, 1e-2, 2e-2, 5e-2, 0.2]))
    with_cov = bool(rng.random() < 0.5)
    return tabs, sel_freq, order, rtol, with_cov


def run_fn(mod, tabs, sel_freq, order, rtol, with_cov, use_lab=True):
    Fn, Xi, Phi, Fn_cov, Xi_cov, Phi_cov, Lab = tabs
    kw = dict(Fn_cov=Fn_cov, Xi_cov=Xi_cov, Phi_cov=Phi_cov) if with_cov else {}
    return call(
        mod.SSI_mpe, list(sel_freq), Fn.copy(), Xi.copy(), Phi.copy(),
        list(order) if isinstance(order, list) else order,
        Lab=Lab.copy() if use_lab else None, rtol=rtol, **kw,
    )


def make_alg(mod, cls_name, tabs, with_cov):
    Fn, Xi, Phi, Fn_cov, Xi_cov, Phi_cov, Lab = tabs
    alg = getattr(mod, cls_name)(name="x", br=8, ordmax=Fn.shape[1] - 1)
    alg.result = SSIResult(
        Fn_poles=Fn.copy(), Xi_poles=Xi.copy(), Phi_poles=Phi.copy(), Lab=Lab.copy(),
        Fn_poles_cov=Fn_cov.copy() if with_cov else None,
        Xi_poles_cov=Xi_cov.copy() if with_cov else None,
        Phi_poles_cov=Phi_cov.copy() if with_cov else None,
    )
    return alg


def harvest(alg):
    r = alg.result
    rp = alg.run_params
    return (r.Fn, r.Xi, r.Phi, r.order_out, r.Fn_cov, r.Xi_cov, r.Phi_cov), (
        rp.sel_freq, rp.order_in, rp.rtol,
    )


def run_cls(mod, cls_name, tabs, sel_freq, order, rtol, with_cov, twice=None):
    alg = make_alg(mod, cls_name, tabs, with_cov)

    def go():
        if twice is not None:  # an earlier extraction on the same object
            alg.mpe(sel_freq=list(twice[0]), order=twice[1], rtol=twice[2])
        alg.mpe(sel_freq=list(sel_freq), order=list(order) if isinstance(order, list) else order, rtol=rtol)
        return harvest(alg)

    res = call(go)
    if res[0] == "ok":
        return ("ok", res[1][0]), res[1][1]
    return res, None


class FakeSFP:
    """Stand-in for the interactive chart: hands back a fixed selection."""

    picked = ([], [])

    def __init__(self, algo, freqlim=None, plot="SSI"):
        self.result = (list(self.picked[0]), list(self.picked[1]))


def run_from_plot(mod, cls_name, tabs, sel_freq, order, rtol, with_cov):
    alg = make_alg(mod, cls_name, tabs, with_cov)
    FakeSFP.picked = (sel_freq, order)
    saved = mod.SelFromPlot
    mod.SelFromPlot = FakeSFP
    try:
        def go():
            alg.mpe_from_plot(freqlim=(0, 10), rtol=rtol)
            return harvest(alg)[0]
        return call(go)
    finally:
        mod.SelFromPlot = saved


def main():
    rng = np.random.default_rng(2024)
    classes = ["SSIdat", "SSIcov", "SSIdat_MS", "SSIcov_MS"]

    # 1. the extraction routine itself
    for k in range(400):
        tabs, sel_freq, order, rtol, with_cov = random_case(rng)
        compare(f"fn#{k} order={order} rtol={rtol} cov={with_cov}",
                run_fn(new_fn, tabs, sel_freq, order, rtol, with_cov),
                run_fn(orig_fn, tabs, sel_freq, order, rtol, with_cov))

    # 2. through the algorithm classes (incl. a repeated call on the same object)
    for k in range(160):
        tabs, sel_freq, order, rtol, with_cov = random_case(rng)
        cls_name = classes[k % 4]
        twice = None
        if k % 3 == 0:
            twice = (sel_freq[:1], int(rng.integers(1, tabs[0].shape[1])), 0.3)
        r_new, rp_new = run_cls(new_alg, cls_name, tabs, sel_freq, order, rtol, with_cov, twice)
        r_old, rp_old = run_cls(orig_alg, cls_name, tabs, sel_freq, order, rtol, with_cov, twice)
        compare(f"{cls_name}.mpe#{k} order={order} rtol={rtol} cov={with_cov}", r_new, r_old)
        if rp_new != rp_old:
            failures.append(f"{cls_name}.mpe#{k}: run_params {rp_new} vs {rp_old}")

    # 3. mpe_from_plot with a stubbed selection (orders per pole, no labels)
    for k in range(60):
        tabs, sel_freq, order, rtol, with_cov = random_case(rng)
        n_ord = tabs[0].shape[1]
        order = [int(x) for x in rng.integers(1, n_ord, size=len(sel_freq))]
        cls_name = classes[k % 4]
        compare(f"{cls_name}.mpe_from_plot#{k}",
                run_from_plot(new_alg, cls_name, tabs, sel_freq, order, rtol, with_cov),
                run_from_plot(orig_alg, cls_name, tabs, sel_freq, order, rtol, with_cov))

    # 4. argument errors / odd arguments
    tabs, sel_freq, order, rtol, with_cov = random_case(rng)
    n = len(sel_freq)
    odd = [
        ("invalid string", "invalid", True),
        ("find_min without labels", "find_min", False),
        ("float order", 2.0, True),
        ("tuple order", tuple([1] * n), True),
        ("order list too short", [1] * (n - 1) if n > 1 else [], True),
        ("order list too long", [2] * (n + 2), True),
        ("order beyond the table", tabs[0].shape[1] + 3, True),
        ("order list with entry beyond the table", [tabs[0].shape[1] + 3] * n, True),
        ("negative order", -1, True),
        ("order without retained poles", 0, True),
        ("order list with an order without retained poles", [0] * n, True),
    ]
    for label, od, use_lab in odd:
        for cov in (False, True):
            compare(f"odd: {label} cov={cov}",
                    run_fn(new_fn, tabs, sel_freq, od, 5e-2, cov, use_lab),
                    run_fn(orig_fn, tabs, sel_freq, od, 5e-2, cov, use_lab))
    # class without a result: both must refuse
    for cls_name in classes:
        a_new = getattr(new_alg, cls_name)(name="x", br=8, ordmax=10)
        a_old = getattr(orig_alg, cls_name)(name="x", br=8, ordmax=10)
        compare(f"{cls_name}.mpe before run",
                call(lambda: a_new.mpe(sel_freq=[1.0], order=3)),
                call(lambda: a_old.mpe(sel_freq=[1.0], order=3)))

    if failures:
        print(f"FAIL ({len(failures)} differences in {n_cases} cases)")
        for f in failures[:15]:
            print("  -", f)
        return 1
    print(f"PASS ({n_cases} cases identical)")
    return 0


if __name__ == "__main__":
    sys.exit(main())
