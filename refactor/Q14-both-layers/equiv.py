"""
Equivalence check for the C14 refactoring (preprocessing: decimate / detrend / filter / rollback).

Runs the refactored code (src/pyoma2) and the pristine HEAD copies (orig_*.py in this directory)
on the same random inputs and asserts identical outputs, identical state after every call,
identical aliasing between the stored objects and identical exceptions (type and message).

Usage: PYTHONPATH=/tmp/wt/Q14/src /venv/bin/python /tmp/wt/Q14/_refactor/equiv.py
"""

import copy
import importlib.util
import itertools
import os
import sys

import numpy as np

HERE = os.path.dirname(os.path.abspath(__file__))

# --------------------------------------------------------------------------------------
# refactored modules (the worktree)
# --------------------------------------------------------------------------------------
import pyoma2.functions.gen as new_gen  # noqa: E402
import pyoma2.setup.base as new_base  # noqa: E402
import pyoma2.setup.multi as new_multi  # noqa: E402
import pyoma2.setup.single as new_single  # noqa: E402
from pyoma2.algorithms.fdd import FDD  # noqa: E402

assert new_gen.__file__.startswith("/tmp/wt/Q14/src"), new_gen.__file__


# --------------------------------------------------------------------------------------
# pristine modules: loaded by path, with their mutual imports redirected to each other
# --------------------------------------------------------------------------------------
def _load(modname, filename):
    spec = importlib.util.spec_from_file_location(modname, os.path.join(HERE, filename))
    mod = importlib.util.module_from_spec(spec)
    spec.loader.exec_module(mod)
    return mod


_swapped = [
    "pyoma2.functions.gen",
    "pyoma2.setup.base",
    "pyoma2.setup.single",
    "pyoma2.setup.multi",
]
_saved = {k: sys.modules[k] for k in _swapped}
try:
    old_gen = _load("orig_gen", "orig_gen.py")
    sys.modules["pyoma2.functions.gen"] = old_gen
    old_base = _load("orig_base", "orig_base.py")
    sys.modules["pyoma2.setup.base"] = old_base
    old_single = _load("orig_single", "orig_single.py")
    sys.modules["pyoma2.setup.single"] = old_single
    old_multi = _load("orig_multi", "orig_multi.py")
finally:
    sys.modules.update(_saved)

# the pristine chain really is pristine
assert old_base.filter_data is old_gen.filter_data
assert old_single.BaseSetup is old_base.BaseSetup
assert old_multi.BaseSetup is old_base.BaseSetup
assert old_multi.pre_multisetup is old_gen.pre_multisetup
assert new_base.filter_data is new_gen.filter_data
assert new_multi.pre_multisetup is new_gen.pre_multisetup
assert new_single.BaseSetup is new_base.BaseSetup and new_base is not old_base


# --------------------------------------------------------------------------------------
# comparison helpers
# --------------------------------------------------------------------------------------
def same(a, b, path="?"):
    """Exact structural equality (types, dtypes, shapes, values bit for bit, NaN pattern)."""
    if isinstance(a, np.ndarray) or isinstance(b, np.ndarray):
        assert isinstance(a, np.ndarray) and isinstance(b, np.ndarray), (path, type(a), type(b))
        assert a.dtype == b.dtype, (path, a.dtype, b.dtype)
        assert a.shape == b.shape, (path, a.shape, b.shape)
        assert np.array_equal(a, b, equal_nan=a.dtype.kind in "fc"), path
        return
    assert type(a) is type(b), (path, type(a), type(b))
    if isinstance(a, dict):
        assert list(a.keys()) == list(b.keys()), (path, list(a), list(b))
        for k in a:
            same(a[k], b[k], f"{path}[{k!r}]")
    elif isinstance(a, (list, tuple)):
        assert len(a) == len(b), (path, len(a), len(b))
        for i, (x, y) in enumerate(zip(a, b)):
            same(x, y, f"{path}[{i}]")
    elif isinstance(a, float):
        assert a == b or (a != a and b != b), (path, a, b)
    else:
        assert a == b, (path, a, b)


def call(f, *args, **kwargs):
    """Return ('ok', value) or ('exc', type, message)."""
    try:
        return ("ok", f(*args, **kwargs))
    except Exception as e:  # noqa: BLE001
        return ("exc", type(e), str(e))


def same_outcome(ro, rn, path):
    assert ro[0] == rn[0], (path, ro, rn)
    if ro[0] == "exc":
        # the module name is part of some TypeError messages; only that may differ
        msg_o = ro[2]
        for short, full in (
            ("orig_base.", "pyoma2.setup.base."),
            ("orig_single.", "pyoma2.setup.single."),
            ("orig_multi.", "pyoma2.setup.multi."),
            ("orig_gen.", "pyoma2.functions.gen."),
        ):
            msg_o = msg_o.replace(short, full)
        assert ro[1] is rn[1] and msg_o == rn[2], (path, ro, rn)
    else:
        same(ro[1], rn[1], path)
    return ro[0]


rng = np.random.default_rng(20260314)
counts = {"ok": 0, "exc": 0}


def rand_data(n, nch, kind=None):
    kind = kind if kind is not None else rng.integers(0, 4)
    t = np.arange(n)[:, None]
    x = rng.standard_normal((n, nch))
    if kind == 1:  # trend + offset
        x = x + 0.01 * t * rng.standard_normal(nch) + 5 * rng.standard_normal(nch)
    elif kind == 2:  # Fortran ordered
        x = np.asfortranarray(x)
    elif kind == 3:  # non contiguous view
        x = rng.standard_normal((n, 2 * nch))[:, ::2]
    return x


# --------------------------------------------------------------------------------------
# 1. numerical routines, one call at a time
# --------------------------------------------------------------------------------------
def check_functions():
    # --- pre_multisetup: valid and invalid reference layouts
    for it in range(120):
        nset = int(rng.integers(1, 4))
        datalist, reflist = [], []
        for _ in range(nset):
            nch = int(rng.integers(2, 6))
            datalist.append(rand_data(int(rng.integers(5, 40)), nch))
            mode = rng.integers(0, 10)
            nref = int(rng.integers(1, nch))
            ref = [int(i) for i in rng.permutation(nch)[:nref]]
            if mode == 0:
                ref = []  # no reference
            elif mode == 1:
                ref = list(range(nch))  # nothing moving
            elif mode == 2:
                ref = ref + [ref[0]]  # duplicate
            elif mode == 3:
                ref = ref + [nch]  # out of range
            elif mode == 4:
                ref = [-1]  # negative
            elif mode == 5:
                ref = np.array(ref)  # array instead of list
            elif mode == 6:
                ref = tuple(ref)
            reflist.append(ref)
        if it % 15 == 0:
            reflist = reflist[:-1]  # too short
        if it % 15 == 1:
            reflist = reflist + [[0]]  # too long
        if it % 15 == 2:
            datalist[-1] = datalist[-1][:, 0]  # 1-D dataset
        keep = copy.deepcopy((datalist, reflist))
        ro = call(old_gen.pre_multisetup, datalist, reflist)
        rn = call(new_gen.pre_multisetup, datalist, reflist)
        counts[same_outcome(ro, rn, f"pre_multisetup#{it}")] += 1
        same(keep, (datalist, reflist), "pre_multisetup inputs untouched")
        if rn[0] == "ok":
            for do, dn in zip(ro[1], rn[1]):
                for k in ("ref", "mov"):
                    assert do[k].flags["C_CONTIGUOUS"] == dn[k].flags["C_CONTIGUOUS"]
                    assert do[k].flags["OWNDATA"] == dn[k].flags["OWNDATA"]

    # --- gen.filter_data and BaseSetup._filter_data
    btypes = ["lowpass", "highpass", "bandpass", "bandstop", "low", "nonsense"]
    for it in range(80):
        fs = float(rng.choice([10.0, 50.0, 100.0, 128.0]))
        data = rand_data(int(rng.integers(30, 400)), int(rng.integers(2, 6)))
        btype = btypes[int(rng.integers(0, len(btypes)))]
        lo = float(rng.uniform(0.02, 0.2)) * fs
        hi = float(rng.uniform(0.25, 0.6)) * fs  # sometimes above Nyquist -> ValueError
        Wn = (lo, hi) if btype in ("bandpass", "bandstop") else lo
        if it % 9 == 0:
            Wn = [lo, hi]
        if it % 13 == 0:
            Wn = -1.0
        order = int(rng.integers(1, 9))
        if it % 17 == 0:
            data = data[:5]  # too short for the padding
        keep = data.copy()
        for fo, fn, kw in (
            (old_gen.filter_data, new_gen.filter_data, dict(order=order, btype=btype)),
            (old_gen.filter_data, new_gen.filter_data, {}),
            (
                old_base.BaseSetup._filter_data,
                new_base.BaseSetup._filter_data,
                dict(order=order, btype=btype),
            ),
            (old_base.BaseSetup._filter_data, new_base.BaseSetup._filter_data, {}),
        ):
            ro = call(fo, data, fs, Wn, **kw)
            rn = call(fn, data, fs, Wn, **kw)
            counts[same_outcome(ro, rn, f"filter#{it}")] += 1
            ro = call(fo, data=data, fs=fs, Wn=Wn, **kw)
            rn = call(fn, data=data, fs=fs, Wn=Wn, **kw)
            counts[same_outcome(ro, rn, f"filter-kw#{it}")] += 1
        same(keep, data, "filter input untouched")

    # --- BaseSetup._decimate_data
    dec_kwargs = [
        {},
        {"axis": 0},
        {"axis": 0, "ftype": "fir"},
        {"axis": 0, "ftype": "iir", "n": 4},
        {"axis": 0, "zero_phase": False},
        {"axis": 0, "ftype": "fir", "n": 12, "zero_phase": False},
        {"axis": 0, "n": None, "ftype": "iir", "zero_phase": True},
        {"axis": 1},
        {"axis": 0, "ftype": "bogus"},
        {"axis": 0, "foo": 1},
        {"axis": 0, "x": 1},
        {"axis": 0, "bar": 2, "foo": 1},
    ]
    for it in range(120):
        fs = rng.choice([7, 100, 100.0, 128.0, 33.3, np.float32(50.0)])
        fs = fs.item() if it % 2 else fs
        q = rng.choice([1, 2, 3, 4, 5, 13, 0, -2])
        q = int(q) if it % 3 else q
        if it % 29 == 0:
            q = 2.0
        n = int(rng.choice([8, 40, 200, 1001]))
        data = rand_data(n, int(rng.integers(2, 6)))
        kw = dec_kwargs[it % len(dec_kwargs)]
        keep = data.copy()
        ro = call(old_base.BaseSetup._decimate_data, data, fs, q, **kw)
        rn = call(new_base.BaseSetup._decimate_data, data, fs, q, **kw)
        counts[same_outcome(ro, rn, f"_decimate_data#{it}")] += 1
        ro = call(old_base.BaseSetup._decimate_data, data=data, fs=fs, q=q, **kw)
        rn = call(new_base.BaseSetup._decimate_data, data=data, fs=fs, q=q, **kw)
        counts[same_outcome(ro, rn, f"_decimate_data-kw#{it}")] += 1
        same(keep, data, "decimate input untouched")

    # --- BaseSetup._detrend_data
    det_kwargs = [
        {},
        {"type": "linear"},
        {"type": "constant"},
        {"type": "l"},
        {"type": "c"},
        {"axis": 0},
        {"axis": 1, "type": "constant"},
        {"axis": -1},
        {"bp": 10},
        {"bp": [5, 12], "type": "linear"},
        {"bp": np.array([3, 9])},
        {"bp": 10**6},
        {"overwrite_data": False},
        {"type": "bogus"},
        {"foo": 1},
        {"foo": 1, "axis": 0, "bar": 2},
    ]
    for it in range(96):
        data = rand_data(int(rng.integers(20, 200)), int(rng.integers(2, 6)))
        kw = det_kwargs[it % len(det_kwargs)]
        kw_o, kw_n = copy.deepcopy(kw), copy.deepcopy(kw)
        keep = data.copy()
        ro = call(old_base.BaseSetup._detrend_data, data, **kw_o)
        rn = call(new_base.BaseSetup._detrend_data, data, **kw_n)
        counts[same_outcome(ro, rn, f"_detrend_data#{it}")] += 1
        same(keep, data, "detrend input untouched")
    # in-place variant: both versions must alter their input in the same way
    for it in range(6):
        d_o = rand_data(50, 3, kind=0)
        d_n = d_o.copy()
        ro = call(old_base.BaseSetup._detrend_data, d_o, overwrite_data=True, type="constant")
        rn = call(new_base.BaseSetup._detrend_data, d_n, overwrite_data=True, type="constant")
        counts[same_outcome(ro, rn, "detrend overwrite")] += 1
        same(d_o, d_n, "detrend overwrite input")


# --------------------------------------------------------------------------------------
# 2. histories of operations on SingleSetup and MultiSetup_PreGER
# --------------------------------------------------------------------------------------
SINGLE_ATTRS = ["data", "fs", "dt", "Nch", "Ndat", "T", "_initial_data", "_initial_fs"]
MULTI_ATTRS = [
    "data",
    "datasets",
    "ref_ind",
    "fs",
    "dt",
    "Nsetup",
    "Nchs",
    "Ndats",
    "Ts",
    "_initial_fs",
    "_initial_ref_ind",
    "_initial_datasets",
]


def leaves(obj, out, path):
    """Collect (path, object) for every array / container reachable from obj."""
    out.append((path, obj))
    if isinstance(obj, dict):
        for k, v in obj.items():
            leaves(v, out, f"{path}[{k!r}]")
    elif isinstance(obj, (list, tuple)):
        for i, v in enumerate(obj):
            leaves(v, out, f"{path}[{i}]")


def snapshot(setup, attrs, user_inputs):
    """State, plus the aliasing pattern between everything stored and the user's inputs."""
    state = {a: getattr(setup, a, "<missing>") for a in attrs}
    state["algorithms"] = {
        k: {"data": v.data, "fs": v.fs, "dt": v.dt} for k, v in setup.algorithms.items()
    }
    state["extra_attrs"] = sorted(vars(setup).keys())
    objs = []
    leaves(state, objs, "state")
    leaves(user_inputs, objs, "user")
    objs = [(p, o) for p, o in objs if isinstance(o, (np.ndarray, list, dict, tuple))]
    alias = []
    for (pa, a), (pb, b) in itertools.combinations(objs, 2):
        if a is b:
            alias.append((pa, pb, "is"))
        elif (
            isinstance(a, np.ndarray)
            and isinstance(b, np.ndarray)
            and a.size
            and b.size
            and np.shares_memory(a, b)
        ):
            alias.append((pa, pb, "shares"))
    return state, alias


def random_op():
    k = int(rng.integers(0, 14))
    if k <= 3:
        q = int(rng.integers(2, 6))
        kw = [
            {},
            {"ftype": "fir"},
            {"ftype": "iir", "n": int(rng.integers(2, 9))},
            {"zero_phase": False},
            {"ftype": "fir", "n": int(rng.integers(5, 30)), "zero_phase": bool(rng.integers(0, 2))},
            {"n": None, "ftype": "iir", "zero_phase": True, "axis": 0},
            {"axis": 0},
        ][int(rng.integers(0, 7))]
        return ("decimate_data", (q,), kw)
    if k <= 6:
        kw = [
            {},
            {"type": "linear"},
            {"type": "constant"},
            {"type": "constant", "axis": 0},
            {"bp": int(rng.integers(1, 30))},
            {"bp": [5, 17], "type": "linear"},
            {"overwrite_data": False},
        ][int(rng.integers(0, 7))]
        return ("detrend_data", (), kw)
    if k <= 9:
        btype = ["lowpass", "highpass", "bandpass", "bandstop"][int(rng.integers(0, 4))]
        # as a fraction of the CURRENT Nyquist frequency, resolved when the op is applied
        lo, hi = float(rng.uniform(0.05, 0.4)), float(rng.uniform(0.5, 0.9))
        frac = (lo, hi) if btype in ("bandpass", "bandstop") else float(rng.uniform(0.1, 0.9))
        style = int(rng.integers(0, 3))
        return ("filter_data", frac, {"order": int(rng.integers(1, 9)), "btype": btype, "_style": style})
    if k <= 11:
        return ("rollback", (), {})
    if k == 12:
        return ("add_algorithms", (), {})
    # deliberately invalid calls: the exceptions must be the same too
    return [
        ("decimate_data", (3,), {"foo": 1}),
        ("decimate_data", (0,), {}),
        ("decimate_data", (2,), {"ftype": "bogus"}),
        ("decimate_data", (2,), {"data": 1}),
        ("detrend_data", (), {"type": "bogus"}),
        ("detrend_data", (), {"foo": 1}),
        ("detrend_data", (), {"data": 1}),
        ("filter_data", 5.0, {"order": 4, "btype": "lowpass", "_style": 0}),  # above Nyquist
        ("filter_data", 0.5, {"order": 4, "btype": "nonsense", "_style": 0}),
    ][int(rng.integers(0, 9))]


def apply_op(setup, op, n):
    name, args, kw = op
    if name == "filter_data":
        nyq = setup.fs / 2
        Wn = tuple(f * nyq for f in args) if isinstance(args, tuple) else args * nyq
        kw = dict(kw)
        style = kw.pop("_style")
        if style == 0:
            return setup.filter_data(Wn, **kw)
        if style == 1:
            return setup.filter_data(Wn, kw["order"], kw["btype"])
        return setup.filter_data(Wn=Wn)  # defaults (order 8, lowpass)
    if name == "add_algorithms":
        return setup.add_algorithms(FDD(name=f"a{n}"), FDD(name=f"b{n}"))
    return getattr(setup, name)(*args, **copy.deepcopy(kw))


def run_history(make_old, make_new, attrs, user_inputs_factory, ops, tag):
    in_o = user_inputs_factory()
    in_n = copy.deepcopy(in_o)
    pristine = copy.deepcopy(in_o)
    s_o, s_n = make_old(in_o), make_new(in_n)
    st_o, al_o = snapshot(s_o, attrs, in_o)
    st_n, al_n = snapshot(s_n, attrs, in_n)
    same(st_o, st_n, f"{tag}:init")
    assert al_o == al_n, (tag, "alias after init", al_o, al_n)
    for i, op in enumerate(ops):
        ro = call(apply_op, s_o, op, i)
        rn = call(apply_op, s_n, op, i)
        where = f"{tag}:op{i}:{op}"
        counts[same_outcome(ro, rn, where)] += 1
        st_o, al_o = snapshot(s_o, attrs, in_o)
        st_n, al_n = snapshot(s_n, attrs, in_n)
        same(st_o, st_n, where)
        assert al_o == al_n, (where, "aliasing differs", al_o, al_n)
        same(in_o, in_n, where + ":user inputs")
    # whatever the library does to the user's arrays, both versions did the same; and with the
    # operations used here that is: nothing
    same(pristine, in_n, f"{tag}:user inputs unchanged")


def check_histories():
    # all sequences of length <= 3 over a small alphabet (exhaustive), random ones up to length 5
    alphabet = [
        ("decimate_data", (2,), {}),
        ("decimate_data", (3,), {"ftype": "fir", "zero_phase": False}),
        ("detrend_data", (), {"type": "constant"}),
        ("filter_data", 0.4, {"order": 4, "btype": "lowpass", "_style": 0}),
        ("filter_data", (0.1, 0.6), {"order": 3, "btype": "bandpass", "_style": 1}),
        ("rollback", (), {}),
        ("add_algorithms", (), {}),
    ]
    exhaustive = [list(seq) for L in range(1, 4) for seq in itertools.product(alphabet, repeat=L)]
    sampled = [[random_op() for _ in range(int(rng.integers(1, 6)))] for _ in range(150)]

    def single_inputs(n=None):
        def f():
            N = n or int(rng.choice([600, 2000, 5000]))
            fs = [100.0, 128, 33.3, 200.0][int(rng.integers(0, 4))]
            return {"data": rand_data(N, int(rng.integers(2, 6))), "fs": fs}

        return f

    def multi_inputs(n=None):
        def f():
            nset = int(rng.integers(1, 4))
            datasets, ref_ind = [], []
            for _ in range(nset):
                nch = int(rng.integers(2, 6))
                N = n or int(rng.choice([600, 2000, 5000]))
                datasets.append(rand_data(N, nch))
                nref = int(rng.integers(1, nch))
                ref = [int(i) for i in rng.permutation(nch)[:nref]]
                if rng.integers(0, 2):
                    ref = sorted(ref)
                ref_ind.append(ref)
            fs = [100.0, 128, 33.3][int(rng.integers(0, 3))]
            return {"fs": fs, "ref_ind": ref_ind, "datasets": datasets}

        return f

    mk_so = lambda d: old_single.SingleSetup(d["data"], fs=d["fs"])  # noqa: E731
    mk_sn = lambda d: new_single.SingleSetup(d["data"], fs=d["fs"])  # noqa: E731
    mk_mo = lambda d: old_multi.MultiSetup_PreGER(  # noqa: E731
        fs=d["fs"], ref_ind=d["ref_ind"], datasets=d["datasets"]
    )
    mk_mn = lambda d: new_multi.MultiSetup_PreGER(  # noqa: E731
        fs=d["fs"], ref_ind=d["ref_ind"], datasets=d["datasets"]
    )

    nh = 0
    for ops in exhaustive:
        run_history(mk_so, mk_sn, SINGLE_ATTRS, single_inputs(400), ops, f"single-exh{nh}")
        run_history(mk_mo, mk_mn, MULTI_ATTRS, multi_inputs(400), ops, f"multi-exh{nh}")
        nh += 1
    for ops in sampled:
        run_history(mk_so, mk_sn, SINGLE_ATTRS, single_inputs(), ops, f"single-rnd{nh}")
        run_history(mk_mo, mk_mn, MULTI_ATTRS, multi_inputs(), ops, f"multi-rnd{nh}")
        nh += 1

    # invalid constructions of the multi setup (bad reference layouts) fail in the same way
    for ref_ind in ([[0, 0]], [[7]], [[]], [[0, 1, 2]], [[0], [1]]):
        d = {"fs": 100.0, "ref_ind": ref_ind, "datasets": [rand_data(100, 3, kind=0)]}
        ro, rn = call(mk_mo, copy.deepcopy(d)), call(mk_mn, copy.deepcopy(d))
        assert ro[0] == rn[0] and (ro[0] == "ok" or ro[1:] == rn[1:]), (ref_ind, ro, rn)
        counts[ro[0]] += 1
    return nh


if __name__ == "__main__":
    import warnings

    warnings.simplefilter("ignore")
    check_functions()
    n_fun = dict(counts)
    nh = check_histories()
    print(f"function-level comparisons: {n_fun}")
    print(f"histories: {nh} op sequences x (SingleSetup, MultiSetup_PreGER); all comparisons: {counts}")
    print("PASS")
