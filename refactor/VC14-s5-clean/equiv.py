# -*- coding: utf-8 -*-
"""
Differential test: the library as it is on PYTHONPATH (CLEAN version of the commit)
against the pristine sources saved next to this file (orig_base.py, orig_single.py,
orig_multi.py).

Compared:
  * the static helpers BaseSetup._decimate_data / _detrend_data / _filter_data on random
    inputs and option combinations (results and raised exceptions);
  * random histories of decimate / detrend / filter / rollback calls on SingleSetup and
    MultiSetup_PreGER objects: data, datasets, fs, dt, Ndat(s), T(s) after every call.

Run as:  PYTHONPATH=<tree>/src /venv/bin/python equiv.py    ->  prints PASS, exit 0
"""
import importlib.util
import logging
import os
import sys

import numpy as np

logging.disable(logging.CRITICAL)

import pyoma2.setup.base as new_base  # noqa: E402
import pyoma2.setup.multi as new_multi  # noqa: E402
import pyoma2.setup.single as new_single  # noqa: E402

HERE = os.path.dirname(os.path.abspath(__file__))


def _load(alias, filename):
    spec = importlib.util.spec_from_file_location(alias, os.path.join(HERE, filename))
    mod = importlib.util.module_from_spec(spec)
    spec.loader.exec_module(mod)
    return mod


def load_originals():
    """Load the pristine modules so that orig single / multi build on the orig base."""
    saved = {k: sys.modules[k] for k in ("pyoma2.setup.base", "pyoma2.setup.single")}
    try:
        ob = _load("orig_base", "orig_base.py")
        sys.modules["pyoma2.setup.base"] = ob
        osg = _load("orig_single", "orig_single.py")
        sys.modules["pyoma2.setup.single"] = osg
        om = _load("orig_multi", "orig_multi.py")
    finally:
        sys.modules.update(saved)
    assert osg.SingleSetup.__mro__[1] is ob.BaseSetup
    assert om.MultiSetup_PreGER.__mro__[1] is ob.BaseSetup
    assert ob.BaseSetup is not new_base.BaseSetup
    return ob, osg, om


orig_base, orig_single, orig_multi = load_originals()

RTOL = 1e-12
failures = []
n_cases = 0


def same(a, b):
    if isinstance(a, (tuple, list)) and isinstance(b, (tuple, list)):
        return len(a) == len(b) and all(same(x, y) for x, y in zip(a, b))
    if isinstance(a, dict) and isinstance(b, dict):
        return a.keys() == b.keys() and all(same(a[k], b[k]) for k in a)
    if a is None or b is None:
        return a is None and b is None
    a, b = np.asarray(a), np.asarray(b)
    if a.shape != b.shape:
        return False
    return np.array_equal(a, b, equal_nan=True) or np.allclose(
        a, b, rtol=RTOL, atol=0.0, equal_nan=True
    )


def outcome(func, *args, **kwargs):
    try:
        return ("ok", func(*args, **kwargs))
    except Exception as exc:  # noqa: BLE001
        return ("raised", type(exc).__name__)


def compare(label, new, old):
    global n_cases
    n_cases += 1
    if new[0] != old[0] or (
        new[1] != old[1] if new[0] == "raised" else not same(new[1], old[1])
    ):
        failures.append(f"{label}: new={summ(new)} old={summ(old)}")


def summ(res):
    return res if res[0] == "raised" else ("ok", "<value>")


# ----------------------------------------------------------------------------- options
def rand_decimate_opts(rng):
    kw = {}
    if rng.random() < 0.5:
        kw["ftype"] = str(rng.choice(["iir", "fir"]))
    if rng.random() < 0.5:
        kw["n"] = [None, 2, 4, 8, 12][rng.integers(5)]
    if rng.random() < 0.5:
        kw["zero_phase"] = bool(rng.integers(2))
    return kw


def rand_detrend_opts(rng, nrow):
    kw = {}
    if rng.random() < 0.6:
        kw["type"] = str(rng.choice(["linear", "constant", "l", "c"]))
    if rng.random() < 0.3:
        kw["bp"] = [0, [nrow // 3], [nrow // 4, nrow // 2]][rng.integers(3)]
    return kw


def rand_filter_args(rng, fs):
    btype = str(rng.choice(["lowpass", "highpass", "bandpass", "bandstop"]))
    nyq = fs / 2
    if btype in ("lowpass", "highpass"):
        f = float(rng.uniform(0.05, 0.9) * nyq)
        Wn = [f, int(max(1, f)), np.float64(f)][rng.integers(3)]
        if not 0 < Wn < nyq:
            Wn = f
    else:
        lo = float(rng.uniform(0.05, 0.4) * nyq)
        hi = float(rng.uniform(0.5, 0.9) * nyq)
        Wn = [(lo, hi), [lo, hi], np.array([lo, hi])][rng.integers(3)]
    order = int(rng.integers(1, 9))
    return Wn, order, btype


# ----------------------------------------------------------------------------- helpers
def test_helpers(rng, n=60):
    NB, OB = new_base.BaseSetup, orig_base.BaseSetup
    for i in range(n):
        nrow, nch = int(rng.integers(200, 700)), int(rng.integers(1, 6))
        data = rng.standard_normal((nrow, nch)).cumsum(axis=0)
        if rng.random() < 0.2:
            data = data[:, 0]  # 1-D input, as used by the existing tests
        if rng.random() < 0.15:
            data = (data * 10).astype(int)
        fs = float(rng.choice([50.0, 100.0, 256.0, 1000.0]))
        q = int(rng.integers(2, 7))

        kw = rand_decimate_opts(rng)
        ax = [{}, {"axis": 0}, {"axis": -1}][rng.integers(3)]
        if data.ndim == 2 and data.shape[1] < 30 and ax != {"axis": 0}:
            ax = {"axis": 0}  # decimating 1..5 channels along the last axis is meaningless
        compare(
            f"_decimate_data#{i} q={q} {kw} {ax}",
            outcome(NB._decimate_data, data.copy(), fs, q, **kw, **ax),
            outcome(OB._decimate_data, data.copy(), fs, q, **kw, **ax),
        )
        kw = rand_detrend_opts(rng, nrow)
        ax = [{}, {"axis": 0}][rng.integers(2)]
        compare(
            f"_detrend_data#{i} {kw} {ax}",
            outcome(NB._detrend_data, data.copy(), **kw, **ax),
            outcome(OB._detrend_data, data.copy(), **kw, **ax),
        )
        Wn, order, btype = rand_filter_args(rng, fs)
        compare(
            f"_filter_data#{i} Wn={Wn!r} order={order} {btype}",
            outcome(NB._filter_data, data.copy(), fs, Wn=Wn, order=order, btype=btype),
            outcome(OB._filter_data, data.copy(), fs, Wn=Wn, order=order, btype=btype),
        )

    # calls that are rejected by both versions in the same way
    data = rng.standard_normal((300, 3))
    for label, args, kw in [
        ("decimate unknown keyword", ("_decimate_data", data, 100.0, 2), {"axis": 0, "foo": 1}),
        ("decimate invalid ftype", ("_decimate_data", data, 100.0, 2), {"axis": 0, "ftype": "x"}),
        ("detrend unknown keyword", ("_detrend_data", data), {"foo": 1}),
        ("detrend invalid type", ("_detrend_data", data), {"type": "cubic"}),
        ("filter above Nyquist", ("_filter_data", data, 100.0), {"Wn": 60.0}),
        ("filter band needs two", ("_filter_data", data, 100.0), {"Wn": 5.0, "btype": "bandpass"}),
        ("filter low needs one", ("_filter_data", data, 100.0), {"Wn": (2.0, 5.0)}),
        ("filter three freqs", ("_filter_data", data, 100.0), {"Wn": (2.0, 5.0, 7.0)}),
        ("filter invalid btype", ("_filter_data", data, 100.0), {"Wn": 5.0, "btype": "comb"}),
    ]:
        name, rest = args[0], args[1:]
        compare(
            label,
            outcome(getattr(NB, name), *rest, **kw),
            outcome(getattr(OB, name), *rest, **kw),
        )


# ----------------------------------------------------------------------------- histories
def rand_history(rng, fs0, nrow_min):
    ops, fs, nrow = [], fs0, nrow_min
    for _ in range(int(rng.integers(1, 6))):
        kind = str(rng.choice(["decimate", "detrend", "filter", "rollback"], p=[0.35, 0.25, 0.25, 0.15]))
        if kind == "decimate" and nrow // 5 < 60:
            kind = "detrend"
        if kind == "decimate":
            q = int(rng.integers(2, 6))
            ops.append(("decimate", q, rand_decimate_opts(rng)))
            fs, nrow = fs / q, nrow // q
        elif kind == "detrend":
            ops.append(("detrend", rand_detrend_opts(rng, nrow)))
        elif kind == "filter":
            ops.append(("filter",) + rand_filter_args(rng, fs))
        else:
            ops.append(("rollback",))
            fs, nrow = fs0, nrow_min
    return ops


def apply(setup, op):
    if op[0] == "decimate":
        setup.decimate_data(q=op[1], **op[2])
    elif op[0] == "detrend":
        setup.detrend_data(**op[1])
    elif op[0] == "filter":
        setup.filter_data(Wn=op[1], order=op[2], btype=op[3])
    else:
        setup.rollback()


def state_single(ss):
    return (ss.data, ss.fs, ss.dt, ss.Ndat, ss.Nch, ss.T, ss._initial_data, ss._initial_fs)


def state_multi(ms):
    return (
        list(ms.data), list(ms.datasets), ms.fs, ms.dt, list(ms.Ndats), list(ms.Nchs),
        list(ms.Ts), list(ms._initial_datasets), ms._initial_fs, ms.ref_ind,
    )  # fmt: skip


def test_histories(rng, n=40):
    for i in range(n):
        fs0 = float(rng.choice([100.0, 200.0]))
        # single setup
        nrow, nch = int(rng.integers(900, 1500)), int(rng.integers(2, 6))
        data = rng.standard_normal((nrow, nch)).cumsum(axis=0) * 0.1
        history = rand_history(rng, fs0, nrow)
        a, b = data.copy(), data.copy()
        new, old = new_single.SingleSetup(a, fs=fs0), orig_single.SingleSetup(b, fs=fs0)
        for k, op in enumerate(history):
            r_new, r_old = outcome(apply, new, op), outcome(apply, old, op)
            compare(f"single#{i} step {k} {op}: outcome", r_new, r_old)
            compare(
                f"single#{i} step {k} {op}: state",
                ("ok", state_single(new)),
                ("ok", state_single(old)),
            )
        compare(f"single#{i}: user data", ("ok", a), ("ok", b))

        # multi setup (PreGER)
        nset = int(rng.integers(1, 4))
        nchs = [int(rng.integers(2, 6)) for _ in range(nset)]
        nref = int(rng.integers(1, min(nchs)))
        lengths = [int(rng.integers(900, 1500)) for _ in range(nset)]
        ref_ind = [[int(c) for c in rng.permutation(nc)[:nref]] for nc in nchs]
        sets = [rng.standard_normal((m, c)).cumsum(axis=0) * 0.1 for m, c in zip(lengths, nchs)]
        history = rand_history(rng, fs0, min(lengths))
        a, b = [d.copy() for d in sets], [d.copy() for d in sets]
        new = new_multi.MultiSetup_PreGER(fs=fs0, ref_ind=[list(r) for r in ref_ind], datasets=a)
        old = orig_multi.MultiSetup_PreGER(fs=fs0, ref_ind=[list(r) for r in ref_ind], datasets=b)
        for k, op in enumerate(history):
            r_new, r_old = outcome(apply, new, op), outcome(apply, old, op)
            compare(f"multi#{i} step {k} {op}: outcome", r_new, r_old)
            compare(
                f"multi#{i} step {k} {op}: state",
                ("ok", state_multi(new)),
                ("ok", state_multi(old)),
            )
        compare(f"multi#{i}: user data", ("ok", a), ("ok", b))


def main():
    rng = np.random.default_rng(14)
    test_helpers(rng)
    test_histories(rng)
    if failures:
        print(f"FAIL ({len(failures)} of {n_cases} comparisons differ)")
        for line in failures[:25]:
            print("  -", line)
        return 1
    print(f"PASS ({n_cases} comparisons)")
    return 0


if __name__ == "__main__":
    sys.exit(main())
