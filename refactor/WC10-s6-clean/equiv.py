"""
Differential test: the library on PYTHONPATH (CLEAN version of the commit)
against the unmodified implementation saved next to this file as orig_gen.py.

Run as:  PYTHONPATH=<tree>/src /venv/bin/python equiv.py
Prints PASS and exits 0 when every comparison agrees.
"""
import importlib.util
import logging
import os
import sys
import warnings

import numpy as np

warnings.filterwarnings("ignore")
logging.disable(logging.CRITICAL)

from pyoma2.functions import gen  # noqa: E402

HERE = os.path.dirname(os.path.abspath(__file__))
spec = importlib.util.spec_from_file_location("orig_gen", os.path.join(HERE, "orig_gen.py"))
orig = importlib.util.module_from_spec(spec)
spec.loader.exec_module(orig)

problems = []


def call(f, *a, **k):
    try:
        return ("ok", f(*a, **k))
    except Exception as e:  # noqa: BLE001
        return ("exc", type(e).__name__)


def same(a, b):
    if a[0] != b[0]:
        return False
    if a[0] == "exc":
        return a[1] == b[1]
    x, y = a[1], b[1]
    if isinstance(x, (list, tuple)):
        if len(x) != len(y):
            return False
        return all(same(("ok", p), ("ok", q)) for p, q in zip(x, y))
    if x is None or y is None:
        return x is None and y is None
    x, y = np.asarray(x), np.asarray(y)
    if x.shape != y.shape or x.dtype != y.dtype:
        return False
    if np.issubdtype(x.dtype, np.integer) or x.dtype == bool:
        return np.array_equal(x, y)
    return np.allclose(x, y, rtol=1e-12, atol=0, equal_nan=True)


# ---------------------------------------------------------------------------
def random_tables(rng, n_rows, n_cols, nch, cplx, p_nan, consistent=True):
    n_phys = int(rng.integers(1, 5))
    f0 = np.sort(rng.uniform(1.0, 20.0, n_phys))
    x0 = rng.uniform(0.005, 0.04, n_phys)
    s0 = rng.standard_normal((n_phys, nch)) + (0.2j * rng.standard_normal((n_phys, nch)) if cplx else 0)
    Fn = rng.uniform(0.5, 25.0, (n_rows, n_cols))
    Xi = rng.uniform(0.001, 0.09, (n_rows, n_cols))
    Phi = rng.standard_normal((n_rows, n_cols, nch)) + (
        1j * rng.standard_normal((n_rows, n_cols, nch)) if cplx else 0
    )
    # physical modes (stable candidates), some with exactly repeated frequencies
    for c in range(n_cols):
        rows = rng.permutation(n_rows)[: min(n_rows, 2 * n_phys)]
        for k, i in enumerate(rows):
            m = k % n_phys
            Fn[i, c] = f0[m] * (1 + 0.003 * rng.standard_normal())
            Xi[i, c] = x0[m] * (1 + 0.03 * rng.standard_normal())
            Phi[i, c, :] = s0[m] * (1 + 0.03 * rng.standard_normal(nch))
            if k >= n_phys and rng.random() < 0.5:
                Fn[i, c] = Fn[rows[k - n_phys], c]
    nan = rng.random((n_rows, n_cols)) < p_nan
    for c in range(n_cols):
        if rng.random() < 0.1:
            nan[:, c] = True
    Fn[nan] = np.nan
    if consistent:
        Xi[nan] = np.nan
        Phi[nan] = np.nan
    else:  # independent NaN patterns in the three tables
        Xi[rng.random((n_rows, n_cols)) < p_nan] = np.nan
        Phi[rng.random((n_rows, n_cols)) < p_nan] = np.nan
    if rng.random() < 0.2:  # occasional zero / negative entries
        Fn[rng.integers(n_rows), rng.integers(n_cols)] = 0.0
        Xi[rng.integers(n_rows), rng.integers(n_cols)] = -0.01
        Phi[rng.integers(n_rows), rng.integers(n_cols), :] = 0.0
    return Fn, Xi, Phi


def test_sc_apply(rng, n_cases=150):
    n_stable = 0
    for case in range(n_cases):
        step = int(rng.choice([1, 1, 1, 2, 3]))
        ordmax = int(rng.integers(1, 41))
        n_cols = ordmax // step + 1
        layout = rng.choice(["ssi", "plscf"])
        if layout == "plscf":
            step = 1
            n_cols = ordmax
        n_rows = int(rng.integers(1, 45))
        nch = int(rng.integers(1, 7))
        Fn, Xi, Phi = random_tables(
            rng, n_rows, n_cols, nch, cplx=bool(rng.random() < 0.7),
            p_nan=float(rng.choice([0.0, 0.3, 0.7, 0.95])), consistent=bool(rng.random() < 0.7),
        )
        ordmin = int(rng.integers(0, ordmax + 1))
        omax_arg = ordmax - 1 if layout == "plscf" else ordmax
        if rng.random() < 0.1:
            omax_arg += int(rng.integers(1, 4)) * step  # beyond the tables -> IndexError
        if rng.random() < 0.05:
            ordmin = omax_arg + 1  # empty range
        tols = (
            float(rng.choice([0.01, 0.02, 0.005, rng.uniform(1e-3, 0.1)])),
            float(rng.choice([0.05, 0.1, rng.uniform(1e-2, 0.3)])),
            float(rng.choice([0.03, 0.05, rng.uniform(1e-3, 0.2)])),
        )
        keep = (Fn.copy(), Xi.copy(), Phi.copy())
        new = call(gen.SC_apply, Fn, Xi, Phi, ordmin, omax_arg, step, *tols)
        old = call(orig.SC_apply, Fn, Xi, Phi, ordmin, omax_arg, step, *tols)
        if not same(new, old):
            problems.append(
                f"SC_apply case {case} ({layout}, shape {Fn.shape}, ordmin={ordmin}, "
                f"ordmax={omax_arg}, step={step}, tols={tols}): {new[0]} vs {old[0]}"
                + (f" {new[1]} / {old[1]}" if new[0] == "exc" or old[0] == "exc" else
                   f" differing cells {np.argwhere(new[1] != old[1])[:5].tolist()}")
            )
        elif new[0] == "ok":
            n_stable += int(new[1].sum())
        for a, b in zip(keep, (Fn, Xi, Phi)):
            if not np.array_equal(a, b, equal_nan=True):
                problems.append(f"SC_apply case {case}: inputs modified")
    return n_stable


def test_applymask(rng, n_cases=60):
    for case in range(n_cases):
        n, k, nch = int(rng.integers(1, 12)), int(rng.integers(1, 12)), int(rng.integers(1, 6))
        kind = case % 3
        mask = rng.random((n, k)) < 0.6
        if kind == 1:
            mask = mask.astype(int)
        lst = []
        for _ in range(int(rng.integers(1, 6))):
            t = rng.integers(0, 5)
            if t == 0:
                lst.append(None)
            elif t == 1:
                lst.append(rng.standard_normal((n, k)))
            elif t == 2:
                lst.append(rng.standard_normal((n, k)) + 1j * rng.standard_normal((n, k)))
            elif t == 3:
                lst.append(rng.standard_normal((n, k, nch)))
            else:
                lst.append(rng.standard_normal((n, k, nch)) + 1j * rng.standard_normal((n, k, nch)))
        len_phi = nch if rng.random() < 0.85 else nch + 1  # wrong length -> same failure
        new = call(gen.applymask, lst, mask, len_phi)
        old = call(orig.applymask, lst, mask, len_phi)
        if not same(new, old):
            problems.append(f"applymask case {case}: {new[0]} vs {old[0]}")


def test_algorithms():
    """SSIcov / SSIdat / pLSCF run() with the new and with the original helpers."""
    from scipy import signal

    from pyoma2.algorithms.plscf import pLSCF
    from pyoma2.algorithms.ssi import SSIcov, SSIdat

    def synth(seed, n=3000, nch=4, fs=50.0):
        r = np.random.default_rng(seed)
        modes = [(3.0, 0.02), (7.5, 0.015), (12.0, 0.02)]
        shapes = r.standard_normal((nch, len(modes)))
        y = np.zeros((n, nch))
        for k, (f, z) in enumerate(modes):
            w = 2 * np.pi * f
            num, den, _ = signal.cont2discrete(([w * w], [1, 2 * z * w, w * w]), 1 / fs)
            y += np.outer(signal.lfilter(num.ravel(), den, r.standard_normal(n)), shapes[:, k])
        return y + 0.05 * y.std() * r.standard_normal(y.shape), fs

    configs = [
        (SSIcov, dict(br=10, ordmax=24)),
        (SSIcov, dict(br=10, ordmax=24, ordmin=6, step=2)),
        (SSIcov, dict(br=12, ordmax=20, ordmin=5, sc=dict(err_fn=0.02, err_xi=0.1, err_phi=0.05))),
        (SSIcov, dict(br=10, ordmax=20, ordmin=20, ref_ind=[0, 2])),
        (SSIdat, dict(br=10, ordmax=18, ordmin=3)),
        (pLSCF, dict(ordmax=12, nxseg=256)),
        (pLSCF, dict(ordmax=12, nxseg=256, ordmin=4, method_SD="cor")),
    ]
    fields = ("Fn_poles", "Xi_poles", "Phi_poles", "Lab")
    for n_cfg, (cls, kw) in enumerate(configs):
        y, fs = synth(n_cfg)
        out = {}
        for which in ("new", "old"):
            saved = (gen.SC_apply, gen.applymask)
            if which == "old":
                gen.SC_apply, gen.applymask = orig.SC_apply, orig.applymask
            try:
                alg = cls(name="a", **kw)
                alg._set_data(data=y.copy(), fs=fs)
                res = alg.run()
                out[which] = ("ok", [getattr(res, f) for f in fields])
            except Exception as e:  # noqa: BLE001
                out[which] = ("exc", type(e).__name__)
            finally:
                gen.SC_apply, gen.applymask = saved
        if not same(out["new"], out["old"]):
            problems.append(f"{cls.__name__}.run {kw}: results differ ({out['new'][0]} vs {out['old'][0]})")


def main():
    rng = np.random.default_rng(7)
    n_stable = test_sc_apply(rng)
    test_applymask(rng)
    test_algorithms()
    if n_stable < 50:
        problems.append(f"generator too weak: only {n_stable} stable labels overall")
    if problems:
        print("FAIL")
        for p in problems[:15]:
            print("  -", p)
        print(f"  ({len(problems)} problems)")
        return 1
    print(f"PASS (150 SC_apply cases with {n_stable} stable labels, 60 applymask cases, 7 algorithm runs)")
    return 0


if __name__ == "__main__":
    sys.exit(main())
