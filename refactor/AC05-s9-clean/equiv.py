"""
Differential test: the library in the tree on PYTHONPATH against the pristine
copies saved next to this script (orig_functions_plscf.py, orig_algorithms_plscf.py).

Run as:  PYTHONPATH=<tree>/src /venv/bin/python equiv.py
Prints PASS and exits 0 when every compared output is equal.
"""
import contextlib
import importlib.util
import io
import logging
import os
import sys
import warnings

import numpy as np

warnings.filterwarnings("ignore")
logging.disable(logging.CRITICAL)

HERE = os.path.dirname(os.path.abspath(__file__))

import pyoma2.algorithms.plscf as new_alg  # noqa: E402
from pyoma2.functions import plscf as new_fn  # noqa: E402


def _load(name, path):
    spec = importlib.util.spec_from_file_location(name, path)
    mod = importlib.util.module_from_spec(spec)
    sys.modules[name] = mod
    spec.loader.exec_module(mod)
    return mod


old_fn = _load("pyoma2.functions.orig_plscf", os.path.join(HERE, "orig_functions_plscf.py"))
old_alg = _load(
    "pyoma2.algorithms.orig_plscf", os.path.join(HERE, "orig_algorithms_plscf.py")
)
old_alg.plscf = old_fn  # the pristine classes use the pristine functions

RTOL = 1e-12
failures = []
ncases = 0
both_raised = []


def quiet(f, *a, **k):
    """Call f, swallowing the tqdm bars; return ('ok', value) or ('exc', type)."""
    with contextlib.redirect_stderr(io.StringIO()):
        try:
            return "ok", f(*a, **k)
        except Exception as e:  # noqa: BLE001
            return "exc", type(e)


def same(a, b):
    if isinstance(a, (list, tuple)):
        return (
            isinstance(b, (list, tuple))
            and len(a) == len(b)
            and all(same(x, y) for x, y in zip(a, b))
        )
    if a is None or b is None:
        return a is None and b is None
    a = np.asarray(a)
    b = np.asarray(b)
    if a.shape != b.shape:
        return False
    if np.array_equal(a, b, equal_nan=True):
        return True
    return bool(np.allclose(a, b, rtol=RTOL, atol=0.0, equal_nan=True))


def compare(label, r_old, r_new):
    global ncases
    ncases += 1
    if r_old[0] != r_new[0]:
        failures.append(f"{label}: outcome {r_old[0]} vs {r_new[0]} ({r_old[1]!r} / {r_new[1]!r})")
    elif r_old[0] == "exc":
        both_raised.append(f"{label}: {r_old[1].__name__}")
        if r_old[1] is not r_new[1]:
            failures.append(f"{label}: exception {r_old[1]} vs {r_new[1]}")
    elif not same(r_old[1], r_new[1]):
        failures.append(f"{label}: values differ")


def rational_spectrum(rng, n, Nch, Nref, Nf, sgn):
    A = rng.standard_normal((n + 1, Nch, Nch))
    A[0] += 3 * np.eye(Nch)
    A[-1] += 3 * np.eye(Nch)
    B = rng.standard_normal((n + 1, Nref, Nch))
    Om = np.exp(sgn * 1j * np.linspace(0, np.pi, Nf))
    Sy = np.empty((Nref, Nch, Nf), complex)
    for f in range(Nf):
        Az = sum(A[k] * Om[f] ** k for k in range(n + 1))
        Bz = sum(B[k] * Om[f] ** k for k in range(n + 1))
        Sy[:, :, f] = Bz @ np.linalg.inv(Az)
    return Sy


rng = np.random.default_rng(20240605)

# ---------------------------------------------------------------- functions
for case in range(30):
    Nch = int(rng.integers(2, 6))
    Nref = int(rng.integers(1, 6))
    n = int(rng.integers(1, 7))
    ordmax = n + int(rng.integers(0, 3))
    Nf = 4 * (ordmax + 1) + int(rng.integers(0, 50))
    dt = float(rng.uniform(1e-3, 0.2))
    sgn = int(rng.choice([-1, 1]))
    if case % 3 == 0:
        Sy = rational_spectrum(rng, n, Nch, Nref, Nf, sgn)
    elif case % 3 == 1:
        Sy = rng.standard_normal((Nref, Nch, Nf)) + 1j * rng.standard_normal((Nref, Nch, Nf))
    else:
        Sy = rng.random((Nref, Nch, Nf))
    tag = f"case{case} n={n} ordmax={ordmax} Nch={Nch} Nref={Nref} Nf={Nf} sgn={sgn}"

    # pLSCF: sign given positionally, by keyword, and left to the default
    r_old = quiet(old_fn.pLSCF, Sy, dt, ordmax, sgn)
    compare(tag + " pLSCF/pos", r_old, quiet(new_fn.pLSCF, Sy, dt, ordmax, sgn))
    compare(
        tag + " pLSCF/kw",
        quiet(old_fn.pLSCF, Sy, dt, ordmax, sgn_basf=sgn),
        quiet(new_fn.pLSCF, Sy, dt, ordmax, sgn_basf=sgn),
    )
    compare(
        tag + " pLSCF/float-sign",
        quiet(old_fn.pLSCF, Sy, dt, ordmax, float(sgn)),
        quiet(new_fn.pLSCF, Sy, dt, ordmax, float(sgn)),
    )
    if case < 6:
        compare(
            tag + " pLSCF/default",
            quiet(old_fn.pLSCF, Sy, dt, ordmax),
            quiet(new_fn.pLSCF, Sy, dt, ordmax),
        )
    if r_old[0] != "ok":
        continue
    Ad, Bn = r_old[1]

    nxseg = int(rng.choice([64, 128, 1024]))
    for method in ("per", "cor"):
        ref = quiet(old_fn.pLSCF_poles, Ad, Bn, dt, method, nxseg)
        compare(tag + f" poles/{method}/pos", ref, quiet(new_fn.pLSCF_poles, Ad, Bn, dt, method, nxseg))
        compare(
            tag + f" poles/{method}/old-kw",
            ref,
            quiet(new_fn.pLSCF_poles, Ad, Bn, dt, nxseg=nxseg, methodSy=method),
        )
        compare(
            tag + f" poles/{method}/new-kw",
            ref,
            quiet(new_fn.pLSCF_poles, Ad, Bn, dt, method=method, nxseg=nxseg),
        )
        k = int(rng.integers(0, len(Ad)))
        ac_old = quiet(old_fn.rmfd2ac, Ad[k], Bn[k])
        compare(tag + " rmfd2ac", ac_old, quiet(new_fn.rmfd2ac, Ad[k], Bn[k]))
        if ac_old[0] == "ok":
            A, C = ac_old[1]
            mp = quiet(old_fn.ac2mp_poly, A, C, dt, method, nxseg)
            compare(tag + f" ac2mp/{method}/pos", mp, quiet(new_fn.ac2mp_poly, A, C, dt, method, nxseg))
            compare(
                tag + f" ac2mp/{method}/old-kw",
                mp,
                quiet(new_fn.ac2mp_poly, A, C, dt, methodSy=method, nxseg=nxseg),
            )
            compare(
                tag + f" ac2mp/{method}/new-kw",
                mp,
                quiet(new_fn.ac2mp_poly, A, C, dt, method=method, nxseg=nxseg),
            )

# inputs of the existing unit tests
Ad_t = np.array([[[[1, -0.5], [1, -0.7]]]])
Bn_t = np.array([[[[7, 8], [9, 10]]]])
compare(
    "unit-test poles",
    quiet(old_fn.pLSCF_poles, Ad_t, Bn_t, 0.01, "per", 10),
    quiet(new_fn.pLSCF_poles, Ad_t, Bn_t, 0.01, "per", 10),
)
compare(
    "unit-test rmfd2ac",
    quiet(old_fn.rmfd2ac, np.array([[[1, 2], [3, 4]]]), np.array([[[1, 2]], [[3, 4]], [[5, 6]]])),
    quiet(new_fn.rmfd2ac, np.array([[[1, 2], [3, 4]]]), np.array([[[1, 2]], [[3, 4]], [[5, 6]]])),
)
# a sign that is neither -1 nor 1
Sy_bad = rng.random((2, 2, 20))
compare(
    "bad sign",
    quiet(old_fn.pLSCF, Sy_bad, 0.1, 2, 0),
    quiet(new_fn.pLSCF, Sy_bad, 0.1, 2, 0),
)

# ---------------------------------------------------------------- classes
RESULT_FIELDS = ("freq", "Sy", "Ad", "Bn", "Fn_poles", "Xi_poles", "Phi_poles", "Lab")


def result_tuple(res):
    return tuple(getattr(res, f) for f in RESULT_FIELDS)


def run_single(mod, data, fs, **kw):
    alg = mod.pLSCF(name="x", **kw)
    alg._set_data(data=data, fs=fs)
    return result_tuple(alg.run())


def run_multi(mod, data, fs, **kw):
    alg = mod.pLSCF_MS(name="x", **kw)
    alg._set_data(data=data, fs=fs)
    return result_tuple(alg.run())


def signal(rng, nch, ndat, fs):
    t = np.arange(ndat) / fs
    freqs = rng.uniform(0.05, 0.4, 3) * fs
    y = np.zeros((ndat, nch))
    for f0 in freqs:
        shape = rng.standard_normal(nch)
        y += np.outer(np.sin(2 * np.pi * f0 * t + rng.uniform(0, 6)), shape)
    return y + 0.3 * rng.standard_normal((ndat, nch))


for case in range(8):
    fs = float(rng.choice([20.0, 50.0, 100.0]))
    nch = int(rng.integers(2, 5))
    method = ("per", "cor")[case % 2]
    kw = dict(ordmax=int(rng.integers(3, 7)), nxseg=int(rng.choice([64, 128])), method_SD=method)
    data = signal(rng, nch, 2000, fs)
    compare(
        f"class pLSCF case{case} {kw}",
        quiet(run_single, old_alg, data, fs, **kw),
        quiet(run_single, new_alg, data, fs, **kw),
    )

for case in range(6):
    fs = float(rng.choice([20.0, 50.0]))
    n_ref = int(rng.integers(2, 4))
    method = ("per", "cor")[case % 2]
    kw = dict(ordmax=int(rng.integers(3, 6)), nxseg=64, method_SD=method)
    Y = []
    for _ in range(int(rng.integers(2, 4))):
        n_mov = int(rng.integers(1, 3))
        d = signal(rng, n_ref + n_mov, 1500, fs).T
        Y.append({"ref": d[:n_ref], "mov": d[n_ref:]})
    compare(
        f"class pLSCF_MS case{case} {kw}",
        quiet(run_multi, old_alg, Y, fs, **kw),
        quiet(run_multi, new_alg, Y, fs, **kw),
    )

print(f"{ncases} comparisons, {len(both_raised)} of them with the same exception on both sides")
for b in both_raised:
    print("   raised:", b)
if failures:
    print("FAIL")
    for f in failures[:20]:
        print("  ", f)
    sys.exit(1)
print("PASS")
