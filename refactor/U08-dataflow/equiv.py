"""
Equivalence check of the refactored pLSCF code (functions/plscf.py and
algorithms/plscf.py) against the pristine copies orig_*.py of HEAD.

Run:  cd /tmp/wt/U08 && PYTHONPATH=/tmp/wt/U08/src /venv/bin/python _refactor/equiv.py
Prints PASS and exits 0 when every comparison is IDENTICAL (values bit for bit,
dtypes, shapes, NaN patterns; equal exception types where something raises).
"""

import importlib.util
import logging
import os
import sys
import warnings
from unittest import mock

os.environ.setdefault("TQDM_DISABLE", "1")
os.environ.setdefault("MPLBACKEND", "Agg")

import numpy as np

HERE = os.path.dirname(os.path.abspath(__file__))

import pyoma2.algorithms  # noqa: E402  (package of the relative imports)
from pyoma2.algorithms import plscf as new_alg  # noqa: E402
from pyoma2.functions import plscf as new_fun  # noqa: E402
from pyoma2.setup import MultiSetup_PreGER, SingleSetup  # noqa: E402

warnings.filterwarnings("ignore")
logging.disable(logging.CRITICAL)


def _load(name, fname):
    spec = importlib.util.spec_from_file_location(name, os.path.join(HERE, fname))
    mod = importlib.util.module_from_spec(spec)
    sys.modules[name] = mod
    spec.loader.exec_module(mod)
    return mod


orig_fun = _load("pyoma2.functions._orig_plscf", "orig_functions_plscf.py")
orig_alg = _load("pyoma2.algorithms._orig_plscf", "orig_algorithms_plscf.py")
# the pristine algorithm classes must call the pristine numerical routines
orig_alg.plscf = orig_fun
assert new_alg.plscf is new_fun

N_CMP = 0
N_FULL = []  # runs that went through the extraction checks as well


def same(a, b, what):
    """bitwise-identical comparison of nested results"""
    global N_CMP
    N_CMP += 1
    if isinstance(a, (list, tuple)):
        assert type(a) is type(b), (what, type(a), type(b))
        assert len(a) == len(b), (what, len(a), len(b))
        for k, (x, y) in enumerate(zip(a, b)):
            same(x, y, f"{what}[{k}]")
        return
    if a is None or b is None:
        assert a is None and b is None, what
        return
    if isinstance(a, np.ndarray) or isinstance(b, np.ndarray):
        assert isinstance(a, np.ndarray) and isinstance(b, np.ndarray), (what, type(a), type(b))
        assert a.dtype == b.dtype, (what, a.dtype, b.dtype)
        assert a.shape == b.shape, (what, a.shape, b.shape)
        assert np.array_equal(np.isnan(a), np.isnan(b)), (what, "nan pattern")
        if not np.array_equal(a, b, equal_nan=True):
            err = np.nanmax(np.abs(a - b))
            raise AssertionError((what, "values differ, max abs err", err))
        # bit pattern as well (sign of zeros, nan+0j against nan+nanj)
        assert np.ascontiguousarray(a).tobytes() == np.ascontiguousarray(b).tobytes(), (
            what,
            "bit pattern",
        )
        return
    assert type(a) is type(b), (what, type(a), type(b))
    if isinstance(a, float) and np.isnan(a):
        assert np.isnan(b), what
        return
    assert a == b, (what, a, b)


def outcome(fun, *args, **kwargs):
    try:
        return "ok", fun(*args, **kwargs)
    except Exception as e:  # noqa: BLE001
        return "exc", type(e)


def both(fo, fn, what, *args, **kwargs):
    ko, ro = outcome(fo, *args, **kwargs)
    kn, rn = outcome(fn, *args, **kwargs)
    assert ko == kn, (what, ko, ro, kn, rn)
    if ko == "exc":
        assert ro is rn, (what, ro, rn)
        return ko, None, None
    same(ro, rn, what)
    return ko, ro, rn


# -----------------------------------------------------------------------------
# data
# -----------------------------------------------------------------------------
def response(rng, nch, ndat, fs, noise=0.05):
    """random response of a few lightly damped modes + noise, (ndat, nch)"""
    nm = int(rng.integers(2, 5))
    t = np.arange(ndat) / fs
    fn = np.sort(rng.uniform(0.04, 0.4, nm)) * fs
    xi = rng.uniform(0.005, 0.03, nm)
    shapes = rng.standard_normal((nch, nm))
    y = np.zeros((ndat, nch))
    for m in range(nm):
        w = 2 * np.pi * fn[m]
        h = np.exp(-xi[m] * w * t[:400]) * np.sin(w * np.sqrt(1 - xi[m] ** 2) * t[:400])
        q = np.convolve(rng.standard_normal(ndat), h)[:ndat]
        y += np.outer(q, shapes[:, m])
    y += noise * y.std() * rng.standard_normal(y.shape)
    return y


# -----------------------------------------------------------------------------
# A. numerical routines
# -----------------------------------------------------------------------------
def check_functions(rng):
    from pyoma2.functions import fdd

    n_id = 0
    for trial in range(36):
        nch = int(rng.integers(2, 9))
        fs = float(rng.choice([0.5, 10.0, 100.0, 2048.0]))
        dt = 1 / fs
        nxseg = int(rng.choice([32, 64, 100, 128]))
        method = ["per", "cor"][trial % 2]
        sgn = -1 if method == "per" else +1
        ordmax = int(rng.integers(1, 8))
        kind = trial % 3
        if kind == 0:  # spectra of a response (square)
            Y = response(rng, nch, 1500, fs).T * float(10 ** rng.uniform(-6, 6))
            _, Sy = fdd.SD_est(Y, Y, dt, nxseg, method=method, pov=float(rng.choice([0, 0.5])))
        elif kind == 1:  # reference-based spectra, Nref != Nch, references not ascending
            Y = response(rng, nch, 1500, fs).T
            ref = rng.permutation(nch)[: max(1, nch // 2)]
            _, Sy = fdd.SD_est(Y, Y[ref], dt, nxseg, method=method, pov=0.5)
            Sy = np.ascontiguousarray(Sy)
            if Sy.shape[0] != len(ref):  # make sure that the layout is (Nref, Nch, Nf)
                Sy = np.swapaxes(Sy, 0, 1)
        else:  # arbitrary complex (or real) array, non-contiguous view
            nref = int(rng.integers(1, nch + 1))
            nf = int(rng.integers(20, 70))
            Sy = rng.standard_normal((nf, nref, nch))
            if trial % 2:
                Sy = Sy + 1j * rng.standard_normal(Sy.shape)
            Sy = np.moveaxis(Sy, 0, 2)

        ko, ro, rn = both(orig_fun.pLSCF, new_fun.pLSCF, f"pLSCF[{trial}]", Sy, dt, ordmax, sgn)
        both(
            orig_fun.pLSCF,
            new_fun.pLSCF,
            f"pLSCF-kw[{trial}]",
            Sy,
            dt,
            ordmax=ordmax,
            sgn_basf=float(sgn),
        )
        assert ko == "ok"
        Ad, Bn = ro
        # layout of the coefficient arrays handed over to the next routine
        for x, y in zip(Ad + Bn, rn[0] + rn[1]):
            assert x.strides == y.strides, "strides of Ad/Bn"

        for A_den, B_num in zip(Ad, Bn):
            k1, r1, r2 = both(orig_fun.rmfd2ac, new_fun.rmfd2ac, f"rmfd2ac[{trial}]", A_den, B_num)
            A, C = r1
            for m2 in ("per", "cor"):
                both(
                    orig_fun.ac2mp_poly,
                    new_fun.ac2mp_poly,
                    f"ac2mp_poly[{trial}]",
                    A,
                    C,
                    dt,
                    m2,
                    nxseg,
                )
        for m2 in ("per", "cor"):
            ko, po, pn = both(
                orig_fun.pLSCF_poles,
                new_fun.pLSCF_poles,
                f"pLSCF_poles[{trial}]",
                Ad,
                Bn,
                dt,
                methodSy=m2,
                nxseg=nxseg,
            )
            for x, y in zip(po, pn):
                assert x.strides == y.strides, "strides of the pole tables"
            # every mode shape normalised to a unit largest component
            Phi = pn[2]
            ok = ~np.isnan(Phi).any(axis=2)
            assert np.allclose(np.abs(Phi[ok]).max(axis=1), 1.0)

        # extraction of modes from the pole tables
        Fns, Xis, Phis, _ = po
        nord = Fns.shape[1]
        Lab = rng.choice([0, 7], size=Fns.shape, p=[0.5, 0.5])
        filled = np.flatnonzero((~np.isnan(Fns)).any(axis=0))
        if filled.size == 0:  # every pole unstable: nothing to select
            continue
        col = int(rng.choice(filled))
        good = Fns[:, col][~np.isnan(Fns[:, col])]
        nsel = int(rng.integers(1, 4))
        sel = list(rng.choice(good, size=nsel) * rng.choice([1.0, 1.001, 1.2], size=nsel))
        orders = [
            col,
            [int(rng.integers(0, nord)) for _ in sel],
            "find_min",
            True,
            2.5,
            nord + 3,
            [col] * (nsel - 1) if nsel > 1 else [nord + 1],
        ]
        for order in orders:
            for lab in (Lab, None):
                for kw in ({}, {"rtol": 1e-3}, {"rtol": 0.3, "deltaf": 0.5 * fs / 50}):
                    both(
                        orig_fun.pLSCF_mpe,
                        new_fun.pLSCF_mpe,
                        f"pLSCF_mpe[{trial},{order!r}]",
                        sel,
                        Fns,
                        Xis,
                        Phis,
                        order,
                        Lab=lab,
                        **kw,
                    )
        n_id += 1
    assert n_id > 20

    # out-of-range arguments: same outcome
    Sy = rng.standard_normal((2, 3, 30)) + 1j * rng.standard_normal((2, 3, 30))
    ko, _, _ = both(orig_fun.pLSCF, new_fun.pLSCF, "pLSCF-sgn2", Sy, 0.01, 3, 2)
    assert ko == "exc"
    both(orig_fun.pLSCF, new_fun.pLSCF, "pLSCF-ord0", Sy, 0.01, 0, 1)
    both(orig_fun.pLSCF, new_fun.pLSCF, "pLSCF-nan", Sy * np.nan, 0.01, 2, 1)
    both(orig_fun.pLSCF_poles, new_fun.pLSCF_poles, "poles-empty", [], [], 0.01, "per", 10)

    # degenerate inputs of the unit tests
    Ad = np.array([[[[1, -0.5], [1, -0.7]]]])
    Bn = np.array([[[[7, 8], [9, 10]]]])
    both(orig_fun.pLSCF_poles, new_fun.pLSCF_poles, "poles-unit", Ad, Bn, 0.01, "per", 10)
    A_den = np.array([[[1, 2], [3, 4]]])
    B_num = np.array([[[1, 2]], [[3, 4]], [[5, 6]]])
    both(orig_fun.rmfd2ac, new_fun.rmfd2ac, "rmfd2ac-unit", A_den, B_num)
    both(orig_fun.rmfd2ac, new_fun.rmfd2ac, "rmfd2ac-short-B", np.ones((4, 2, 2)), B_num)
    sing = np.zeros((3, 2, 2))
    both(orig_fun.rmfd2ac, new_fun.rmfd2ac, "rmfd2ac-singular", sing, rng.random((3, 2, 2)))
    A = np.array([[-1, -2], [1, 0]])
    C = np.array([[1, 0], [0, 1]])
    both(orig_fun.ac2mp_poly, new_fun.ac2mp_poly, "ac2mp-unit", A, C, 0.1, "cor", 100)
    # real eigenvalues only / unstable poles / a zero output matrix
    A = np.diag([0.5, 0.9, 1.3, -0.4])
    C = rng.standard_normal((3, 4))
    for m2 in ("per", "cor"):
        both(orig_fun.ac2mp_poly, new_fun.ac2mp_poly, "ac2mp-real", A, C, 0.02, m2, 64)
        both(orig_fun.ac2mp_poly, new_fun.ac2mp_poly, "ac2mp-zeroC", A, 0 * C, 0.02, m2, 64)
    for _ in range(20):
        n = int(rng.integers(2, 13))
        A = rng.standard_normal((n, n)) * rng.uniform(0.3, 1.2)
        C = rng.standard_normal((int(rng.integers(1, 6)), n))
        for m2 in ("per", "cor"):
            both(orig_fun.ac2mp_poly, new_fun.ac2mp_poly, "ac2mp-rand", A, C, 0.02, m2, 64)
    # unit-test table of the extraction and its exception case
    T = np.array(
        [
            [[1.0, 2.0, 3.0], [1.1, 2.1, 3.1], [1.2, 2.2, 3.2]],
            [[4.0, 5.0, 6.0], [4.1, 5.1, 6.1], [4.2, 5.2, 6.2]],
            [[7.0, 8.0, 9.0], [7.1, 8.1, 9.1], [7.2, 8.2, 9.2]],
        ]
    )
    Lab = np.array([[1, 1, 1], [1, 1, 1], [7, 7, 7]])
    for order in ("find_min", 1, [0, 1, 2]):
        both(
            orig_fun.pLSCF_mpe,
            new_fun.pLSCF_mpe,
            "mpe-unit",
            [1.0, 2.0, 3.0],
            T,
            T,
            T,
            order,
            Lab,
            0.05,
            1e-2,
        )
    e = np.array([])
    both(orig_fun.pLSCF_mpe, new_fun.pLSCF_mpe, "mpe-exc", [1.0], e, e, e, "find_min", None)
    both(orig_fun.pLSCF_mpe, new_fun.pLSCF_mpe, "mpe-exc2", [1.0], T[0], T[0], T, (1,), Lab)


# -----------------------------------------------------------------------------
# B. algorithm classes through the setup classes
# -----------------------------------------------------------------------------
RESULT_FIELDS = list(new_alg.pLSCFResult.model_fields)


def compare_results(ro, rn, what):
    assert type(ro).__name__ == type(rn).__name__ == "pLSCFResult"
    assert list(type(ro).model_fields) == RESULT_FIELDS
    for name in RESULT_FIELDS:
        same(getattr(ro, name), getattr(rn, name), f"{what}.result.{name}")


def compare_run_params(po, pn, what):
    do, dn = po.model_dump(), pn.model_dump()
    assert list(do) == list(dn)
    for k in do:
        same(do[k], dn[k], f"{what}.run_params.{k}")


class FakeSFP:
    """stands in for the interactive selection"""

    picks = None

    def __init__(self, algo, freqlim=None, plot=None):
        assert plot == "pLSCF"
        self.result = FakeSFP.picks


def after_run_checks(rng, ao, an, what):
    compare_results(ao.result, an.result, what)
    compare_run_params(ao.run_params, an.run_params, what)
    Fn = an.result.Fn_poles
    nord = Fn.shape[1]
    stable = Fn[an.result.Lab == 1]
    cand = stable if stable.size else Fn[~np.isnan(Fn)]
    if cand.size == 0:
        return
    N_FULL.append(what)
    nsel = int(rng.integers(1, 4))
    sel = sorted(float(x) for x in rng.choice(cand, size=nsel))
    calls = [
        dict(sel_freq=sel, order=int(rng.integers(0, nord)), rtol=float(rng.choice([1e-3, 5e-2, 0.5]))),
        dict(sel_freq=sel, order=[int(rng.integers(0, nord)) for _ in sel]),
        dict(sel_freq=sel, order="find_min", rtol=0.1),
        dict(sel_freq=sel),
        dict(sel_freq=sel, order=nord + 2),
    ]
    for kw in calls:
        ko, _ = outcome(ao.mpe, **kw)
        kn, _ = outcome(an.mpe, **kw)
        assert ko == kn, (what, "mpe", kw)
        compare_results(ao.result, an.result, what + ".mpe")
        compare_run_params(ao.run_params, an.run_params, what + ".mpe")
    # interactive variant (Lab=None): pick one pole, and pick nothing
    i, j = np.argwhere(~np.isnan(Fn))[int(rng.integers(0, (~np.isnan(Fn)).sum()))]
    for picks in (([float(Fn[i, j])], int(j)), (sel, "find_min"), (sel, [int(j)] * len(sel))):
        FakeSFP.picks = picks
        kw = dict(freqlim=(0.0, 1.0), rtol=float(rng.choice([1e-2, 0.2])))
        with mock.patch.object(orig_alg, "SelFromPlot", FakeSFP), mock.patch.object(
            new_alg, "SelFromPlot", FakeSFP
        ):
            ko, eo = outcome(ao.mpe_from_plot, **kw)
            kn, en = outcome(an.mpe_from_plot, **kw)
        assert (ko, eo) == (kn, en), (what, "mpe_from_plot", picks, eo, en)
        compare_results(ao.result, an.result, what + ".mpe_from_plot")
        compare_run_params(ao.run_params, an.run_params, what + ".mpe_from_plot")
    # the plots read the same fields
    for name in ("plot_stab", "plot_cluster"):
        fo, _ = getattr(ao, name)(freqlim=(0, 1), hide_poles=False)
        fn_, _ = getattr(an, name)(freqlim=(0, 1), hide_poles=False)
        import matplotlib.pyplot as plt

        plt.close("all")


def random_params(rng, trial):
    params = dict(
        ordmax=int(rng.integers(4, 12)),
        nxseg=int(rng.choice([64, 100, 128, 256])),
        method_SD=["per", "cor"][trial % 2],
        pov=float(rng.choice([0.0, 0.25, 0.5])),
    )
    if trial % 3:
        params["ordmin"] = int(rng.integers(0, 3))
    if trial % 4 != 0:  # user-set criteria
        params["hc"] = dict(
            conj=bool(trial % 4 != 1),
            xi_max=float(rng.choice([0.03, 0.1, 0.5])),
            mpc_lim=float(rng.choice([0.3, 0.7, 0.9])),
            mpd_lim=float(rng.choice([0.1, 0.3, 0.8])),
        )
        params["sc"] = dict(
            err_fn=float(rng.choice([0.005, 0.05])),
            err_xi=float(rng.choice([0.05, 0.3])),
            err_phi=float(rng.choice([0.03, 0.2])),
            note="extra keys are ignored",
        )
    return params


def check_classes(rng):
    # single setup
    for trial in range(16):
        nch = int(rng.integers(2, 9))
        fs = float(rng.choice([0.8, 25.0, 100.0, 1000.0]))
        data = response(rng, nch, 3000, fs) * float(10 ** rng.uniform(-6, 6))
        params = random_params(rng, trial)
        ao = orig_alg.pLSCF(name="o", **params)
        an = new_alg.pLSCF(name="n", **params)
        so, sn = SingleSetup(data.copy(), fs=fs), SingleSetup(data.copy(), fs=fs)
        so.add_algorithms(ao)
        sn.add_algorithms(an)
        so.run_all()
        sn.run_all()
        after_run_checks(rng, so["o"], sn["n"], f"single[{trial}]")

    # multi setup (PreGER), reference lists not ascending
    for trial in range(8):
        fs = float(rng.choice([20.0, 100.0]))
        nref = int(rng.integers(1, 3))
        nset = int(rng.integers(2, 4))
        nmov = [int(rng.integers(1, 4)) for _ in range(nset)]
        ntot = nref + sum(nmov)
        full = response(rng, ntot, 2500, fs)
        datasets, ref_ind, start = [], [], nref
        for s in range(nset):
            cols = list(range(nref)) + list(range(start, start + nmov[s]))
            start += nmov[s]
            perm = list(rng.permutation(len(cols)))
            seg = full[s * 100 : s * 100 + 2000][:, cols][:, perm]
            datasets.append(seg * float(10 ** rng.uniform(-2, 2)))
            # position of every reference channel (same physical order in every
            # setup, so the index lists are in general not ascending)
            ref_ind.append([perm.index(r) for r in range(nref)])
        params = random_params(rng, trial + 1)
        ao = orig_alg.pLSCF_MS(name="o", **params)
        an = new_alg.pLSCF_MS(name="n", **params)
        mo = MultiSetup_PreGER(fs=fs, ref_ind=ref_ind, datasets=[d.copy() for d in datasets])
        mn = MultiSetup_PreGER(fs=fs, ref_ind=ref_ind, datasets=[d.copy() for d in datasets])
        mo.add_algorithms(ao)
        mn.add_algorithms(an)
        mo.run_all()
        mn.run_all()
        after_run_checks(rng, mo["o"], mn["n"], f"multi[{trial}]")

    # before run: same exceptions
    for cls_o, cls_n in ((orig_alg.pLSCF, new_alg.pLSCF), (orig_alg.pLSCF_MS, new_alg.pLSCF_MS)):
        ao, an = cls_o(name="o", ordmax=3), cls_n(name="n", ordmax=3)
        for meth, kw in (("mpe", dict(sel_freq=[1.0])), ("mpe_from_plot", {}), ("plot_cluster", {})):
            ko, eo = outcome(getattr(ao, meth), **kw)
            kn, en = outcome(getattr(an, meth), **kw)
            assert (ko, eo) == (kn, en) == ("exc", ValueError), (meth, eo, en)
    # a criterion that is missing / unusable
    data = response(rng, 3, 2000, 50.0)
    for hc in (dict(conj=True, xi_max=0.1, mpc_lim=0.7), dict(conj=False, xi_max=None, mpc_lim=0.7, mpd_lim=0.3),
               dict(conj=True, xi_max=0.2, mpc_lim=None, mpd_lim=None)):
        res = []
        for mod in (orig_alg, new_alg):
            a = mod.pLSCF(name="a", ordmax=4, nxseg=128, hc=hc)
            s = SingleSetup(data.copy(), fs=50.0)
            s.add_algorithms(a)
            res.append(outcome(s.run_all) + (s["a"],))
        assert res[0][0] == res[1][0], hc
        if res[0][0] == "exc":
            assert res[0][1] is res[1][1], (hc, res[0][1], res[1][1])
        else:
            compare_results(res[0][2].result, res[1][2].result, "hc-odd")


if __name__ == "__main__":
    rng = np.random.default_rng(20261004)
    check_functions(rng)
    print("numerical routines identical,", N_CMP, "comparisons so far")
    check_classes(rng)
    assert len(N_FULL) >= 16, N_FULL
    print("algorithm classes identical,", N_CMP, "comparisons in total;", len(N_FULL), "runs with extraction")
    print("PASS")
