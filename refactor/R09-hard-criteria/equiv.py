"""
Equivalence check of the refactored hard-criteria code against the pristine
(HEAD) versions.

Refactored : pyoma2.functions.gen  (applymask, HC_conj, HC_phi_comp)
             pyoma2.algorithms.ssi (SSIdat.run, inherited by SSIcov)
Originals  : _refactor/orig_gen.py, _refactor/orig_ssi.py

Run with
    cd /tmp/wt/R09 && PYTHONPATH=/tmp/wt/R09/src /venv/bin/python _refactor/equiv.py
Prints PASS and exits 0 when every comparison is identical.
"""

import importlib.util
import os
import sys
import warnings

import numpy as np

HERE = os.path.dirname(os.path.abspath(__file__))
warnings.filterwarnings("ignore")


def load(name, fname):
    spec = importlib.util.spec_from_file_location(name, os.path.join(HERE, fname))
    mod = importlib.util.module_from_spec(spec)
    sys.modules[name] = mod
    spec.loader.exec_module(mod)
    return mod


import pyoma2.algorithms  # noqa: E402  (package context for the relative import)
from pyoma2.algorithms import ssi as new_ssi  # noqa: E402
from pyoma2.functions import gen as new_gen  # noqa: E402
from pyoma2.setup import SingleSetup  # noqa: E402

orig_gen = load("pyoma2.functions.orig_gen", "orig_gen.py")
orig_ssi = load("pyoma2.algorithms.orig_ssi", "orig_ssi.py")
# the pristine run() must use the pristine criteria functions
orig_ssi.gen = orig_gen
assert new_ssi.gen is new_gen and orig_ssi.gen is not new_gen

N_CHECKS = 0


# -----------------------------------------------------------------------------
# comparison helpers
# -----------------------------------------------------------------------------
def same(a, b, where=""):
    """Strict equality of nested results: type, dtype, shape, values, NaN pattern."""
    global N_CHECKS
    N_CHECKS += 1
    if a is None or b is None:
        assert a is None and b is None, f"{where}: None mismatch"
    elif isinstance(a, (list, tuple)):
        assert type(a) is type(b) and len(a) == len(b), f"{where}: container mismatch"
        for k, (x, y) in enumerate(zip(a, b)):
            same(x, y, f"{where}[{k}]")
    elif isinstance(a, dict):
        assert a.keys() == b.keys(), f"{where}: keys mismatch"
        for k in a:
            same(a[k], b[k], f"{where}.{k}")
    elif isinstance(a, np.ndarray):
        assert isinstance(b, np.ndarray), f"{where}: type mismatch"
        assert a.dtype == b.dtype, f"{where}: dtype {a.dtype} != {b.dtype}"
        assert a.shape == b.shape, f"{where}: shape {a.shape} != {b.shape}"
        if a.dtype.kind in "fc":
            assert np.array_equal(np.isnan(a), np.isnan(b)), f"{where}: NaN pattern"
            assert np.array_equal(a, b, equal_nan=True), f"{where}: values differ"
            # bit-identical as well (sign of zeros, real/imag parts of the NaNs)
            assert np.ascontiguousarray(a).tobytes() == np.ascontiguousarray(b).tobytes(), (
                f"{where}: not bit-identical"
            )
        else:
            assert np.array_equal(a, b), f"{where}: values differ"
    else:
        assert type(a) is type(b) and a == b, f"{where}: {a!r} != {b!r}"


def call(f, *args, **kwargs):
    try:
        return ("ok", f(*args, **kwargs))
    except Exception as e:  # noqa: BLE001
        return ("exc", type(e).__name__)


def same_call(f_new, f_old, *args, where="", **kwargs):
    r_new = call(f_new, *args, **kwargs)
    r_old = call(f_old, *args, **kwargs)
    assert r_new[0] == r_old[0], f"{where}: {r_new} vs {r_old}"
    same(r_new[1], r_old[1], where)
    return r_old


# -----------------------------------------------------------------------------
# random pole populations
# -----------------------------------------------------------------------------
def random_lambds(rng, n_ord, n_pol):
    """Eigenvalue table with conjugate pairs, lone poles, real poles, NaN fillers."""
    lam = np.full((n_ord, n_pol), np.nan, dtype=complex)
    for o in range(n_ord):
        j = 0
        while j < n_pol:
            kind = rng.choice(["pair", "lone", "real", "nan", "zero", "dup"])
            z = complex(rng.normal(), rng.normal())
            if kind == "pair" and j + 1 < n_pol:
                lam[o, j], lam[o, j + 1] = z, np.conj(z)
                j += 2
            elif kind == "lone":
                lam[o, j] = z
                j += 1
            elif kind == "real":
                lam[o, j] = complex(z.real, rng.choice([0.0, -0.0]))
                j += 1
            elif kind == "zero":
                lam[o, j] = 0.0
                j += 1
            elif kind == "dup" and o > 0:
                # conjugate of a pole of a previous order (cross-order pairing)
                lam[o, j] = np.conj(lam[o - 1, rng.integers(n_pol)])
                j += 1
            else:
                j += 1
    return lam


def random_phi(rng, n_ord, n_pol, n_dof):
    """Mode shapes: nearly real, rotated real, fully complex, NaN rows, zero rows."""
    phi = np.empty((n_ord, n_pol, n_dof), dtype=complex)
    for o in range(n_ord):
        for i in range(n_pol):
            kind = rng.choice(["real", "rot", "cplx", "mild", "nan", "zero", "partzero"])
            re = rng.normal(size=n_dof)
            if kind == "real":
                v = re + 0j
            elif kind == "rot":
                v = re * np.exp(1j * rng.uniform(0, 2 * np.pi))
            elif kind == "cplx":
                v = re + 1j * rng.normal(size=n_dof)
            elif kind == "mild":
                v = re * np.exp(1j * rng.normal(scale=rng.uniform(0, 0.6), size=n_dof))
            elif kind == "nan":
                v = np.full(n_dof, np.nan, dtype=complex)
            elif kind == "zero":
                v = np.zeros(n_dof, dtype=complex)
            else:
                v = re + 1j * rng.normal(size=n_dof)
                v[rng.integers(n_dof)] = 0
            phi[o, i, :] = v
    return phi


# -----------------------------------------------------------------------------
# 1) applymask
# -----------------------------------------------------------------------------
def check_applymask(rng, n_cases=60):
    for c in range(n_cases):
        n_ord, n_pol, n_dof = rng.integers(1, 7), rng.integers(1, 9), rng.integers(1, 6)
        mask = rng.random((n_ord, n_pol)) < rng.uniform(0, 1)
        if c % 3 == 1:
            mask = mask.astype(int)  # HC_damp / HC_phi_comp / HC_cov return 0/1 ints
        pool = [
            rng.normal(size=(n_ord, n_pol)),
            rng.normal(size=(n_ord, n_pol)) + 1j * rng.normal(size=(n_ord, n_pol)),
            rng.normal(size=(n_ord, n_pol, n_dof))
            + 1j * rng.normal(size=(n_ord, n_pol, n_dof)),
            rng.normal(size=(n_ord, n_pol, n_dof)),
            None,
            np.where(rng.random((n_ord, n_pol)) < 0.3, np.nan, 1.0),
            rng.normal(size=n_ord),  # 1D: silently dropped by both versions
            rng.integers(0, 5, size=(n_ord, n_pol)),
        ]
        k = rng.integers(0, 8)
        lst = [pool[i] for i in rng.integers(0, len(pool), size=k)]
        same_call(new_gen.applymask, orig_gen.applymask, lst, mask, n_dof, where=f"applymask#{c}")
        # keyword form, as used by the refactored run()
        same_call(
            new_gen.applymask, orig_gen.applymask, list_arr=lst, mask=mask, len_phi=n_dof,
            where=f"applymask-kw#{c}",
        )
    # error behaviour: mask of the wrong shape
    bad = np.ones((2, 3), dtype=bool)
    same_call(new_gen.applymask, orig_gen.applymask, [np.zeros((3, 3))], bad, 2, where="applymask-bad")


# -----------------------------------------------------------------------------
# 2) HC_conj
# -----------------------------------------------------------------------------
def check_conj(rng, n_cases=60):
    for c in range(n_cases):
        lam = random_lambds(rng, rng.integers(1, 8), rng.integers(1, 12))
        if c % 7 == 3:
            lam = lam.astype(np.complex64)
        if c % 11 == 5:
            lam = np.asfortranarray(lam)
        before = lam.copy()
        r = same_call(new_gen.HC_conj, orig_gen.HC_conj, lam, where=f"HC_conj#{c}")
        same(lam, before, f"HC_conj#{c}: input modified")
        assert r[0] == "ok" and r[1][1].dtype == bool
    # eigenvalues of real matrices, as produced by the algorithms
    for c in range(20):
        n = int(rng.integers(2, 9))
        lam = np.full((n, n), np.nan, dtype=complex)
        for o in range(1, n + 1):
            lam[o - 1, :o] = np.linalg.eigvals(rng.normal(size=(o, o)))
        same_call(new_gen.HC_conj, orig_gen.HC_conj, lam, where=f"HC_conj-eig#{c}")


# -----------------------------------------------------------------------------
# 3) HC_phi_comp
# -----------------------------------------------------------------------------
def check_phi_comp(rng, n_cases=60):
    for c in range(n_cases):
        n_ord, n_pol, n_dof = rng.integers(1, 6), rng.integers(1, 8), rng.integers(2, 7)
        phi = random_phi(rng, n_ord, n_pol, n_dof)
        mpc_lim = [0.0, 1.0, rng.uniform(0, 1), np.float64(rng.uniform(0, 1)), 1][c % 5]
        mpd_lim = [0.0, np.pi / 2, rng.uniform(0, np.pi / 2), np.float64(0.3), 1][c % 5]
        before = phi.copy()
        same_call(
            new_gen.HC_phi_comp, orig_gen.HC_phi_comp, phi, mpc_lim, mpd_lim,
            where=f"HC_phi_comp#{c}",
        )
        same_call(
            new_gen.HC_phi_comp, orig_gen.HC_phi_comp, phi, mpd_lim=mpd_lim, mpc_lim=mpc_lim,
            where=f"HC_phi_comp-kw#{c}",
        )
        same(phi, before, f"HC_phi_comp#{c}: input modified")
    # single-component shapes (degenerate MPC) and all-NaN table
    phi1 = random_phi(rng, 3, 4, 1)
    same_call(new_gen.HC_phi_comp, orig_gen.HC_phi_comp, phi1, 0.5, 0.5, where="HC_phi_comp-1dof")
    phin = np.full((2, 3, 4), np.nan, dtype=complex)
    same_call(new_gen.HC_phi_comp, orig_gen.HC_phi_comp, phin, 0.5, 0.5, where="HC_phi_comp-nan")
    # real-valued table (MS merged shapes may be real)
    phir = rng.normal(size=(3, 4, 5))
    same_call(new_gen.HC_phi_comp, orig_gen.HC_phi_comp, phir, 0.7, 0.3, where="HC_phi_comp-real")


# -----------------------------------------------------------------------------
# 4) the whole masking sequence of run() on synthetic pole tables
#    (SSI_fast / SSI_poles replaced by a generator of random tables, so that many
#    pole populations and all combinations of criteria are covered quickly)
# -----------------------------------------------------------------------------
class _FakeSSIFuncs:
    """Stand-in for pyoma2.functions.ssi inside run(): returns prepared tables."""

    def __init__(self, tables):
        self.tables = tables

    def build_hank(self, **kwargs):
        return None, None

    def SSI_fast(self, *args, **kwargs):
        return (None,) * 7

    def SSI_poles(self, *args, **kwargs):
        return tuple(None if t is None else t.copy() for t in self.tables)


def random_tables(rng, with_cov):
    n_ord, n_pol, n_dof = int(rng.integers(2, 8)), int(rng.integers(2, 10)), int(rng.integers(2, 6))
    lam = random_lambds(rng, n_ord, n_pol)
    phi = random_phi(rng, n_ord, n_pol, n_dof)
    fn = np.abs(lam) / (2 * np.pi)
    xi = -lam.real / np.abs(lam)  # positive, negative, zero, NaN, > xi_max
    xi = xi * rng.choice([1.0, 0.05, 0.2], size=xi.shape)
    if with_cov:
        fn_cov = np.abs(rng.normal(scale=0.3, size=fn.shape))
        fn_cov[rng.random(fn.shape) < 0.1] = 0.0
        fn_cov[rng.random(fn.shape) < 0.1] = np.nan
        xi_cov = np.abs(rng.normal(size=fn.shape))
        phi_cov = np.abs(rng.normal(size=phi.shape))
    else:
        fn_cov = xi_cov = phi_cov = None
    # the tables of the library are (pole slot, model order): SC_apply loops over
    # axis 1, so the caller needs the size of that axis to choose ordmax
    return (fn, xi, phi, lam, fn_cov, xi_cov, phi_cov), n_pol


def run_masking(mod, cls_name, tables, ordmax, hc, calc_unc):
    data = np.zeros((50, 3))
    setup = SingleSetup(data, fs=100.0)
    alg = getattr(mod, cls_name)(
        name="a", br=5, ordmax=ordmax, ordmin=0, step=1, hc=hc, calc_unc=calc_unc
    )
    setup.add_algorithms(alg)
    saved = mod.ssi
    mod.ssi = _FakeSSIFuncs(tables)
    try:
        setup.run_by_name("a")
    finally:
        mod.ssi = saved
    return result_dict(alg.result)


def result_dict(res):
    d = dict(res.__dict__)
    return {k: v for k, v in d.items() if not k.startswith("_")}


def check_run_synthetic(rng, n_cases=80):
    for c in range(n_cases):
        with_cov = bool(c % 2)
        tables, n_ord = random_tables(rng, with_cov)
        hc = dict(
            conj=bool(rng.integers(2)),
            xi_max=float(rng.choice([0.01, 0.05, 0.1, 0.5, 1.0])),
            mpc_lim=float(rng.choice([0.0, 0.3, 0.7, 0.95, 1.0])),
            mpd_lim=float(rng.choice([0.0, 0.1, 0.3, 1.0, np.pi / 2])),
            cov_max=float(rng.choice([1e-3, 0.05, 0.2, 1.0, 1e6])),
        )
        cls = ["SSIdat", "SSIcov"][(c // 2) % 2]
        args = (cls, tables, n_ord - 1, hc, with_cov)
        r_new = call(run_masking, new_ssi, *args)
        r_old = call(run_masking, orig_ssi, *args)
        assert r_new[0] == r_old[0] == "ok", f"run-synth#{c}: {r_new[:1]} {r_old}"
        same(r_new[1], r_old[1], f"run-synth#{c}")
        # sanity: the comparison is not vacuous
        assert r_old[1]["Fn_poles"].shape == tables[0].shape
    # incomplete hc dictionaries raise the same error
    tables, n_ord = random_tables(rng, False)
    for missing in ("conj", "xi_max", "mpc_lim", "mpd_lim", "cov_max"):
        hc = dict(conj=True, xi_max=0.1, mpc_lim=0.7, mpd_lim=0.3, cov_max=0.2)
        del hc[missing]
        r_new = call(run_masking, new_ssi, "SSIdat", tables, n_ord - 1, hc, False)
        r_old = call(run_masking, orig_ssi, "SSIdat", tables, n_ord - 1, hc, False)
        same(list(r_new), list(r_old), f"run-missing-{missing}")
        assert r_old == ("exc", "KeyError")


# -----------------------------------------------------------------------------
# 5) real end-to-end runs (SSIdat, SSIcov with and without uncertainties)
# -----------------------------------------------------------------------------
def simulate(rng, n_ch=4, n_samp=3000, fs=50.0):
    """Response of a small MDOF system to white noise + measurement noise."""
    from scipy import signal

    t = np.arange(n_samp) / fs
    freqs = np.array([2.1, 5.3, 8.7])
    xis = np.array([0.01, 0.02, 0.015])
    shapes = rng.normal(size=(n_ch, freqs.size))
    y = np.zeros((n_samp, n_ch))
    for k, (f, xi) in enumerate(zip(freqs, xis)):
        wn = 2 * np.pi * f
        sysd = signal.cont2discrete(([1.0], [1.0, 2 * xi * wn, wn**2]), 1 / fs)
        q = signal.lfilter(sysd[0].ravel(), sysd[1], rng.normal(size=t.size))
        y += np.outer(q / q.std(), shapes[:, k])
    return y + 0.05 * rng.normal(size=y.shape)


def run_real(mod, cls_name, data, fs, kwargs):
    setup = SingleSetup(data, fs=fs)
    alg = getattr(mod, cls_name)(name="a", **kwargs)
    setup.add_algorithms(alg)
    setup.run_by_name("a")
    return result_dict(alg.result)


def check_run_real(rng):
    configs = [
        ("SSIdat", dict(br=10, ordmax=20), {}),
        ("SSIcov", dict(br=10, ordmax=20), dict(conj=False, xi_max=0.05)),
        ("SSIcov", dict(br=10, ordmax=16, ordmin=2), dict(mpc_lim=0.9, mpd_lim=0.15)),
        ("SSIcov", dict(br=8, ordmax=12, calc_unc=True, nb=20), dict(cov_max=0.02)),
        ("SSIcov", dict(br=8, ordmax=12, calc_unc=True, nb=20, method="cov_mm"),
         dict(conj=False, cov_max=1e6, xi_max=1.0, mpc_lim=0.0, mpd_lim=np.pi / 2)),
        ("SSIdat", dict(br=8, ordmax=14, ref_ind=[0, 1]), dict(xi_max=0.02, mpc_lim=0.5)),
    ]
    n_nan_total = 0
    for c, (cls, kwargs, hc_over) in enumerate(configs):
        data = simulate(rng)
        hc = dict(conj=True, xi_max=0.1, mpc_lim=0.7, mpd_lim=0.3, cov_max=0.2)
        hc.update(hc_over)
        kw = dict(kwargs, hc=hc)
        r_new = call(run_real, new_ssi, cls, data, 50.0, kw)
        r_old = call(run_real, orig_ssi, cls, data, 50.0, kw)
        assert r_new[0] == r_old[0] == "ok", f"run-real#{c}: {r_new[:1]} {r_old}"
        same(r_new[1], r_old[1], f"run-real#{c}")
        fn = r_old[1]["Fn_poles"]
        assert np.isfinite(fn).any(), f"run-real#{c}: every pole rejected, vacuous"
        n_nan_total += int(np.isnan(fn).sum())
        if kwargs.get("calc_unc"):
            assert r_old[1]["Fn_poles_cov"] is not None
    assert n_nan_total > 0


def check_untouched():
    """The multi-setup run() and the other criteria functions are byte-identical."""
    import inspect

    for name in ("HC_damp", "HC_cov", "MPC", "MPD", "SC_apply"):
        assert inspect.getsource(getattr(new_gen, name)) == inspect.getsource(
            getattr(orig_gen, name)
        ), name
    assert inspect.getsource(new_ssi.SSIdat_MS.run) == inspect.getsource(orig_ssi.SSIdat_MS.run)


def main():
    rng = np.random.default_rng(20240909)
    check_untouched()
    check_applymask(rng)
    check_conj(rng)
    check_phi_comp(rng)
    check_run_synthetic(rng)
    check_run_real(rng)
    print(f"{N_CHECKS} comparisons identical")
    print("PASS")


if __name__ == "__main__":
    main()
