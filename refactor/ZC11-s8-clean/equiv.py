"""
Differential test: the library under PYTHONPATH (CLEAN version of the commit)
against the pristine implementation kept next to this file as

    orig_functions_ssi.py    (src/pyoma2/functions/ssi.py at HEAD)
    orig_algorithms_ssi.py   (src/pyoma2/algorithms/ssi.py at HEAD)

Run as:  PYTHONPATH=<tree>/src /venv/bin/python equiv.py
Prints PASS and exits 0 if every output (or raised exception type) is identical.
"""

import importlib.util
import logging
import os
import sys

import numpy as np

logging.disable(logging.CRITICAL)

import pyoma2.algorithms.ssi as new_alg  # noqa: E402
import pyoma2.functions.ssi as new_fn  # noqa: E402
from pyoma2.algorithms.data.result import SSIResult  # noqa: E402

HERE = os.path.dirname(os.path.abspath(__file__))


def load(name, fname):
    spec = importlib.util.spec_from_file_location(name, os.path.join(HERE, fname))
    mod = importlib.util.module_from_spec(spec)
    sys.modules[name] = mod
    spec.loader.exec_module(mod)
    return mod


old_fn = load("pyoma2.functions._orig_ssi", "orig_functions_ssi.py")
old_alg = load("pyoma2.algorithms._orig_ssi", "orig_algorithms_ssi.py")
old_alg.ssi = old_fn  # the pristine classes call the pristine routine

for m in (new_fn, old_fn):
    m.tqdm = lambda it, *a, **k: it

PROBLEMS = []
N_CHECKS = 0


def same(a, b):
    if a is None or b is None:
        return a is None and b is None
    if isinstance(a, (list, tuple)) and isinstance(b, (list, tuple)):
        return type(a) is type(b) and len(a) == len(b) and all(same(x, y) for x, y in zip(a, b))
    if isinstance(a, str) or isinstance(b, str):
        return a == b
    a_, b_ = np.asarray(a), np.asarray(b)
    if a_.shape != b_.shape or a_.dtype != b_.dtype:
        return False
    if a_.dtype.kind in "fc":
        return bool(np.array_equal(a_, b_, equal_nan=True)) and bool(
            np.allclose(a_, b_, rtol=1e-12, atol=0, equal_nan=True)
        )
    return bool(np.array_equal(a_, b_))


def run(f, *a, **k):
    try:
        return ("ok", f(*a, **k))
    except Exception as e:  # noqa: BLE001 - the type is what is compared
        return ("exc", type(e).__name__)


def compare(tag, r_old, r_new):
    global N_CHECKS
    N_CHECKS += 1
    if r_old[0] != r_new[0]:
        PROBLEMS.append(f"{tag}: old -> {r_old}, new -> {r_new}")
    elif r_old[0] == "exc":
        if r_old[1] != r_new[1]:
            PROBLEMS.append(f"{tag}: old raised {r_old[1]}, new raised {r_new[1]}")
    elif not same(r_old[1], r_new[1]):
        PROBLEMS.append(f"{tag}: results differ\n   old={r_old[1]}\n   new={r_new[1]}")


# -----------------------------------------------------------------------------
# random inputs
# -----------------------------------------------------------------------------
def random_table(rng):
    n_row = int(rng.integers(3, 30))
    n_ord = int(rng.integers(4, 45))
    n_ch = int(rng.integers(1, 9))
    modes = np.sort(rng.uniform(1.0, 30.0, size=int(rng.integers(1, 6))))
    Fn = rng.uniform(0.2, 35.0, size=(n_row, n_ord))
    # physical modes on some rows / orders
    for m in modes:
        start = int(rng.integers(0, n_ord))
        for o in range(start, n_ord):
            if rng.random() < 0.85:
                Fn[int(rng.integers(0, n_row)), o] = m * (1 + rng.uniform(-1, 1) * 10 ** rng.uniform(-4, -1))
    style = rng.integers(0, 4)
    if style == 0:
        mask = rng.random(Fn.shape) < rng.uniform(0, 0.9)
    elif style == 1:  # triangular, as produced by increasing model orders
        mask = np.arange(n_row)[:, None] > np.arange(n_ord)[None, :] * n_row / n_ord
    elif style == 2:
        mask = np.zeros(Fn.shape, bool)
    else:  # some completely empty orders
        mask = rng.random(Fn.shape) < 0.5
        mask[:, rng.integers(0, n_ord, size=2)] = True
    Fn[mask] = np.nan
    Xi = np.where(mask, np.nan, rng.uniform(0, 0.1, size=Fn.shape))
    Phi = rng.normal(size=(n_row, n_ord, n_ch)) + 1j * rng.normal(size=(n_row, n_ord, n_ch)) * (rng.random() < 0.5)
    if not np.iscomplexobj(Phi):
        Phi = Phi.astype(float)
    Phi = np.where(mask[:, :, None], np.nan, Phi)
    Lab = np.where(mask, 0, rng.integers(0, 2, size=Fn.shape))
    if rng.random() < 0.5:
        Fc = np.where(mask, np.nan, rng.uniform(0, 1e-3, size=Fn.shape))
        Xc = np.where(mask, np.nan, rng.uniform(0, 1e-5, size=Fn.shape))
        Pc = np.where(mask[:, :, None], np.nan, rng.uniform(0, 1e-2, size=Phi.shape))
    else:
        Fc = Xc = Pc = None
    return modes, Fn, Xi, Phi, Lab, Fc, Xc, Pc


def random_request(rng, modes, n_ord):
    k = int(rng.integers(1, len(modes) + 1))
    freqs = sorted(float(f) for f in rng.choice(modes, size=k, replace=False))
    if rng.random() < 0.3:  # requests that are a bit (or a lot) off
        freqs = [f * (1 + rng.uniform(-0.08, 0.08)) for f in freqs]
    kind = rng.integers(0, 10)
    if kind <= 2:
        order = int(rng.integers(0, n_ord))
    elif kind <= 5:
        order = [int(o) for o in rng.integers(0, n_ord, size=k)]
    elif kind <= 7:
        order = "find_min"
    elif kind == 8:
        order = int(rng.integers(-n_ord, 0))  # counted from the last order
    else:
        order = [
            "invalid",
            2.5,
            None,
            (1, 2),
            np.int64(2),
            n_ord + 3,
            [int(o) for o in rng.integers(0, n_ord, size=max(k - 1, 0))],
            [int(o) for o in rng.integers(0, n_ord, size=k + 2)],
            True,
        ][int(rng.integers(0, 9))]
    rtol = float([5e-2, 1e-2, 1e-3, 0.2, 0.0, 1.0][int(rng.integers(0, 6))])
    return freqs, order, rtol


def as_tuple(alg):
    r, p = alg.result, alg.run_params
    return (
        r.Fn, r.Xi, r.Phi, r.order_out, r.Fn_cov, r.Xi_cov, r.Phi_cov,
        p.sel_freq, p.order_in, p.rtol,
        r.Fn_poles, r.Xi_poles, r.Phi_poles, r.Lab,
    )


class FakeSelFromPlot:
    """Stands in for the interactive stabilisation chart."""

    picked = None

    def __init__(self, algo, freqlim=None, plot="SSI"):
        self.result = FakeSelFromPlot.picked


old_alg.SelFromPlot = FakeSelFromPlot
new_alg.SelFromPlot = FakeSelFromPlot


def make_pair(cls_name, Fn, Xi, Phi, Lab, Fc, Xc, Pc, n_ord, ctor_rtol):
    out = []
    for mod in (old_alg, new_alg):
        kw = dict(name="x", br=8, ordmax=n_ord - 1)
        if ctor_rtol is not None:
            kw["rtol"] = ctor_rtol
        alg = getattr(mod, cls_name)(**kw)
        alg._set_result(
            SSIResult(
                Fn_poles=Fn.copy(), Xi_poles=Xi.copy(), Phi_poles=Phi.copy(), Lab=Lab.copy(),
                Fn_poles_cov=None if Fc is None else Fc.copy(),
                Xi_poles_cov=None if Xc is None else Xc.copy(),
                Phi_poles_cov=None if Pc is None else Pc.copy(),
            )
        )
        out.append(alg)
    return out


def main():
    rng = np.random.default_rng(20240611)
    n_tables = 60
    for it in range(n_tables):
        modes, Fn, Xi, Phi, Lab, Fc, Xc, Pc = random_table(rng)
        n_ord = Fn.shape[1]

        # ---- the routine -------------------------------------------------
        for jj in range(8):
            freqs, order, rtol = random_request(rng, modes, n_ord)
            lab = None if rng.random() < 0.15 else Lab
            args = (freqs, Fn, Xi, Phi, order)
            kw = dict(Lab=lab, rtol=rtol, Fn_cov=Fc, Xi_cov=Xc, Phi_cov=Pc)
            snap = [None if x is None else x.copy() for x in (Fn, Xi, Phi, Lab, Fc, Xc, Pc)]
            r_old = run(old_fn.SSI_mpe, *args, **kw)
            r_new = run(new_fn.SSI_mpe, *args, **kw)
            compare(f"SSI_mpe table {it} request {jj} order={order!r} rtol={rtol}", r_old, r_new)
            if not same(snap, [Fn, Xi, Phi, Lab, Fc, Xc, Pc]):
                PROBLEMS.append(f"SSI_mpe table {it} request {jj}: inputs modified")
        # defaults of the routine (positional Lab, default rtol, no covariances)
        freqs, order, _ = random_request(rng, modes, n_ord)
        compare(
            f"SSI_mpe defaults table {it}",
            run(old_fn.SSI_mpe, freqs, Fn, Xi, Phi, order, Lab),
            run(new_fn.SSI_mpe, freqs, Fn, Xi, Phi, order, Lab),
        )

        # ---- the algorithm classes ---------------------------------------
        cls_name = ["SSIdat", "SSIcov", "SSIdat_MS", "SSIcov_MS"][it % 4]
        ctor_rtol = [None, 1e-2, 0.3][it % 3]
        a_old, a_new = make_pair(cls_name, Fn, Xi, Phi, Lab, Fc, Xc, Pc, n_ord, ctor_rtol)
        for jj in range(6):
            freqs, order, rtol = random_request(rng, modes, n_ord)
            how = rng.integers(0, 4)
            if how == 0:  # default tolerance
                call = lambda a: a.mpe(sel_freq=freqs, order=order)  # noqa: E731
            elif how == 1:
                call = lambda a: a.mpe(freqs, order, rtol)  # noqa: E731
            elif how == 2:
                call = lambda a: a.mpe(sel_freq=freqs, order=order, rtol=rtol)  # noqa: E731
            else:  # selection made on the chart: explicit orders, no labels
                if order == "find_min":
                    order = [int(o) for o in rng.integers(0, n_ord, size=len(freqs))]
                FakeSelFromPlot.picked = (freqs, order)
                if rng.random() < 0.5:
                    call = lambda a: a.mpe_from_plot(freqlim=(0, 40), rtol=rtol)  # noqa: E731
                else:
                    call = lambda a: a.mpe_from_plot()  # noqa: E731
            before_new = as_tuple(a_new)
            r_old = run(call, a_old)
            r_new = run(call, a_new)
            tag = f"{cls_name} table {it} call {jj} how={how} order={order!r} rtol={rtol} ctor_rtol={ctor_rtol}"
            compare(tag, r_old, r_new)
            if r_old[0] == "ok":
                compare(tag + " [state]", ("ok", as_tuple(a_old)), ("ok", as_tuple(a_new)))
            else:
                # A request that raises: the pristine code has already recorded it in
                # run_params, the new code records nothing (the one intended difference,
                # for invalid input only). Results must agree, the new object must be
                # exactly as it was, and the records are re-aligned for the next call.
                compare(tag + " [results after error]", ("ok", as_tuple(a_old)[:7]), ("ok", as_tuple(a_new)[:7]))
                compare(tag + " [untouched after error]", ("ok", before_new), ("ok", as_tuple(a_new)))
                a_new.run_params = a_old.run_params.model_copy(deep=True)

    # extraction before run: same error
    r = []
    for mod in (old_alg, new_alg):
        alg = mod.SSIcov(name="x", br=8, ordmax=10)
        alg.result = None
        r.append(run(lambda a=alg: a.mpe(sel_freq=[1.0], order=3)))
    compare("mpe before run", r[0], r[1])

    if PROBLEMS:
        print(f"FAIL ({len(PROBLEMS)} of {N_CHECKS} comparisons differ)")
        for p in PROBLEMS[:10]:
            print(" -", p if len(p) < 400 else p[:400] + " ...")
        return 1
    print(f"PASS ({N_CHECKS} comparisons on {n_tables} random pole tables)")
    return 0


if __name__ == "__main__":
    sys.exit(main())
