"""
Equivalence check for the C20 refactoring (CMIF_plot, stab_plot, cluster_plot in
src/pyoma2/functions/plot.py).

Runs the refactored functions and the pristine HEAD versions (orig_plot.py) on
random inputs and compares everything that ends up on the axes: Line2D data and
style, PathCollection offsets/sizes/colours, error-bar LineCollection segments,
cap lines, labels, title, legend entries and axis limits.  Also compares raised
exceptions and drives the functions through the algorithm classes' plot methods.

Run:  PYTHONPATH=/tmp/wt/R20/src /venv/bin/python /tmp/wt/R20/_refactor/equiv.py
"""

import importlib.util
import os
import sys
import types
import warnings

import matplotlib

matplotlib.use("Agg")

import matplotlib.pyplot as plt  # noqa: E402
import numpy as np  # noqa: E402
from matplotlib.collections import Collection, LineCollection  # noqa: E402
from matplotlib.lines import Line2D  # noqa: E402

HERE = os.path.dirname(os.path.abspath(__file__))

import pyoma2.functions.plot as new_plot  # noqa: E402

assert os.path.abspath(new_plot.__file__).startswith("/tmp/wt/R20/src"), new_plot.__file__

# pristine module, imported by path inside the package so that `from .gen import MAC` works
_spec = importlib.util.spec_from_file_location(
    "pyoma2.functions._orig_plot", os.path.join(HERE, "orig_plot.py")
)
orig_plot = importlib.util.module_from_spec(_spec)
sys.modules[_spec.name] = orig_plot
_spec.loader.exec_module(orig_plot)

from pyoma2.algorithms import fdd as fdd_mod  # noqa: E402
from pyoma2.algorithms import plscf as plscf_mod  # noqa: E402
from pyoma2.algorithms import ssi as ssi_mod  # noqa: E402

warnings.filterwarnings("ignore")
np.seterr(all="ignore")


# ----------------------------------------------------------------------------
# snapshot of an axes
# ----------------------------------------------------------------------------
def arr(a):
    a = np.asarray(a)
    if a.dtype == object:
        a = a.astype(float)
    return a


def snapshot(ax):
    """Ordered, comparable description of every artist on the axes."""
    items = []
    for child in ax.get_children():
        if isinstance(child, Line2D):
            items.append(
                (
                    "line",
                    arr(child.get_xdata(orig=True)),
                    arr(child.get_ydata(orig=True)),
                    str(child.get_color()),
                    str(child.get_marker()),
                    str(child.get_linestyle()),
                    float(child.get_linewidth()),
                    float(child.get_markersize()),
                    str(child.get_label()),
                )
            )
        elif isinstance(child, LineCollection):
            segs = child.get_segments()
            items.append(
                (
                    "linecoll",
                    len(segs),
                    tuple(np.asarray(s, dtype=float) for s in segs),
                    arr(child.get_colors()),
                    str(child.get_label()),
                )
            )
        elif isinstance(child, Collection):
            items.append(
                (
                    "coll",
                    arr(np.ma.filled(child.get_offsets(), np.nan)),
                    arr(child.get_sizes()),
                    arr(child.get_facecolors()),
                    str(child.get_label()),
                )
            )
    leg = ax.get_legend()
    meta = (
        "meta",
        ax.get_title(),
        ax.get_xlabel(),
        ax.get_ylabel(),
        arr(ax.get_xlim()),
        arr(ax.get_ylim()),
        None if leg is None else tuple(t.get_text() for t in leg.get_texts()),
        len(ax.containers),
        tuple(str(c.get_label()) for c in ax.containers),
        # grid on?
        bool(ax.xaxis._major_tick_kw.get("gridOn", False)),
    )
    items.append(meta)
    return items


def same(a, b):
    if isinstance(a, np.ndarray) or isinstance(b, np.ndarray):
        a = np.asarray(a)
        b = np.asarray(b)
        if a.shape != b.shape:
            return False
        if a.size and a.dtype != b.dtype:
            return False
        if a.dtype.kind in "fc":
            return bool(np.array_equal(a, b, equal_nan=True))
        return bool(np.array_equal(a, b))
    if isinstance(a, (tuple, list)) and isinstance(b, (tuple, list)):
        return len(a) == len(b) and all(same(x, y) for x, y in zip(a, b))
    return a == b


def run(func, args, kwargs, with_ax):
    """Call func; returns ("ok", snapshot) or ("exc", type, message)."""
    kwargs = dict(kwargs)
    if with_ax:
        fig, ax = plt.subplots()
        kwargs["fig"], kwargs["ax"] = fig, ax
    try:
        rfig, rax = func(*args, **kwargs)
    except Exception as e:  # noqa: BLE001
        plt.close("all")
        return ("exc", type(e).__name__, str(e))
    # anything going wrong below is a defect of this script, not an expected exception
    if with_ax:
        assert rfig is kwargs["fig"] and rax is kwargs["ax"]
    assert rax.figure is rfig
    out = ("ok", snapshot(rax))
    plt.close("all")
    return out


N_CMP = 0
N_EXC = 0
N_MARK = 0


def compare(name, new_f, old_f, args, kwargs, with_ax=False):
    global N_CMP, N_EXC, N_MARK
    a = run(new_f, args, kwargs, with_ax)
    b = run(old_f, args, kwargs, with_ax)
    if not same(a, b):
        raise AssertionError(f"MISMATCH in {name}: kwargs={ {k: v for k, v in kwargs.items() if np.ndim(v) == 0} }\nnew={a}\nold={b}")
    N_CMP += 1
    if a[0] == "exc":
        N_EXC += 1
    else:
        for it in a[1]:
            if it[0] == "line":
                N_MARK += int(np.sum(~np.isnan(np.asarray(it[1], dtype=float))))
    return a


# ----------------------------------------------------------------------------
# random inputs
# ----------------------------------------------------------------------------
rng = np.random.default_rng(20)


def pole_tables(n_rows, n_cols, lab_kind):
    Fn = rng.uniform(0.1, 50.0, size=(n_rows, n_cols))
    Xi = rng.uniform(0.0, 0.2, size=(n_rows, n_cols))
    # rejected poles: NaN in the tables
    p_nan = rng.choice([0.0, 0.2, 0.6, 1.0], p=[0.2, 0.4, 0.3, 0.1])
    rejected = rng.random((n_rows, n_cols)) < p_nan
    Fn[rejected] = np.nan
    Xi[rejected] = np.nan
    lab = rng.integers(0, 2, size=(n_rows, n_cols)).astype(float)
    if lab_kind == "float_nan":
        lab[rejected] = np.nan
    elif lab_kind == "float_extra_nan":
        lab[rejected] = np.nan
        lab[rng.random((n_rows, n_cols)) < 0.1] = np.nan
    elif lab_kind == "int":
        lab = lab.astype(int)
    elif lab_kind == "all_stable":
        lab = np.ones_like(lab)
    elif lab_kind == "all_unstable":
        lab = np.zeros_like(lab)
    Fn_cov = rng.uniform(0.0, 0.05, size=(n_rows, n_cols))
    # make some std * fn exceed 0.5 and some exactly 0.5
    Fn_cov[rng.random((n_rows, n_cols)) < 0.2] *= 20
    exact = rng.random((n_rows, n_cols)) < 0.05
    with np.errstate(all="ignore"):
        Fn_cov[exact] = 0.5 / Fn[exact]
    Fn_cov[rng.random((n_rows, n_cols)) < 0.1] = np.nan
    Fn_cov[rng.random((n_rows, n_cols)) < 0.05] *= -1
    return Fn, Xi, lab, Fn_cov


LAB_KINDS = ["float_nan", "float_extra_nan", "int", "all_stable", "all_unstable"]
FREQLIMS = [None, (0.0, 25.0), (3.5, 12.25), [10, 60], np.array([1.0, 2.0])]


def fake_alg(**kw):
    result = types.SimpleNamespace(**kw.pop("result"))
    run_params = types.SimpleNamespace(**kw.pop("run_params"))
    return types.SimpleNamespace(result=result, run_params=run_params)


def via_class(mod, method, which):
    """Returns f(self, **kw) calling the class plot method with mod.plot = which."""

    def f(self, **kw):
        saved = mod.plot
        mod.plot = which
        try:
            return method(self, **kw)
        finally:
            mod.plot = saved

    return f


def test_stab_and_cluster():
    for it in range(60):
        n_cols = int(rng.integers(1, 61))  # up to 60 orders
        n_rows = int(rng.integers(1, 2 * n_cols + 2)) if it % 3 else int(rng.integers(1, 8))
        lab_kind = LAB_KINDS[it % len(LAB_KINDS)]
        Fn, Xi, Lab, Fn_cov = pole_tables(n_rows, n_cols, lab_kind)
        step = int(rng.integers(1, 5))
        ordmin = int(rng.integers(0, 5))
        ordmax = n_cols * step
        for hide in (True, False):
            for cov in (None, Fn_cov):
                freqlim = FREQLIMS[int(rng.integers(0, len(FREQLIMS)))]
                kw = dict(
                    Fn=Fn, Lab=Lab, step=step, ordmax=ordmax, ordmin=ordmin,
                    freqlim=freqlim, hide_poles=hide, Fn_cov=cov,
                )
                compare("stab_plot", new_plot.stab_plot, orig_plot.stab_plot, (), kw)
                compare(
                    "stab_plot(fig, ax)", new_plot.stab_plot, orig_plot.stab_plot, (), kw,
                    with_ax=True,
                )
                # positional call
                compare(
                    "stab_plot positional", new_plot.stab_plot, orig_plot.stab_plot,
                    (Fn, Lab, step, ordmax, ordmin, freqlim, hide), dict(Fn_cov=cov),
                )
            freqlim = FREQLIMS[int(rng.integers(0, len(FREQLIMS)))]
            kwc = dict(Fn=Fn, Xi=Xi, Lab=Lab, ordmin=ordmin, freqlim=freqlim, hide_poles=hide)
            compare("cluster_plot", new_plot.cluster_plot, orig_plot.cluster_plot, (), kwc)
            compare(
                "cluster_plot positional", new_plot.cluster_plot, orig_plot.cluster_plot,
                (Fn, Xi, Lab, ordmin, freqlim, hide), {},
            )

            # through the algorithm classes
            for cov in (None, Fn_cov):
                alg = fake_alg(
                    result=dict(Fn_poles=Fn, Xi_poles=Xi, Lab=Lab, Fn_poles_cov=cov),
                    run_params=dict(step=step, ordmax=ordmax, ordmin=ordmin),
                )
                for mod, cls in ((ssi_mod, ssi_mod.SSIdat), (plscf_mod, plscf_mod.pLSCF)):
                    for meth in ("plot_stab", "plot_cluster"):
                        m = getattr(cls, meth)
                        compare(
                            f"{cls.__name__}.{meth}",
                            via_class(mod, m, new_plot),
                            via_class(mod, m, orig_plot),
                            (alg,),
                            dict(freqlim=freqlim, hide_poles=hide),
                        )


def test_stab_cluster_edge_cases():
    Fn, Xi, Lab, Fn_cov = pole_tables(6, 10, "float_nan")
    base = dict(Fn=Fn, Lab=Lab, step=2, ordmax=20, ordmin=0)
    for hide in (True, False):
        # 1-D tables, a single row, a single column, all-NaN tables
        for F, X, L, C in [
            (Fn[:, 0], Xi[:, 0], Lab[:, 0], Fn_cov[:, 0]),
            (Fn[:1], Xi[:1], Lab[:1], Fn_cov[:1]),
            (Fn[:, :1], Xi[:, :1], Lab[:, :1], Fn_cov[:, :1]),
            (np.full((4, 5), np.nan), np.full((4, 5), np.nan), np.full((4, 5), np.nan),
             np.full((4, 5), np.nan)),
            (Fn.T.copy().T, Xi.T.copy().T, Lab.T.copy().T, Fn_cov.T.copy().T),  # F-ordered
            (Fn[::2, ::3], Xi[::2, ::3], Lab[::2, ::3], Fn_cov[::2, ::3]),  # strided views
            (Fn.astype(np.float32), Xi.astype(np.float32), Lab, Fn_cov.astype(np.float32)),
        ]:
            for cov in (None, C, 0.01, 1.0):
                kw = dict(base, Fn=F, Lab=L, hide_poles=hide, Fn_cov=cov)
                compare("stab edge", new_plot.stab_plot, orig_plot.stab_plot, (), kw)
            compare(
                "cluster edge", new_plot.cluster_plot, orig_plot.cluster_plot, (),
                dict(Fn=F, Xi=X, Lab=L, hide_poles=hide),
            )
        # float / numpy step
        for step in (np.int64(3), 1.5):
            kw = dict(base, step=step, hide_poles=hide, Fn_cov=Fn_cov)
            compare("stab step", new_plot.stab_plot, orig_plot.stab_plot, (), kw)
        # exceptions: shape mismatches, bad freqlim
        bad = [
            dict(base, Lab=Lab[:, :-1], hide_poles=hide),
            dict(base, Fn_cov=Fn_cov[:-1], hide_poles=hide),
            dict(base, Fn_cov=Fn_cov[:, :3], hide_poles=hide),
            dict(base, freqlim=(1.0,), hide_poles=hide),
            dict(base, freqlim=5.0, hide_poles=hide),
            dict(base, ordmax="x", hide_poles=hide),
            dict(base, Fn=3.0, Lab=1.0, hide_poles=hide),
        ]
        for kw in bad:
            compare("stab exc", new_plot.stab_plot, orig_plot.stab_plot, (), kw)
        badc = [
            dict(Fn=Fn, Xi=Xi[:, :-1], Lab=Lab, hide_poles=hide),
            dict(Fn=Fn[:-1], Xi=Xi, Lab=Lab, hide_poles=hide),
            dict(Fn=Fn, Xi=Xi, Lab=Lab, hide_poles=hide, freqlim=(1.0,)),
            dict(Fn=Fn, Xi=Xi, Lab=Lab, hide_poles=hide, freqlim=7),
        ]
        for kw in badc:
            compare("cluster exc", new_plot.cluster_plot, orig_plot.cluster_plot, (), kw)
    # only one of fig/ax given -> ax None -> AttributeError in both
    fig = plt.figure()
    compare("stab fig only", new_plot.stab_plot, orig_plot.stab_plot, (), dict(base, fig=fig))


def test_cmif():
    for it in range(40):
        n_ch = int(rng.integers(1, 9))
        n_f = int(rng.integers(2, 400))
        sv = np.sort(rng.lognormal(0.0, 2.0, size=(n_ch, n_f)), axis=0)[::-1]
        S_val = np.zeros((n_ch, n_ch, n_f))
        for k in range(n_ch):
            S_val[k, k, :] = sv[k]
        if it % 7 == 3:
            S_val[0, 0, int(rng.integers(0, n_f))] = np.nan
        if it % 7 == 5:
            S_val[n_ch - 1, n_ch - 1, int(rng.integers(0, n_f))] = 0.0
        if it % 11 == 4:  # tie for the maximum
            S_val[0, 0, [0, n_f - 1]] = S_val[0, 0].max() * 2
        freq = np.linspace(0.0, 50.0, n_f)
        nsv_opts = ["all"] + list(range(0, n_ch + 2)) + [np.int64(max(n_ch - 1, 0)), "1", 1.0, -1, None]
        for nSv in nsv_opts:
            freqlim = FREQLIMS[int(rng.integers(0, len(FREQLIMS)))]
            kw = dict(S_val=S_val, freq=freq, freqlim=freqlim, nSv=nSv)
            compare("CMIF_plot", new_plot.CMIF_plot, orig_plot.CMIF_plot, (), kw)
        compare(
            "CMIF_plot(fig, ax)", new_plot.CMIF_plot, orig_plot.CMIF_plot,
            (S_val, freq, (0, 10), "all"), {}, with_ax=True,
        )
        # through the FDD class
        alg = fake_alg(result=dict(S_val=S_val, freq=freq), run_params={})
        for nSv in ("all", max(n_ch - 1, 0), n_ch):
            compare(
                "FDD.plot_CMIF",
                via_class(fdd_mod, fdd_mod.FDD.plot_CMIF, new_plot),
                via_class(fdd_mod, fdd_mod.FDD.plot_CMIF, orig_plot),
                (alg,),
                dict(freqlim=(1.0, 20.0), nSv=nSv),
            )
    # complex / full (non-diagonal) arrays, mismatching freq, bad freqlim
    S_val = rng.lognormal(size=(3, 3, 50))
    freq = np.linspace(0, 10, 50)
    for kw in [
        dict(S_val=S_val, freq=freq),
        dict(S_val=S_val.astype(np.float32), freq=freq, nSv=2),
        dict(S_val=S_val + 0j, freq=freq, nSv=2),
        dict(S_val=S_val, freq=freq[:-1]),
        dict(S_val=S_val, freq=freq, freqlim=(1.0,)),
        dict(S_val=S_val[:, :, :0], freq=freq[:0]),
        dict(S_val=S_val[:2], freq=freq),  # 2 x 3 x nf: "all" -> k = 2 out of range
    ]:
        compare("CMIF edge", new_plot.CMIF_plot, orig_plot.CMIF_plot, (), kw)


def test_empty_tables():
    """
    Empty pole tables draw no marker at all.  The only difference is the dtype of
    the EMPTY order array (float64 from np.array([]) before, int64 from np.arange(0)
    now); compare everything else.
    """
    for shape in [(0, 5), (4, 0)]:
        e = np.zeros(shape)
        for hide in (True, False):
            a = run(new_plot.stab_plot, (), dict(Fn=e, Lab=e, step=1, ordmax=5, hide_poles=hide), False)
            b = run(orig_plot.stab_plot, (), dict(Fn=e, Lab=e, step=1, ordmax=5, hide_poles=hide), False)
            assert a[0] == b[0] == "ok"
            for x, y in zip(a[1], b[1]):
                for u, v in zip(x, y):
                    if isinstance(u, np.ndarray):
                        assert u.shape == v.shape and np.array_equal(u, v, equal_nan=True)
                    else:
                        assert u == v
            compare(
                "cluster empty", new_plot.cluster_plot, orig_plot.cluster_plot, (),
                dict(Fn=e, Xi=e, Lab=e, hide_poles=hide),
            )


def test_helpers_direct():
    """The extracted helpers against the literal original expressions."""
    for _ in range(50):
        n_rows, n_cols = int(rng.integers(1, 30)), int(rng.integers(1, 61))
        Fn, _, _, Fn_cov = pole_tables(n_rows, n_cols, "float_nan")
        step = int(rng.integers(1, 6))
        x = Fn.flatten(order="F")
        y_old = np.array([i // len(Fn) for i in range(len(x))]) * step
        y_new = new_plot._order_axis(Fn, step)
        assert y_old.dtype == y_new.dtype and np.array_equal(y_old, y_new)
        xerr = abs(Fn_cov * Fn).flatten(order="f")
        lo_old = np.where(xerr <= 0.5, xerr, np.nan)
        hi_old = np.where(xerr > 0.5, 0.5, np.nan)
        lo_new, hi_new = new_plot._split_xerr(Fn, Fn_cov)
        assert lo_old.dtype == lo_new.dtype and np.array_equal(lo_old, lo_new, equal_nan=True)
        assert hi_old.dtype == hi_new.dtype and np.array_equal(hi_old, hi_new, equal_nan=True)
        assert np.array_equal(Fn.T.ravel(), Fn.flatten(order="f"), equal_nan=True)
        sv = rng.lognormal(size=(3, 3, 40))
        for k in range(3):
            ref = 10 * np.log10(sv[k, k, :] / sv[0, 0, :][np.argmax(sv[0, 0, :])])
            assert np.array_equal(new_plot._sv_to_db(sv[k, k, :], sv_ref=sv[0, 0, :]), ref)


if __name__ == "__main__":
    test_helpers_direct()
    test_stab_and_cluster()
    test_stab_cluster_edge_cases()
    test_cmif()
    test_empty_tables()
    print(f"{N_CMP} comparisons ({N_EXC} with equal exceptions), {N_MARK} finite marker x-values checked")
    print("PASS")
