"""
Differential test: the library in the tree on PYTHONPATH (CLEAN version of the commit)
against the pristine sources saved next to this file (orig_gen.py = functions/gen.py,
orig_ssi_alg.py = algorithms/ssi.py at HEAD).

  part 1  gen.HC_apply on random pole tables against the original inline sequence of
          HC_conj / HC_damp / HC_phi_comp / HC_cov / applymask (taken from orig_gen),
          and the untouched criterion functions of the new gen.py against orig_gen
  part 2  SSIdat / SSIcov / SSIdat_MS / SSIcov_MS .run() through setup.run_by_name
          against the original classes, random data and run parameters
          (complete hc dictionaries: these are the inputs that worked before)
  part 3  inputs on which the original raised: same exception type

Run:  PYTHONPATH=<tree>/src /venv/bin/python equiv.py
"""

import importlib.util
import logging
import os
import sys
import warnings

os.environ.setdefault("TQDM_DISABLE", "1")
for _v in ("OMP_NUM_THREADS", "OPENBLAS_NUM_THREADS", "MKL_NUM_THREADS"):
    os.environ.setdefault(_v, "1")

import numpy as np  # noqa: E402

warnings.filterwarnings("ignore")
logging.disable(logging.CRITICAL)

import pyoma2.algorithms  # noqa: E402,F401
from pyoma2.algorithms import ssi as new_alg  # noqa: E402
from pyoma2.functions import gen as new_gen  # noqa: E402
from pyoma2.setup import MultiSetup_PreGER, SingleSetup  # noqa: E402

HERE = os.path.dirname(os.path.abspath(__file__))


def _load(modname, filename):
    spec = importlib.util.spec_from_file_location(modname, os.path.join(HERE, filename))
    mod = importlib.util.module_from_spec(spec)
    sys.modules[modname] = mod
    spec.loader.exec_module(mod)
    return mod


orig_gen = _load("pyoma2.functions.orig_gen", "orig_gen.py")
orig_alg = _load("pyoma2.algorithms.orig_ssi_alg", "orig_ssi_alg.py")
orig_alg.gen = orig_gen  # the pristine classes use the pristine helpers

FAILS = []
COUNT = {"ok": 0, "exc": 0}


def same(a, b):
    if a is None or b is None:
        return a is None and b is None
    if isinstance(a, (list, tuple)):
        return (
            isinstance(b, (list, tuple))
            and len(a) == len(b)
            and all(same(x, y) for x, y in zip(a, b))
        )
    a = np.asarray(a)
    b = np.asarray(b)
    if a.shape != b.shape:
        return False
    if a.dtype.kind in "OUS" or b.dtype.kind in "OUS":
        return bool(np.array_equal(a, b))
    if np.array_equal(a, b, equal_nan=True):
        return True
    return bool(np.allclose(a, b, rtol=1e-12, atol=0, equal_nan=True))


def outcome(fn):
    try:
        return ("ok", fn())
    except Exception as e:  # noqa: BLE001
        return ("exc", type(e).__name__)


def compare(label, new, old):
    COUNT[old[0]] += 1
    if new[0] != old[0]:
        FAILS.append(f"{label}: new {new[0]} ({new[1] if new[0] == 'exc' else ''}) vs old {old[0]} ({old[1] if old[0] == 'exc' else ''})")
    elif new[0] == "exc":
        if new[1] != old[1]:
            FAILS.append(f"{label}: exception {new[1]} vs {old[1]}")
    elif not same(new[1], old[1]):
        FAILS.append(f"{label}: outputs differ")


# ----------------------------------------------------------------------------
def random_hc(rng):
    return dict(
        conj=bool(rng.integers(2)),
        xi_max=float(rng.choice([1.0, 0.1, rng.uniform(0.01, 1.0)])),
        mpc_lim=float(rng.choice([0.0, 1.0, 0.7, rng.uniform(0, 1)])),
        mpd_lim=float(rng.choice([0.0, np.pi / 2, 0.3, rng.uniform(0, np.pi / 2)])),
        cov_max=float(rng.choice([0.2, 10.0 ** rng.uniform(-4, 3)])),
    )


def random_tables(rng, with_cov):
    nord = int(rng.integers(3, 9))
    npol = nord + int(rng.integers(0, 3))
    nch = int(rng.integers(1, 6))
    Lam = np.full((npol, nord + 1), np.nan, dtype=complex)
    Phi = np.full((npol, nord + 1, nch), np.nan, dtype=complex)
    for o in range(1, nord + 1):
        k = 0
        while k < min(o, npol):
            lam = complex(rng.normal(-0.5, 1.0), rng.uniform(1, 60))
            if rng.random() < 0.15:
                lam = complex(lam.real, 0.0)
            phi = rng.standard_normal(nch) * np.exp(
                1j * rng.choice([0.05, 0.4, 2.0]) * rng.standard_normal(nch)
            )
            Lam[k, o] = lam
            Phi[k, o] = phi
            k += 1
            if k < min(o, npol) and rng.random() < 0.8:
                Lam[k, o] = np.conj(lam) if rng.random() < 0.85 else np.conj(lam) * (1 + 1e-9)
                Phi[k, o] = np.conj(phi)
                k += 1
    Fn = np.abs(Lam) / (2 * np.pi)
    Xi = -Lam.real / np.abs(Lam)
    covs = (None, None, None)
    if with_cov:
        Fc = np.where(np.isnan(Fn), np.nan, 10.0 ** rng.uniform(-5, 2, Fn.shape))
        Xc = np.where(np.isnan(Fn), np.nan, 10.0 ** rng.uniform(-5, 2, Fn.shape))
        Pc = np.where(np.isnan(Phi.real), np.nan, rng.uniform(0, 1, Phi.shape))
        if rng.random() < 0.5:
            Pc = np.full(Phi.shape, np.nan)
        covs = (Fc, Xc, Pc)
    return Fn, Xi, Phi, Lam, covs


def original_sequence(gen, Fns, Xis, Phis, Lambds, hc, Fn_cov, Xi_cov, Phi_cov):
    """the block that SSIdat.run / SSIdat_MS.run contained at HEAD, verbatim"""
    hc_conj = hc["conj"]
    hc_xi_max = hc["xi_max"]
    hc_mpc_lim = hc["mpc_lim"]
    hc_mpd_lim = hc["mpd_lim"]
    hc_cov_max = hc["cov_max"]

    if hc_conj:
        Lambds, mask1 = gen.HC_conj(Lambds)
        lista = [Fns, Xis, Phis, Fn_cov, Xi_cov, Phi_cov]
        Fns, Xis, Phis, Fn_cov, Xi_cov, Phi_cov = gen.applymask(
            lista, mask1, Phis.shape[2]
        )

    Xis, mask2 = gen.HC_damp(Xis, hc_xi_max)
    lista = [Fns, Lambds, Phis, Fn_cov, Xi_cov, Phi_cov]
    Fns, Lambds, Phis, Fn_cov, Xi_cov, Phi_cov = gen.applymask(
        lista, mask2, Phis.shape[2]
    )

    mask3, mask4 = gen.HC_phi_comp(Phis, hc_mpc_lim, hc_mpd_lim)
    lista = [Fns, Xis, Phis, Lambds, Fn_cov, Xi_cov, Phi_cov]
    Fns, Xis, Phis, Lambds, Fn_cov, Xi_cov, Phi_cov = gen.applymask(
        lista, mask3, Phis.shape[2]
    )
    lista = [Fns, Xis, Phis, Lambds, Fn_cov, Xi_cov, Phi_cov]
    Fns, Xis, Phis, Lambds, Fn_cov, Xi_cov, Phi_cov = gen.applymask(
        lista, mask4, Phis.shape[2]
    )

    if Fn_cov is not None:
        Fn_cov, mask5 = gen.HC_cov(Fn_cov, hc_cov_max)
        lista = [Fns, Xis, Phis, Lambds, Xi_cov, Phi_cov]
        Fns, Xis, Phis, Lambds, Xi_cov, Phi_cov = gen.applymask(
            lista, mask5, Phis.shape[2]
        )
    return Fns, Xis, Phis, Lambds, Fn_cov, Xi_cov, Phi_cov


def part1(rng, n=40):
    for t in range(n):
        with_cov = bool(t % 2)
        Fn, Xi, Phi, Lam, covs = random_tables(rng, with_cov)
        hc = random_hc(rng)
        cp = lambda a: None if a is None else a.copy()  # noqa: E731
        new = outcome(
            lambda: new_gen.HC_apply(
                cp(Fn), cp(Xi), cp(Phi), cp(Lam), dict(hc),
                Fn_cov=cp(covs[0]), Xi_cov=cp(covs[1]), Phi_cov=cp(covs[2]),
            )
        )
        old = outcome(
            lambda: original_sequence(
                orig_gen, cp(Fn), cp(Xi), cp(Phi), cp(Lam), dict(hc),
                cp(covs[0]), cp(covs[1]), cp(covs[2]),
            )
        )
        compare(f"HC_apply #{t} hc={hc}", new, old)
        # the criterion functions themselves
        compare(f"HC_conj #{t}", outcome(lambda: new_gen.HC_conj(cp(Lam))),
                outcome(lambda: orig_gen.HC_conj(cp(Lam))))
        compare(f"HC_damp #{t}", outcome(lambda: new_gen.HC_damp(cp(Xi), hc["xi_max"])),
                outcome(lambda: orig_gen.HC_damp(cp(Xi), hc["xi_max"])))
        compare(f"HC_phi_comp #{t}",
                outcome(lambda: new_gen.HC_phi_comp(cp(Phi), hc["mpc_lim"], hc["mpd_lim"])),
                outcome(lambda: orig_gen.HC_phi_comp(cp(Phi), hc["mpc_lim"], hc["mpd_lim"])))
        if with_cov:
            compare(f"HC_cov #{t}", outcome(lambda: new_gen.HC_cov(cp(covs[0]), hc["cov_max"])),
                    outcome(lambda: orig_gen.HC_cov(cp(covs[0]), hc["cov_max"])))
        mask = rng.random(Fn.shape) < 0.5
        lst = [cp(Fn), cp(Phi), None, cp(Lam)]
        compare(f"applymask #{t}", outcome(lambda: new_gen.applymask(lst, mask, Phi.shape[2])),
                outcome(lambda: orig_gen.applymask(lst, mask, Phi.shape[2])))
        # the settings resolved from a complete dictionary are the dictionary
        lim = new_gen.HC_limits(dict(hc))
        if lim._asdict() != hc or any(type(getattr(lim, k)) is not type(hc[k]) for k in hc):
            FAILS.append(f"HC_limits #{t}: {lim} from {hc}")
    return n


# ----------------------------------------------------------------------------
def signal(rng, nch, nsamp):
    t = np.arange(nsamp) / 50.0
    freqs = rng.uniform(1.0, 20.0, size=4)
    shapes = rng.standard_normal((4, nch))
    y = np.zeros((nsamp, nch))
    for f, s in zip(freqs, shapes):
        drive = np.convolve(
            rng.standard_normal(nsamp),
            np.exp(-0.02 * 2 * np.pi * f * t[:400]) * np.sin(2 * np.pi * f * t[:400]),
        )[:nsamp]
        y += np.outer(drive, s)
    y /= y.std()
    return y + rng.uniform(0.1, 1.0) * rng.standard_normal(y.shape)


RES_FIELDS = [
    "Obs", "A", "C", "H", "Lambds", "Fn_poles", "Xi_poles", "Phi_poles", "Lab",
    "Fn_poles_cov", "Xi_poles_cov", "Phi_poles_cov",
]


def result_fields(res):
    return [getattr(res, f) for f in RES_FIELDS]


def part2(rng, n=24):
    for t in range(n):
        hc = random_hc(rng)
        br = int(rng.integers(4, 8))
        ordmax = min(int(rng.integers(6, 13)), 2 * br - 2)
        ordmin = int(rng.integers(0, 3))
        kind = t % 4
        if kind in (0, 1, 2):  # single setup
            nch = int(rng.integers(2, 6))
            data = signal(rng, nch, 1500)
            calc_unc = kind == 2
            name = ["SSIcov", "SSIdat", "SSIcov"][kind]
            kw = dict(name="alg", br=br, ordmax=ordmax, ordmin=ordmin, hc=hc,
                      calc_unc=calc_unc, nb=10)
            if rng.random() < 0.4:
                kw["ref_ind"] = sorted(rng.choice(nch, size=max(1, nch - 1), replace=False).tolist())
                kw["ordmax"] = ordmax = min(ordmax, br * len(kw["ref_ind"]) - 2)
            if name == "SSIcov" and not calc_unc and rng.random() < 0.5:
                kw["method"] = "cov_R"

            def run(mod):
                ss = SingleSetup(data.copy(), fs=50.0)
                alg = getattr(mod, name)(**{**kw, "hc": dict(hc)})
                ss.add_algorithms(alg)
                ss.run_by_name("alg")
                return result_fields(alg.result)

            label = f"{name}.run #{t} unc={calc_unc} hc={hc}"
        else:
            nref = 2
            d1 = signal(rng, 5, 1500)
            d2 = signal(rng, 5, 1500)
            datasets = [d1[:, :3], d2[:, :4]]
            name = "SSIdat_MS" if rng.random() < 0.5 else "SSIcov_MS"

            def run(mod):
                ms = MultiSetup_PreGER(
                    fs=50.0, ref_ind=[[0, 1], [0, 1]][:nref], datasets=[d.copy() for d in datasets]
                )
                alg = getattr(mod, name)(name="alg", br=br, ordmax=ordmax, ordmin=ordmin, hc=dict(hc))
                ms.add_algorithms(alg)
                ms.run_by_name("alg")
                return result_fields(alg.result)

            label = f"{name}.run #{t} hc={hc}"
        compare(label, outcome(lambda: run(new_alg)), outcome(lambda: run(orig_alg)))
    return n


# ----------------------------------------------------------------------------
def part3(rng):
    Fn, Xi, Phi, Lam, covs = random_tables(rng, True)
    full = dict(conj=True, xi_max=0.1, mpc_lim=0.7, mpd_lim=0.3, cov_max=0.2)
    cases = {
        "xi_max is a string": (Fn, Xi, Phi, Lam, dict(full, xi_max="0.1"), covs),
        "cov_max is a string": (Fn, Xi, Phi, Lam, dict(full, cov_max="a"), covs),
        "Phis is 2-D": (Fn, Xi, Phi[:, :, 0], Lam, dict(full), covs),
        "Lambds is 1-D": (Fn, Xi, Phi, Lam[:, 0], dict(full), covs),
        "mask shape mismatch": (Fn[:-1], Xi, Phi, Lam, dict(full), covs),
        "extra keys are ignored": (Fn, Xi, Phi, Lam, dict(full, foo=1), covs),
        "integer thresholds": (Fn, Xi, Phi, Lam, dict(conj=1, xi_max=1, mpc_lim=0, mpd_lim=1, cov_max=1), covs),
    }
    for label, (f, x, p, lam, hc, cv) in cases.items():
        new = outcome(lambda: new_gen.HC_apply(f, x, p, lam, hc, Fn_cov=cv[0], Xi_cov=cv[1], Phi_cov=cv[2]))
        old = outcome(lambda: original_sequence(orig_gen, f, x, p, lam, hc, cv[0], cv[1], cv[2]))
        compare(f"exception case '{label}'", new, old)
    return len(cases)


def main():
    rng = np.random.default_rng(20240909)
    n1 = part1(rng)
    n2 = part2(rng)
    n3 = part3(rng)
    print(f"compared {n1} random table sets, {n2} runs, {n3} exception cases")
    print(f"original returned normally in {COUNT['ok']} comparisons, raised in {COUNT['exc']}")
    if FAILS:
        print("FAIL")
        for f in FAILS[:30]:
            print("  -", f[:300])
        return 1
    print("PASS")
    return 0


if __name__ == "__main__":
    sys.exit(main())
