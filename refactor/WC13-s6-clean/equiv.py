"""Differential test: CLEAN version of the commit vs. the unmodified library.

Run as:  PYTHONPATH=<tree>/src /venv/bin/python equiv.py   (with the CLEAN version applied)
The pristine sources are the copies orig_functions_fdd.py / orig_algorithms_fdd.py
saved next to this file; they are loaded under the package names so that their
relative imports resolve, without touching the installed tree.
"""
import importlib.util
import logging
import os
import sys
import warnings

os.environ.setdefault("TQDM_DISABLE", "1")  # no progress bars from SD_PreGER

import numpy as np  # noqa: E402

warnings.filterwarnings("ignore")
logging.disable(logging.CRITICAL)
HERE = os.path.dirname(os.path.abspath(__file__))

import pyoma2.algorithms.fdd as new_alg  # noqa: E402
import pyoma2.functions.fdd as new_fun  # noqa: E402


def load(fname, modname, package):
    spec = importlib.util.spec_from_file_location(modname, os.path.join(HERE, fname))
    mod = importlib.util.module_from_spec(spec)
    mod.__package__ = package
    spec.loader.exec_module(mod)
    return mod


old_fun = load("orig_functions_fdd.py", "pyoma2.functions._orig_fdd", "pyoma2.functions")
old_alg = load("orig_algorithms_fdd.py", "pyoma2.algorithms._orig_fdd", "pyoma2.algorithms")
# the pristine algorithm module must call the pristine numerical routines
old_alg.fdd = old_fun

failures = []
ncases = 0


def call(f, *a, **k):
    try:
        return ("ok", f(*a, **k))
    except Exception as exc:  # noqa: BLE001
        return ("exc", type(exc).__name__)


def same(a, b):
    a, b = np.asarray(a), np.asarray(b)
    return a.shape == b.shape and (
        np.array_equal(a, b) or np.allclose(a, b, rtol=1e-12, atol=0, equal_nan=True)
    )


def compare(tag, r_old, r_new, exc_must_match=True):
    global ncases
    ncases += 1
    if r_old[0] != r_new[0]:
        failures.append(f"{tag}: old {r_old[0]} / new {r_new[0]} ({r_old[1] if r_old[0]=='exc' else ''} {r_new[1] if r_new[0]=='exc' else ''})")
        return
    if r_old[0] == "exc":
        return  # both reject the input (the new code raises ValueError by design)
    for k, (x, y) in enumerate(zip(r_old[1], r_new[1])):
        if not same(x, y):
            failures.append(f"{tag}: output {k} differs, max abs diff "
                            f"{np.max(np.abs(np.asarray(x) - np.asarray(y))) if np.shape(x) == np.shape(y) else 'shape'}")


rng = np.random.default_rng(7)
povs = [0.0, 0.25, 0.5, 0.75, 0.5, 0.5, 0.125, 0.9]

# ---- SD_est: random valid configurations ---------------------------------------
for it in range(60):
    n_all = int(rng.integers(1, 9))
    n_ref = int(rng.integers(1, 5))
    nxseg = int(rng.choice([16, 17, 32, 50, 64, 100, 128, 256, 511, 1024]))
    pov = float(rng.choice(povs))
    method = ["per", "cor"][it % 2]
    fs = float(rng.choice([0.3, 1.0, 7.5, 100.0, 1000 / 3, 2048.0]))
    N = nxseg * int(rng.integers(2, 7)) + int(rng.integers(0, nxseg))
    Yall = rng.standard_normal((n_all, N)) * 10 ** rng.uniform(-2, 2)
    kind = it % 4
    if kind == 0:
        Yref = Yall  # same object, as in FDD.run
    elif kind == 1:
        Yref = Yall[rng.permutation(n_all)[: min(n_ref, n_all)]]  # subset, any order
    elif kind == 2:
        Yref = rng.standard_normal((n_ref, N))
    else:
        Yall = np.asfortranarray(Yall).T.copy().T  # non-contiguous view
        Yref = Yall[:1]
    args = (Yall, Yref, 1 / fs)
    kw = dict(nxseg=nxseg, method=method, pov=pov)
    compare(f"SD_est#{it} {Yall.shape}x{Yref.shape} {kw} fs={fs}",
            call(old_fun.SD_est, *args, **kw), call(new_fun.SD_est, *args, **kw))

# positional call, defaults, short record (nxseg > N, as in the unit test), integer data
Y = rng.standard_normal((4, 3000))
compare("SD_est positional", call(old_fun.SD_est, Y, Y[:2], 0.01, 256, "per", 0.25),
        call(new_fun.SD_est, Y, Y[:2], 0.01, 256, "per", 0.25))
compare("SD_est defaults", call(old_fun.SD_est, Y, Y, 0.01), call(new_fun.SD_est, Y, Y, 0.01))
for m in ("per", "cor"):
    Ys = rng.random((10, 1000))
    compare(f"SD_est short {m}", call(old_fun.SD_est, Ys, Ys[:5], 1e-3, nxseg=1024, method=m, pov=0.5),
            call(new_fun.SD_est, Ys, Ys[:5], 1e-3, nxseg=1024, method=m, pov=0.5))
    Yi = rng.integers(-2000, 2000, (3, 2048))
    compare(f"SD_est int {m}", call(old_fun.SD_est, Yi, Yi, 0.02, nxseg=128, method=m),
            call(new_fun.SD_est, Yi, Yi, 0.02, nxseg=128, method=m))
    # inputs the caller still owns must not be modified
    Yc = Y.copy()
    new_fun.SD_est(Yc, Yc, 0.01, nxseg=128, method=m)
    if not np.array_equal(Yc, Y):
        failures.append(f"SD_est modified its input ({m})")
# invalid inputs: both versions must reject them
compare("SD_est bad method", call(old_fun.SD_est, Y, Y, 0.01, method="xyz"), call(new_fun.SD_est, Y, Y, 0.01, method="xyz"))
compare("SD_est length mismatch", call(old_fun.SD_est, Y, Y[:, :-5], 0.01, method="per"),
        call(new_fun.SD_est, Y, Y[:, :-5], 0.01, method="per"))
compare("SD_est pov=1", call(old_fun.SD_est, Y, Y, 0.01, method="per", pov=1.0),
        call(new_fun.SD_est, Y, Y, 0.01, method="per", pov=1.0))

# ---- SD_PreGER -----------------------------------------------------------------------
for it in range(12):
    n_ref = int(rng.integers(1, 4))
    n_setup = int(rng.integers(1, 4))
    nxseg = int(rng.choice([32, 64, 128]))
    pov = float(rng.choice(povs))
    method = ["per", "cor"][it % 2]
    fs = float(rng.choice([10.0, 100.0, 333.0]))
    N = nxseg * 12 + int(rng.integers(0, 20))
    Ys = [{"ref": rng.standard_normal((n_ref, N)),
           "mov": rng.standard_normal((int(rng.integers(1, 4)), N))} for _ in range(n_setup)]
    kw = dict(nxseg=nxseg, pov=pov, method=method)
    compare(f"SD_PreGER#{it} {kw}", call(old_fun.SD_PreGER, Ys, fs, **kw), call(new_fun.SD_PreGER, Ys, fs, **kw))

# ---- FDD.run / EFDD.run / multi-setup run through the algorithm classes ----------------
def run_alg(mod, cls, data, fs, **rp):
    alg = getattr(mod, cls)(name="x", **rp)
    alg._set_data(data=data, fs=fs)
    res = alg.run()
    return res.freq, res.Sy, res.S_val, res.S_vec


for it in range(12):
    nch = int(rng.integers(1, 7))
    nxseg = int(rng.choice([32, 64, 256]))
    pov = float(rng.choice(povs))
    method = ["per", "cor"][it % 2]
    fs = float(rng.choice([5.0, 100.0, 256.0]))
    data = rng.standard_normal((nxseg * 6 + int(rng.integers(0, 30)), nch))
    rp = dict(nxseg=nxseg, method_SD=method, pov=pov)
    for cls in ("FDD", "EFDD"):
        d0 = data.copy()
        compare(f"{cls}.run#{it} {rp}", call(run_alg, old_alg, cls, data, fs, **rp),
                call(run_alg, new_alg, cls, data, fs, **rp))
        if not np.array_equal(d0, data):
            failures.append(f"{cls}.run modified the data")
for it in range(4):
    N = 64 * 10
    Ys = [{"ref": rng.standard_normal((2, N)), "mov": rng.standard_normal((2, N))} for _ in range(2)]
    rp = dict(nxseg=64, method_SD=["per", "cor"][it % 2], pov=[0.5, 0.0][it // 2])
    for cls in ("FDD_MS", "EFDD_MS"):
        compare(f"{cls}.run#{it} {rp}", call(run_alg, old_alg, cls, Ys, 50.0, **rp),
                call(run_alg, new_alg, cls, Ys, 50.0, **rp))

if failures:
    print("FAIL")
    for f in failures:
        print("  ", f)
    sys.exit(1)
print(f"PASS ({ncases} comparisons)")
