"""
Differential test: the library under test (PYTHONPATH) against the pristine gen.py
saved next to this script as orig_gen.py.

Run as:  PYTHONPATH=<tree>/src /venv/bin/python equiv.py
Compares check_on_geo2 (all ten outputs), the geometry stored by def_geo2, and
dfphi_map_func on randomly generated table sets - valid ones and single-fault
corruptions - including the exceptions that are raised.
"""
import copy
import importlib.util
import os
import sys
import warnings

import numpy as np
import pandas as pd

from pyoma2.functions import gen as new
from pyoma2.support.geometry.mixin import GeometryMixin

warnings.filterwarnings("ignore")
HERE = os.path.dirname(os.path.abspath(__file__))
spec = importlib.util.spec_from_file_location("orig_gen", os.path.join(HERE, "orig_gen.py"))
orig = importlib.util.module_from_spec(spec)
spec.loader.exec_module(orig)

XYZ = ["x", "y", "z"]
failures = []


def same(a, b, path="out"):
    """structural comparison of two results; returns a message or None."""
    if isinstance(a, BaseException) or isinstance(b, BaseException):
        if type(a) is not type(b):
            return f"{path}: {type(a).__name__}({a}) vs {type(b).__name__}({b})"
        return None
    if a is None or b is None:
        return None if (a is None and b is None) else f"{path}: None vs not None"
    if isinstance(a, (tuple, list)) and not all(isinstance(x, str) for x in a):
        if len(a) != len(b):
            return f"{path}: length {len(a)} vs {len(b)}"
        for i, (x, y) in enumerate(zip(a, b)):
            m = same(x, y, f"{path}[{i}]")
            if m:
                return m
        return None
    if isinstance(a, (list, tuple)):
        return None if list(a) == list(b) else f"{path}: {a} vs {b}"
    if isinstance(a, pd.DataFrame):
        if not isinstance(b, pd.DataFrame):
            return f"{path}: DataFrame vs {type(b).__name__}"
        if a.index.to_list() != b.index.to_list():
            return f"{path}: index {a.index.to_list()} vs {b.index.to_list()}"
        if a.columns.to_list() != b.columns.to_list():
            return f"{path}: columns {a.columns.to_list()} vs {b.columns.to_list()}"
        try:
            x, y = a.to_numpy(dtype=float), b.to_numpy(dtype=float)
            ok = x.shape == y.shape and (
                np.array_equal(x, y, equal_nan=True)
                or np.allclose(x, y, rtol=1e-12, atol=0, equal_nan=True)
            )
        except (ValueError, TypeError):  # tables holding names
            x, y = a.astype(str).to_numpy(), b.astype(str).to_numpy()
            ok = x.shape == y.shape and np.array_equal(x, y)
        return None if ok else f"{path}: values differ\n{a}\nvs\n{b}"
    a, b = np.asarray(a), np.asarray(b)
    if a.shape != b.shape:
        return f"{path}: shape {a.shape} vs {b.shape}"
    if a.dtype.kind in "fiuc" and b.dtype.kind in "fiuc":
        ok = np.array_equal(a, b, equal_nan=True) or np.allclose(
            a, b, rtol=1e-12, atol=0, equal_nan=True
        )
    else:
        ok = np.array_equal(a.astype(str), b.astype(str))
    return None if ok else f"{path}: arrays differ {a} vs {b}"


def call(fn, *args, **kw):
    try:
        return fn(*args, **kw)
    except Exception as e:  # noqa: BLE001
        return e


# ----------------------------------------------------------------------------
def random_names(rng):
    """(names argument, ref_ind, flattened names) in one of the documented forms."""
    form = rng.choice(["list", "array", "row", "lol", "table"])
    if form in ("list", "array", "row"):
        n = int(rng.integers(1, 13))
        names = [f"s{i + 1}" for i in rng.permutation(n)]
        arg = {"list": list(names), "array": np.array(names), "row": pd.DataFrame([names])}[form]
        return arg, None, names
    n_set = int(rng.integers(2, 5))
    k = int(rng.integers(1, 3))
    n_rov = int(rng.integers(1, 4))
    rows, ref_ind, flat = [], [], [f"REF{i + 1}" for i in range(k)]
    for s in range(n_set):
        pos = sorted(rng.choice(k + n_rov, size=k, replace=False).tolist())
        rov = [f"t{s + 1}_{j + 1}" for j in range(n_rov)]
        row, it = [], iter(rov)
        refs = iter(f"r{j + 1}" for j in range(k))
        for j in range(k + n_rov):
            row.append(next(refs) if j in pos else next(it))
        rows.append(row)
        ref_ind.append(pos)
        flat += rov
    arg = rows if form == "lol" else pd.DataFrame(rows)
    return arg, ref_ind, flat


def random_tables(rng):
    names_arg, ref_ind, flat = random_names(rng)
    n = len(flat)
    n_cstr = int(rng.integers(0, 4))
    cnames = [f"K{i + 1}" for i in range(n_cstr)]
    entries = list(flat) + cnames
    entries += list(rng.choice(entries, size=int(rng.integers(0, 4))))
    n_pts = int(np.ceil(len(entries) / 3)) + int(rng.integers(1, 4))
    cells = [(r, c) for r in range(n_pts) for c in range(3)]
    rng.shuffle(cells)
    smap = pd.DataFrame(np.zeros((n_pts, 3)), columns=XYZ).astype(object)
    for (r, c), e in zip(cells, entries):
        smap.iat[r, c] = str(e)
    for r, c in cells[len(entries):]:
        smap.iat[r, c] = rng.choice([0, 0.0, np.nan])
    fd = {
        "sensors names": names_arg,
        "points coordinates": pd.DataFrame(rng.normal(size=(n_pts, 3)), columns=XYZ),
        "mapping": smap,
    }
    if n_cstr:
        ncol = int(rng.integers(1, n + 1))
        cols = [flat[i] for i in rng.permutation(n)[:ncol]]  # any subset, any order
        w = rng.normal(size=(n_cstr, ncol)).round(2)
        w[rng.random(w.shape) < 0.3] = np.nan
        fd["constraints"] = pd.DataFrame(w, index=cnames, columns=cols)
    elif rng.random() < 0.5:
        fd["constraints"] = pd.DataFrame()
    if rng.random() < 0.6:
        fd["sensors sign"] = pd.DataFrame(rng.choice([-1, 0, 1], size=(n_pts, 3)), columns=XYZ)
    if rng.random() < 0.6:
        fd["sensors lines"] = pd.DataFrame(rng.integers(1, n_pts + 1, size=(3, 2)))
    if rng.random() < 0.5:
        fd["sensors surfaces"] = pd.DataFrame(rng.integers(1, n_pts + 1, size=(2, 3)))
    if rng.random() < 0.5:
        fd["BG nodes"] = pd.DataFrame(rng.normal(size=(4, 3)))
        fd["BG lines"] = pd.DataFrame(rng.integers(1, 5, size=(3, 2)))
        if rng.random() < 0.5:
            fd["BG surfaces"] = pd.DataFrame(rng.integers(1, 5, size=(2, 3)))
    if rng.random() < 0.3:
        fd["INFO"] = pd.DataFrame([["text"]])
    return fd, ref_ind, flat


def corrupt(fd, flat, rng):
    """one fault in a valid table set; returns a label."""
    faults = ["no mapping", "bogus sheet", "pts cols", "map shape", "sign shape", "ghost sensor",
              "bg nodes cols", "bg lines cols", "bg surf cols"]
    if "constraints" in fd and not fd["constraints"].empty:
        faults += ["cstr column", "cstr unused", "cstr column", "cstr unused"]
    f = rng.choice(faults)
    if f == "no mapping":
        del fd["mapping"]
    elif f == "bogus sheet":
        fd["sheet1"] = pd.DataFrame()
    elif f == "pts cols":
        fd["points coordinates"] = fd["points coordinates"].iloc[:, :2]
    elif f == "map shape":
        fd["mapping"] = fd["mapping"].iloc[:-1]
    elif f == "sign shape":
        fd["sensors sign"] = pd.DataFrame(np.ones((2, 2)))
    elif f == "ghost sensor":
        n = fd["sensors names"]
        if isinstance(n, list) and n and isinstance(n[0], str):
            fd["sensors names"] = n + ["ghost"]
        elif isinstance(n, np.ndarray):
            fd["sensors names"] = np.append(n, "ghost")
        elif isinstance(n, list):
            fd["sensors names"] = [list(r) for r in n[:-1]] + [list(n[-1]) + ["ghost"]]
        else:
            m = n.copy()
            m[m.shape[1]] = [None] * (len(m) - 1) + ["ghost"]
            fd["sensors names"] = m
    elif f == "bg nodes cols":
        fd["BG nodes"] = pd.DataFrame(np.zeros((3, 2)))
    elif f == "bg lines cols":
        fd["BG lines"] = pd.DataFrame(np.ones((3, 3), dtype=int))
    elif f == "bg surf cols":
        fd["BG surfaces"] = pd.DataFrame(np.ones((3, 2), dtype=int))
    elif f == "cstr column":
        c = fd["constraints"]
        fd["constraints"] = c.rename(columns={c.columns[0]: "nobody"})
    elif f == "cstr unused":
        c = fd["constraints"]
        fd["constraints"] = c.rename(index={c.index[-1]: "K99"})
    return f


class Setup(GeometryMixin):
    pass


def run_case(i, fd, ref_ind, flat, rng, label):
    a = call(orig.check_on_geo2, copy.deepcopy(fd), ref_ind=ref_ind)
    b = call(new.check_on_geo2, copy.deepcopy(fd), ref_ind=ref_ind)
    m = same(a, b, f"case {i} [{label}] check_on_geo2")
    if m:
        failures.append(m)
        return
    if isinstance(a, BaseException):
        return "raised"
    # the mixin stores what the (new) check returns
    s = Setup()
    if ref_ind is not None:
        s.ref_ind = ref_ind
    kw = {k2: copy.deepcopy(fd[k1]) for k1, k2 in [
        ("constraints", "cstr"), ("sensors sign", "sens_sign"), ("sensors lines", "sens_lines"),
        ("sensors surfaces", "sens_surf"), ("BG nodes", "bg_nodes"), ("BG lines", "bg_lines"),
        ("BG surfaces", "bg_surf")] if k1 in fd}
    s.def_geo2(copy.deepcopy(fd["sensors names"]), fd["points coordinates"].copy(),
               fd["mapping"].copy(), **kw)
    g = s.geo2
    stored = (g.sens_names, g.pts_coord, g.sens_map, g.cstrn, g.sens_sign, g.sens_lines,
              g.sens_surf, g.bg_nodes, g.bg_lines, g.bg_surf)
    m = same(a, stored, f"case {i} [{label}] def_geo2")
    if m:
        failures.append(m)
        return
    # mapping of mode shapes through both implementations, each fed by its own check
    for _ in range(3):
        phi = rng.normal(size=len(flat))
        pa = call(orig.dfphi_map_func, phi, a[0], a[2], cstrn=a[3])
        pb = call(new.dfphi_map_func, phi, b[0], b[2], cstrn=b[3])
        m = same(pa, pb, f"case {i} [{label}] dfphi_map_func")
        if m:
            failures.append(m)
            return
    # argument forms and malformed mode shapes
    phi = rng.normal(size=len(flat))
    for label2, p, nm in [
        ("list phi", phi.tolist(), a[0]),
        ("names as array", phi, np.array(a[0])),
        ("short phi", phi[:-1], a[0]),
        ("long phi", np.append(phi, 1.0), a[0]),
        ("2D phi", np.column_stack([phi, phi]), a[0]),
        ("no constraints arg", phi, a[0]),
    ]:
        c1 = None if label2 == "no constraints arg" or a[3] is None else a[3]
        has_c = a[3] is not None and any(k in set(a[2].astype(str).to_numpy().ravel()) for k in a[3].index)
        if label2 == "no constraints arg" and has_c:
            continue  # constraint names would be left unmapped in both; not a valid call
        pa = call(orig.dfphi_map_func, p, nm, a[2], cstrn=c1)
        pb = call(new.dfphi_map_func, p, nm, b[2], cstrn=None if c1 is None else b[3])
        m = same(pa, pb, f"case {i} [{label}] dfphi_map_func/{label2}")
        if m:
            failures.append(m)
            return
    return "ok"


def main():
    rng = np.random.default_rng(2019)
    n_ok = n_raised = 0
    n_cstr_perm = 0
    for i in range(60):
        fd, ref_ind, flat = random_tables(rng)
        label = "valid"
        if i % 3 == 2:
            label = corrupt(fd, flat, rng)
        c = fd.get("constraints")
        if label == "valid" and c is not None and not c.empty and c.columns.to_list() != flat[: c.shape[1]]:
            n_cstr_perm += 1
        r = run_case(i, fd, ref_ind, flat, rng, label)
        n_ok += r == "ok"
        n_raised += r == "raised"
    print(f"cases: {n_ok} geometries compared, {n_raised} identical exceptions, "
          f"{n_cstr_perm} valid cases with constraints columns not a prefix of the sensor order")
    if failures:
        print("FAIL")
        for f in failures[:10]:
            print(" -", f)
        return 1
    print("PASS")
    return 0


if __name__ == "__main__":
    sys.exit(main())
