"""Differential test: library under PYTHONPATH (CLEAN version) against the pristine
sources saved next to this file (orig_functions_fdd.py, orig_algorithms_fdd.py).

Run as:  PYTHONPATH=<tree>/src /venv/bin/python equiv.py
Prints PASS and exits 0 when every output (and every raised exception type) agrees.
"""
import importlib.util
import logging
import os
import sys
import warnings

import numpy as np

logging.disable(logging.CRITICAL)
warnings.simplefilter("ignore")
os.environ.setdefault("TQDM_DISABLE", "1")

HERE = os.path.dirname(os.path.abspath(__file__))


def _load(name, fname, package=None):
    spec = importlib.util.spec_from_file_location(name, os.path.join(HERE, fname))
    mod = importlib.util.module_from_spec(spec)
    sys.modules[name] = mod
    spec.loader.exec_module(mod)
    return mod


import pyoma2.functions.fdd as new_f  # noqa: E402
import pyoma2.algorithms.fdd as new_a  # noqa: E402

# the pristine numerical module has a relative import (.gen): load it as a sibling of
# the real package so that it resolves, under a different name
old_f = _load("pyoma2.functions._orig_fdd", "orig_functions_fdd.py")
# the pristine algorithm module must use the pristine numerical module
_src = open(os.path.join(HERE, "orig_algorithms_fdd.py")).read()
_src = _src.replace(
    "from pyoma2.functions import fdd, plot",
    "from pyoma2.functions import plot\nfrom pyoma2.functions import _orig_fdd as fdd",
)
old_a = type(sys)("pyoma2.algorithms._orig_fdd")
old_a.__file__ = os.path.join(HERE, "orig_algorithms_fdd.py")
sys.modules[old_a.__name__] = old_a
exec(compile(_src, old_a.__file__, "exec"), old_a.__dict__)
assert old_a.fdd is old_f and new_a.fdd is new_f

n_cmp = 0
n_ok = 0
fails = []


def same(a, b):
    if isinstance(a, (list, tuple)):
        return (
            isinstance(b, (list, tuple))
            and len(a) == len(b)
            and all(same(x, y) for x, y in zip(a, b))
        )
    a, b = np.asarray(a), np.asarray(b)
    if a.shape != b.shape:
        return False
    if np.array_equal(a, b, equal_nan=True):
        return True
    return bool(np.allclose(a, b, rtol=1e-12, atol=0.0, equal_nan=True))


def call(f, *a, **k):
    try:
        return ("ok", f(*a, **k))
    except Exception as e:  # noqa: BLE001
        return ("exc", type(e))


def compare(label, r_old, r_new):
    global n_cmp, n_ok
    n_cmp += 1
    n_ok += r_old[0] == "ok" and r_new[0] == "ok"
    if r_old[0] != r_new[0]:
        fails.append(f"{label}: old {r_old[0]} {r_old[1] if r_old[0]=='exc' else ''} / "
                     f"new {r_new[0]} {r_new[1] if r_new[0]=='exc' else ''}")
    elif r_old[0] == "exc":
        if r_old[1] is not r_new[1]:
            fails.append(f"{label}: exception {r_old[1].__name__} vs {r_new[1].__name__}")
    elif not same(r_old[1], r_new[1]):
        fails.append(f"{label}: outputs differ")


def sdof_Sy(rng, fs, nxseg, fn, xi, phi, floor, scale):
    Nf = nxseg // 2 + 1
    freq = np.arange(Nf) * fs / nxseg
    H2 = 1.0 / ((fn**2 - freq**2) ** 2 + (2 * xi * fn * freq) ** 2)
    H2 /= H2.max()
    Sy = np.einsum("i,j,k->ijk", phi, phi, H2).astype(complex)
    Sy += floor * np.eye(len(phi))[:, :, None]
    return freq, scale * Sy


rng = np.random.default_rng(20240607)

# ---------------------------------------------------------------- 1. EFDD_mpe / SDOF bell
# exact SDOF bells (the property's inputs), many scales / channel counts / fs / nxseg
for it in range(16):
    fs = float(rng.choice([1.0, 20.0, 100.0, 256.0, 1000.0]))
    nxseg = int(rng.choice([1024, 2048, 4096]))
    while True:
        xi = rng.uniform(0.02, 0.05)
        fn = rng.uniform(0.04, 0.25) * fs
        if 2 * xi * fn >= 4 * fs / nxseg and fn * nxseg / 2 / fs >= 30:
            break
    nch = int(rng.integers(2, 7))
    phi = rng.uniform(-1, 1, nch)
    phi[rng.integers(nch)] = 1.0
    scale = float(10.0 ** rng.uniform(-14, 8))
    freq, Sy = sdof_Sy(rng, fs, nxseg, fn, xi, phi, 1e-9, scale)
    method = ["EFDD", "FSDD"][it % 2]
    kw = dict(method=method, DF1=3 * fs / nxseg, DF2=rng.uniform(4, 8) * 2 * xi * fn)
    sel = [[fn], np.array([fn]), (fn,)][it % 3]
    compare(
        f"EFDD_mpe sdof #{it}",
        call(old_f.EFDD_mpe, Sy, freq, 1 / fs, sel, "per", **kw),
        call(new_f.EFDD_mpe, Sy, freq, 1 / fs, sel, "per", **kw),
    )
    # the helper itself, with the FDD shape as reference
    Sval, Svec = old_f.SD_svalsvec(Sy)
    _, Phi = old_f.FDD_mpe(Sval, Svec, freq, [fn], DF=kw["DF1"])
    for cm in (1, 2):
        compare(
            f"SDOF_bellandMS sdof #{it} cm={cm}",
            call(old_f.SDOF_bellandMS, Sy, 1 / fs, fn, Phi[:, 0], method, cm, 0.85, kw["DF2"]),
            call(new_f.SDOF_bellandMS, Sy, 1 / fs, fn, Phi[:, 0], method, cm, 0.85, kw["DF2"]),
        )

# random (unstructured) spectra as in the unit tests: real and complex dtype, several
# selected frequencies, both spectrum conventions (and an unknown one), short fits
for it in range(14):
    nch = int(rng.integers(2, 6))
    nf = int(rng.choice([100, 129, 257]))
    Sy = rng.random((nch, nch, nf))
    if it % 2:
        Sy = Sy + 1j * rng.random((nch, nch, nf))
    freq = np.linspace(0, 1, nf)
    sel = sorted(rng.uniform(0.15, 0.85, int(rng.integers(1, 4))).tolist())
    if it % 3 == 0:
        sel = sel[::-1]
    kw = dict(
        methodSy=["per", "cor", "paer"][it % 3],
        method=["FSDD", "EFDD"][it % 2],
        npmax=int(rng.integers(2, 4)),
        sppk=int(rng.integers(0, 3)),
        DF1=float(rng.uniform(0.05, 0.15)),
        DF2=float(rng.uniform(0.3, 1.0)),
        MAClim=float(rng.uniform(0.0, 0.6)),
        cm=int(rng.integers(1, 3)),
    )
    compare(
        f"EFDD_mpe random #{it}",
        call(old_f.EFDD_mpe, Sy=Sy, freq=freq, dt=0.1, sel_freq=sel, **kw),
        call(new_f.EFDD_mpe, Sy=Sy, freq=freq, dt=0.1, sel_freq=sel, **kw),
    )
    phi = rng.random(nch) + 1j * rng.random(nch)
    args = (Sy, 0.01, float(rng.uniform(5, 40)), phi, kw["method"], kw["cm"], kw["MAClim"], 5.0)
    compare(
        f"SDOF_bellandMS random #{it}",
        call(old_f.SDOF_bellandMS, *args),
        call(new_f.SDOF_bellandMS, *args),
    )

# inputs on which both versions must refuse with the same exception type
nf = 129
Syr = rng.random((3, 3, nf))
fr = np.linspace(0, 1, nf)
bad = {
    "empty bell (MAClim > 1)": dict(Sy=Syr, freq=fr, dt=0.1, sel_freq=[0.5], methodSy="per",
                                    MAClim=1.5, npmax=2),
    "unknown method": dict(Sy=Syr, freq=fr, dt=0.1, sel_freq=[0.5], methodSy="per",
                           method="XFDD", npmax=2),
    "2-D Sy": dict(Sy=Syr[:, :, 0], freq=fr, dt=0.1, sel_freq=[0.5], methodSy="per"),
    "all-zero Sy": dict(Sy=np.zeros((3, 3, nf)), freq=fr, dt=0.1, sel_freq=[0.5],
                        methodSy="per", npmax=2),
    "too few extrema": dict(Sy=Syr, freq=fr, dt=0.1, sel_freq=[0.5], methodSy="per",
                            npmax=5000),
}
for label, kw in bad.items():
    compare("EFDD_mpe " + label, call(old_f.EFDD_mpe, **kw), call(new_f.EFDD_mpe, **kw))
# empty selection: both return empty results
kw = dict(Sy=Syr, freq=fr, dt=0.1, sel_freq=[], methodSy="per")
compare("EFDD_mpe empty selection", call(old_f.EFDD_mpe, **kw), call(new_f.EFDD_mpe, **kw))

# ---------------------------------------------------------------- 2. algorithm classes
from pyoma2.setup import SingleSetup  # noqa: E402


def run_class(mod, clsname, data, fs, run_kw, mpe_kw, twice):
    algo = getattr(mod, clsname)(name="a", **run_kw)
    ss = SingleSetup(data.copy(), fs=fs)
    ss.add_algorithms(algo)
    ss.run_all()
    ss.mpe("a", **mpe_kw)
    if twice:  # a second estimate on the same object
        ss.mpe("a", **dict(mpe_kw, DF2=mpe_kw.get("DF2", 1.0) * 0.8))
    r, p = algo.result, algo.run_params
    fp = [[np.asarray(x) for x in row] for row in r.forPlot]
    return [r.Fn, r.Xi, r.Phi, r.freq, r.Sy, r.S_val, fp,
            np.asarray(p.sel_freq, dtype=float), p.DF1, p.DF2, p.cm, p.MAClim, p.sppk, p.npmax]


for it in range(6):
    fs = float(rng.choice([50.0, 100.0, 200.0]))
    n = 30000
    nch = int(rng.integers(2, 5))
    # two lightly damped oscillators driven by white noise, mixed into nch channels
    f0 = np.array([0.08, 0.19]) * fs * rng.uniform(0.9, 1.1, 2)
    z0 = rng.uniform(0.02, 0.04, 2)
    t = np.arange(2048) / fs
    q = np.zeros((n, 2))
    for k in range(2):
        wd = 2 * np.pi * f0[k] * np.sqrt(1 - z0[k] ** 2)
        h = np.exp(-z0[k] * 2 * np.pi * f0[k] * t) * np.sin(wd * t)
        q[:, k] = np.convolve(rng.standard_normal(n), h)[:n]
    data = q @ rng.uniform(-1, 1, (2, nch)) + 0.01 * rng.standard_normal((n, nch))
    data *= float(10.0 ** rng.uniform(-6, 2))
    clsname = ["EFDD", "FSDD"][it % 2]
    run_kw = dict(nxseg=int(rng.choice([1024, 2048])), method_SD=["per", "cor"][it % 2])
    mpe_kw = dict(sel_freq=[[f0[0], f0[1]], [f0[1]], np.array([f0[0]])][it % 3],
                  DF1=fs / run_kw["nxseg"] * 4, DF2=0.12 * fs, MAClim=0.9)
    compare(
        f"{clsname}.mpe #{it}",
        call(run_class, old_a, clsname, data, fs, run_kw, mpe_kw, it % 2 == 0),
        call(run_class, new_a, clsname, data, fs, run_kw, mpe_kw, it % 2 == 0),
    )

# mpe before run: both refuse
compare(
    "EFDD.mpe before run",
    call(lambda: old_a.EFDD(name="x").mpe(sel_freq=[1.0])),
    call(lambda: new_a.EFDD(name="x").mpe(sel_freq=[1.0])),
)

if fails:
    print("FAIL (%d of %d comparisons)" % (len(fails), n_cmp))
    for f in fails:
        print("  ", f)
    sys.exit(1)
print("PASS (%d comparisons, %d of them with results rather than exceptions)" % (n_cmp, n_ok))
