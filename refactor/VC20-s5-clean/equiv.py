"""
Differential test: CLEAN version of the commit vs. the unmodified library.

Run as:  PYTHONPATH=<tree>/src /venv/bin/python equiv.py
The pristine implementations are loaded from orig_plot.py / orig_ssi.py (copies of the
files at HEAD saved next to this script). For random pole tables / configurations the
artists produced by both versions are compared array by array (array_equal with NaN
treated as equal, allclose(rtol=1e-12) for the error-bar segments), together with
labels, limits, legend texts and raised exceptions.
"""
import importlib.util
import logging
import os
import sys
import warnings

import matplotlib

matplotlib.use("Agg")
import matplotlib.pyplot as plt  # noqa: E402
import numpy as np  # noqa: E402

warnings.filterwarnings("ignore")
os.environ.setdefault("TQDM_DISABLE", "1")
logging.disable(logging.CRITICAL)

import pyoma2.algorithms  # noqa: E402,F401
import pyoma2.functions  # noqa: E402,F401
from pyoma2.algorithms import ssi as new_ssi  # noqa: E402
from pyoma2.functions import plot as new_plot  # noqa: E402

HERE = os.path.dirname(os.path.abspath(__file__))


def load(name, fname):
    spec = importlib.util.spec_from_file_location(name, os.path.join(HERE, fname))
    mod = importlib.util.module_from_spec(spec)
    sys.modules[name] = mod
    spec.loader.exec_module(mod)
    return mod


orig_plot = load("pyoma2.functions._orig_plot", "orig_plot.py")
orig_ssi = load("pyoma2.algorithms._orig_ssi", "orig_ssi.py")
orig_ssi.plot = orig_plot  # the pristine classes call the pristine plotting functions

DIFFS = []


def snapshot(ax):
    """Everything data-related that the axes carry."""
    snap = {"lines": [], "offsets": [], "segments": [], "text": []}
    for ln in ax.get_lines():
        snap["lines"].append(
            (
                str(ln.get_marker()),
                str(ln.get_color()),
                np.asarray(ln.get_xdata(), dtype=float),
                np.asarray(ln.get_ydata(), dtype=float),
            )
        )
    for col in ax.collections:
        if hasattr(col, "get_segments") and type(col).__name__ == "LineCollection":
            segs = col.get_segments()
            snap["segments"].append(
                np.concatenate([np.asarray(s, dtype=float).ravel() for s in segs])
                if len(segs)
                else np.zeros(0)
            )
        else:
            off = np.ma.filled(np.ma.asarray(col.get_offsets(), dtype=float), np.nan)
            snap["offsets"].append(off)
    leg = ax.get_legend()
    snap["text"] = [
        ax.get_title(),
        ax.get_xlabel(),
        ax.get_ylabel(),
        tuple(t.get_text() for t in leg.get_texts()) if leg else None,
    ]
    snap["xlim"] = np.asarray(ax.get_xlim(), dtype=float)
    snap["ylim"] = np.asarray(ax.get_ylim(), dtype=float)
    return snap


def finite_markers(snap):
    pts = []
    for marker, _, x, y in snap["lines"]:
        if marker == "o":
            ok = np.isfinite(x) & np.isfinite(y)
            pts += [("line", a, b) for a, b in zip(x[ok].tolist(), y[ok].tolist())]
    for off in snap["offsets"]:
        if off.size:
            ok = np.isfinite(off).all(axis=1)
            pts += [("scatter", a, b) for a, b in off[ok].tolist()]
    return sorted(pts)


def same(a, b, exact=True):
    a, b = np.asarray(a), np.asarray(b)
    if a.shape != b.shape:
        return False
    if exact:
        return np.array_equal(a, b, equal_nan=True)
    return np.allclose(a, b, rtol=1e-12, atol=0, equal_nan=True)


def compare(tag, snap_o, snap_n, full=True):
    if finite_markers(snap_o) != finite_markers(snap_n):
        DIFFS.append(f"{tag}: finite markers differ")
        return
    if not full:
        return
    if snap_o["text"] != snap_n["text"]:
        DIFFS.append(f"{tag}: texts differ {snap_o['text']} vs {snap_n['text']}")
    for key in ("xlim", "ylim"):
        if not same(snap_o[key], snap_n[key], exact=False):
            DIFFS.append(f"{tag}: {key} differ {snap_o[key]} vs {snap_n[key]}")
    if len(snap_o["lines"]) != len(snap_n["lines"]):
        DIFFS.append(f"{tag}: number of lines differs")
    else:
        for i, (lo, ln) in enumerate(zip(snap_o["lines"], snap_n["lines"])):
            if lo[:2] != ln[:2] or not same(lo[2], ln[2]) or not same(lo[3], ln[3]):
                DIFFS.append(f"{tag}: line {i} differs")
    for key, exact in (("offsets", True), ("segments", False)):
        if len(snap_o[key]) != len(snap_n[key]):
            DIFFS.append(f"{tag}: number of {key} differs")
        else:
            for i, (o, n) in enumerate(zip(snap_o[key], snap_n[key])):
                if not same(o, n, exact=exact):
                    DIFFS.append(f"{tag}: {key} {i} differ")


def call(func, *args, **kwargs):
    """Return ('ok', snapshot) or ('exc', exception type name)."""
    try:
        _, ax = func(*args, **kwargs)
        snap = snapshot(ax)
        return "ok", snap
    except Exception as e:  # noqa: BLE001
        return "exc", type(e).__name__
    finally:
        plt.close("all")


def both(tag, f_orig, f_new, args, kwargs, full=True):
    ro = call(f_orig, *args, **kwargs)
    rn = call(f_new, *args, **kwargs)
    if ro[0] != rn[0]:
        DIFFS.append(f"{tag}: outcome differs: orig {ro[0]} {ro[1] if ro[0]=='exc' else ''} / new {rn[0]} {rn[1] if rn[0]=='exc' else ''}")
    elif ro[0] == "exc":
        if ro[1] != rn[1]:
            DIFFS.append(f"{tag}: exception differs: {ro[1]} vs {rn[1]}")
    else:
        compare(tag, ro[1], rn[1], full=full)


def random_tables(rng):
    nrows = int(rng.integers(1, 40))
    ncols = int(rng.integers(1, 62))
    Fn = rng.uniform(0.1, 50.0, (nrows, ncols))
    Xi = rng.uniform(-0.02, 0.12, (nrows, ncols))
    nan_rate = rng.choice([0.0, 0.3, 0.8])
    Fn[rng.random((nrows, ncols)) < nan_rate] = np.nan
    Xi[rng.random((nrows, ncols)) < 0.5 * nan_rate] = np.nan
    p_stable = rng.choice([0.0, 0.1, 0.5, 1.0])
    Lab = (rng.random((nrows, ncols)) < p_stable).astype(int)
    if rng.random() < 0.3:  # label table with its own NaN pattern
        Lab = Lab.astype(float)
        Lab[rng.random((nrows, ncols)) < 0.2] = np.nan
    cov = rng.uniform(0.0, 0.3, (nrows, ncols))
    cov[rng.random((nrows, ncols)) < 0.5 * nan_rate] = np.nan
    return Fn, Xi, Lab, cov


def function_level(rng, n_cases=30):
    n = 0
    for c in range(n_cases):
        Fn, Xi, Lab, cov = random_tables(rng)
        step = int(rng.integers(1, 5))
        ordmax = (Fn.shape[1] - 1) * step
        ordmin = int(rng.integers(0, ordmax + 1))
        freqlim = None if rng.random() < 0.4 else tuple(sorted(rng.uniform(0, 50, 2)))
        # the new version leaves the axes empty when there is no labelled finite pole at all,
        # the old one hands all-NaN arrays to the artists: only the finite markers compare then
        full = bool(np.isfinite(Fn[(Lab == 1) | (Lab == 0)]).any())
        for hide in (True, False):
            for use_cov in (False, True):
                kw = dict(ordmin=ordmin, freqlim=freqlim, hide_poles=hide, Fn_cov=cov if use_cov else None)
                both(f"stab_plot case {c} {Fn.shape} step={step} hide={hide} cov={use_cov}", orig_plot.stab_plot, new_plot.stab_plot, (Fn, Lab, step, ordmax), kw, full)
                n += 1
            kw = dict(ordmin=ordmin, freqlim=freqlim, hide_poles=hide)
            both(f"cluster_plot case {c} {Fn.shape} hide={hide}", orig_plot.cluster_plot, new_plot.cluster_plot, (Fn, Xi, Lab), kw, full)
            n += 1
    # drawing on axes supplied by the caller (as SelFromPlot does)
    for c in range(5):
        Fn, Xi, Lab, cov = random_tables(rng)
        full = bool(np.isfinite(Fn[(Lab == 1) | (Lab == 0)]).any())
        for hide in (True, False):
            def on_own_axes(f, hide=hide):
                fig, ax = plt.subplots()
                return f(Fn, Lab, 1, Fn.shape[1] - 1, ordmin=0, freqlim=(1, 30), hide_poles=hide, fig=fig, ax=ax)
            both(f"stab_plot own axes case {c} hide={hide}", lambda: on_own_axes(orig_plot.stab_plot), lambda: on_own_axes(new_plot.stab_plot), (), {}, full)
            n += 1
    # inputs that both versions reject
    Fn, Xi, Lab, cov = random_tables(np.random.default_rng(1))
    bad_lab = np.zeros((Fn.shape[0] + 1, Fn.shape[1] + 2), dtype=int)
    both("stab_plot shape mismatch", orig_plot.stab_plot, new_plot.stab_plot, (Fn, bad_lab, 1, 10), {})
    both("stab_plot shape mismatch hide=False", orig_plot.stab_plot, new_plot.stab_plot, (Fn, bad_lab, 1, 10), dict(hide_poles=False))
    both("cluster_plot shape mismatch", orig_plot.cluster_plot, new_plot.cluster_plot, (Fn, Xi, bad_lab), {})
    return n + 3


def synthetic_data(rng, nch, fs=40.0, N=2400):
    t = np.arange(N) / fs
    y = np.zeros((N, nch))
    for f0 in rng.uniform(1.0, 15.0, 3):
        shape = rng.standard_normal(nch)
        env = np.convolve(rng.standard_normal(N), np.exp(-0.02 * 2 * np.pi * f0 * t[:400]) * np.sin(2 * np.pi * f0 * t[:400]), mode="same")
        y += np.outer(env, shape)
    y += 0.05 * y.std() * rng.standard_normal(y.shape)
    return y, fs


def class_level(rng):
    n = 0
    configs = [
        ("SSIcov", dict(br=10, ordmax=14)),
        ("SSIdat", dict(br=8, ordmax=12, ordmin=4)),
        ("SSIcov", dict(br=10, ordmax=12, sc=dict(err_fn=1e-9, err_xi=1e-9, err_phi=1e-9))),
        ("SSIcov", dict(br=6, ordmax=8, calc_unc=True, nb=10)),
        ("SSIdat", dict(br=8, ordmax=10, ref_ind=[0, 2])),
    ]
    for i, (cls, kw) in enumerate(configs):
        data, fs = synthetic_data(rng, nch=int(rng.integers(3, 6)))
        a_new = getattr(new_ssi, cls)(name="a", **kw)
        a_old = getattr(orig_ssi, cls)(name="a", **kw)
        # before the run both refuse to plot
        both(f"{cls} #{i} plot_stab before run", a_old.plot_stab, a_new.plot_stab, (), {})
        both(f"{cls} #{i} plot_cluster before run", a_old.plot_cluster, a_new.plot_cluster, (), {})
        a_new._set_data(data, fs)
        a_old._set_data(data, fs)
        res = a_new.run()
        a_new._set_result(res)
        a_old._set_result(res.model_copy(deep=True))
        n += 2
        for hide in (True, False):
            for lim in (None, (1.0, 15.0)):
                both(f"{cls} #{i} {kw} plot_stab hide={hide} lim={lim}", a_old.plot_stab, a_new.plot_stab, (), dict(freqlim=lim, hide_poles=hide))
                both(f"{cls} #{i} {kw} plot_cluster hide={hide} lim={lim}", a_old.plot_cluster, a_new.plot_cluster, (), dict(freqlim=lim, hide_poles=hide))
                n += 2
        # the tables kept in the result must not be touched by plotting
        for name in ("Fn_poles", "Xi_poles", "Lab", "Fn_poles_cov"):
            o, nw = getattr(a_old.result, name), getattr(a_new.result, name)
            if (o is None) != (nw is None) or (o is not None and not same(o, nw)):
                DIFFS.append(f"{cls} #{i}: result.{name} differs after plotting")
    return n


def main():
    rng = np.random.default_rng(2020)
    n = function_level(rng)
    n += class_level(rng)
    if DIFFS:
        print(f"FAIL ({len(DIFFS)} differences in {n} comparisons)")
        for d in DIFFS[:20]:
            print("  -", d)
        sys.exit(1)
    print(f"PASS ({n} comparisons, no difference)")
    sys.exit(0)


if __name__ == "__main__":
    main()
