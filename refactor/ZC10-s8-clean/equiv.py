"""
Differential test: the library on PYTHONPATH (CLEAN version of the commit)
against the pristine sources saved next to this file (orig_gen.py, orig_ssi.py).

Run as:  PYTHONPATH=<tree>/src /venv/bin/python equiv.py
Prints PASS and exits 0 when every output (or raised exception type) agrees.
"""

import importlib.util
import logging
import os
import sys
import warnings

import numpy as np

warnings.filterwarnings("ignore")
logging.disable(logging.CRITICAL)
os.environ.setdefault("TQDM_DISABLE", "1")

import pyoma2.algorithms.ssi as new_ssi  # noqa: E402
from pyoma2.functions import gen as new_gen  # noqa: E402

HERE = os.path.dirname(os.path.abspath(__file__))


def load(name, fname):
    spec = importlib.util.spec_from_file_location(name, os.path.join(HERE, fname))
    mod = importlib.util.module_from_spec(spec)
    sys.modules[name] = mod
    spec.loader.exec_module(mod)
    return mod


orig_gen = load("pyoma2.functions._orig_gen", "orig_gen.py")
orig_ssi = load("pyoma2.algorithms._orig_ssi", "orig_ssi.py")
orig_ssi.gen = orig_gen  # the pristine algorithms call the pristine SC_apply


def same(a, b):
    if a is None or b is None:
        return a is None and b is None
    if isinstance(a, (list, tuple)):
        return len(a) == len(b) and all(same(x, y) for x, y in zip(a, b))
    a = np.asarray(a)
    b = np.asarray(b)
    if a.shape != b.shape or a.dtype != b.dtype:
        return False
    if np.array_equal(a, b, equal_nan=True):
        return True
    return np.allclose(a, b, rtol=1e-12, atol=0, equal_nan=True)


def outcome(fun, *args, **kwargs):
    try:
        return "ok", fun(*args, **kwargs)
    except Exception as e:  # noqa: BLE001
        return "raised", type(e)


def make_tables(rng, n_poles, n_cols, n_ch, cplx, p_nan, empty_cols=()):
    base_f = np.sort(rng.uniform(0.5, 50.0, size=4))
    base_x = rng.uniform(0.002, 0.08, size=4)
    base_p = rng.normal(size=(4, n_ch)) + (1j * rng.normal(size=(4, n_ch)) if cplx else 0)
    q = rng.integers(0, 4, size=(n_poles, n_cols))
    lvl = rng.choice([1e-5, 1e-3, 1e-2, 1e-1], size=(n_poles, n_cols))
    Fn = base_f[q] * (1 + lvl * rng.normal(size=q.shape))
    Xi = np.abs(base_x[q] * (1 + 5 * lvl * rng.normal(size=q.shape)))
    noise = rng.normal(size=(n_poles, n_cols, n_ch)) + (
        1j * rng.normal(size=(n_poles, n_cols, n_ch)) if cplx else 0
    )
    Phi = base_p[q] + 3 * lvl[..., None] * noise
    # duplicates inside an order
    for c in range(n_cols):
        if n_poles > 2 and rng.random() < 0.4:
            Fn[1, c], Xi[1, c], Phi[1, c] = Fn[0, c], Xi[0, c], np.conj(Phi[0, c])
    hole = rng.random(Fn.shape) < p_nan
    for c in empty_cols:
        hole[:, c] = True
    Fn[hole] = np.nan
    Xi[hole] = np.nan
    Phi[hole] = np.nan
    return Fn, Xi, Phi


def check_sc_apply(rng, problems):
    n_cases = 0
    for case in range(120):
        step = int(rng.choice([1, 1, 1, 2, 3]))
        n_cols = int(rng.integers(1, 41))
        ordmax = (n_cols - 1) * step + int(rng.integers(0, step))
        n_poles = int(rng.integers(1, 30))
        n_ch = int(rng.integers(1, 7))
        empty = tuple(rng.integers(0, n_cols, size=int(rng.integers(0, 3))))
        Fn, Xi, Phi = make_tables(
            rng, n_poles, n_cols, n_ch, cplx=bool(rng.integers(0, 2)),
            p_nan=float(rng.choice([0.0, 0.1, 0.4, 0.9])), empty_cols=empty,
        )
        kind = case % 6
        if kind == 4:
            ordmin = ordmax + int(rng.integers(1, 4))  # nothing inspected
        elif kind == 5:
            ordmin = int(rng.integers(0, ordmax + 1))
            ordmax = ordmax + step * int(rng.integers(1, 3))  # beyond the table
        else:
            ordmin = int(rng.integers(0, ordmax + 1))
        tol = (
            float(rng.choice([0.0, 0.001, 0.01, 0.1, 1.0])),
            float(rng.choice([0.0, 0.01, 0.05, 0.5, 2.0])),
            float(rng.choice([0.0, 0.005, 0.03, 0.3, 1.5])),
        )
        args = (ordmin, ordmax, step) + tol
        copies = (Fn.copy(), Xi.copy(), Phi.copy())
        a = outcome(orig_gen.SC_apply, Fn, Xi, Phi, *args)
        b = outcome(new_gen.SC_apply, *copies, *args)
        n_cases += 1
        if a[0] != b[0] or (a[0] == "raised" and a[1] is not b[1]):
            problems.append(f"SC_apply case {case} {args}: {a[0]} {a[1] if a[0] == 'raised' else ''} vs {b[0]} {b[1] if b[0] == 'raised' else ''}")
        elif a[0] == "ok" and not same(a[1], b[1]):
            problems.append(f"SC_apply case {case} {args}: labels differ in {int(np.sum(a[1] != b[1]))} cells")
        for x, y in zip((Fn, Xi, Phi), copies):
            if not np.array_equal(x, y, equal_nan=True):
                problems.append(f"SC_apply case {case}: inputs changed differently")
    # keyword form used by the new call sites
    Fn, Xi, Phi = make_tables(rng, 12, 15, 4, True, 0.2)
    a = orig_gen.SC_apply(Fn, Xi, Phi, 3, 14, 1, 0.01, 0.05, 0.03)
    b = new_gen.SC_apply(
        Fn=Fn, Xi=Xi, Phi=Phi, ordmin=3, ordmax=14, step=1, err_fn=0.01, err_xi=0.05, err_phi=0.03
    )
    if not same(a, b):
        problems.append("SC_apply keyword call differs")
    return n_cases + 1


def synth(rng, n, n_ch, fs):
    t = np.arange(n) / fs
    y = np.zeros((n, n_ch))
    for f in (3.0, 8.5, 15.0, 15.6):
        w = 2 * np.pi * f
        h = np.exp(-0.012 * w * t[:500]) * np.sin(w * t[:500])
        qq = np.convolve(rng.normal(size=n), h)[:n]
        y += np.outer(qq / qq.std(), rng.normal(size=n_ch))
    return y + 0.05 * rng.normal(size=y.shape)


def compare_results(tag, ra, rb, problems):
    if ra[0] != rb[0] or (ra[0] == "raised" and ra[1] is not rb[1]):
        problems.append(f"{tag}: {ra} vs {rb}")
        return
    if ra[0] == "raised":
        return
    da, db = dict(ra[1]), dict(rb[1])
    if da.keys() != db.keys():
        problems.append(f"{tag}: result fields differ")
        return
    for k in da:
        if not same(da[k], db[k]):
            problems.append(f"{tag}: field {k} differs")


def run_alg(cls, data, fs, params):
    alg = cls(name="x", **params)
    alg._set_data(data=data, fs=fs)
    return alg.run()


def check_algorithms(rng, problems):
    fs = 50.0
    n_cases = 0
    single = [
        ("SSIcov", dict(br=8, ordmax=16)),
        ("SSIcov", dict(br=8, ordmax=16, ordmin=5)),
        ("SSIcov", dict(br=10, ordmax=20, ordmin=19)),
        ("SSIcov", dict(br=8, ordmax=15, ordmin=1, ref_ind=[0, 2])),
        # step > 1 stops inside SSI_poles in the pristine library already
        ("SSIcov", dict(br=10, ordmax=20, ordmin=4, step=2)),
        ("SSIcov", dict(br=8, ordmax=16, ordmin=16, sc=dict(err_fn=0.05, err_xi=0.2, err_phi=0.1))),
        ("SSIcov", dict(br=8, ordmax=12, ordmin=14)),
        ("SSIcov", dict(br=8, ordmax=12, sc=dict(err_fn=0.0, err_xi=0.05, err_phi=0.03))),
        ("SSIcov", dict(br=8, ordmax=12, sc=dict(err_fn=0.01, err_phi=0.03))),
        ("SSIdat", dict(br=6, ordmax=12, ordmin=3)),
        ("SSIdat", dict(br=6, ordmax=12, ordmin=0, ref_ind=[1, 0])),
        ("SSIcov", dict(br=8, ordmax=14, ordmin=2, method="cov_R",
                        hc=dict(conj=False, xi_max=0.2, mpc_lim=0.5, mpd_lim=0.5, cov_max=0.2))),
        ("SSIcov", dict(br=6, ordmax=10, ordmin=2, calc_unc=True, nb=5)),
    ]
    for name, params in single:
        data = synth(rng, 1500, 4, fs)
        ra = outcome(run_alg, getattr(orig_ssi, name), data.copy(), fs, dict(params))
        rb = outcome(run_alg, getattr(new_ssi, name), data.copy(), fs, dict(params))
        compare_results(f"{name}.run {params}", ra, rb, problems)
        n_cases += 1

    multi = [
        ("SSIcov_MS", dict(br=8, ordmax=14)),
        ("SSIcov_MS", dict(br=8, ordmax=14, ordmin=6)),
        ("SSIdat_MS", dict(br=6, ordmax=10, ordmin=3)),
        ("SSIcov_MS", dict(br=8, ordmax=12, ordmin=12, sc=dict(err_fn=0.1, err_xi=0.5, err_phi=0.2))),
        ("SSIcov_MS", dict(br=8, ordmax=12, sc=dict(err_xi=0.5, err_phi=0.2))),
    ]
    for name, params in multi:
        full = [synth(rng, 1200, 5, fs) for _ in range(2)]
        data = [dict(ref=d[:, :2].T.copy(), mov=d[:, 2:].T.copy()) for d in full]
        data2 = [dict(ref=d["ref"].copy(), mov=d["mov"].copy()) for d in data]
        ra = outcome(run_alg, getattr(orig_ssi, name), data, fs, dict(params))
        rb = outcome(run_alg, getattr(new_ssi, name), data2, fs, dict(params))
        compare_results(f"{name}.run {params}", ra, rb, problems)
        n_cases += 1
    return n_cases


def main():
    rng = np.random.default_rng(31415)
    problems = []
    n1 = check_sc_apply(rng, problems)
    n2 = check_algorithms(rng, problems)
    print(f"{n1} SC_apply configurations, {n2} algorithm runs compared")
    if problems:
        print("FAIL")
        for p in problems[:15]:
            print("  " + p)
        return 1
    print("PASS")
    return 0


if __name__ == "__main__":
    sys.exit(main())
