"""
Differential test: the library in the tree (CLEAN version applied) against the pristine
implementation kept in orig_gen.py / orig_multi.py next to this file.

Run as:  PYTHONPATH=<tree>/src /venv/bin/python equiv.py
Prints PASS and exits 0 when every compared output (or raised exception) agrees.
"""
import importlib.util
import logging
import os
import re
import sys
import types

import numpy as np

logging.disable(logging.CRITICAL)

from pyoma2.functions import gen as new_gen  # noqa: E402
from pyoma2.setup import multi as new_multi  # noqa: E402

HERE = os.path.dirname(os.path.abspath(__file__))


def load(name, fname):
    spec = importlib.util.spec_from_file_location(name, os.path.join(HERE, fname))
    mod = importlib.util.module_from_spec(spec)
    sys.modules[name] = mod
    spec.loader.exec_module(mod)
    return mod


orig_gen = load("orig_gen", "orig_gen.py")
orig_multi = load("orig_multi", "orig_multi.py")
# the pristine calling layer must use the pristine merge routine
orig_multi.merge_mode_shapes = orig_gen.merge_mode_shapes
orig_multi.pre_multisetup = orig_gen.pre_multisetup

problems = []
n_compared = 0


def outcome(func, *args, **kwargs):
    try:
        return "ok", func(*args, **kwargs)
    except Exception as exc:  # noqa: BLE001
        # the shapes quoted in the MSF message depend on whether the scale factors are
        # computed per mode or for all modes at once; type and wording must agree
        return "exc", (type(exc), re.sub(r"\(\d+, \d+\)", "(shape)", str(exc)))


def same_array(a, b):
    a, b = np.asarray(a), np.asarray(b)
    if a.shape != b.shape or a.dtype != b.dtype:
        return False
    if a.dtype.kind in "US":
        return bool(np.array_equal(a, b))
    if np.array_equal(a, b, equal_nan=True):
        return True
    return bool(np.allclose(a, b, rtol=1e-12, atol=0.0, equal_nan=True))


def compare(label, res_new, res_old):
    global n_compared
    n_compared += 1
    if res_new[0] != res_old[0]:
        problems.append(f"{label}: new -> {res_new[0]} {res_new[1]!r:.120}, old -> {res_old[0]} {res_old[1]!r:.120}")
        return
    if res_new[0] == "exc":
        if res_new[1] != res_old[1]:
            problems.append(f"{label}: exceptions differ: {res_new[1]} vs {res_old[1]}")
        return
    new, old = res_new[1], res_old[1]
    if isinstance(old, (list, tuple)) and not isinstance(old, np.ndarray):
        if isinstance(old[0] if len(old) else None, str):
            if list(new) != list(old):
                problems.append(f"{label}: {new} vs {old}")
            return
        if len(new) != len(old) or not all(same_array(x, y) for x, y in zip(new, old)):
            problems.append(f"{label}: sequences of arrays differ")
        return
    if not same_array(new, old):
        problems.append(
            f"{label}: arrays differ (shapes {np.shape(new)} / {np.shape(old)}, "
            f"dtypes {np.asarray(new).dtype} / {np.asarray(old).dtype})"
        )


def random_setups(rng, proportional):
    n_setups = int(rng.integers(1, 6))
    n_ref = int(rng.integers(1, 5))
    n_modes = int(rng.integers(1, 9))
    kind = rng.choice(["real", "complex", "int"])
    n_rov = [int(rng.integers(0, 6)) for _ in range(n_setups)]
    n_dof = n_ref + sum(n_rov)
    G = rng.standard_normal((n_dof, n_modes))
    if kind == "complex":
        G = G + 1j * rng.standard_normal((n_dof, n_modes))
    phis, ref_ind, names = [], [], []
    nxt = n_ref
    for s in range(n_setups):
        n_ch = n_ref + n_rov[s]
        pos = rng.choice(n_ch, size=n_ref, replace=False)
        if rng.random() < 0.5:
            pos = np.sort(pos)
        ref_ind.append([int(p) for p in pos])
        if proportional:
            chans = [None] * n_ch
            for k, p in enumerate(pos):
                chans[p] = k
            it = iter(range(nxt, nxt + n_rov[s]))
            chans = [c if c is not None else next(it) for c in chans]
            nxt += n_rov[s]
            fac = rng.uniform(0.05, 20, n_modes) * rng.choice([-1.0, 1.0], n_modes)
            phi = G[chans, :] * fac[None, :]
        else:
            phi = rng.standard_normal((n_ch, n_modes))
            if kind == "complex":
                phi = phi + 1j * rng.standard_normal((n_ch, n_modes))
        if kind == "int":
            phi = np.round(5 * phi).astype(int)
            phi[phi == 0] = 1
        phis.append(phi)
        names.append([f"s{s}c{c}" for c in range(n_ch)])
    return phis, ref_ind, names


def fake_setups(rng, phis, n_alg):
    n_modes = phis[0].shape[1]
    setups = []
    for s, phi in enumerate(phis):
        algs = {}
        for a in range(n_alg):
            res = types.SimpleNamespace(
                Fn=rng.uniform(1, 30, n_modes),
                Xi=rng.uniform(0.001, 0.1, n_modes),
                Phi=phi * (a + 1.5) if a else phi,
            )
            algs[f"alg{a}_{s}"] = types.SimpleNamespace(name=f"alg{a}_{s}", result=res)
        setups.append(types.SimpleNamespace(algorithms=algs))
    return setups


def run_poser(mod, ref_ind, setups, names, twice):
    msp = mod.MultiSetup_PoSER(ref_ind=ref_ind, single_setups=setups, names=names)
    out = msp.merge_results()
    if twice:
        out = msp.merge_results()
    assert out is msp.result
    flat = []
    for name in names:
        r = out[name]
        flat += [r.Phi, r.Fn, r.Fn_cov, r.Xi, r.Xi_cov]
    return flat + [np.array(list(out.keys()))]


def main():
    rng = np.random.default_rng(7)

    # 1. merge_mode_shapes on valid inputs (proportional and arbitrary arrays)
    for j in range(120):
        phis, ref_ind, names = random_setups(rng, proportional=j % 2 == 0)
        compare(
            f"merge_mode_shapes #{j}",
            outcome(new_gen.merge_mode_shapes, [p.copy() for p in phis], ref_ind),
            outcome(orig_gen.merge_mode_shapes, [p.copy() for p in phis], ref_ind),
        )
        # inputs must not be modified
        before = [p.copy() for p in phis]
        outcome(new_gen.merge_mode_shapes, phis, ref_ind)
        if not all(np.array_equal(a, b) for a, b in zip(before, phis)):
            problems.append(f"merge_mode_shapes #{j}: inputs modified")
        if len(phis) > 1:
            compare(
                f"flatten_sns_names #{j}",
                outcome(new_gen.flatten_sns_names, names, ref_ind),
                outcome(orig_gen.flatten_sns_names, names, ref_ind),
            )
        a, b = phis[0][ref_ind[0], :], phis[-1][ref_ind[-1], :]
        compare(f"MSF #{j}", outcome(new_gen.MSF, a, b), outcome(orig_gen.MSF, a, b))

    # 2. the unit-test inputs
    ms = [np.array([[1, 2], [3, 4]]), np.array([[5, 6], [7, 8]])]
    compare(
        "unit-test input",
        outcome(new_gen.merge_mode_shapes, ms, [[0], [1]]),
        outcome(orig_gen.merge_mode_shapes, ms, [[0], [1]]),
    )

    # 3. invalid inputs: the same exception must come out
    bad = [
        # different number of modes
        ([np.ones((2, 2)), np.ones((2, 1))], [[0], [1], [2]]),
        ([np.ones((3, 2)), np.ones((3, 2)), np.ones((3, 3))], [[0], [1], [2]]),
        # different number of reference sensors
        ([rng.standard_normal((4, 2)), rng.standard_normal((4, 2))], [[0, 1], [2]]),
        # reference list shorter than the list of setups
        ([rng.standard_normal((4, 2)), rng.standard_normal((4, 2))], [[0, 1]]),
        # reference index outside the channel list
        ([rng.standard_normal((3, 2)), rng.standard_normal((3, 2))], [[0], [5]]),
        ([rng.standard_normal((3, 2)), rng.standard_normal((3, 2))], [[4], [0]]),
    ]
    for j, (phis, ref_ind) in enumerate(bad):
        compare(
            f"invalid input #{j}",
            outcome(new_gen.merge_mode_shapes, phis, ref_ind),
            outcome(orig_gen.merge_mode_shapes, phis, ref_ind),
        )

    # 4. MultiSetup_PoSER.merge_results with 1..3 algorithms per setup
    for j in range(40):
        while True:
            phis, ref_ind, _ = random_setups(rng, proportional=j % 2 == 0)
            if len(phis) >= 2:
                break
        n_alg = 1 + j % 3
        names = [f"name{a}" for a in range(n_alg)]
        state = rng.bit_generator.state
        setups_new = fake_setups(rng, phis, n_alg)
        rng.bit_generator.state = state
        setups_old = fake_setups(rng, phis, n_alg)
        compare(
            f"merge_results #{j}",
            outcome(run_poser, new_multi, ref_ind, setups_new, names, j % 4 == 3),
            outcome(run_poser, orig_multi, ref_ind, setups_old, names, j % 4 == 3),
        )

    # 5. constructor checks are untouched
    for j, kwargs in enumerate(
        [
            dict(ref_ind=[], single_setups=[], names=[]),
            dict(ref_ind=[[0]], single_setups=[types.SimpleNamespace(algorithms={})] * 2, names=["a"]),
        ]
    ):
        compare(
            f"constructor #{j}",
            outcome(lambda kw=kwargs: new_multi.MultiSetup_PoSER(**kw) and 0),
            outcome(lambda kw=kwargs: orig_multi.MultiSetup_PoSER(**kw) and 0),
        )

    if problems:
        print("FAIL")
        for p in problems[:15]:
            print("  -", p)
        print(f"  ({len(problems)} of {n_compared} comparisons differ)")
        return 1
    print(f"PASS ({n_compared} comparisons)")
    return 0


if __name__ == "__main__":
    sys.exit(main())
