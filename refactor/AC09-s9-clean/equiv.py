"""
Differential test: CLEAN version of the commit vs. the unmodified library.

The pristine sources are loaded from orig_gen.py and orig_ssi_algorithms.py (copies of
src/pyoma2/functions/gen.py and src/pyoma2/algorithms/ssi.py at HEAD) and compared
with the modules found on PYTHONPATH on randomly generated inputs / configurations.

Run:  PYTHONPATH=<tree>/src /venv/bin/python equiv.py
"""
import importlib.util
import logging
import os
import sys
import warnings

import numpy as np
from scipy import signal

warnings.filterwarnings("ignore")
logging.disable(logging.CRITICAL)
import tqdm  # noqa: E402

_orig_init = tqdm.tqdm.__init__


def _quiet(self, *a, **k):
    k["disable"] = True
    _orig_init(self, *a, **k)


tqdm.tqdm.__init__ = _quiet

import pyoma2.algorithms  # noqa: E402,F401
from pyoma2.algorithms import ssi as new_alg  # noqa: E402
from pyoma2.functions import gen as new_gen  # noqa: E402
from pyoma2.setup import MultiSetup_PreGER, SingleSetup  # noqa: E402

HERE = os.path.dirname(os.path.abspath(__file__))


def load(name, fname):
    spec = importlib.util.spec_from_file_location(name, os.path.join(HERE, fname))
    mod = importlib.util.module_from_spec(spec)
    sys.modules[name] = mod
    spec.loader.exec_module(mod)
    return mod


old_gen = load("pyoma2.functions._orig_gen", "orig_gen.py")
old_alg = load("pyoma2.algorithms._orig_ssi", "orig_ssi_algorithms.py")
old_alg.gen = old_gen  # the pristine run() methods use the pristine criteria

failures = []
n_cases = 0


def same(a, b):
    if a is None or b is None:
        return a is None and b is None
    if isinstance(a, (tuple, list)):
        return (
            isinstance(b, (tuple, list))
            and len(a) == len(b)
            and all(same(x, y) for x, y in zip(a, b))
        )
    a, b = np.asarray(a), np.asarray(b)
    if a.shape != b.shape:
        return False
    if a.dtype == object or b.dtype == object:
        return bool(np.all(a == b))
    return bool(np.allclose(a, b, rtol=1e-12, atol=0, equal_nan=True))


def call(f, *a, **k):
    try:
        return ("ok", f(*a, **k))
    except Exception as e:  # noqa: BLE001
        return ("exc", type(e).__name__)


def compare(tag, f_old, f_new, *a, **k):
    global n_cases
    n_cases += 1
    r_old, r_new = call(f_old, *a, **k), call(f_new, *a, **k)
    if r_old[0] != r_new[0]:
        failures.append(f"{tag}: {r_old[0]} vs {r_new[0]} ({r_old[1] if r_old[0]=='exc' else r_new[1]})")
    elif r_old[0] == "exc":
        if r_old[1] != r_new[1]:
            failures.append(f"{tag}: exception {r_old[1]} vs {r_new[1]}")
    elif not same(r_old[1], r_new[1]):
        failures.append(f"{tag}: outputs differ")


def random_tables(rng):
    P = int(rng.integers(3, 9))
    O = int(rng.integers(3, 9))
    N = int(rng.integers(2, 6))
    lam = rng.standard_normal((P, O)) * 3 + 1j * rng.standard_normal((P, O)) * 30
    # make a good share of conjugate pairs, some lonely values, some NaN
    for o in range(O):
        for i in range(0, P - 1, 2):
            if rng.random() < 0.7:
                lam[i + 1, o] = np.conj(lam[i, o])
    hole = rng.random((P, O)) < 0.2
    lam[hole] = np.nan
    fn = np.abs(lam) / (2 * np.pi)
    xi = -lam.real / np.abs(lam)
    phi = rng.standard_normal((P, O, N)) + 1j * rng.standard_normal((P, O, N)) * rng.random((P, O, 1))
    phi[hole] = np.nan
    fcov = np.abs(rng.standard_normal((P, O))) * 10.0 ** rng.integers(-4, 1, (P, O))
    fcov[hole] = np.nan
    xcov = np.abs(rng.standard_normal((P, O)))
    xcov[hole] = np.nan
    pcov = np.abs(rng.standard_normal((P, O, N)))
    pcov[hole] = np.nan
    return fn, xi, phi, lam, fcov, xcov, pcov


def random_hc(rng):
    hc = dict(
        conj=bool(rng.random() < 0.5),
        xi_max=[1.0, float(rng.uniform(0.01, 1.0))][int(rng.random() < 0.8)],
        mpc_lim=[0, 0.0, 1.0, float(rng.uniform(0, 1))][int(rng.integers(0, 4))],
        mpd_lim=[0, 0.0, np.pi / 2, float(rng.uniform(0, np.pi / 2)), float(rng.uniform(0, 0.6))][int(rng.integers(0, 5))],
        cov_max=float(10.0 ** rng.uniform(-4, 1)),
    )
    keys = list(hc)
    rng.shuffle(keys)
    return {k: hc[k] for k in keys}


def function_level(rng, n=30):
    for c in range(n):
        fn, xi, phi, lam, fcov, xcov, pcov = random_tables(rng)
        hc = random_hc(rng)
        compare(f"HC_conj#{c}", old_gen.HC_conj, new_gen.HC_conj, lam.copy())
        compare(f"HC_damp#{c}", old_gen.HC_damp, new_gen.HC_damp, xi.copy(), hc["xi_max"])
        compare(f"HC_phi_comp#{c}", old_gen.HC_phi_comp, new_gen.HC_phi_comp, phi.copy(), hc["mpc_lim"], hc["mpd_lim"])
        compare(f"HC_cov#{c}", old_gen.HC_cov, new_gen.HC_cov, fcov.copy(), hc["cov_max"])
        # applymask: boolean and 0/1 integer masks, None entries, explicit len_phi
        mask = rng.random(fn.shape) < 0.6
        for m in (mask, mask.astype(int)):
            lista = [fn, xi, phi, lam, None if c % 2 else fcov, xcov, pcov]
            compare(f"applymask#{c}", old_gen.applymask, new_gen.applymask, lista, m, phi.shape[2])
            # new short form against the old explicit form
            global n_cases
            n_cases += 1
            if not same(old_gen.applymask(lista, m, phi.shape[2]), new_gen.applymask(lista, m)):
                failures.append(f"applymask(short form)#{c}: outputs differ")
        # limits: the helper against plain indexing, whatever the key order
        n_cases += 1
        exp = (hc["conj"], hc["xi_max"], hc["mpc_lim"], hc["mpd_lim"], hc["cov_max"])
        got = new_gen.HC_limits(hc)
        if got != exp or [type(x) for x in got] != [type(x) for x in exp]:
            failures.append(f"HC_limits#{c}: {got} != {exp}")
    # raised exceptions
    fn, xi, phi, lam, fcov, xcov, pcov = random_tables(rng)
    compare("applymask bad mask shape", old_gen.applymask, new_gen.applymask, [fn, phi], np.ones((2, 2), bool), phi.shape[2])
    compare("applymask bad len_phi", old_gen.applymask, new_gen.applymask, [fn, phi], np.ones(fn.shape, bool), phi.shape[2] + 1)
    compare("HC_damp None limit", old_gen.HC_damp, new_gen.HC_damp, xi, None)
    compare("HC_cov None limit", old_gen.HC_cov, new_gen.HC_cov, fcov, None)
    compare("HC_conj 1D", old_gen.HC_conj, new_gen.HC_conj, lam[:, 0])
    compare("HC_phi_comp None limits", old_gen.HC_phi_comp, new_gen.HC_phi_comp, phi, None, None)


def synth(n, nch, fs, seed):
    rng = np.random.default_rng(seed)
    fnat = np.array([2.0, 5.5, 9.0, 13.0])[:nch]
    xi = np.array([0.01, 0.02, 0.015, 0.03])[:nch]
    phi = np.array(
        [[np.sin((2 * j + 1) * np.pi * (i + 1) / (2 * nch + 1)) for j in range(nch)] for i in range(nch)]
    )
    y = np.zeros((n, nch))
    for j in range(nch):
        w = 2 * np.pi * fnat[j]
        sysd = signal.lti([1.0], [1, 2 * xi[j] * w, w * w]).to_discrete(1 / fs)
        _, q = signal.dlsim(sysd, rng.standard_normal(n))
        y += np.outer(q[:, 0], phi[:, j])
    y /= y.std()
    y += 0.08 * rng.standard_normal(y.shape)
    return y


FIELDS = ["Fn_poles", "Xi_poles", "Phi_poles", "Lambds", "Lab", "Fn_poles_cov", "Xi_poles_cov", "Phi_poles_cov"]


def run_single(mod, cls, y, fs, **kw):
    ss = SingleSetup(y, fs)
    a = getattr(mod, cls)(name="a", **kw)
    ss.add_algorithms(a)
    ss.run_by_name("a")
    return [getattr(a.result, f) for f in FIELDS]


def run_multi(mod, cls, ys, fs, **kw):
    ms = MultiSetup_PreGER(fs=fs, ref_ind=[[0, 1]] * len(ys), datasets=ys)
    a = getattr(mod, cls)(name="a", **kw)
    ms.add_algorithms(a)
    ms.run_by_name("a")
    return [getattr(a.result, f) for f in FIELDS]


def run_level(rng, n=8):
    fs = 50.0
    for c in range(n):
        nch = int(rng.integers(3, 5))
        y = synth(1500, nch, fs, seed=100 + c)
        hc = random_hc(rng)
        ordmax = int(rng.integers(8, 15))
        compare(f"SSIdat.run#{c} hc={hc}", lambda **k: run_single(old_alg, "SSIdat", y, fs, **k),
                lambda **k: run_single(new_alg, "SSIdat", y, fs, **k), br=8, ordmax=ordmax, hc=dict(hc))
        hc = random_hc(rng)
        compare(f"SSIcov.run(calc_unc)#{c} hc={hc}", lambda **k: run_single(old_alg, "SSIcov", y, fs, **k),
                lambda **k: run_single(new_alg, "SSIcov", y, fs, **k), br=7, ordmax=10, calc_unc=True, nb=8, hc=dict(hc))
        hc = random_hc(rng)
        ys = [synth(1200, 3, fs, seed=200 + c), synth(1200, 3, fs, seed=300 + c)]
        cls = ["SSIcov_MS", "SSIdat_MS"][c % 2]
        compare(f"{cls}.run#{c} hc={hc}", lambda **k: run_multi(old_alg, cls, ys, fs, **k),
                lambda **k: run_multi(new_alg, cls, ys, fs, **k), br=8, ordmax=12, hc=dict(hc))
    # default settings
    y = synth(1500, 4, fs, seed=7)
    compare("SSIcov.run defaults", lambda **k: run_single(old_alg, "SSIcov", y, fs, **k),
            lambda **k: run_single(new_alg, "SSIcov", y, fs, **k), br=8, ordmax=14)


def main():
    rng = np.random.default_rng(20240909)
    function_level(rng)
    run_level(rng)
    print(f"{n_cases} comparisons")
    if failures:
        print("FAIL")
        for f in failures[:20]:
            print("  ", f)
        return 1
    print("PASS")
    return 0


if __name__ == "__main__":
    sys.exit(main())
