"""
Equivalence check of the C09 refactoring (hard validation criteria).

Compares the refactored code in the worktree with the pristine HEAD copies
(orig_*.py in this directory):

  1. function level : gen.applymask, gen.HC_conj, gen.HC_damp, gen.HC_phi_comp
  2. algorithm level: SSIdat, SSIcov, SSIdat_MS, SSIcov_MS, pLSCF, pLSCF_MS
                      run() + mpe() + mpe_from_plot() for many combinations of
                      the hard criteria (conj on/off, xi_max, mpc_lim, mpd_lim,
                      cov_max, uncertainty on/off, ref_ind not ascending)

Everything has to be IDENTICAL: type, dtype, shape, NaN pattern of the real and
of the imaginary parts, values (bitwise equality of the non-NaN entries).
Prints PASS and exits 0 on success.
"""

import importlib.util
import os
import sys
import warnings

import numpy as np

HERE = os.path.dirname(os.path.abspath(__file__))
SRC = os.path.join(os.path.dirname(HERE), "src")
sys.path.insert(0, SRC)

os.environ.setdefault("TQDM_DISABLE", "1")
warnings.filterwarnings("ignore")
import logging  # noqa: E402

logging.disable(logging.CRITICAL)

import matplotlib  # noqa: E402

matplotlib.use("Agg")

from scipy import signal  # noqa: E402

import pyoma2.algorithms.plscf as new_aplscf  # noqa: E402
import pyoma2.algorithms.ssi as new_assi  # noqa: E402
from pyoma2.functions import gen as new_gen  # noqa: E402
from pyoma2.setup import MultiSetup_PreGER, SingleSetup  # noqa: E402


def _load(name, fname):
    spec = importlib.util.spec_from_file_location(name, os.path.join(HERE, fname))
    mod = importlib.util.module_from_spec(spec)
    sys.modules[name] = mod
    spec.loader.exec_module(mod)
    return mod


orig_gen = _load("orig_gen_C09", "orig_functions_gen.py")
# the algorithm modules use a relative import (.base) -> load them inside the package
orig_assi = _load("pyoma2.algorithms._orig_ssi_C09", "orig_algorithms_ssi.py")
orig_aplscf = _load("pyoma2.algorithms._orig_plscf_C09", "orig_algorithms_plscf.py")
# ... and let the ORIGINAL algorithm classes call the ORIGINAL criteria functions
orig_assi.gen = orig_gen
orig_aplscf.gen = orig_gen
assert new_assi.gen is new_gen and new_aplscf.gen is new_gen
assert orig_gen.HC_conj is not new_gen.HC_conj

N_CHECKS = 0
MPE_STATUS = {}


# ----------------------------------------------------------------------------
# strict comparison
# ----------------------------------------------------------------------------
def same(a, b, where=""):
    global N_CHECKS
    N_CHECKS += 1
    if a is None or b is None:
        assert a is None and b is None, f"{where}: None mismatch"
        return
    if isinstance(a, (list, tuple)):
        assert type(a) is type(b), f"{where}: {type(a)} vs {type(b)}"
        assert len(a) == len(b), f"{where}: len {len(a)} vs {len(b)}"
        for k, (x, y) in enumerate(zip(a, b)):
            same(x, y, f"{where}[{k}]")
        return
    if isinstance(a, np.ndarray) or isinstance(b, np.ndarray):
        assert isinstance(a, np.ndarray) and isinstance(b, np.ndarray), f"{where}: type"
        assert a.dtype == b.dtype, f"{where}: dtype {a.dtype} vs {b.dtype}"
        assert a.shape == b.shape, f"{where}: shape {a.shape} vs {b.shape}"
        if a.dtype.kind == "c":
            same(np.ascontiguousarray(a.real), np.ascontiguousarray(b.real), where + ".re")
            same(np.ascontiguousarray(a.imag), np.ascontiguousarray(b.imag), where + ".im")
            return
        if a.dtype.kind == "f":
            na, nb = np.isnan(a), np.isnan(b)
            assert np.array_equal(na, nb), f"{where}: NaN pattern differs"
            assert np.array_equal(a[~na], b[~nb]), f"{where}: values differ"
            # the sign of zero has to agree as well
            assert np.array_equal(np.signbit(a[~na]), np.signbit(b[~nb])), f"{where}: -0"
            return
        assert np.array_equal(a, b), f"{where}: values differ"
        return
    assert type(a) is type(b), f"{where}: {type(a)} vs {type(b)}"
    assert a == b, f"{where}: {a!r} vs {b!r}"


def both(f_orig, f_new, *args, where=""):
    """call both versions on (copies of) the same arguments; equal outputs or equal exceptions"""

    def call(f):
        cargs = [x.copy() if isinstance(x, np.ndarray) else x for x in args]
        try:
            return ("ok", f(*cargs), cargs)
        except Exception as exc:  # noqa: BLE001
            return ("exc", type(exc), cargs)

    ko, ro, ao = call(f_orig)
    kn, rn, an = call(f_new)
    assert ko == kn, f"{where}: {ko} {ro} vs {kn} {rn}"
    if ko == "exc":
        assert ro is rn, f"{where}: {ro} vs {rn}"
    else:
        same(ro, rn, where)
    # neither version may modify its arguments
    for k, (x, y, z) in enumerate(zip(args, ao, an)):
        if isinstance(x, np.ndarray):
            same(x, y, f"{where}: orig modified arg {k}")
            same(x, z, f"{where}: new modified arg {k}")
    return ro


# ----------------------------------------------------------------------------
# 1. function level
# ----------------------------------------------------------------------------
def random_lambdas(rng, n_pol, n_ord):
    """pole table with conjugate pairs, lone poles, real poles, NaN padding, +-0 imaginary parts"""
    lam = np.full((n_pol, n_ord), np.nan, dtype=complex)
    for j in range(n_ord):
        n = int(rng.integers(0, n_pol + 1))
        col = []
        while len(col) < n:
            kind = rng.integers(0, 6)
            z = complex(rng.normal(), rng.normal())
            if kind == 0:  # lone complex pole
                col.append(z)
            elif kind == 1:  # real pole (its own conjugate), both signs of zero
                col.append(complex(z.real, 0.0 if rng.random() < 0.5 else -0.0))
            elif kind == 2:  # conjugate found in ANOTHER column
                col.append(z)
                jj = int(rng.integers(0, n_ord))
                ii = int(rng.integers(0, n_pol))
                lam[ii, jj] = np.conj(z)
            elif kind == 3:  # half NaN entries
                col.append(complex(np.nan, z.imag) if rng.random() < 0.5 else complex(z.real, np.nan))
            else:  # proper conjugate pair
                col.extend([z, np.conj(z)])
        col = col[:n]
        lam[: len(col), j] = col
    return lam


def random_phi(rng, n_pol, n_ord, n_ch):
    phi = rng.normal(size=(n_pol, n_ord, n_ch)) + 1j * rng.normal(size=(n_pol, n_ord, n_ch)) * rng.choice(
        [0.0, 0.05, 0.3, 1.0], size=(n_pol, n_ord, 1)
    )
    # some purely real, some zero, some NaN, some partially NaN shapes
    kind = rng.integers(0, 12, size=(n_pol, n_ord))
    phi[kind == 0] = np.nan
    phi[kind == 1] = 0.0
    phi[kind == 2] = phi[kind == 2].real
    i, j = np.nonzero(kind == 3)
    phi[i, j, 0] = np.nan
    i, j = np.nonzero(kind == 4)
    phi[i, j, -1] = 0.0
    return phi


def function_level(n_rounds=60):
    rng = np.random.default_rng(20240909)
    for r in range(n_rounds):
        n_pol, n_ord, n_ch = (int(rng.integers(1, 9)), int(rng.integers(1, 9)), int(rng.integers(2, 6)))
        lam = random_lambdas(rng, n_pol, n_ord)
        both(orig_gen.HC_conj, new_gen.HC_conj, lam, where=f"HC_conj[{r}]")
        # real-valued (float) eigenvalue table as well
        both(orig_gen.HC_conj, new_gen.HC_conj, np.round(lam.real, 1), where=f"HC_conj-real[{r}]")

        xi = rng.normal(0.03, 0.06, size=(n_pol, n_ord))
        xi[rng.random(xi.shape) < 0.15] = np.nan
        xi[rng.random(xi.shape) < 0.05] = 0.0
        xi[rng.random(xi.shape) < 0.05] = -0.0
        xi[rng.random(xi.shape) < 0.03] = np.inf
        xi[rng.random(xi.shape) < 0.03] = -np.inf
        for xi_max in (0.1, 1.0, float(rng.uniform(0.0, 1.0)), 0.05, np.float64(0.2), 1):
            both(orig_gen.HC_damp, new_gen.HC_damp, xi, xi_max, where=f"HC_damp[{r},{xi_max}]")

        phi = random_phi(rng, n_pol, n_ord, n_ch)
        for mpc_lim, mpd_lim in (
            (0.7, 0.3),
            (0.0, np.pi / 2),
            (1.0, 0.0),
            (float(rng.uniform(0, 1)), float(rng.uniform(0, np.pi / 2))),
            (0.5, 1),
        ):
            m = both(
                orig_gen.HC_phi_comp, new_gen.HC_phi_comp, phi, mpc_lim, mpd_lim, where=f"HC_phi_comp[{r}]"
            )
        both(orig_gen.HC_phi_comp, new_gen.HC_phi_comp, phi.real, 0.7, 0.3, where=f"HC_phi_comp-real[{r}]")

        # applymask: boolean and 0/1 integer masks, None entries, 2D/3D float and complex tables,
        # an array of another rank (dropped by both versions), wrong len_phi (same exception)
        fn = rng.normal(size=(n_pol, n_ord))
        fn[rng.random(fn.shape) < 0.2] = np.nan
        phic = rng.normal(size=(n_pol, n_ord, n_ch))
        for mask in (
            rng.random((n_pol, n_ord)) < 0.5,
            (rng.random((n_pol, n_ord)) < 0.5).astype(int),
            m[0],
            m[1],
            np.ones((n_pol, n_ord), dtype=bool),
            np.zeros((n_pol, n_ord), dtype=int),
        ):
            both(
                orig_gen.applymask,
                new_gen.applymask,
                [fn, xi, phi, lam, None, phic, None],
                mask,
                n_ch,
                where=f"applymask[{r}]",
            )
            both(orig_gen.applymask, new_gen.applymask, [fn, fn[0], phi], mask, n_ch, where=f"applymask-1d[{r}]")
            both(orig_gen.applymask, new_gen.applymask, [fn], mask, n_ch + 3, where=f"applymask-2d-only[{r}]")
            both(orig_gen.applymask, new_gen.applymask, [fn, phi], mask, n_ch + 1, where=f"applymask-bad[{r}]")
            both(orig_gen.applymask, new_gen.applymask, [], mask, n_ch, where=f"applymask-empty[{r}]")
        # a larger eigenvalue table, so that np.isin takes its sort based branch
    for r in range(6):
        lam = random_lambdas(rng, 40, 41)
        both(orig_gen.HC_conj, new_gen.HC_conj, lam, where=f"HC_conj-large[{r}]")


# ----------------------------------------------------------------------------
# 2. algorithm level
# ----------------------------------------------------------------------------
def simulate(rng, n_ch, n_samp, fs, freqs=(2.1, 5.3, 8.7, 12.9), xis=(0.012, 0.02, 0.035, 0.05)):
    """response of a few lightly/heavily damped modes to white noise + measurement noise"""
    y = np.zeros((n_samp, n_ch))
    for f, xi in zip(freqs, xis):
        wn = 2 * np.pi * f
        lam = -xi * wn + 1j * wn * np.sqrt(1 - xi**2)
        z = np.exp(lam / fs)
        a = [1.0, -2 * z.real, abs(z) ** 2]
        q = signal.lfilter([1.0], a, rng.normal(size=n_samp))
        shape = rng.normal(size=n_ch)
        y += np.outer(q / q.std(), shape)
    y += 0.05 * rng.normal(size=y.shape)
    return y


def simulate_ms(seed, fs, n_set=3, n_ref=2, n_rov=3, n_samp=4000):
    """multi-setup measurement of ONE structure: reference channels 0..n_ref-1 plus roving ones"""
    rng = np.random.default_rng(seed)
    freqs, xis = (2.1, 5.3, 8.7, 12.9), (0.012, 0.02, 0.035, 0.05)
    shapes = rng.normal(size=(len(freqs), n_ref + n_set * n_rov))
    out = []
    for s in range(n_set):
        idx = list(range(n_ref)) + list(range(n_ref + s * n_rov, n_ref + (s + 1) * n_rov))
        y = np.zeros((n_samp, len(idx)))
        for m, (f, xi) in enumerate(zip(freqs, xis)):
            wn = 2 * np.pi * f
            z = np.exp((-xi * wn + 1j * wn * np.sqrt(1 - xi**2)) / fs)
            q = signal.lfilter([1.0], [1.0, -2 * z.real, abs(z) ** 2], rng.normal(size=n_samp))
            y += np.outer(q / q.std(), shapes[m, idx])
        out.append(y + 0.05 * rng.normal(size=y.shape))
    return out


class FakeSFP:
    """stands in for the interactive SelFromPlot window"""

    result = ([2.1, 8.7], 10)

    def __init__(self, algo, freqlim=None, plot=None):
        self.algo = algo


RESULT_FIELDS_SSI = (
    "Obs A C H Lambds Fn_poles Xi_poles Phi_poles Lab Fn_poles_cov Xi_poles_cov Phi_poles_cov "
    "Fn Xi Phi order_out Fn_cov Xi_cov Phi_cov"
).split()
RESULT_FIELDS_PLSCF = "freq Sy Ad Bn Fn_poles Xi_poles Phi_poles Lab Fn Xi Phi order_out".split()


def compare_results(ro, rn, fields, where):
    assert type(ro).__name__ == type(rn).__name__
    assert set(type(ro).model_fields) == set(type(rn).model_fields)
    assert set(fields) >= set(type(ro).model_fields), set(type(ro).model_fields) - set(fields)
    for f in fields:
        same(getattr(ro, f), getattr(rn, f), f"{where}.{f}")


def run_pair(make_setup, cls_o, cls_n, kwargs, fields, where, sel_freq, order):
    outs = []
    for cls, mod in ((cls_o, None), (cls_n, None)):
        algo = cls(name="algo", **kwargs)
        setup = make_setup()
        setup.add_algorithms(algo)
        try:
            setup.run_by_name("algo")
            outs.append(("ok", algo))
        except Exception as exc:  # noqa: BLE001
            outs.append(("exc", type(exc)))
    assert outs[0][0] == outs[1][0], f"{where}: {outs}"
    if outs[0][0] == "exc":
        assert outs[0][1] is outs[1][1], f"{where}: {outs}"
        return None
    ao, an = outs[0][1], outs[1][1]
    compare_results(ao.result, an.result, fields, where + ".run")
    stats = (
        int(np.isfinite(an.result.Fn_poles).sum()),
        int(np.isnan(an.result.Fn_poles).sum()),
    )

    # mpe at a given order and with 'find_min'
    for o in (order, "find_min"):
        st = []
        for a in (ao, an):
            try:
                a.mpe(sel_freq=list(sel_freq), order=o, rtol=0.2)
                st.append("ok")
            except Exception as exc:  # noqa: BLE001
                st.append(type(exc))
        assert st[0] == st[1], f"{where}.mpe({o}): {st}"
        key = ("mpe", "ok" if st[0] == "ok" else st[0].__name__)
        MPE_STATUS[key] = MPE_STATUS.get(key, 0) + 1
        compare_results(ao.result, an.result, fields, where + f".mpe({o})")
        assert ao.run_params.sel_freq == an.run_params.sel_freq
        assert ao.run_params.order_in == an.run_params.order_in
        assert ao.run_params.rtol == an.run_params.rtol

    # mpe_from_plot with the interactive window replaced
    FakeSFP.result = (list(sel_freq), order)
    st = []
    for a in (ao, an):
        try:
            a.mpe_from_plot(freqlim=(0, 20), rtol=0.15)
            st.append("ok")
        except Exception as exc:  # noqa: BLE001
            st.append(type(exc))
    assert st[0] == st[1], f"{where}.mpe_from_plot: {st}"
    key = ("mpe_from_plot", "ok" if st[0] == "ok" else st[0].__name__)
    MPE_STATUS[key] = MPE_STATUS.get(key, 0) + 1
    compare_results(ao.result, an.result, fields, where + ".mpe_from_plot")
    assert ao.run_params.rtol == an.run_params.rtol == 0.15
    return stats


HC_GRID = [
    # conj, xi_max, mpc_lim, mpd_lim, cov_max
    dict(conj=True, xi_max=0.1, mpc_lim=0.7, mpd_lim=0.3, cov_max=0.2),  # defaults
    dict(conj=False, xi_max=0.1, mpc_lim=0.7, mpd_lim=0.3, cov_max=0.2),
    dict(conj=True, xi_max=1.0, mpc_lim=0.0, mpd_lim=np.pi / 2, cov_max=1e9),  # nearly neutral
    dict(conj=False, xi_max=1.0, mpc_lim=0.0, mpd_lim=np.pi / 2, cov_max=1e9),
    dict(conj=True, xi_max=0.04, mpc_lim=0.9, mpd_lim=0.1, cov_max=1e-3),  # strict
    dict(conj=False, xi_max=0.3, mpc_lim=0.95, mpd_lim=0.8, cov_max=5e-2),
    dict(conj=True, xi_max=0.5, mpc_lim=0.2, mpd_lim=0.05, cov_max=1e-5),
    dict(conj=0, xi_max=0.07, mpc_lim=1.0, mpd_lim=0.0, cov_max=1e-12),  # rejects (nearly) everything
]


def algorithm_level():
    rng = np.random.default_rng(7)
    fs = 50.0
    n_ch = 5
    new_assi.SelFromPlot = FakeSFP
    new_aplscf.SelFromPlot = FakeSFP
    orig_assi.SelFromPlot = FakeSFP
    orig_aplscf.SelFromPlot = FakeSFP

    data = simulate(rng, n_ch, 3000, fs)
    datasets = simulate_ms(5, fs)
    ms_ref_ind = [[0, 1], [0, 1], [0, 1]]

    def single():
        return SingleSetup(data.copy(), fs=fs)

    def multi():
        return MultiSetup_PreGER(fs=fs, ref_ind=ms_ref_ind, datasets=[d.copy() for d in datasets])

    report = []
    n_runs = 0
    rng_hc = np.random.default_rng(99)
    random_hc = [
        dict(
            conj=bool(rng_hc.integers(0, 2)),
            xi_max=float(rng_hc.uniform(0.01, 1.0)),
            mpc_lim=float(rng_hc.uniform(0, 1)),
            mpd_lim=float(rng_hc.uniform(0, np.pi / 2)),
            cov_max=float(10 ** rng_hc.uniform(-6, 1)),
        )
        for _ in range(6)
    ]
    grid = HC_GRID + random_hc

    # ---- SSI single setup, without and with uncertainties, ref_ind not ascending
    sc = dict(err_fn=0.05, err_xi=0.2, err_phi=0.1)
    for k, hc in enumerate(grid):
        for name in ("SSIdat", "SSIcov"):
            variants = [
                dict(br=8, ordmax=14, ordmin=2, calc_unc=False),
                dict(br=8, ordmax=12, calc_unc=False, ref_ind=[3, 0, 1], sc=sc),
            ]
            if name == "SSIcov":
                # uncertainties exist for the cov_mm method only
                variants.append(dict(br=6, ordmax=8, calc_unc=True, nb=12, ref_ind=[2, 0]))
                variants.append(dict(br=7, ordmax=6, calc_unc=True, nb=20, sc=sc))
                variants.append(dict(br=8, ordmax=10, method="cov_R", calc_unc=False))
            elif k == 0:
                # both versions refuse these in the same way (library limitations)
                variants.append(dict(br=6, ordmax=8, calc_unc=True, nb=12))
                variants.append(dict(br=8, ordmax=12, step=2))
            for v, kw in enumerate(variants):
                kwargs = dict(kw, hc=dict(hc))
                st = run_pair(
                    single,
                    getattr(orig_assi, name),
                    getattr(new_assi, name),
                    kwargs,
                    RESULT_FIELDS_SSI,
                    f"{name}[hc{k},v{v}]",
                    sel_freq=(2.1, 8.7),
                    order=6,
                )
                n_runs += 1
                report.append((name + ("+unc" if kw.get("calc_unc") else ""), k, v, st))

    # ---- SSI multi setup
    for k, hc in enumerate(grid):
        for name in ("SSIdat_MS", "SSIcov_MS"):
            kwargs = dict(br=8 + 7 * (k % 2), ordmax=14, ordmin=k % 3, hc=dict(hc))
            st = run_pair(
                multi,
                getattr(orig_assi, name),
                getattr(new_assi, name),
                kwargs,
                RESULT_FIELDS_SSI,
                f"{name}[hc{k}]",
                sel_freq=(2.1, 5.3),
                order=8,
            )
            n_runs += 1
            report.append((name, k, 0, st))

    # ---- pLSCF single and multi setup (the hc dict has no cov_max entry there)
    for k, hc in enumerate(grid):
        hc4 = {key: val for key, val in hc.items() if key != "cov_max"}
        for v, kw in enumerate(
            (
                dict(ordmax=10, ordmin=2, nxseg=256, method_SD="per", pov=0.5),
                dict(ordmax=8, nxseg=200, method_SD="cor"),
                dict(ordmax=9, nxseg=256, method_SD="per", pov=0.0),
            )
        ):
            kwargs = dict(kw, hc=dict(hc4))
            st = run_pair(
                single,
                orig_aplscf.pLSCF,
                new_aplscf.pLSCF,
                kwargs,
                RESULT_FIELDS_PLSCF,
                f"pLSCF[hc{k},v{v}]",
                sel_freq=(2.1, 8.7),
                order=6,
            )
            n_runs += 1
            report.append(("pLSCF", k, v, st))
            if v < 2:
                st = run_pair(
                    multi,
                    orig_aplscf.pLSCF_MS,
                    new_aplscf.pLSCF_MS,
                    kwargs,
                    RESULT_FIELDS_PLSCF,
                    f"pLSCF_MS[hc{k},v{v}]",
                    sel_freq=(2.1, 5.3),
                    order=6,
                )
                n_runs += 1
                report.append(("pLSCF_MS", k, v, st))

    # ---- malformed criteria dictionaries must fail in the same way
    for bad in (dict(conj=True, xi_max=0.1), dict(conj=True, xi_max=None, mpc_lim=0.7, mpd_lim=0.3, cov_max=0.2)):
        run_pair(single, orig_assi.SSIcov, new_assi.SSIcov, dict(br=6, ordmax=6, hc=dict(bad)),
                 RESULT_FIELDS_SSI, "SSIcov[bad hc]", (2.1,), 4)
        run_pair(single, orig_aplscf.pLSCF, new_aplscf.pLSCF, dict(ordmax=6, nxseg=128, hc=dict(bad)),
                 RESULT_FIELDS_PLSCF, "pLSCF[bad hc]", (2.1,), 4)
        n_runs += 2
    return n_runs, report


if __name__ == "__main__":
    function_level()
    n_fun = N_CHECKS
    n_runs, report = algorithm_level()
    print(f"function level: {n_fun} comparisons")
    print(f"algorithm level: {n_runs} orig/new run pairs, {N_CHECKS - n_fun} comparisons")
    for name in sorted({r[0] for r in report}):
        sts = [st for n, *_, st in report if n == name]
        ok = [st for st in sts if st is not None]
        print(
            "  %-10s %3d runs (%d raise identically); poles kept per run: %s"
            % (name, len(sts), len(sts) - len(ok), sorted(st[0] for st in ok))
        )
    print("  mpe / mpe_from_plot outcomes (identical in both versions):", MPE_STATUS)
    print("PASS")
