"""
Differential test: the tree on PYTHONPATH (CLEAN version of the commit) against the
pristine sources saved next to this file (orig_plscf.py = functions/plscf.py,
orig_algorithms_plscf.py = algorithms/plscf.py at HEAD).

Run as:  PYTHONPATH=<tree>/src /venv/bin/python equiv.py
Prints PASS and exits 0 when every comparison agrees.
"""

import importlib.util
import logging
import os
import sys
import warnings

os.environ.setdefault("TQDM_DISABLE", "1")
warnings.filterwarnings("ignore")

import numpy as np  # noqa: E402

logging.disable(logging.CRITICAL)

HERE = os.path.dirname(os.path.abspath(__file__))

from pyoma2.algorithms import plscf as new_alg  # noqa: E402
from pyoma2.functions import plscf as new_fun  # noqa: E402


def _load(name, fname):
    spec = importlib.util.spec_from_file_location(name, os.path.join(HERE, fname))
    mod = importlib.util.module_from_spec(spec)
    sys.modules[name] = mod
    spec.loader.exec_module(mod)
    return mod


old_fun = _load("pyoma2.functions.orig_plscf", "orig_plscf.py")
# loaded inside the package namespace so that its relative import of .base resolves
old_alg = _load("pyoma2.algorithms.orig_plscf", "orig_algorithms_plscf.py")
old_alg.plscf = old_fun  # the pristine classes call the pristine routines

N_CMP = 0
FAILS = []
BOTH_RAISED = []


def same(a, b):
    """Deep comparison of (nested) outputs."""
    if isinstance(a, (list, tuple)):
        return (
            isinstance(b, (list, tuple))
            and len(a) == len(b)
            and all(same(x, y) for x, y in zip(a, b))
        )
    a, b = np.asarray(a), np.asarray(b)
    if a.shape != b.shape:
        return False
    if np.array_equal(a, b, equal_nan=True):
        return True
    return bool(np.allclose(a, b, rtol=1e-12, atol=0.0, equal_nan=True))


def compare(tag, f_old, f_new, *, exc_type_must_match=True):
    """Call both, compare outputs or raised exceptions."""
    global N_CMP
    N_CMP += 1
    out = []
    for f in (f_old, f_new):
        try:
            out.append(("ok", f()))
        except Exception as e:  # noqa: BLE001
            out.append(("exc", e))
    (k0, v0), (k1, v1) = out
    if k0 != k1:
        FAILS.append(f"{tag}: old -> {k0} {v0!r:.80}, new -> {k1} {v1!r:.80}")
    elif k0 == "exc":
        BOTH_RAISED.append(f"{tag}: {type(v0).__name__} / {type(v1).__name__}")
        if exc_type_must_match and type(v0) is not type(v1):
            FAILS.append(f"{tag}: old raised {type(v0).__name__}, new {type(v1).__name__}")
    elif not same(v0, v1):
        FAILS.append(f"{tag}: outputs differ")


def rand_sy(rng, Nref, Nch, Nf, real=False):
    Sy = rng.standard_normal((Nref, Nch, Nf))
    if not real:
        Sy = Sy + 1j * rng.standard_normal((Nref, Nch, Nf))
    return Sy


def functions_level(rng):
    for it in range(30):
        Nref = int(rng.integers(1, 6))
        Nch = int(rng.integers(2, 6))
        ordmax = int(rng.integers(1, 7))
        Nf = int(rng.integers(4 * (ordmax + 1), 4 * (ordmax + 1) + 60))
        dt = float(rng.choice([0.005, 0.01, 0.1, 0.5, 1.0, 2.0, 1 / 128]))
        sgn = [-1, 1, -1.0, 1.0][it % 4]
        Sy = rand_sy(rng, Nref, Nch, Nf, real=(it % 7 == 3))
        tag = f"[{it}] Nref={Nref} Nch={Nch} Nf={Nf} ordmax={ordmax} dt={dt} sgn={sgn!r}"

        # pLSCF: positional and keyword sign, default sign
        compare(
            tag + " pLSCF positional",
            lambda: old_fun.pLSCF(Sy.copy(), dt, ordmax, sgn),
            lambda: new_fun.pLSCF(Sy.copy(), dt, ordmax, sgn),
        )
        compare(
            tag + " pLSCF keyword",
            lambda: old_fun.pLSCF(Sy.copy(), dt, ordmax, sgn_basf=sgn),
            lambda: new_fun.pLSCF(Sy.copy(), dt, ordmax, sgn_basf=sgn),
        )
        if it % 5 == 0:
            compare(
                tag + " pLSCF default sign",
                lambda: old_fun.pLSCF(Sy.copy(), dt, ordmax),
                lambda: new_fun.pLSCF(Sy.copy(), dt, ordmax),
            )
        # what the pristine classes did ("per" -> -1, "cor" -> +1) vs the new spelling
        meth = "per" if sgn < 0 else "cor"
        compare(
            tag + " pLSCF method=",
            lambda: old_fun.pLSCF(Sy.copy(), dt, ordmax, sgn_basf=-1 if meth == "per" else +1),
            lambda: new_fun.pLSCF(Sy.copy(), dt, ordmax, method=meth),
        )

        Ad, Bn = old_fun.pLSCF(Sy, dt, ordmax, sgn)
        nxseg = int(rng.choice([64, 256, 1024]))
        for m in ("per", "cor"):
            compare(
                tag + f" pLSCF_poles positional {m}",
                lambda: old_fun.pLSCF_poles(Ad, Bn, dt, m, nxseg),
                lambda: new_fun.pLSCF_poles(Ad, Bn, dt, m, nxseg),
            )
            compare(
                tag + f" pLSCF_poles old keywords {m}",
                lambda: old_fun.pLSCF_poles(Ad, Bn, dt, nxseg=nxseg, methodSy=m),
                lambda: new_fun.pLSCF_poles(Ad, Bn, dt, nxseg=nxseg, methodSy=m),
            )
            compare(
                tag + f" pLSCF_poles new keyword {m}",
                lambda: old_fun.pLSCF_poles(Ad, Bn, dt, nxseg=nxseg, methodSy=m),
                lambda: new_fun.pLSCF_poles(tuple(Ad), tuple(Bn), dt, method=m, nxseg=nxseg),
            )
        # the inputs must not be modified by the pole extraction
        Ad_c = [a.copy() for a in Ad]
        Bn_c = [b.copy() for b in Bn]
        new_fun.pLSCF_poles(Ad, Bn, dt, "per", nxseg)
        compare(tag + " Ad/Bn intact", lambda: (Ad_c, Bn_c), lambda: (Ad, Bn))

        # rmfd2ac / ac2mp_poly on every order
        for k in (0, len(Ad) - 1):
            compare(
                tag + f" rmfd2ac order {k + 1}",
                lambda: old_fun.rmfd2ac(Ad[k], Bn[k]),
                lambda: new_fun.rmfd2ac(Ad[k], Bn[k]),
            )
            A, C = old_fun.rmfd2ac(Ad[k], Bn[k])
            for m in ("per", "cor"):
                compare(
                    tag + f" ac2mp_poly order {k + 1} {m}",
                    lambda: old_fun.ac2mp_poly(A, C, dt, m, nxseg),
                    lambda: new_fun.ac2mp_poly(A, C, dt, m, nxseg),
                )
        # rmfd2ac with integer / list input and unequal numbers of coefficients
        na, nb = int(rng.integers(1, 4)), int(rng.integers(2, 5))
        m_, l_ = int(rng.integers(1, 4)), int(rng.integers(1, 4))
        A_int = rng.integers(-4, 5, (na, m_, m_)) + 6 * np.eye(m_, dtype=int)
        B_int = rng.integers(-4, 5, (nb, l_, m_))
        compare(
            tag + " rmfd2ac int",
            lambda: old_fun.rmfd2ac(A_int, B_int),
            lambda: new_fun.rmfd2ac(A_int, B_int),
        )
        compare(
            tag + " rmfd2ac list",
            lambda: old_fun.rmfd2ac(A_int, B_int),
            lambda: new_fun.rmfd2ac(A_int.tolist(), B_int.tolist()),
        )

    # 4-D array input as in the unit tests
    Ad4 = np.array([[[[1, -0.5], [1, -0.7]]]])
    Bn4 = np.array([[[[7, 8], [9, 10]]]])
    compare(
        "pLSCF_poles 4-D arrays",
        lambda: old_fun.pLSCF_poles(Ad4, Bn4, 0.01, "per", 10),
        lambda: new_fun.pLSCF_poles(Ad4, Bn4, 0.01, "per", 10),
    )

    # nonsense is rejected by both (the new code with ValueError)
    Sy = rand_sy(rng, 2, 2, 40)
    for bad in (0, 2, -3):
        compare(
            f"pLSCF bad sign {bad}",
            lambda: old_fun.pLSCF(Sy, 0.01, 2, bad),
            lambda: new_fun.pLSCF(Sy, 0.01, 2, bad),
            exc_type_must_match=False,
        )
    compare(
        "pLSCF 1-D Sy",
        lambda: old_fun.pLSCF(np.ones(10), 0.01, 2, -1),
        lambda: new_fun.pLSCF(np.ones(10), 0.01, 2, -1),
        exc_type_must_match=False,
    )
    try:
        new_fun.pLSCF(Sy, 0.01, 2, 3)
        FAILS.append("bad sign not rejected")
    except ValueError:
        pass


RESULT_FIELDS = ("freq", "Sy", "Ad", "Bn", "Fn_poles", "Xi_poles", "Phi_poles", "Lab")


def run_algo(cls, data, fs, **params):
    algo = cls(name="x", **params)
    algo._set_data(data=data, fs=fs)
    res = algo.run()
    return [getattr(res, f) for f in RESULT_FIELDS]


def classes_level(rng):
    it = 0
    for method in ("per", "cor"):
        for nch, ordmax, nxseg, fs in ((3, 6, 64, 100.0), (2, 8, 128, 50.0), (4, 5, 100, 256.0)):
            it += 1
            data = rng.standard_normal((1500, nch))
            # a little structure so that not every pole is blanked
            t = np.arange(1500) / fs
            data += np.outer(np.sin(2 * np.pi * 0.11 * fs * t), rng.standard_normal(nch))
            params = dict(ordmax=ordmax, nxseg=nxseg, method_SD=method)
            compare(
                f"class pLSCF {method} nch={nch} ordmax={ordmax} nxseg={nxseg}",
                lambda: run_algo(old_alg.pLSCF, data, fs, **params),
                lambda: run_algo(new_alg.pLSCF, data, fs, **params),
            )
        # multi-setup: two setups, one reference and two / one moving channels
        fs = 80.0
        Y = [
            {"ref": rng.standard_normal((2, 1200)), "mov": rng.standard_normal((2, 1200))},
            {"ref": rng.standard_normal((2, 1200)), "mov": rng.standard_normal((1, 1200))},
        ]
        params = dict(ordmax=5, nxseg=64, method_SD=method)
        compare(
            f"class pLSCF_MS {method}",
            lambda: run_algo(old_alg.pLSCF_MS, Y, fs, **params),
            lambda: run_algo(new_alg.pLSCF_MS, Y, fs, **params),
        )


def main():
    rng = np.random.default_rng(7)
    functions_level(rng)
    classes_level(rng)
    if FAILS:
        print(f"FAIL ({len(FAILS)} of {N_CMP} comparisons)")
        for f in FAILS[:40]:
            print("  " + f)
        return 1
    # only the deliberately invalid calls may end in an exception on both sides
    unexpected = [b for b in BOTH_RAISED if "bad sign" not in b and "1-D Sy" not in b]
    if unexpected:
        print("FAIL (valid calls raised on both sides)")
        for b in unexpected[:20]:
            print("  " + b)
        return 1
    print(f"PASS ({N_CMP} comparisons, {len(BOTH_RAISED)} of them rejected inputs)")
    return 0


if __name__ == "__main__":
    sys.exit(main())
