"""
Differential test: the library on PYTHONPATH (CLEAN version of the commit) against the
pristine sources saved next to this file (orig_fn_ssi.py = functions/ssi.py,
orig_alg_ssi.py = algorithms/ssi.py at HEAD).

Run as:  PYTHONPATH=<tree>/src /venv/bin/python equiv.py
Prints PASS and exits 0 when every output (and every raised exception type) agrees.
"""

import importlib.util
import logging
import os
import sys
import time

import numpy as np

logging.disable(logging.CRITICAL)
HERE = os.path.dirname(os.path.abspath(__file__))


def load(name, fname):
    spec = importlib.util.spec_from_file_location(name, os.path.join(HERE, fname))
    mod = importlib.util.module_from_spec(spec)
    sys.modules[name] = mod
    spec.loader.exec_module(mod)
    return mod


from pyoma2.algorithms import ssi as new_alg  # noqa: E402
from pyoma2.functions import ssi as new_fn  # noqa: E402

old_fn = load("orig_fn_ssi", "orig_fn_ssi.py")
old_alg = load("pyoma2.algorithms._orig_ssi", "orig_alg_ssi.py")
old_alg.ssi = old_fn  # the pristine class layer calls the pristine routines
assert new_alg.ssi is new_fn and old_alg.ssi is old_fn

for m in (new_fn, old_fn):
    m.trange = lambda *a, **k: range(*a)

t0 = time.time()
problems = []
raised = []
ncases = 0


def same(a, b):
    if a is None or b is None:
        return a is None and b is None
    if isinstance(a, (list, tuple)):
        return len(a) == len(b) and all(same(x, y) for x, y in zip(a, b))
    a, b = np.asarray(a), np.asarray(b)
    if a.shape != b.shape:
        return False
    return bool(np.array_equal(a, b, equal_nan=True) or np.allclose(a, b, rtol=1e-12, atol=0, equal_nan=True))


def call(f, *a, **k):
    try:
        return ("ok", f(*a, **k))
    except Exception as exc:  # noqa: BLE001
        return ("exc", type(exc).__name__)


def compare(tag, fo, fn, *a, **k):
    global ncases
    ncases += 1
    ro, rn = call(fo, *a, **k), call(fn, *a, **k)
    if ro[0] != rn[0]:
        problems.append(f"{tag}: old -> {ro[0]} {ro[1] if ro[0] == 'exc' else ''}, new -> {rn[0]} {rn[1] if rn[0] == 'exc' else ''}")
    elif ro[0] == "exc":
        raised.append(f"{tag}: {ro[1]}")
        if ro[1] != rn[1]:
            problems.append(f"{tag}: exception {ro[1]} became {rn[1]}")
    elif not same(ro[1], rn[1]):
        problems.append(f"{tag}: outputs differ")
    return ro, rn


def lowrank_hankel(rng, l, r, p, n, noise=1e-3):  # noqa: E741
    q = p + 1
    lam = []
    for _ in range(n // 2):
        z = rng.uniform(0.9, 0.99) * np.exp(1j * rng.uniform(0.2, 2.9))
        lam += [z, z.conjugate()]
    if n % 2:
        lam.append(rng.uniform(0.8, 0.98))
    lam = np.array(lam, dtype=complex)
    Cm = rng.normal(size=(l, n)) + 1j * rng.normal(size=(l, n))
    Gm = rng.normal(size=(n, r)) + 1j * rng.normal(size=(n, r))
    for k in range(n // 2):
        Cm[:, 2 * k + 1] = Cm[:, 2 * k].conj()
        Gm[2 * k + 1] = Gm[2 * k].conj()
    if n % 2:
        Cm[:, -1] = Cm[:, -1].real
        Gm[-1] = Gm[-1].real
    O = np.vstack([Cm * lam**i for i in range(p + 1)])  # noqa: E741
    Cn = np.hstack([(lam**j)[:, None] * Gm for j in range(q)])
    H = (O @ Cn).real
    return H + noise * np.abs(H).mean() * rng.normal(size=H.shape)


def record(rng, ndat, nch):
    """coloured noise: a few damped oscillators driven by white noise"""
    t = np.arange(400) * 0.01
    out = np.zeros((ndat, nch))
    for f, z in ((4.0, 0.02), (9.5, 0.015), (15.0, 0.02)):
        h = np.exp(-z * 2 * np.pi * f * t) * np.sin(2 * np.pi * f * t)
        for c in range(nch):
            out[:, c] += rng.normal() * np.convolve(rng.normal(size=ndat), h)[:ndat]
    return out + 0.05 * out.std() * rng.normal(size=out.shape)


rng = np.random.default_rng(17)

# ---------------------------------------------------------------------------
# A. build_hank
# ---------------------------------------------------------------------------
for i in range(36):
    l = int(rng.integers(1, 4))  # noqa: E741
    ndat = int(rng.integers(300, 900))
    Y = record(rng, ndat, l).T
    ref = list(rng.permutation(l)[: int(rng.integers(1, l + 1))])  # any order
    Yref = Y[ref, :] if i % 3 else Y
    br = int(rng.integers(1, 6))
    method = ("cov_mm", "cov_R", "dat")[i % 3] if i < 18 else "cov_mm"
    calc_unc = bool(i % 2) if method == "cov_mm" else (i % 5 == 0)
    nb = int(rng.integers(2, 40))
    form = i % 4
    if form == 1:
        Y, Yref = Y.astype(np.float32), Yref.astype(np.float32)
    elif form == 2:
        Y, Yref = np.round(Y * 100).astype(int), np.round(Yref * 100).astype(int)
    elif form == 3:
        Y, Yref = np.asfortranarray(Y), np.ascontiguousarray(Yref)
    compare(f"build_hank #{i} {method} l={l} ref={ref} br={br} unc={calc_unc} nb={nb}",
            old_fn.build_hank, new_fn.build_hank, Y=Y, Yref=Yref, br=br, method=method, calc_unc=calc_unc, nb=nb)
# the calls made by the unit tests
small = np.array([[1, 2, 3, 4, 5]])
for method in ("cov_mm", "cov_R", "dat", "YfYp", "invalid_method"):
    for cu in (True, False):
        compare(f"build_hank small {method} {cu}", old_fn.build_hank, new_fn.build_hank,
                Y=small, Yref=small, br=1, method=method, calc_unc=cu, nb=100)

# ---------------------------------------------------------------------------
# B. SSI_fast  /  C. SSI_poles
# ---------------------------------------------------------------------------
shapes = []
for i in range(40):
    l = int(rng.integers(1, 4))  # noqa: E741
    r = int(rng.integers(1, l + 1))
    p = int(rng.integers(2, 6))
    ordmax = int(rng.integers(2, min(8, p * l, (p + 1) * r) + 1))
    H = lowrank_hankel(rng, l, r, p, ordmax)
    ncol = int(rng.integers(1, 21))
    if i % 5 == 0:
        ncol = H.size if H.size <= 40 else ordmax**2  # square factors
    if i % 5 == 1:
        ncol = ordmax**2
    if i % 5 == 2:
        ncol = l * ordmax
    T = 1e-3 * rng.normal(size=(H.size, ncol))
    shapes.append((H.shape, T.shape, ordmax))
    dt = float(rng.choice([0.01, 0.005, 0.02]))
    ro, rn = compare(f"SSI_fast #{i} H{H.shape} T{T.shape} ordmax={ordmax}",
                     old_fn.SSI_fast, new_fn.SSI_fast, H, p, ordmax, calc_unc=True, T=T, nb=ncol)
    compare(f"SSI_fast #{i} no unc", old_fn.SSI_fast, new_fn.SSI_fast, H, p, ordmax, 1)
    if ro[0] == "ok":
        Obs, A, C, Q1, Q2, Q3, Q4 = ro[1]
        compare(f"SSI_poles #{i} Q{Q1.shape} ordmax={ordmax}", old_fn.SSI_poles, new_fn.SSI_poles,
                Obs, A, C, ordmax, dt, step=1, calc_unc=True, Q1=Q1, Q2=Q2, Q3=Q3, Q4=Q4)
        compare(f"SSI_poles #{i} no unc", old_fn.SSI_poles, new_fn.SSI_poles, Obs, A, C, ordmax, dt)
    # whole chain, new routines fed with their own intermediate results
    if rn[0] == "ok" and ro[0] == "ok":
        fo = old_fn.SSI_poles(*ro[1][:3], ordmax, dt, calc_unc=True, Q1=ro[1][3], Q2=ro[1][4], Q3=ro[1][5], Q4=ro[1][6])
        fn_ = new_fn.SSI_poles(*rn[1][:3], ordmax, dt, calc_unc=True, Q1=rn[1][3], Q2=rn[1][4], Q3=rn[1][5], Q4=rn[1][6])
        ncases += 1
        if not same(list(fo), list(fn_)):
            problems.append(f"chain #{i}: outputs differ")
# the calls made by the unit tests
Ht = np.array([[1, 2, 3], [4, 5, 6], [7, 8, 9], [10, 11, 12]])
compare("SSI_fast unit test call", old_fn.SSI_fast, new_fn.SSI_fast, Ht, 1, 2, 1)
compare("SSI_poles unit test call", old_fn.SSI_poles, new_fn.SSI_poles,
        Obs=np.array([[1]]), AA=[np.array([[1]]), np.array([[7]])], CC=[np.array([[1]]), np.array([[1]])],
        ordmax=1, dt=0.01, step=1, calc_unc=False, Q1=None, Q2=None, Q3=None, Q4=None)

# ---------------------------------------------------------------------------
# D. the algorithm classes
# ---------------------------------------------------------------------------
FIELDS = ("Obs", "A", "C", "H", "Lambds", "Fn_poles", "Xi_poles", "Phi_poles", "Lab",
          "Fn_poles_cov", "Xi_poles_cov", "Phi_poles_cov")


def run_cls(mod, clsname, data, fs, **params):
    alg = getattr(mod, clsname)(name="x", **params)
    alg._set_data(data=data, fs=fs)
    res = alg.run()
    return [getattr(res, f) for f in FIELDS]


class_cases = [
    ("SSIcov", dict(br=4, ordmax=4, calc_unc=True)),                       # nb = 100 = H.size for 2 channels
    ("SSIcov", dict(br=3, ordmax=4, calc_unc=True, nb=16)),                # nb = ordmax**2
    ("SSIcov", dict(br=5, ordmax=4, calc_unc=True, nb=20, ref_ind=[1])),
    ("SSIcov", dict(br=5, ordmax=6, calc_unc=True, nb=30, ref_ind=[2, 0])),
    ("SSIcov", dict(br=5, ordmax=8, calc_unc=True, nb=25, ref_ind=[0, 1, 2])),
    ("SSIcov", dict(br=6, ordmax=10, calc_unc=False)),
    ("SSIcov", dict(br=6, ordmax=10, method="cov_R", ref_ind=[1, 0])),
    ("SSIcov", dict(br=6, ordmax=10, method="cov_R", calc_unc=True)),      # AttributeError in both
    ("SSIdat", dict(br=12, ordmax=10, ref_ind=[0])),
    ("SSIdat", dict(br=6, ordmax=10, calc_unc=True)),                      # AttributeError in both
    ("SSIcov", dict(br=2, ordmax=3, calc_unc=True, nb=9, ref_ind=[0])),    # nb = ordmax**2, reference subset
    ("SSIcov", dict(br=2, ordmax=2, calc_unc=True, nb=18, ref_ind=[1])),   # nb = H.size, reference subset
]
for j, (clsname, params) in enumerate(class_cases):
    nch = 2 if j < 2 or j >= 10 else 3
    data = record(np.random.default_rng(100 + j), 3000, nch)
    compare(f"{clsname}.run {params} ({nch} ch)", lambda **k: run_cls(old_alg, clsname, data, 100.0, **k),
            lambda **k: run_cls(new_alg, clsname, data, 100.0, **k), **params)

# ---------------------------------------------------------------------------
# E. inputs the commit newly accepts / rejects (new behaviour only, informative)
# ---------------------------------------------------------------------------
Y = record(rng, 400, 2).T
H0, T0 = new_fn.build_hank(Y, Y, 3, "cov_mm", calc_unc=True, nb=10)
extra = [
    ("Yref=None means all channels", same(list(new_fn.build_hank(Y, None, 3, "cov_mm", True, 10)), [H0, T0])),
    ("lists accepted", same(list(new_fn.build_hank(Y.tolist(), Y.tolist(), 3, "cov_mm", True, 10)), [H0, T0])),
    ("flat single record", same(new_fn.build_hank(Y[0], None, 3, "cov_R")[0], old_fn.build_hank(Y[:1], Y[:1], 3, "cov_R")[0])),
    ("nb inferred from T", same(list(new_fn.SSI_fast(H0, 3, 4, calc_unc=True, T=T0)), list(old_fn.SSI_fast(H0, 3, 4, calc_unc=True, T=T0, nb=10)))),
    ("row-wise factor accepted", same(list(new_fn.SSI_fast(H0, 3, 4, calc_unc=True, T=T0.T)), list(old_fn.SSI_fast(H0, 3, 4, calc_unc=True, T=T0, nb=10)))),
    ("flat single direction", same(list(new_fn.SSI_fast(H0, 3, 4, calc_unc=True, T=T0[:, 0])), list(old_fn.SSI_fast(H0, 3, 4, calc_unc=True, T=T0[:, :1], nb=1)))),
    ("length mismatch rejected", call(new_fn.build_hank, Y, Y[:, :-1], 3, "cov_mm") == ("exc", "ValueError")),
    ("record too short rejected", call(new_fn.build_hank, Y[:, :6], Y[:, :6], 3, "cov_mm") == ("exc", "ValueError")),
    ("wrong nb rejected", call(new_fn.SSI_fast, H0, 3, 4, calc_unc=True, T=T0, nb=7) == ("exc", "ValueError")),
    ("missing T rejected", call(new_fn.SSI_fast, H0, 3, 4, calc_unc=True) == ("exc", "ValueError")),
    ("T with wrong rows rejected", call(new_fn.SSI_fast, H0, 3, 4, calc_unc=True, T=T0[:-1]) == ("exc", "ValueError")),
    ("H not matching br rejected", call(new_fn.SSI_fast, H0, 2, 4) == ("exc", "ValueError")),
]
for tag, ok in extra:
    ncases += 1
    if not ok:
        problems.append(f"new behaviour: {tag}")

print(f"{ncases} comparisons, {time.time() - t0:.1f} s")
print(f"{len(raised)} of them raise in the pristine library (same exception type required):")
for r_ in raised:
    print("   ", r_)
print("square factors among the SSI_fast cases:",
      sum(1 for h, t, o in shapes if t[1] == h[0] * h[1]), "with ncol == H.size,",
      sum(1 for h, t, o in shapes if t[1] == o * o), "with ncol == ordmax**2")
if problems:
    print("FAIL")
    for p_ in problems:
        print("  -", p_)
    sys.exit(1)
print("PASS")
sys.exit(0)
