"""Differential test: CLEAN version of the commit vs. the unmodified library.

Run as:  PYTHONPATH=<tree>/src /venv/bin/python equiv.py   (with the CLEAN patch applied)

The pristine implementations are loaded from the copies orig_gen.py / orig_multi.py that sit
next to this file.  Touched code: gen.pre_multisetup (+ new helper gen._check_reflist) and
MultiSetup_PreGER.__init__ / _initialize_data / rollback (through which the preprocessing
methods decimate_data / filter_data / detrend_data reach pre_multisetup).
"""
import importlib.util
import logging
import os
import sys

import numpy as np

os.environ.setdefault("MPLBACKEND", "Agg")
os.environ.setdefault("TQDM_DISABLE", "1")
logging.disable(logging.CRITICAL)

HERE = os.path.dirname(os.path.abspath(__file__))


def load(name, fname):
    spec = importlib.util.spec_from_file_location(name, os.path.join(HERE, fname))
    mod = importlib.util.module_from_spec(spec)
    sys.modules[name] = mod
    spec.loader.exec_module(mod)
    return mod


from pyoma2.functions import gen as new_gen  # noqa: E402
from pyoma2.functions import ssi  # noqa: E402
from pyoma2.setup import multi as new_multi  # noqa: E402

orig_gen = load("orig_gen", "orig_gen.py")
orig_multi = load("orig_multi", "orig_multi.py")
# the pristine class must reach the pristine split
orig_multi.pre_multisetup = orig_gen.pre_multisetup

PROBLEMS = []
N_CMP = 0


def problem(msg):
    PROBLEMS.append(msg)
    print("  difference:", msg)


def same_array(a, b):
    a, b = np.asarray(a), np.asarray(b)
    if a.shape != b.shape or a.dtype != b.dtype:
        return False
    if np.array_equal(a, b, equal_nan=a.dtype.kind in "fc"):
        return True
    return a.dtype.kind in "fc" and np.allclose(a, b, rtol=1e-12, atol=0, equal_nan=True)


def same_Y(Ya, Yb):
    if len(Ya) != len(Yb):
        return False
    for da, db in zip(Ya, Yb):
        if list(da.keys()) != list(db.keys()):
            return False
        for k in da:
            if not same_array(da[k], db[k]):
                return False
    return True


def call(f, *a, **k):
    try:
        return ("ok", f(*a, **k))
    except Exception as e:  # noqa: BLE001 - the type is what is compared
        return ("exc", type(e))


def rand_setups(rng, allow_int=False):
    n_setup = int(rng.integers(1, 5))
    same_nref = rng.random() < 0.8
    n_ref0 = int(rng.integers(1, 4))
    datasets, ref_ind = [], []
    for _ in range(n_setup):
        n_ref = n_ref0 if same_nref else int(rng.integers(1, 4))
        n_mov = int(rng.integers(1, 5))
        n_ch = n_ref + n_mov
        n_dat = int(rng.integers(60, 400))
        d = rng.standard_normal((n_dat, n_ch)) * 10.0 ** rng.uniform(-2, 2)
        if allow_int and rng.random() < 0.3:
            d = rng.integers(-50, 50, size=(n_dat, n_ch))
        ref = [int(c) for c in rng.permutation(n_ch)[:n_ref]]
        kind = rng.integers(0, 4)
        if kind == 1:
            ref = tuple(ref)
        elif kind == 2:
            ref = np.array(ref)
        elif kind == 3:
            ref = [np.int64(c) for c in ref]
        datasets.append(d)
        ref_ind.append(ref)
    return datasets, ref_ind


def test_pre_multisetup(rng, n=60):
    global N_CMP
    for i in range(n):
        datasets, ref_ind = rand_setups(rng, allow_int=True)
        ra = call(orig_gen.pre_multisetup, datasets, ref_ind)
        rb = call(new_gen.pre_multisetup, datasets, ref_ind)
        N_CMP += 1
        if ra[0] != rb[0]:
            problem(f"pre_multisetup #{i}: outcome {ra[0]} vs {rb[0]} ({ra[1]}, {rb[1]})")
        elif ra[0] == "exc":
            if ra[1] is not rb[1]:
                problem(f"pre_multisetup #{i}: exception {ra[1]} vs {rb[1]}")
        elif not same_Y(ra[1], rb[1]):
            problem(f"pre_multisetup #{i}: different split for ref_ind={ref_ind}")


def test_pre_multisetup_invalid(rng):
    """Inputs that the unmodified function rejects: same exception type expected."""
    global N_CMP
    d4 = rng.standard_normal((30, 4))
    d3 = rng.standard_normal((30, 3))
    bad = [
        ([d4, d3], [[0, 0], [1]]),  # repeated
        ([d4, d3], [[0, 1], [3]]),  # out of range
        ([d4, d3], [[0, 4], [1]]),  # out of range
        ([d4, d3], [[-1], [1]]),  # negative
        ([d4, d3], [[0], []]),  # empty
        ([d4, d3], [[0, 1, 2, 3], [0]]),  # no roving channel
        ([d4, d3], [[2, 1, 2], [0]]),  # repeated, not adjacent
    ]
    for i, (datasets, ref_ind) in enumerate(bad):
        ra = call(orig_gen.pre_multisetup, datasets, ref_ind)
        rb = call(new_gen.pre_multisetup, datasets, ref_ind)
        N_CMP += 1
        if ra[0] != "exc" or rb[0] != "exc" or ra[1] is not rb[1]:
            problem(f"invalid input #{i} ref_ind={ref_ind}: {ra} vs {rb}")


ATTRS = ["fs", "dt", "Nsetup", "Nchs", "Ndats", "Ts", "_initial_fs"]


def same_objects(a, b, where):
    ok = True
    for name in ATTRS:
        va, vb = getattr(a, name), getattr(b, name)
        if va != vb or type(va) is not type(vb):
            problem(f"{where}: attribute {name}: {va!r} vs {vb!r}")
            ok = False
    if not same_Y(a.data, b.data):
        problem(f"{where}: .data differs")
        ok = False
    for name in ("datasets", "_initial_datasets"):
        la, lb = getattr(a, name), getattr(b, name)
        if len(la) != len(lb) or not all(same_array(x, y) for x, y in zip(la, lb)):
            problem(f"{where}: .{name} differs")
            ok = False
    for name in ("ref_ind", "_initial_ref_ind"):
        la, lb = getattr(a, name), getattr(b, name)
        if len(la) != len(lb) or not all(
            np.array_equal(np.asarray(x), np.asarray(y)) for x, y in zip(la, lb)
        ):
            problem(f"{where}: .{name} differs")
            ok = False
    if a.algorithms != {} or b.algorithms != {}:
        if list(a.algorithms) != list(b.algorithms):
            problem(f"{where}: .algorithms differ")
            ok = False
    return ok


def test_multisetup(rng, n=30):
    global N_CMP
    for i in range(n):
        datasets, ref_ind = rand_setups(rng)
        fs = float(rng.choice([50.0, 100.0, 128.0, 200.0]))
        ra = call(orig_multi.MultiSetup_PreGER, fs=fs, ref_ind=ref_ind, datasets=datasets)
        rb = call(new_multi.MultiSetup_PreGER, fs=fs, ref_ind=ref_ind, datasets=datasets)
        N_CMP += 1
        if ra[0] != rb[0] or ra[0] == "exc":
            problem(f"MultiSetup_PreGER #{i}: {ra} vs {rb}")
            continue
        a, b = ra[1], rb[1]
        same_objects(a, b, f"MultiSetup_PreGER #{i} (ref_ind={ref_ind})")
        if a.datasets is not datasets or b.datasets is not datasets:
            problem(f"MultiSetup_PreGER #{i}: .datasets is not the list handed in")
        if a.ref_ind is not ref_ind or b.ref_ind is not ref_ind:
            problem(f"MultiSetup_PreGER #{i}: .ref_ind is not the list handed in")
        # a random sequence of preprocessing steps, the same on both objects
        steps = list(rng.choice(["detrend", "filter", "decimate", "rollback"], size=3))
        for s in steps:
            for o in (a, b):
                if s == "detrend":
                    o.detrend_data()
                elif s == "filter":
                    o.filter_data(Wn=0.2 * fs, order=4, btype="lowpass")
                elif s == "decimate":
                    o.decimate_data(q=2)
                else:
                    o.rollback()
            N_CMP += 1
            same_objects(a, b, f"MultiSetup_PreGER #{i} after {s} (ref_ind={ref_ind})")
        # what the identification sees (only when every setup has the same number of references)
        if len({len(r) for r in ref_ind}) == 1 and i % 3 == 0:
            n_ref = len(ref_ind[0])
            br, ordmax = 4, min(4, n_ref * 4)
            for method in ("cov_mm", "dat"):
                oa = call(ssi.SSI_multi_setup, a.data, a.fs, br, ordmax, method_hank=method)
                ob = call(ssi.SSI_multi_setup, b.data, b.fs, br, ordmax, method_hank=method)
                N_CMP += 1
                if oa[0] != ob[0]:
                    problem(f"SSI_multi_setup on .data #{i}: {oa[0]} vs {ob[0]}")
                elif oa[0] == "ok":
                    if not same_array(oa[1][0], ob[1][0]) or not all(
                        same_array(x, y) for x, y in zip(oa[1][1], ob[1][1])
                    ):
                        problem(f"SSI_multi_setup on .data #{i} ({method}): results differ")


def test_failed_construction(rng):
    """Invalid reference lists: both raise the same exception type from the constructor."""
    global N_CMP
    d = [rng.standard_normal((50, 4)), rng.standard_normal((50, 4))]
    for ref_ind in ([[0, 1], [1, 1]], [[0, 1], [2, 7]], [[0, 1], []]):
        ra = call(orig_multi.MultiSetup_PreGER, fs=100.0, ref_ind=ref_ind, datasets=d)
        rb = call(new_multi.MultiSetup_PreGER, fs=100.0, ref_ind=ref_ind, datasets=d)
        N_CMP += 1
        if ra[0] != "exc" or rb[0] != "exc" or ra[1] is not rb[1]:
            problem(f"constructor with ref_ind={ref_ind}: {ra} vs {rb}")


if __name__ == "__main__":
    rng = np.random.default_rng(20241004)
    test_pre_multisetup(rng)
    test_pre_multisetup_invalid(rng)
    test_multisetup(rng)
    test_failed_construction(rng)
    print(f"{N_CMP} comparisons")
    if PROBLEMS:
        print(f"FAIL ({len(PROBLEMS)} differences)")
        sys.exit(1)
    print("PASS")
    sys.exit(0)
