"""
Equivalence check for the C20 refactoring (diagrams show exactly the identified poles).

Runs the refactored functions / algorithm-class methods and the ORIGINAL ones (pristine
copies orig_*.py of HEAD, imported by path) on random inputs and asserts that every
artist on the returned axes (and every stored result field) is identical.

    cd /tmp/wt/U20 && PYTHONPATH=/tmp/wt/U20/src /venv/bin/python _refactor/equiv.py
"""
import copy
import importlib.util
import pathlib
import sys
import warnings

import matplotlib

matplotlib.use("Agg")
import matplotlib.pyplot as plt  # noqa: E402
import numpy as np  # noqa: E402

HERE = pathlib.Path(__file__).resolve().parent
sys.path.insert(0, str(HERE.parent / "src"))

import pyoma2.algorithms.fdd as new_fdd  # noqa: E402
import pyoma2.algorithms.plscf as new_plscf  # noqa: E402
import pyoma2.algorithms.ssi as new_ssi  # noqa: E402
import pyoma2.functions.plot as new_plot  # noqa: E402

assert str(pathlib.Path(new_plot.__file__).resolve()).startswith("/tmp/wt/U20/src")


def load(name, fname):
    """Import a pristine copy under a package-qualified name (relative imports work)."""
    spec = importlib.util.spec_from_file_location(name, HERE / fname)
    mod = importlib.util.module_from_spec(spec)
    sys.modules[name] = mod
    spec.loader.exec_module(mod)
    return mod


orig_plot = load("pyoma2.functions._orig_plot", "orig_plot.py")
orig_ssi = load("pyoma2.algorithms._orig_ssi", "orig_ssi.py")
orig_plscf = load("pyoma2.algorithms._orig_plscf", "orig_plscf.py")
orig_fdd = load("pyoma2.algorithms._orig_fdd", "orig_fdd.py")
# the original calling layer must feed the original numerical / drawing layer
for m in (orig_ssi, orig_plscf, orig_fdd):
    m.plot = orig_plot

warnings.filterwarnings("ignore")
N_CHECKS = 0


# ----------------------------------------------------------------------------- utils
def same(a, b, what):
    """Strict equality: type/dtype, shape, values (NaN == NaN), recursively."""
    if isinstance(a, (list, tuple)):
        assert type(a) is type(b) and len(a) == len(b), what
        for i, (u, v) in enumerate(zip(a, b)):
            same(u, v, f"{what}[{i}]")
    elif isinstance(a, dict):
        assert isinstance(b, dict) and list(a) == list(b), what
        for k in a:
            same(a[k], b[k], f"{what}.{k}")
    elif isinstance(a, np.ndarray) or isinstance(b, np.ndarray):
        assert isinstance(a, np.ndarray) and isinstance(b, np.ndarray), what
        assert a.dtype == b.dtype, f"{what}: dtype {a.dtype} != {b.dtype}"
        assert a.shape == b.shape, f"{what}: shape {a.shape} != {b.shape}"
        if a.dtype == object:
            same(list(a.ravel()), list(b.ravel()), what)
        else:
            assert np.array_equal(a, b, equal_nan=a.dtype.kind in "fc"), f"{what}: values"
    else:
        assert type(a) is type(b), f"{what}: {type(a)} != {type(b)}"
        if isinstance(a, float) and a != a:
            assert b != b, what
        else:
            assert a == b, f"{what}: {a!r} != {b!r}"


def snapshot(ax):
    """Everything the diagrams hand to matplotlib, in drawing order."""
    snap = {
        "title": ax.get_title(),
        "xlabel": ax.get_xlabel(),
        "ylabel": ax.get_ylabel(),
        "xlim": tuple(float(v) for v in ax.get_xlim()),
        "ylim": tuple(float(v) for v in ax.get_ylim()),
        "grid": bool(ax.xaxis.get_gridlines()[0].get_visible()),
        "children": [type(c).__name__ for c in ax.get_children()],
    }
    lines = []
    for ln in ax.lines:
        lines.append(
            {
                "x": np.asarray(ln.get_xdata(orig=True)),
                "y": np.asarray(ln.get_ydata(orig=True)),
                "xf": np.asarray(ln.get_xdata(orig=False), dtype=float),
                "yf": np.asarray(ln.get_ydata(orig=False), dtype=float),
                "color": matplotlib.colors.to_rgba(ln.get_color()),
                "marker": str(ln.get_marker()),
                "ms": float(ln.get_markersize()),
                "lw": float(ln.get_linewidth()),
                "ls": str(ln.get_linestyle()),
                "label": str(ln.get_label()),
            }
        )
    snap["lines"] = lines
    colls = []
    for co in ax.collections:
        d = {
            "type": type(co).__name__,
            "label": str(co.get_label()),
            "offsets": np.ma.filled(np.ma.asarray(co.get_offsets(), dtype=float), np.nan),
            "offmask": np.ma.getmaskarray(np.ma.asarray(co.get_offsets())),
            "fc": np.asarray(co.get_facecolor()),
            "ec": np.asarray(co.get_edgecolor()),
        }
        if hasattr(co, "get_sizes"):
            d["sizes"] = np.asarray(co.get_sizes())
        if hasattr(co, "get_segments"):
            d["segments"] = [np.asarray(s) for s in co.get_segments()]
        colls.append(d)
    snap["collections"] = colls
    snap["containers"] = [
        (type(c).__name__, str(c.get_label()), bool(c.has_xerr), bool(c.has_yerr))
        for c in ax.containers
    ]
    leg = ax.get_legend()
    snap["legend"] = None if leg is None else [t.get_text() for t in leg.get_texts()]
    return snap


def outcome(fn, *args, **kwargs):
    """('ok', snapshot) or ('exc', type, message); figures are closed afterwards."""
    try:
        out = fn(*args, **kwargs)
        assert isinstance(out, tuple) and len(out) == 2
        fig, ax = out
        assert ax.figure is fig
        res = ("ok", snapshot(ax))
    except Exception as e:  # noqa: BLE001
        res = ("exc", type(e), str(e))
    plt.close("all")
    return res


def check(new_fn, old_fn, args_new, args_old, kwargs, what):
    global N_CHECKS
    a = outcome(new_fn, *args_new, **kwargs)
    b = outcome(old_fn, *args_old, **kwargs)
    same(a, b, what)
    N_CHECKS += 1
    return a[0]


def with_axes(kwargs, supply):
    """Optionally hand an existing figure/axes to the function (as SelFromPlot does)."""
    if not supply:
        return dict(kwargs), dict(kwargs)
    out = []
    for _ in range(2):
        fig, ax = plt.subplots()
        out.append(dict(kwargs, fig=fig, ax=ax))
    return out


# ------------------------------------------------------------------- random inputs
def pole_tables(rng, n_rows=None, n_ord=None, lab_kind=None):
    """(Fn, Xi, Lab, Fn_cov) with an arbitrary NaN pattern."""
    n_rows = n_rows or int(rng.integers(1, 41))
    n_ord = n_ord or int(rng.integers(1, 61))
    Fn = rng.uniform(0.1, 50.0, (n_rows, n_ord))
    Xi = rng.uniform(0.0, 0.12, (n_rows, n_ord))
    lab_kind = lab_kind or rng.choice(["float_nan", "int", "mixed"])
    Lab = rng.integers(0, 2, (n_rows, n_ord)).astype(float)
    nan_pat = rng.choice(["none", "tri", "rand", "all", "heavy"])
    if nan_pat == "tri":
        rejected = np.arange(n_rows)[:, None] > np.arange(n_ord)[None, :]
    elif nan_pat == "rand":
        rejected = rng.random((n_rows, n_ord)) < 0.3
    elif nan_pat == "heavy":
        rejected = rng.random((n_rows, n_ord)) < 0.9
    elif nan_pat == "all":
        rejected = np.ones((n_rows, n_ord), bool)
    else:
        rejected = np.zeros((n_rows, n_ord), bool)
    Fn[rejected] = np.nan
    Xi[rejected] = np.nan
    if lab_kind == "float_nan":
        Lab[rejected] = np.nan
    elif lab_kind == "int":
        Lab = Lab.astype(int)
    else:  # other (legacy) label values are neither stable nor unstable
        Lab[rng.random(Lab.shape) < 0.2] = 7.0
    Fn_cov = rng.uniform(0.0, 0.08, (n_rows, n_ord))
    Fn_cov[rng.random(Fn_cov.shape) < 0.15] = np.nan
    Fn_cov[rejected & (rng.random(Fn_cov.shape) < 0.7)] = np.nan
    return Fn, Xi, Lab, Fn_cov


def rand_freqlim(rng):
    return None if rng.random() < 0.4 else tuple(np.sort(rng.uniform(0, 50, 2)).tolist())


# ------------------------------------------------------------ 1. drawing functions
def test_functions(rng):
    # --- stabilisation diagram
    for it in range(70):
        Fn, Xi, Lab, Fn_cov = pole_tables(rng)
        step = int(rng.integers(1, 5))
        ordmax = Fn.shape[1] * step
        kw = {
            "freqlim": rand_freqlim(rng),
            "hide_poles": [True, False, None, 0, 1][int(rng.integers(0, 5))],
        }
        if rng.random() < 0.6:
            kw["Fn_cov"] = Fn_cov
        if rng.random() < 0.5:
            kw["ordmin"] = int(rng.integers(0, 5))
        k_new, k_old = with_axes(kw, supply=rng.random() < 0.3)
        a = outcome(new_plot.stab_plot, Fn.copy(), Lab.copy(), step, ordmax, **k_new)
        b = outcome(orig_plot.stab_plot, Fn.copy(), Lab.copy(), step, ordmax, **k_old)
        same(a, b, f"stab_plot#{it}")
        assert a[0] == "ok"
        global N_CHECKS
        N_CHECKS += 1
        # the inputs are not modified in place
        Fn0, Lab0 = Fn.copy(), Lab.copy()
        new_plot.stab_plot(Fn, Lab, step, ordmax, **{k: v for k, v in kw.items()})
        plt.close("all")
        same(Fn, Fn0, "Fn untouched")
        same(Lab, Lab0, "Lab untouched")

    # --- frequency-damping cluster diagram
    for it in range(50):
        Fn, Xi, Lab, _ = pole_tables(rng)
        kw = {
            "freqlim": rand_freqlim(rng),
            "hide_poles": [True, False, None][int(rng.integers(0, 3))],
        }
        if rng.random() < 0.5:
            kw["ordmin"] = int(rng.integers(0, 5))
        st = check(
            new_plot.cluster_plot,
            orig_plot.cluster_plot,
            (Fn.copy(), Xi.copy(), Lab.copy()),
            (Fn.copy(), Xi.copy(), Lab.copy()),
            kw,
            f"cluster_plot#{it}",
        )
        assert st == "ok"

    # --- fixed corner cases: one row, one order, 60 orders, everything rejected
    for n_rows, n_ord in ((1, 1), (1, 60), (60, 1), (60, 60), (2, 3)):
        for lab_kind in ("float_nan", "int"):
            Fn, Xi, Lab, Fn_cov = pole_tables(rng, n_rows, n_ord, lab_kind)
            for hide in (True, False):
                for cov in (None, Fn_cov):
                    kw = {"hide_poles": hide, "Fn_cov": cov, "freqlim": (1.0, 20.0)}
                    check(
                        new_plot.stab_plot,
                        orig_plot.stab_plot,
                        (Fn, Lab, 2, 2 * n_ord),
                        (Fn, Lab, 2, 2 * n_ord),
                        kw,
                        f"stab corner {n_rows}x{n_ord}",
                    )
                check(
                    new_plot.cluster_plot,
                    orig_plot.cluster_plot,
                    (Fn, Xi, Lab),
                    (Fn, Xi, Lab),
                    {"hide_poles": hide},
                    f"cluster corner {n_rows}x{n_ord}",
                )

    # --- singular value plot
    for it in range(60):
        nch = int(rng.integers(1, 8))
        nf = int(rng.integers(2, 300))
        S_val = np.zeros((nch, nch, nf))
        sv = np.sort(rng.lognormal(0.0, 2.0, (nch, nf)), axis=0)[::-1]
        S_val[np.arange(nch), np.arange(nch), :] = sv
        if rng.random() < 0.2:  # non-contiguous view
            S_val = np.asfortranarray(S_val)
        if rng.random() < 0.1 and nch > 1:
            S_val[1, 1, int(rng.integers(0, nf))] = 0.0  # -inf level
        freq = np.linspace(0.0, 50.0, nf)
        choices = ["all"] + list(range(0, nch + 2)) + [-1, "invalid", "1", 1.0, None]
        nSv = choices[int(rng.integers(0, len(choices)))]
        kw = {"freqlim": rand_freqlim(rng), "nSv": nSv}
        k_new, k_old = with_axes(kw, supply=rng.random() < 0.3)
        a = outcome(new_plot.CMIF_plot, S_val, freq, **k_new)
        b = outcome(orig_plot.CMIF_plot, S_val, freq, **k_old)
        same(a, b, f"CMIF_plot#{it} nSv={nSv!r}")
        N_CHECKS += 1
    for nSv in ("all", 0, 1, 2, 3, 4, "x", 2.0):  # every admissible number and some not
        S_val = rng.lognormal(0.0, 1.0, (4, 4, 33))
        freq = np.linspace(0, 10, 33)
        check(new_plot.CMIF_plot, orig_plot.CMIF_plot, (S_val, freq), (S_val, freq),
              {"nSv": nSv}, f"CMIF nSv={nSv!r}")


# ------------------------------------------------------------- 2. algorithm classes
def synth_data(rng, n=3000, nch=5, fs=50.0):
    t = np.arange(n) / fs
    freqs = np.array([2.1, 5.3, 9.7])
    shapes = rng.normal(size=(nch, len(freqs)))
    resp = np.zeros((n, nch))
    for j, f in enumerate(freqs):
        # randomly excited damped oscillators (AR(2) filters of white noise)
        xi = 0.01 + 0.01 * j
        lam = np.exp((-xi * 2 * np.pi * f + 1j * 2 * np.pi * f * np.sqrt(1 - xi**2)) / fs)
        a1, a2 = 2 * lam.real, -abs(lam) ** 2
        e = rng.normal(size=n)
        q = np.zeros(n)
        for k in range(2, n):
            q[k] = a1 * q[k - 1] + a2 * q[k - 2] + e[k]
        resp += np.outer(q / q.std(), shapes[:, j])
    resp += 0.05 * rng.normal(size=resp.shape)
    return resp, fs, t


class FakeSFP:
    """Stand-in for the interactive selection window."""

    picks = ([], None)

    def __init__(self, algo, freqlim=None, plot=None):
        assert plot in ("SSI", "pLSCF", "FDD")
        self.result = FakeSFP.picks


def result_fields(res):
    return {k: getattr(res, k) for k in type(res).model_fields}


def run_pair(new_cls, old_cls, data, fs, **params):
    a = new_cls(name="a", **params)._set_data(data=data, fs=fs)
    b = old_cls(name="b", **params)._set_data(data=data, fs=fs)
    res = a.run()
    a._set_result(res)
    b._set_result(old_cls.ResultCls(**copy.deepcopy(result_fields(res))))
    return a, b


def compare_state(a, b, what):
    same(result_fields(a.result), result_fields(b.result), what + ".result")
    same(a.run_params.model_dump(), b.run_params.model_dump(), what + ".run_params")


def method_outcome(algo, name, *args, **kwargs):
    try:
        return ("ok", getattr(algo, name)(*args, **kwargs))
    except Exception as e:  # noqa: BLE001
        return ("exc", type(e), str(e))


def test_pole_algo(rng, a, b, what, sfp_kind):
    global N_CHECKS
    # diagrams through the plot methods
    for hide in (True, False, None):
        for freqlim in (None, (1.0, 12.0)):
            kw = {"freqlim": freqlim, "hide_poles": hide}
            assert check(a.plot_stab, b.plot_stab, (), (), kw, what + ".plot_stab") == "ok"
            assert (
                check(a.plot_cluster, b.plot_cluster, (), (), kw, what + ".plot_cluster")
                == "ok"
            )
    check(a.plot_stab, b.plot_stab, ((0.0, 20.0), False), ((0.0, 20.0), False), {}, what)
    check(a.plot_cluster, b.plot_cluster, ((0.0, 20.0),), ((0.0, 20.0),), {}, what)
    compare_state(a, b, what + " after plots")

    # modal parameter extraction: the orders accepted for the selected poles
    Fn_p, Lab = a.result.Fn_poles, a.result.Lab
    stable = np.argwhere(Lab == 1)
    retained = np.argwhere(~np.isnan(Fn_p))
    assert len(stable) > 0, what + ": no stable pole in the synthetic run"
    step = getattr(a.run_params, "step", 1) if sfp_kind == "SSI" else 1
    for it in range(8):
        pool = stable if it % 2 == 0 else retained
        pick = pool[rng.choice(len(pool), size=min(3, len(pool)), replace=False)]
        sel_freq = [float(Fn_p[i, j]) * (1 + 0.002 * rng.normal()) for i, j in pick]
        orders = [
            "find_min",
            int(pick[0][1]) * step,
            [int(j) * step for _, j in pick],
        ][it % 3]
        rtol = [5e-2, 1e-2, 0.2][it % 3]
        ra = method_outcome(a, "mpe", sel_freq, order=orders, rtol=rtol)
        rb = method_outcome(b, "mpe", sel_freq, order=orders, rtol=rtol)
        same(ra, rb, what + f".mpe#{it}")
        compare_state(a, b, what + f".mpe#{it}")
        N_CHECKS += 1
        # ... and after extraction the diagrams are still the same
        check(a.plot_stab, b.plot_stab, (), (), {"hide_poles": False}, what + " post-mpe")

        # interactive route (selection window replaced by a stub)
        FakeSFP.picks = (sel_freq, [int(j) * step for _, j in pick])
        ra = method_outcome(a, "mpe_from_plot", freqlim=(0.0, 20.0), rtol=rtol)
        rb = method_outcome(b, "mpe_from_plot", freqlim=(0.0, 20.0), rtol=rtol)
        same(ra, rb, what + f".mpe_from_plot#{it}")
        compare_state(a, b, what + f".mpe_from_plot#{it}")
        N_CHECKS += 1
    # default arguments / positional calls
    sel = [float(Fn_p[tuple(stable[0])])]
    same(method_outcome(a, "mpe", sel), method_outcome(b, "mpe", sel), what + ".mpe default")
    compare_state(a, b, what + ".mpe default")
    same(
        method_outcome(a, "mpe", sel, 10_000, 0.01),
        method_outcome(b, "mpe", sel, 10_000, 0.01),
        what + ".mpe bad order",
    )
    compare_state(a, b, what + ".mpe bad order")
    FakeSFP.picks = (sel, [int(stable[0][1]) * step])
    same(
        method_outcome(a, "mpe_from_plot"),
        method_outcome(b, "mpe_from_plot"),
        what + ".mpe_from_plot default",
    )
    compare_state(a, b, what + ".mpe_from_plot default")
    N_CHECKS += 3


def test_classes(rng):
    global N_CHECKS
    for m in (new_ssi, orig_ssi, new_plscf, orig_plscf, new_fdd, orig_fdd):
        m.SelFromPlot = FakeSFP
    data, fs, _ = synth_data(rng)

    # --- SSI, with and without uncertainty bounds, non default step / criteria
    ssi_cases = [
        # (step != 1 makes SSI_poles of HEAD fail with IndexError: only step=1 can be run;
        #  other steps are covered below with synthetic result objects)
        ("SSIcov", dict(br=12, ordmax=24, step=1, method="cov_R")),
        (
            "SSIcov",
            dict(
                br=10,
                ordmin=2,
                ordmax=18,
                step=1,
                method="cov_mm",
                calc_unc=True,
                nb=20,
                hc=dict(conj=True, xi_max=0.2, mpc_lim=0.5, mpd_lim=0.5, cov_max=0.5),
                sc=dict(err_fn=0.05, err_xi=0.2, err_phi=0.1),
            ),
        ),
        ("SSIdat", dict(br=10, ordmax=20, step=1, ref_ind=[3, 0])),
    ]
    for cls_name, params in ssi_cases:
        a, b = run_pair(getattr(new_ssi, cls_name), getattr(orig_ssi, cls_name), data, fs,
                        **params)
        if params.get("calc_unc"):
            assert a.result.Fn_poles_cov is not None
        test_pole_algo(rng, a, b, f"{cls_name}{sorted(params)}", "SSI")

    # --- pLSCF
    for params in (
        dict(ordmax=20, nxseg=512),
        dict(
            ordmax=16,
            ordmin=3,
            nxseg=256,
            method_SD="per",
            pov=0.0,
            hc=dict(conj=True, xi_max=0.2, mpc_lim=0.5, mpd_lim=0.5),
            sc=dict(err_fn=0.05, err_xi=0.2, err_phi=0.1),
        ),
    ):
        a, b = run_pair(new_plscf.pLSCF, orig_plscf.pLSCF, data, fs, **params)
        test_pole_algo(rng, a, b, f"pLSCF{sorted(params)}", "pLSCF")

    # --- FDD family: singular value plot through the classes
    for cls_name, params in (
        ("FDD", dict(nxseg=512)),
        ("FDD", dict(nxseg=256, method_SD="per", pov=0.0)),
        ("EFDD", dict(nxseg=512)),
        ("FSDD", dict(nxseg=300, pov=0.25)),
    ):
        a, b = run_pair(getattr(new_fdd, cls_name), getattr(orig_fdd, cls_name), data, fs,
                        **params)
        nch = data.shape[1]
        for nSv in ["all", *range(nch + 1), "bad"]:
            for freqlim in (None, (0.5, 15.0)):
                check(a.plot_CMIF, b.plot_CMIF, (), (), {"freqlim": freqlim, "nSv": nSv},
                      f"{cls_name}.plot_CMIF nSv={nSv!r}")
        check(a.plot_CMIF, b.plot_CMIF, ((1.0, 9.0), 2), ((1.0, 9.0), 2), {}, cls_name)
        check(a.plot_CMIF, b.plot_CMIF, (), (), {}, cls_name + " defaults")
        compare_state(a, b, cls_name)

    # --- synthetic result objects: random tables straight into the result
    for it in range(25):
        Fn, Xi, Lab, Fn_cov = pole_tables(rng)
        use_cov = rng.random() < 0.5
        step = int(rng.integers(1, 4))
        ordmax = Fn.shape[1] * step
        kw = {"freqlim": rand_freqlim(rng), "hide_poles": bool(rng.integers(0, 2))}
        pairs = []
        for mod in (new_ssi, orig_ssi):
            al = mod.SSIcov(name="s", br=5, ordmax=ordmax, step=step,
                            ordmin=int(rng.integers(0, 3)) if mod is new_ssi else 0)
            pairs.append(al)
        pairs[1].run_params.ordmin = pairs[0].run_params.ordmin
        for al in pairs:
            al._set_result(
                type(al).ResultCls(
                    Fn_poles=Fn.copy(),
                    Xi_poles=Xi.copy(),
                    Lab=Lab.copy(),
                    Fn_poles_cov=Fn_cov.copy() if use_cov else None,
                )
            )
        check(pairs[0].plot_stab, pairs[1].plot_stab, (), (), kw, f"synthetic SSI stab#{it}")
        check(pairs[0].plot_cluster, pairs[1].plot_cluster, (), (), kw,
              f"synthetic SSI cluster#{it}")
        pp = [mod.pLSCF(name="p", ordmax=Fn.shape[1], ordmin=1) for mod in (new_plscf, orig_plscf)]
        for al in pp:
            al._set_result(
                type(al).ResultCls(Fn_poles=Fn.copy(), Xi_poles=Xi.copy(), Lab=Lab.copy())
            )
        check(pp[0].plot_stab, pp[1].plot_stab, (), (), kw, f"synthetic pLSCF stab#{it}")
        check(pp[0].plot_cluster, pp[1].plot_cluster, (), (), kw,
              f"synthetic pLSCF cluster#{it}")

    # --- algorithms that were not run yet: same exceptions
    for new_mod, old_mod, cls_name, params, methods in (
        (new_ssi, orig_ssi, "SSIdat", dict(br=5), ("plot_stab", "plot_cluster")),
        (new_plscf, orig_plscf, "pLSCF", dict(ordmax=5), ("plot_stab", "plot_cluster")),
        (new_fdd, orig_fdd, "FDD", dict(nxseg=64), ("plot_CMIF",)),
    ):
        for meth in methods:
            a = getattr(new_mod, cls_name)(name="x", **params)
            b = getattr(old_mod, cls_name)(name="x", **params)
            a.result = b.result = None
            ra, rb = method_outcome(a, meth), method_outcome(b, meth)
            assert ra[0] == "exc", (cls_name, meth)
            same(ra, rb, f"{cls_name}.{meth} before run")
            N_CHECKS += 1
        for meth, args in (("mpe", ([1.0],)), ("mpe_from_plot", ())):
            a = getattr(new_mod, cls_name)(name="x", **params)
            b = getattr(old_mod, cls_name)(name="x", **params)
            a.result = b.result = None
            ra, rb = method_outcome(a, meth, *args), method_outcome(b, meth, *args)
            assert ra[0] == "exc"
            same(ra, rb, f"{cls_name}.{meth} before run")
            N_CHECKS += 1


if __name__ == "__main__":
    for seed in (20, 2020):
        rng = np.random.default_rng(seed)
        test_functions(rng)
        test_classes(rng)
    print(f"{N_CHECKS} comparisons identical")
    print("PASS")
