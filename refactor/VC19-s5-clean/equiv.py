"""Differential test: library under PYTHONPATH against the pristine sources.

Run as  PYTHONPATH=<tree>/src /venv/bin/python equiv.py

The pristine implementations are loaded from the copies saved next to this
script (orig_gen.py, orig_mpl_plotter.py).  Random geometry tables (valid ones
and single-fault corruptions, single- and multi-setup name forms) are sent
through check_on_geo1 / check_on_geo2 / dfphi_map_func of both versions and
through Geo2MplPlotter.plot_mode of both versions (Agg backend); results,
artist coordinates and raised exception types are compared.
"""
import copy
import importlib.util
import os
import sys
import warnings

import matplotlib

matplotlib.use("Agg")
import matplotlib.pyplot as plt  # noqa: E402
import numpy as np  # noqa: E402
import pandas as pd  # noqa: E402

warnings.filterwarnings("ignore")
HERE = os.path.dirname(os.path.abspath(__file__))


def _load(modname, filename):
    spec = importlib.util.spec_from_file_location(modname, os.path.join(HERE, filename))
    mod = importlib.util.module_from_spec(spec)
    sys.modules[modname] = mod
    spec.loader.exec_module(mod)
    return mod


from pyoma2.algorithms.data.result import BaseResult  # noqa: E402
from pyoma2.functions import gen as new_gen  # noqa: E402
from pyoma2.support.geometry import mpl_plotter as new_mpl  # noqa: E402
from pyoma2.support.geometry.data import Geometry2  # noqa: E402

orig_gen = _load("orig_gen", "orig_gen.py")
# loaded inside the package so that its relative imports resolve
orig_mpl = _load("pyoma2.support.geometry.orig_mpl_plotter", "orig_mpl_plotter.py")
orig_mpl.dfphi_map_func = orig_gen.dfphi_map_func

FAILS = []
NCMP = 0
OUTCOMES = {}


# ----------------------------------------------------------------------------
# comparison helpers
def same(a, b):
    if a is None or b is None:
        return a is None and b is None
    if isinstance(a, pd.DataFrame) or isinstance(b, pd.DataFrame):
        if not (isinstance(a, pd.DataFrame) and isinstance(b, pd.DataFrame)):
            return False
        if a.shape != b.shape:
            return False
        if list(a.index) != list(b.index) or list(a.columns) != list(b.columns):
            return False
        if list(a.dtypes) != list(b.dtypes):
            return False
        return same(a.to_numpy(dtype=object), b.to_numpy(dtype=object))
    if isinstance(a, (list, tuple)) and isinstance(b, (list, tuple)):
        return len(a) == len(b) and all(same(x, y) for x, y in zip(a, b))
    a = np.asarray(a)
    b = np.asarray(b)
    if a.shape != b.shape:
        return False
    if a.dtype == object or b.dtype == object:
        for x, y in zip(a.ravel(), b.ravel()):
            if isinstance(x, str) or isinstance(y, str):
                if not (isinstance(x, str) and isinstance(y, str) and x == y):
                    return False
            else:
                if not np.allclose(float(x), float(y), rtol=1e-12, atol=0, equal_nan=True):
                    return False
        return True
    if a.dtype.kind in "US" or b.dtype.kind in "US":
        return np.array_equal(a, b)
    return np.allclose(a, b, rtol=1e-12, atol=0, equal_nan=True)


def run(fn, *args, **kw):
    try:
        return ("ok", fn(*args, **kw))
    except Exception as e:  # noqa: BLE001
        return ("exc", type(e))


def compare(label, fo, fn, make_args):
    """make_args() must build a fresh, independent argument set at each call."""
    global NCMP
    NCMP += 1
    ao, kwo = make_args()
    an, kwn = make_args()
    ro = run(fo, *ao, **kwo)
    rn = run(fn, *an, **kwn)
    tag = label.split("#")[0].strip() + ": " + ("returned" if ro[0] == "ok" else ro[1].__name__)
    OUTCOMES[tag] = OUTCOMES.get(tag, 0) + 1
    if ro[0] != rn[0]:
        FAILS.append(f"{label}: original {ro[0]} {ro[1]!r:.80} / new {rn[0]} {rn[1]!r:.80}")
        return ro, rn
    if ro[0] == "exc":
        if ro[1] is not rn[1]:
            FAILS.append(f"{label}: exception {ro[1].__name__} became {rn[1].__name__}")
    else:
        if not same(ro[1], rn[1]):
            FAILS.append(f"{label}: results differ")
        # the arguments must have been treated alike, too (in-place effects)
        for k, (x, y) in enumerate(zip(ao, an)):
            if isinstance(x, dict):
                if list(x) != list(y) or not all(same(x[q], y[q]) for q in x):
                    FAILS.append(f"{label}: argument {k} left in a different state")
    return ro, rn


# ----------------------------------------------------------------------------
# random table sets
def rand_names(rng, n, prefix="s"):
    pool = [f"{prefix}{i}" for i in rng.permutation(4 * n)[:n]]
    return pool


def names_forms(rng, multi):
    """Returns (sensors-names object factory, ref_ind, flat list of names)."""
    if not multi:
        n = int(rng.integers(1, 13))
        names = rand_names(rng, n)
        form = int(rng.integers(0, 3))
        if form == 0:
            return (lambda: list(names)), None, names
        if form == 1:
            return (lambda: np.array(names)), None, names
        return (lambda: pd.DataFrame([names])), None, names
    nset = int(rng.integers(2, 5))
    k = int(rng.integers(1, 4))
    setups, ref_ind = [], []
    cnt = 0
    for _ in range(nset):
        nch = k + int(rng.integers(1, 4))
        ref = sorted(rng.permutation(nch)[:k].tolist())
        if rng.random() < 0.4:
            ref = list(rng.permutation(ref))
        ref = [int(r) for r in ref]
        row = []
        for j in range(nch):
            if j in ref:
                row.append(f"ref_{cnt}")
            else:
                row.append(f"rov{cnt}")
            cnt += 1
        setups.append(row)
        ref_ind.append(ref)
    flat = [f"REF{i+1}" for i in range(k)]
    for row, ref in zip(setups, ref_ind):
        flat += [x for j, x in enumerate(row) if j not in ref]
    if rng.random() < 0.5:
        return (lambda: copy.deepcopy(setups)), ref_ind, flat
    width = max(len(r) for r in setups)
    rows = [r + [np.nan] * (width - len(r)) for r in setups]
    return (lambda: pd.DataFrame(rows)), ref_ind, flat


def opt_tables(rng, npts, with_surf_key):
    d = {}
    if rng.random() < 0.6:
        m = int(rng.integers(1, 6))
        d["sensors lines"] = pd.DataFrame(rng.integers(1, npts + 1, size=(m, 2)))
    if with_surf_key and rng.random() < 0.5:
        m = int(rng.integers(1, 4))
        d["sensors surfaces"] = pd.DataFrame(rng.integers(1, npts + 1, size=(m, 3)))
    if rng.random() < 0.5:
        nb = int(rng.integers(2, 6))
        d["BG nodes"] = pd.DataFrame(rng.normal(size=(nb, 3)))
        if rng.random() < 0.7:
            d["BG lines"] = pd.DataFrame(rng.integers(1, nb + 1, size=(3, 2)))
        if rng.random() < 0.5:
            d["BG surfaces"] = pd.DataFrame(rng.integers(1, nb + 1, size=(2, 3)))
    for key in list(d):
        if rng.random() < 0.1:
            d[key] = pd.DataFrame()
    return d


def geo1_tables(rng, multi):
    mk_names, ref_ind, flat = names_forms(rng, multi)
    extra = [f"x{i}" for i in range(int(rng.integers(0, 3)))]
    rows = flat + extra
    perm = rng.permutation(len(rows))
    labels = [rows[i] for i in perm]
    coord = pd.DataFrame(
        rng.normal(size=(len(rows), 3)).round(3), index=labels, columns=["x", "y", "z"]
    )
    dirs = pd.DataFrame(
        rng.integers(-1, 2, size=(len(rows), 3)), index=labels, columns=["x", "y", "z"]
    )
    opt = opt_tables(rng, len(flat), with_surf_key=False)

    def make():
        d = {
            "sensors names": mk_names(),
            "sensors coordinates": coord.copy(),
            "sensors directions": dirs.copy(),
        }
        d.update({k: v.copy() for k, v in opt.items()})
        return d

    return make, ref_ind, flat


def corrupt_geo1(rng, d, flat):
    kind = int(rng.integers(0, 9))
    if kind == 0:
        del d[["sensors names", "sensors coordinates", "sensors directions"][int(rng.integers(3))]]
    elif kind == 1:
        d["sensor coordinates"] = pd.DataFrame(np.zeros((2, 3)))
    elif kind == 2:
        d["sensors coordinates"] = d["sensors coordinates"].iloc[:, :2]
    elif kind == 3:
        d["sensors directions"] = d["sensors directions"].iloc[:-1]
    elif kind == 4:
        d["sensors directions"] = d["sensors directions"].iloc[::-1]
    elif kind == 5:
        drop = flat[int(rng.integers(len(flat)))]
        d["sensors coordinates"] = d["sensors coordinates"].drop(index=drop)
        d["sensors directions"] = d["sensors directions"].drop(index=drop)
    elif kind == 6:
        d["BG nodes"] = pd.DataFrame(np.zeros((3, 2)))
    elif kind == 7:
        d["BG lines"] = pd.DataFrame(np.ones((3, 3), dtype=int))
    else:
        d["BG surfaces"] = pd.DataFrame(np.ones((3, 2), dtype=int))
    return d


def geo2_tables(rng, multi):
    mk_names, ref_ind, flat = names_forms(rng, multi)
    n = len(flat)
    ncon = int(rng.integers(0, 4))
    cnames = [f"K{i}" for i in range(ncon)]
    entries = list(flat) + list(cnames)
    # some sensors / constraints are used at several cells
    entries += [entries[int(rng.integers(len(entries)))] for _ in range(int(rng.integers(0, 4)))]
    npts = max(1, -(-len(entries) // 3)) + int(rng.integers(0, 3))
    cells = np.empty(npts * 3, dtype=object)
    blank = rng.random(npts * 3)
    for q in range(npts * 3):
        cells[q] = 0 if blank[q] < 0.6 else (np.nan if blank[q] < 0.9 else 0.0)
    pos = rng.permutation(npts * 3)[: len(entries)]
    for p, e in zip(pos, entries):
        cells[p] = e
    smap = pd.DataFrame(cells.reshape(npts, 3), columns=["x", "y", "z"])
    pts = pd.DataFrame(rng.normal(size=(npts, 3)).round(3), columns=["x", "y", "z"])
    if rng.random() < 0.3:
        pts = pd.DataFrame(rng.integers(0, 9, size=(npts, 3)), columns=["x", "y", "z"])
    tabs = {}
    if ncon:
        mode = int(rng.integers(0, 4))
        if mode == 0:  # a few sensors only, any order
            cols = [flat[i] for i in rng.permutation(n)[: int(rng.integers(1, n + 1))]]
        elif mode == 1:  # all sensors, the order of the names
            cols = list(flat)
        elif mode == 2:  # all sensors, any order
            cols = [flat[i] for i in rng.permutation(n)]
        else:  # sub-sequence in the order of the names
            cols = [x for x in flat if rng.random() < 0.6] or [flat[0]]
        vals = rng.integers(-2, 3, size=(ncon, len(cols))).astype(float)
        if rng.random() < 0.5:
            vals = vals + rng.normal(size=vals.shape).round(2)
        c = pd.DataFrame(vals, index=cnames, columns=cols)
        if rng.random() < 0.4:
            c = c.mask(rng.random(c.shape) < 0.3)
        if rng.random() < 0.2:
            c = c.astype(float).round(0).fillna(0).astype(int)
        tabs["constraints"] = c
    elif rng.random() < 0.3:
        tabs["constraints"] = pd.DataFrame()
    if rng.random() < 0.6:
        sg = rng.choice([-1, 1], size=(npts, 3))
        tabs["sensors sign"] = pd.DataFrame(
            sg if rng.random() < 0.5 else sg.astype(float), columns=["x", "y", "z"]
        )
    elif rng.random() < 0.3:
        tabs["sensors sign"] = pd.DataFrame()
    tabs.update(opt_tables(rng, npts, with_surf_key=True))

    def make():
        d = {
            "sensors names": mk_names(),
            "points coordinates": pts.copy(),
            "mapping": smap.copy(),
        }
        d.update({k: v.copy() for k, v in tabs.items()})
        return d

    return make, ref_ind, flat


def corrupt_geo2(rng, d, flat):
    kind = int(rng.integers(0, 10))
    if kind == 0:
        del d[["sensors names", "points coordinates", "mapping"][int(rng.integers(3))]]
    elif kind == 1:
        d["sensors map"] = pd.DataFrame(np.zeros((2, 3)))
    elif kind == 2:
        d["points coordinates"] = d["points coordinates"].iloc[:, :2]
    elif kind == 3:
        d["mapping"] = d["mapping"].iloc[:-1]
    elif kind == 4:
        d["sensors sign"] = pd.DataFrame(np.ones((d["mapping"].shape[0] + 1, 3)))
    elif kind == 5:  # a sensor name absent from the mapping
        gone = flat[int(rng.integers(len(flat)))]
        d["mapping"] = d["mapping"].astype(object).where(d["mapping"] != gone, 0)
    elif kind == 6:  # constraint table naming an unknown sensor
        c = d.get("constraints")
        if c is None or c.empty:
            c = pd.DataFrame([[1.0]], index=["K0"], columns=[flat[0]])
            d["mapping"].iloc[0, 0] = "K0" if d["mapping"].iloc[0, 0] not in flat else d["mapping"].iloc[0, 0]
        d["constraints"] = c.rename(columns={c.columns[0]: "nobody"})
    elif kind == 7:  # constraint the mapping never uses
        c = d.get("constraints")
        if c is None or c.empty:
            c = pd.DataFrame([[1.0]], index=["K0"], columns=[flat[0]])
        c = c.copy()
        c.loc["Kunused"] = 1.0
        d["constraints"] = c
    elif kind == 8:
        d["BG nodes"] = pd.DataFrame(np.zeros((3, 4)))
    else:
        d["BG lines"] = pd.DataFrame(np.ones((3, 1), dtype=int))
    return d


def artists(ax):
    out = [ax.get_title()]
    for coll in ax.collections:
        if hasattr(coll, "_offsets3d"):
            out.append([np.ma.getdata(np.asarray(v, dtype=float)) for v in coll._offsets3d])
        elif hasattr(coll, "_vec"):
            out.append(np.asarray(coll._vec, dtype=float))
    for line in ax.lines:
        out.append([np.asarray(v, dtype=float) for v in line.get_data_3d()])
        out.append(np.asarray(matplotlib.colors.to_rgba(line.get_color())))
    return out


def plot_with(module, geo, res, mode_nr, scaleF, color):
    fig, ax = module.Geo2MplPlotter(geo, res).plot_mode(mode_nr, scaleF, "3D", color)
    out = artists(ax)
    plt.close(fig)
    return out


# ----------------------------------------------------------------------------
def main():
    rng = np.random.default_rng(20241004)
    n_geo1 = n_geo2 = n_map = n_plot = 0

    # ---- check_on_geo1: valid and corrupted table sets
    for it in range(60):
        make, ref_ind, flat = geo1_tables(rng, multi=bool(it % 2))
        compare(f"geo1 valid #{it}", orig_gen.check_on_geo1, new_gen.check_on_geo1,
                lambda: ((make(),), {"ref_ind": copy.deepcopy(ref_ind)}))
        seed = int(rng.integers(1 << 30))
        compare(f"geo1 corrupt #{it}", orig_gen.check_on_geo1, new_gen.check_on_geo1,
                lambda: ((corrupt_geo1(np.random.default_rng(seed), make(), flat),),
                         {"ref_ind": copy.deepcopy(ref_ind)}))
        n_geo1 += 2

    # ---- check_on_geo2 (+ mapping of random mode shapes with its output)
    geos = []
    for it in range(120):
        make, ref_ind, flat = geo2_tables(rng, multi=bool(it % 2))
        ro, rn = compare(f"geo2 valid #{it}", orig_gen.check_on_geo2, new_gen.check_on_geo2,
                         lambda: ((make(),), {"ref_ind": copy.deepcopy(ref_ind)}))
        seed = int(rng.integers(1 << 30))
        compare(f"geo2 corrupt #{it}", orig_gen.check_on_geo2, new_gen.check_on_geo2,
                lambda: ((corrupt_geo2(np.random.default_rng(seed), make(), flat),),
                         {"ref_ind": copy.deepcopy(ref_ind)}))
        n_geo2 += 2
        if ro[0] == "ok" and rn[0] == "ok":
            geos.append((ro[1], rn[1]))
            for _ in range(2):
                phi = rng.normal(size=len(flat))
                if rng.random() < 0.1:
                    phi[int(rng.integers(len(flat)))] = np.nan
                compare(
                    f"map #{it}",
                    lambda p, r=ro[1]: orig_gen.dfphi_map_func(p, r[0], r[2], cstrn=r[3]),
                    lambda p, r=rn[1]: new_gen.dfphi_map_func(p, r[0], r[2], cstrn=r[3]),
                    lambda: ((phi.copy(),), {}),
                )
                n_map += 1

    # ---- dfphi_map_func on its own: raw tables, odd cells, wrong lengths
    for it in range(80):
        n = int(rng.integers(1, 13))
        names = rand_names(rng, n)
        if rng.random() < 0.15 and n > 1:
            names[-1] = names[0]  # repeated name
        ncon = int(rng.integers(0, 4))
        cn = [f"K{i}" for i in range(ncon)]
        if ncon and rng.random() < 0.15:
            cn[0] = names[0]  # constraint called like a sensor
        npts = int(rng.integers(1, 9))
        pool = names + cn + [0, 0, 0.0, 0, 0]
        if rng.random() < 0.2:
            pool += [1.5, 2]
        if rng.random() < 0.15:
            pool += ["interp"]
        if rng.random() < 0.1:
            pool += [np.nan]
        cells = np.empty((npts, 3), dtype=object)
        for q in range(npts):
            for c in range(3):
                cells[q, c] = pool[int(rng.integers(len(pool)))]
        smap = pd.DataFrame(cells, columns=["x", "y", "z"])
        if rng.random() < 0.3:
            smap = smap.infer_objects()
        cst = None
        if ncon:
            cst = pd.DataFrame(rng.normal(size=(ncon, n)).round(2), index=cn, columns=names)
            if rng.random() < 0.3:
                cst = cst.mask(rng.random(cst.shape) < 0.3)
        m = n if rng.random() < 0.85 else n + int(rng.choice([-1, 1]))
        phi = rng.normal(size=max(m, 0))
        if rng.random() < 0.1:
            phi = phi.tolist()
        compare(
            f"map raw #{it}",
            lambda p: orig_gen.dfphi_map_func(p, list(names), smap.copy(), cstrn=None if cst is None else cst.copy()),
            lambda p: new_gen.dfphi_map_func(p, list(names), smap.copy(), cstrn=None if cst is None else cst.copy()),
            lambda: ((copy.deepcopy(phi),), {}),
        )
        n_map += 1

    # ---- Geo2MplPlotter.plot_mode: artists of both versions
    for it, (ro, rn) in enumerate(geos[:: max(1, len(geos) // 24)][:24]):
        go, gn = (
            Geometry2(
                sens_names=r[0], pts_coord=r[1].astype(float), sens_map=r[2], cstrn=r[3],
                sens_sign=r[4], sens_lines=r[5], sens_surf=r[6], bg_nodes=r[7],
                bg_lines=r[8], bg_surf=r[9],
            )
            for r in (ro, rn)
        )
        nm = 3
        Phi = rng.normal(size=(len(ro[0]), nm)) + 1j * rng.normal(size=(len(ro[0]), nm))
        res = BaseResult(Fn=np.arange(1.0, nm + 1), Phi=Phi)
        mode_nr = int(rng.integers(1, nm + 1))
        scaleF = [1, 2, 0.5][it % 3]
        color = "cmap" if it % 2 == 0 else "blue"
        before = gn.pts_coord.copy()
        for rep in range(2):  # second call on the same objects
            compare(
                f"plot #{it}.{rep}",
                lambda: plot_with(orig_mpl, go, res, mode_nr, scaleF, color),
                lambda: plot_with(new_mpl, gn, res, mode_nr, scaleF, color),
                lambda: ((), {}),
            )
            n_plot += 1
        if not same(before, gn.pts_coord):
            FAILS.append(f"plot #{it}: the geometry's points were modified")

    print(f"comparisons: check_on_geo1 {n_geo1}, check_on_geo2 {n_geo2}, "
          f"dfphi_map_func {n_map}, Geo2MplPlotter.plot_mode {n_plot}  (total {NCMP})")
    print("outcomes of the original implementation:")
    for tag in sorted(OUTCOMES):
        print(f"   {tag}: {OUTCOMES[tag]}")
    if FAILS:
        print("FAIL")
        for f in FAILS[:25]:
            print("  ", f)
        print(f"  ... {len(FAILS)} differences")
        return 1
    print("PASS")
    return 0


if __name__ == "__main__":
    sys.exit(main())
